(* C17, raw cells transplanted: the records of one structure (BGNSTR ... ENDSTR) decode to the same cell whatever follows
   them - the strict grammar never looks past the end of an element, and a structure ends at its ENDSTR.  Hence the byte
   ranges recorded by read_rawcells (GdsRawProofs.rawcells_agree_lemma), copied in ANY selection and order between a library
   header and ENDLIB, decode to exactly the selected cells. *)
Require Import Base GdsFrame GdsFrameProofs GdsModel GdsWrite GdsRoundtrip GdsSpec GdsSpecProofs.
From Coq Require Import ZArith Lia ZifyBool ZifyN ZifyNat.
Local Open Scope N_scope.

(* same next record (or both exhausted) *)
Definition sh (a b : recs) : Prop := hd_error a = hd_error b.
Lemma sh_refl a : sh a a. Proof. reflexivity. Qed.
Lemma sh_app p a b : sh a b -> sh (p ++ a) (p ++ b).
Proof. unfold sh. destruct p; [auto|reflexivity]. Qed.
Lemma sh_cons x a b : sh (x :: a) (x :: b). Proof. reflexivity. Qed.

(* a combinator that returns a value and the unread records depends only on what it consumed and on the next record *)
Definition locT {A} (c : recs -> A * recs) (l : recs) (a : A) (l1 : recs) : Prop :=
  exists pre, l = pre ++ l1 /\ forall b, sh b l1 -> c (pre ++ b) = (a, b).
Definition locP {A} (c : recs -> option (A * recs)) (l : recs) (a : A) (l1 : recs) : Prop :=
  exists pre, l = pre ++ l1 /\ forall b, sh b l1 -> c (pre ++ b) = Some (a, b).

Lemma skip_flags_loc : forall l, exists pre, l = pre ++ skip_flags l /\ forall b, sh b (skip_flags l) -> skip_flags (pre ++ b) = b.
Proof.
  induction l as [|r l IH]; cbn [skip_flags].
  - exists []. split; [reflexivity|]. intros b Hb. destruct b; [reflexivity|discriminate].
  - destruct ((rtype r =? 38) || (rtype r =? 47)) eqn:E.
    + destruct IH as (pre & Hl & Hb). exists (r :: pre). split; [cbn [app]; rewrite <- Hl; reflexivity|].
      intros b H. cbn [app skip_flags]. rewrite E. apply Hb. exact H.
    + exists []. split; [reflexivity|]. intros b H. cbn [app]. destruct b as [|x b]; [discriminate|].
      injection H as ->. cbn [skip_flags]. rewrite E. reflexivity.
Qed.

Lemma skip_strclass_loc : forall l, exists pre, l = pre ++ skip_strclass l /\ forall b, sh b (skip_strclass l) -> skip_strclass (pre ++ b) = b.
Proof.
  induction l as [|r l IH]; cbn [skip_strclass].
  - exists []. split; [reflexivity|]. intros b Hb. destruct b; [reflexivity|discriminate].
  - destruct (rtype r =? 52) eqn:E.
    + destruct IH as (pre & Hl & Hb). exists (r :: pre). split; [cbn [app]; rewrite <- Hl; reflexivity|].
      intros b H. cbn [app skip_strclass]. rewrite E. apply Hb. exact H.
    + exists []. split; [reflexivity|]. intros b H. cbn [app]. destruct b as [|x b]; [discriminate|].
      injection H as ->. cbn [skip_strclass]. rewrite E. reflexivity.
Qed.

Lemma take1_loc t d n l r l1 : take1 t d n l = Some (r, l1) -> l = r :: l1 /\ forall b, take1 t d n (r :: b) = Some (r, b).
Proof.
  unfold take1. destruct l as [|r0 l0]; [discriminate|].
  destruct (is_rec t d r0 && (plen r0 =? n)) eqn:E; [|discriminate].
  intros [= <- <-]. split; [reflexivity|]. intros b. rewrite E. reflexivity.
Qed.

Lemma opt1_loc t d n l o l1 : opt1 t d n l = (o, l1) -> locT (opt1 t d n) l o l1.
Proof.
  unfold opt1. destruct (take1 t d n l) as [[r tl]|] eqn:H.
  - intros [= <- <-]. destruct (take1_loc _ _ _ _ _ _ H) as [-> Hb]. exists [r]. split; [reflexivity|].
    intros b _. cbn [app]. rewrite Hb. reflexivity.
  - intros [= <- <-]. exists []. split; [reflexivity|]. intros b Hs. cbn [app].
    unfold take1 in *. destruct l as [|x l]; destruct b as [|y b]; try discriminate; [reflexivity|].
    injection Hs as ->. destruct (is_rec t d x && (plen x =? n)); [discriminate|reflexivity].
Qed.

Lemma take_xy_more_loc : forall l pts l1, take_xy_more l = (pts, l1) -> locT take_xy_more l pts l1.
Proof.
  induction l as [|r l IH]; intros pts l1; cbn [take_xy_more].
  - intros [= <- <-]. exists []. split; [reflexivity|]. intros b Hs. destruct b; [reflexivity|discriminate].
  - destruct (is_rec 16 3 r && (plen r mod 8 =? 0)) eqn:E.
    + destruct (take_xy_more l) as [pts' rest'] eqn:El. intros [= <- <-].
      destruct (IH _ _ eq_refl) as (pre & Hl & Hb). exists (r :: pre). split; [cbn [app]; rewrite <- Hl; reflexivity|].
      intros b Hs. cbn [app take_xy_more]. rewrite E, (Hb b Hs). reflexivity.
    + intros [= <- <-]. exists []. split; [reflexivity|]. intros b Hs. cbn [app].
      destruct b as [|y b]; [discriminate|]. injection Hs as ->. cbn [take_xy_more]. rewrite E. reflexivity.
Qed.

Lemma take_xy_loc l pts l1 : take_xy l = Some (pts, l1) -> locP take_xy l pts l1.
Proof.
  unfold take_xy. destruct l as [|r l]; [discriminate|].
  destruct (is_rec 16 3 r && (plen r mod 8 =? 0)) eqn:E; [|discriminate].
  destruct (take_xy_more l) as [pts' rest'] eqn:El. intros [= <- <-].
  destruct (take_xy_more_loc _ _ _ El) as (pre & Hl & Hb). exists (r :: pre). split; [cbn [app]; rewrite <- Hl; reflexivity|].
  intros b Hs. cbn [app]. rewrite E, (Hb b Hs). reflexivity.
Qed.

Lemma take_xy1_loc l pts l1 : take_xy1 l = Some (pts, l1) -> locP take_xy1 l pts l1.
Proof.
  unfold take_xy1. destruct l as [|r l]; [discriminate|]. destruct (8 <=? plen r) eqn:E8; [|discriminate].
  unfold take_xy. destruct (is_rec 16 3 r && (plen r mod 8 =? 0)) eqn:E; [|discriminate].
  destruct (take_xy_more l) as [pts' rest'] eqn:El. intros [= <- <-].
  destruct (take_xy_more_loc _ _ _ El) as (pre & Hl & Hb). exists (r :: pre). split; [cbn [app]; rewrite <- Hl; reflexivity|].
  intros b Hs. cbn [app]. rewrite E8, E, (Hb b Hs). reflexivity.
Qed.

(* properties: the stop is decided by the next record alone when that record is not a PROPATTR *)
Lemma take_props_loc : forall l acc ps l1, take_props acc l = (ps, l1) ->
  (forall x tl, l1 = x :: tl -> rtype x <> 43) -> locT (take_props acc) l ps l1.
Proof.
  fix IH 1. intros l acc ps l1. destruct l as [|ra [|rv l]]; cbn [take_props].
  - intros [= <- <-] _. exists []. split; [reflexivity|]. intros b Hs. destruct b; [reflexivity|discriminate].
  - intros [= <- <-] Hx. exists []. split; [reflexivity|]. intros b Hs. destruct b as [|y b]; [discriminate|].
    injection Hs as ->. cbn [app]. destruct b as [|z b]; [reflexivity|]. cbn [take_props].
    replace (is_rec 43 2 ra) with false; [reflexivity|]. symmetry. unfold is_rec.
    destruct (rtype ra =? 43) eqn:E; [|reflexivity]. apply N.eqb_eq in E. exfalso. exact (Hx ra [] eq_refl E).
  - destruct (is_rec 43 2 ra && (plen ra =? 2) && is_rec 44 6 rv) eqn:E.
    + intros H Hx. destruct (IH _ _ _ _ H Hx) as (pre & Hl & Hb). exists (ra :: rv :: pre).
      split; [cbn [app]; rewrite <- Hl; reflexivity|]. intros b Hs. cbn [app take_props]. rewrite E. apply Hb. exact Hs.
    + intros [= <- <-] Hx. exists []. split; [reflexivity|]. intros b Hs. cbn [app].
      destruct b as [|y b]; [discriminate|]. injection Hs as ->.
      destruct b as [|z b]; [reflexivity|]. cbn [take_props].
      replace (is_rec 43 2 ra) with false; [reflexivity|]. symmetry. unfold is_rec.
      destruct (rtype ra =? 43) eqn:E2; [|reflexivity]. apply N.eqb_eq in E2. exfalso. exact (Hx ra (rv :: l) eq_refl E2).
Qed.

Lemma take_endel_loc l tl : take_endel l = Some tl -> exists r, l = r :: tl /\ rtype r = 17 /\ forall b, take_endel (r :: b) = Some b.
Proof.
  unfold take_endel. destruct l as [|r l0]; [discriminate|]. destruct (rtype r =? 17) eqn:E; [|discriminate].
  intros [= <-]. exists r. split; [reflexivity|]. split; [apply N.eqb_eq; exact E|]. intros b. rewrite E. reflexivity.
Qed.

Lemma take_str_loc t l s tl : take_str t l = Some (s, tl) -> exists r, l = r :: tl /\ forall b, take_str t (r :: b) = Some (s, b).
Proof.
  unfold take_str. destruct l as [|r l0]; [discriminate|]. destruct (is_rec t 6 r && no_nulb (strip_nul (payload r))) eqn:E; [|discriminate].
  intros [= <- <-]. exists r. split; [reflexivity|]. intros b. rewrite E. reflexivity.
Qed.

Lemma take_strans_loc l v l1 : take_strans l = (v, l1) -> locT take_strans l v l1.
Proof.
  unfold take_strans. destruct (take1 26 1 2 l) as [[rs la]|] eqn:H1.
  - destruct (opt1 27 5 8 la) as [om lb] eqn:H2. destruct (opt1 28 5 8 lb) as [oa lc] eqn:H3.
    intros [= <- <-]. destruct (take1_loc _ _ _ _ _ _ H1) as [-> Hb1].
    destruct (opt1_loc _ _ _ _ _ _ H2) as (p2 & -> & Hb2). destruct (opt1_loc _ _ _ _ _ _ H3) as (p3 & -> & Hb3).
    exists (rs :: p2 ++ p3). split; [cbn [app]; rewrite <- app_assoc; reflexivity|].
    intros b Hs. cbn [app]. rewrite <- app_assoc. rewrite Hb1.
    rewrite (Hb2 (p3 ++ b) (sh_app _ _ _ Hs)). rewrite (Hb3 b Hs). reflexivity.
  - intros [= <- <-]. exists []. split; [reflexivity|]. intros b Hs. cbn [app].
    unfold take1 in *. destruct l as [|x l]; destruct b as [|y b]; try discriminate; [reflexivity|].
    injection Hs as ->. destruct (is_rec 26 1 x && (plen x =? 2)); [discriminate|reflexivity].
Qed.

(* ------------------------------------------------------------------ elements: nothing past ENDEL is looked at *)
Definition elocal (f : recs -> option (gelem * recs)) (l : recs) (e : gelem) (rest : recs) : Prop :=
  exists pre, l = pre ++ rest /\ pre <> [] /\ forall b, f (pre ++ b) = Some (e, b).

Ltac norm_app := repeat (first [rewrite <- app_assoc | progress (cbn [app])]).

Lemma endel_not_propattr r17 l5 : rtype r17 = 17 -> forall x tl, r17 :: l5 = x :: tl -> rtype x <> 43.
Proof. intros H x tl [= <- _]. rewrite H. discriminate. Qed.

Lemma spec_boundary_local box l e rest : spec_boundary box l = Some (e, rest) -> elocal (spec_boundary box) l e rest.
Proof.
  unfold spec_boundary. destruct (skip_flags_loc l) as (pf & Hl & Hbf). revert Hl Hbf. generalize (skip_flags l). intros l0 Hl Hbf.
  destruct (take1 13 2 2 l0) as [[rl l1]|] eqn:H1; [|discriminate].
  destruct (take1 (if box then 46 else 14) 2 2 l1) as [[rt l2]|] eqn:H2; [|discriminate].
  destruct (take_xy l2) as [[pts l3]|] eqn:H3; [|discriminate].
  destruct (take_props [] l3) as [prs l4] eqn:H4.
  destruct (take_endel l4) as [l5|] eqn:H5; [|discriminate].
  destruct (closed_poly pts) as [opn|] eqn:H6; [|discriminate].
  intros [= <- <-].
  destruct (take1_loc _ _ _ _ _ _ H1) as [-> Hb1]. destruct (take1_loc _ _ _ _ _ _ H2) as [-> Hb2].
  destruct (take_endel_loc _ _ H5) as (r17 & -> & Ht17 & Hb5).
  destruct (take_xy_loc _ _ _ H3) as (pxy & -> & Hb3).
  destruct (take_props_loc _ _ _ _ H4 (endel_not_propattr _ _ Ht17)) as (pp & -> & Hb4).
  exists (pf ++ rl :: rt :: pxy ++ pp ++ [r17]). split; [rewrite Hl; norm_app; reflexivity|].
  split; [destruct pf; discriminate|]. intros b. norm_app.
  rewrite (Hbf (rl :: rt :: pxy ++ pp ++ r17 :: b) (sh_cons _ _ _)).
  rewrite Hb1, Hb2. rewrite (Hb3 (pp ++ r17 :: b) (sh_app _ _ _ (sh_cons _ _ _))).
  rewrite (Hb4 (r17 :: b) (sh_cons _ _ _)). rewrite Hb5, H6. reflexivity.
Qed.

Lemma spec_path_local l e rest : spec_path l = Some (e, rest) -> elocal spec_path l e rest.
Proof.
  unfold spec_path. destruct (skip_flags_loc l) as (pf & Hl & Hbf). revert Hl Hbf. generalize (skip_flags l). intros l0 Hl Hbf.
  destruct (take1 13 2 2 l0) as [[rl l1]|] eqn:H1; [|discriminate].
  destruct (take1 14 2 2 l1) as [[rt l2]|] eqn:H2; [|discriminate].
  destruct (opt1 33 2 2 l2) as [opt_ l3] eqn:H3.
  destruct (opt1 15 3 4 l3) as [ow l4] eqn:H4.
  destruct (opt1 48 3 4 l4) as [ob l5] eqn:H5.
  destruct (opt1 49 3 4 l5) as [oe l6] eqn:H6.
  destruct (width_ok ow) eqn:Hwok; [|discriminate].
  destruct (take_xy1 l6) as [[pts l7]|] eqn:H7x; [|discriminate]. pose proof (take_xy1_some _ _ H7x) as H7.
  destruct (take_props [] l7) as [prs l8] eqn:H8.
  destruct (take_endel l8) as [l9|] eqn:H9; [|discriminate].
  intros [= <- <-].
  destruct (take1_loc _ _ _ _ _ _ H1) as [-> Hb1]. destruct (take1_loc _ _ _ _ _ _ H2) as [-> Hb2].
  destruct (take_endel_loc _ _ H9) as (r17 & -> & Ht17 & Hb9).
  destruct (opt1_loc _ _ _ _ _ _ H3) as (p3 & -> & Hb3). destruct (opt1_loc _ _ _ _ _ _ H4) as (p4 & -> & Hb4).
  destruct (opt1_loc _ _ _ _ _ _ H5) as (p5 & -> & Hb5). destruct (opt1_loc _ _ _ _ _ _ H6) as (p6 & -> & Hb6).
  destruct (take_xy1_loc _ _ _ H7x) as (pxy & -> & Hb7).
  destruct (take_props_loc _ _ _ _ H8 (endel_not_propattr _ _ Ht17)) as (pp & -> & Hb8).
  exists (pf ++ rl :: rt :: p3 ++ p4 ++ p5 ++ p6 ++ pxy ++ pp ++ [r17]). split; [rewrite Hl; norm_app; reflexivity|].
  split; [destruct pf; discriminate|]. intros b. norm_app.
  rewrite (Hbf (rl :: rt :: p3 ++ p4 ++ p5 ++ p6 ++ pxy ++ pp ++ r17 :: b) (sh_cons _ _ _)).
  rewrite Hb1, Hb2.
  assert (S8 : sh (r17 :: b) (r17 :: l9)) by apply sh_cons.
  assert (S7 : sh (pp ++ r17 :: b) (pp ++ r17 :: l9)) by (apply sh_app; exact S8).
  assert (S6 : sh (pxy ++ pp ++ r17 :: b) (pxy ++ pp ++ r17 :: l9)) by (apply sh_app; exact S7).
  assert (S5 : sh (p6 ++ pxy ++ pp ++ r17 :: b) (p6 ++ pxy ++ pp ++ r17 :: l9)) by (apply sh_app; exact S6).
  assert (S4 : sh (p5 ++ p6 ++ pxy ++ pp ++ r17 :: b) (p5 ++ p6 ++ pxy ++ pp ++ r17 :: l9)) by (apply sh_app; exact S5).
  assert (S3 : sh (p4 ++ p5 ++ p6 ++ pxy ++ pp ++ r17 :: b) (p4 ++ p5 ++ p6 ++ pxy ++ pp ++ r17 :: l9)) by (apply sh_app; exact S4).
  rewrite (Hb3 _ S3), (Hb4 _ S4), (Hb5 _ S5), (Hb6 _ S6), Hwok, (Hb7 _ S7), (Hb8 _ S8), Hb9. reflexivity.
Qed.

Lemma spec_ref_local array l e rest : spec_ref array l = Some (e, rest) -> elocal (spec_ref array) l e rest.
Proof.
  unfold spec_ref. destruct (skip_flags_loc l) as (pf & Hl & Hbf). revert Hl Hbf. generalize (skip_flags l). intros l0 Hl Hbf.
  destruct (take_str 18 l0) as [[rn l1]|] eqn:H1; [|discriminate].
  destruct (take_strans l1) as [[[refl mag] rot] l2] eqn:H2.
  destruct (take_str_loc _ _ _ _ H1) as (r18 & -> & Hb1).
  destruct array.
  - destruct (take1 19 2 4 l2) as [[rc l3]|] eqn:H3; [|discriminate].
    destruct (colrow_ok rc) eqn:Hcr; [|discriminate].
    destruct (take1 16 3 24 l3) as [[rx l4]|] eqn:H4; [|discriminate].
    destruct (take_props [] l4) as [prs l5] eqn:H5.
    destruct (take_endel l5) as [l6|] eqn:H6; [|discriminate].
    intros [= <- <-].
    destruct (take1_loc _ _ _ _ _ _ H3) as [-> Hb3]. destruct (take1_loc _ _ _ _ _ _ H4) as [-> Hb4].
    destruct (take_endel_loc _ _ H6) as (r17 & -> & Ht17 & Hb6).
    destruct (take_strans_loc _ _ _ H2) as (ps & -> & Hb2).
    destruct (take_props_loc _ _ _ _ H5 (endel_not_propattr _ _ Ht17)) as (pp & -> & Hb5).
    exists (pf ++ r18 :: ps ++ rc :: rx :: pp ++ [r17]). split; [rewrite Hl; norm_app; reflexivity|].
    split; [destruct pf; discriminate|]. intros b. norm_app.
    rewrite (Hbf (r18 :: ps ++ rc :: rx :: pp ++ r17 :: b) (sh_cons _ _ _)). rewrite Hb1.
    rewrite (Hb2 (rc :: rx :: pp ++ r17 :: b) (sh_cons _ _ _)). rewrite Hb3, Hcr, Hb4.
    rewrite (Hb5 (r17 :: b) (sh_cons _ _ _)). rewrite Hb6. reflexivity.
  - destruct (take1 16 3 8 l2) as [[rx l4]|] eqn:H4; [|discriminate].
    destruct (take_props [] l4) as [prs l5] eqn:H5.
    destruct (take_endel l5) as [l6|] eqn:H6; [|discriminate].
    intros [= <- <-].
    destruct (take1_loc _ _ _ _ _ _ H4) as [-> Hb4].
    destruct (take_endel_loc _ _ H6) as (r17 & -> & Ht17 & Hb6).
    destruct (take_strans_loc _ _ _ H2) as (ps & -> & Hb2).
    destruct (take_props_loc _ _ _ _ H5 (endel_not_propattr _ _ Ht17)) as (pp & -> & Hb5).
    exists (pf ++ r18 :: ps ++ rx :: pp ++ [r17]). split; [rewrite Hl; norm_app; reflexivity|].
    split; [destruct pf; discriminate|]. intros b. norm_app.
    rewrite (Hbf (r18 :: ps ++ rx :: pp ++ r17 :: b) (sh_cons _ _ _)). rewrite Hb1.
    rewrite (Hb2 (rx :: pp ++ r17 :: b) (sh_cons _ _ _)). rewrite Hb4.
    rewrite (Hb5 (r17 :: b) (sh_cons _ _ _)). rewrite Hb6. reflexivity.
Qed.

Lemma spec_text_local l e rest : spec_text l = Some (e, rest) -> elocal spec_text l e rest.
Proof.
  unfold spec_text. destruct (skip_flags_loc l) as (pf & Hl & Hbf). revert Hl Hbf. generalize (skip_flags l). intros l0 Hl Hbf.
  destruct (take1 13 2 2 l0) as [[rl l1]|] eqn:H1; [|discriminate].
  destruct (take1 22 2 2 l1) as [[rt l2]|] eqn:H2; [|discriminate].
  destruct (opt1 23 1 2 l2) as [opr l3] eqn:H3.
  destruct (opt1 33 2 2 l3) as [o33 l4] eqn:H4.
  destruct (opt1 15 3 4 l4) as [o15 l5] eqn:H5.
  destruct (width_ok o15) eqn:Hwok; [|discriminate].
  destruct (take_strans l5) as [[[refl mag] rot] l6] eqn:H6.
  destruct (take1 16 3 8 l6) as [[rx l7]|] eqn:H7; [|discriminate].
  destruct (take_str 25 l7) as [[tx l8]|] eqn:H8; [|discriminate].
  destruct (take_props [] l8) as [prs l9] eqn:H9.
  destruct (take_endel l9) as [l10|] eqn:H10; [|discriminate].
  intros [= <- <-].
  destruct (take1_loc _ _ _ _ _ _ H1) as [-> Hb1]. destruct (take1_loc _ _ _ _ _ _ H2) as [-> Hb2].
  destruct (take1_loc _ _ _ _ _ _ H7) as [-> Hb7]. destruct (take_str_loc _ _ _ _ H8) as (r25 & -> & Hb8).
  destruct (take_endel_loc _ _ H10) as (r17 & -> & Ht17 & Hb10).
  destruct (opt1_loc _ _ _ _ _ _ H3) as (p3 & -> & Hb3). destruct (opt1_loc _ _ _ _ _ _ H4) as (p4 & -> & Hb4).
  destruct (opt1_loc _ _ _ _ _ _ H5) as (p5 & -> & Hb5). destruct (take_strans_loc _ _ _ H6) as (ps & -> & Hb6).
  destruct (take_props_loc _ _ _ _ H9 (endel_not_propattr _ _ Ht17)) as (pp & -> & Hb9).
  exists (pf ++ rl :: rt :: p3 ++ p4 ++ p5 ++ ps ++ rx :: r25 :: pp ++ [r17]). split; [rewrite Hl; norm_app; reflexivity|].
  split; [destruct pf; discriminate|]. intros b. norm_app.
  rewrite (Hbf (rl :: rt :: p3 ++ p4 ++ p5 ++ ps ++ rx :: r25 :: pp ++ r17 :: b) (sh_cons _ _ _)).
  rewrite Hb1, Hb2.
  assert (S6 : sh (rx :: r25 :: pp ++ r17 :: b) (rx :: r25 :: pp ++ r17 :: l10)) by apply sh_cons.
  assert (S5 : sh (ps ++ rx :: r25 :: pp ++ r17 :: b) (ps ++ rx :: r25 :: pp ++ r17 :: l10)) by (apply sh_app; exact S6).
  assert (S4 : sh (p5 ++ ps ++ rx :: r25 :: pp ++ r17 :: b) (p5 ++ ps ++ rx :: r25 :: pp ++ r17 :: l10)) by (apply sh_app; exact S5).
  assert (S3 : sh (p4 ++ p5 ++ ps ++ rx :: r25 :: pp ++ r17 :: b) (p4 ++ p5 ++ ps ++ rx :: r25 :: pp ++ r17 :: l10)) by (apply sh_app; exact S4).
  rewrite (Hb3 _ S3), (Hb4 _ S4), (Hb5 _ S5), Hwok, (Hb6 _ S6), Hb7, Hb8.
  rewrite (Hb9 (r17 :: b) (sh_cons _ _ _)). rewrite Hb10. reflexivity.
Qed.

Lemma spec_element_local l e rest : spec_element l = Some (e, rest) -> elocal spec_element l e rest.
Proof.
  unfold spec_element at 1. destruct l as [|r tl]; [discriminate|].
  destruct (plen r =? 0) eqn:Ep; [|discriminate].
  assert (lift : forall f, (forall b, spec_element (r :: b) = f b) -> elocal f tl e rest -> elocal spec_element (r :: tl) e rest).
  { intros f Hf (pre & -> & _ & Hb). exists (r :: pre). split; [reflexivity|]. split; [discriminate|].
    intros b. cbn [app]. rewrite Hf. apply Hb. }
  destruct (rtype r) as [|q] eqn:Ht; [discriminate|].
  do 6 (try (destruct q as [q|q|])); try discriminate; intros H.
  all: first
    [ apply (lift (spec_boundary false)); [intros b; unfold spec_element; rewrite Ep, Ht; reflexivity|exact (spec_boundary_local _ _ _ _ H)]
    | apply (lift (spec_boundary true)); [intros b; unfold spec_element; rewrite Ep, Ht; reflexivity|exact (spec_boundary_local _ _ _ _ H)]
    | apply (lift spec_path); [intros b; unfold spec_element; rewrite Ep, Ht; reflexivity|exact (spec_path_local _ _ _ H)]
    | apply (lift (spec_ref false)); [intros b; unfold spec_element; rewrite Ep, Ht; reflexivity|exact (spec_ref_local _ _ _ _ H)]
    | apply (lift (spec_ref true)); [intros b; unfold spec_element; rewrite Ep, Ht; reflexivity|exact (spec_ref_local _ _ _ _ H)]
    | apply (lift spec_text); [intros b; unfold spec_element; rewrite Ep, Ht; reflexivity|exact (spec_text_local _ _ _ H)] ].
Qed.

(* ------------------------------------------------------------------ element lists and structures *)
Lemma spec_elements_local : forall fuel l es rest, spec_elements fuel l = Some (es, rest) ->
  exists pre, l = pre ++ rest /\ (length es < length pre)%nat /\
    forall fuel' b, (length es < fuel')%nat -> spec_elements fuel' (pre ++ b) = Some (es, b).
Proof.
  induction fuel as [|f IH]; intros l es rest; cbn [spec_elements]; [discriminate|].
  destruct l as [|r tl]; [discriminate|].
  destruct (rtype r =? 7) eqn:E7.
  - intros [= <- <-]. exists [r]. split; [reflexivity|]. split; [cbn; lia|].
    intros fuel' b Hf. destruct fuel' as [|f']; [cbn in Hf; lia|]. cbn [app spec_elements]. rewrite E7. reflexivity.
  - destruct (spec_element (r :: tl)) as [[e l1]|] eqn:He; [|discriminate].
    destruct (spec_elements f l1) as [[es' rest']|] eqn:Hes; [|discriminate].
    intros [= <- <-].
    destruct (spec_element_local _ _ _ He) as (p1 & Hl & Hne & Hb1).
    destruct (IH _ _ _ Hes) as (p2 & -> & Hlen & Hb2).
    destruct p1 as [|r1 p1]; [contradiction|]. cbn [app] in Hl. injection Hl as <- ->.
    exists (r :: p1 ++ p2). split; [cbn [app]; rewrite <- app_assoc; reflexivity|].
    split; [cbn [length]; rewrite app_length; lia|].
    intros fuel' b Hf. destruct fuel' as [|f']; [lia|]. cbn [app spec_elements]. rewrite E7.
    rewrite <- app_assoc. change (r :: p1 ++ p2 ++ b) with ((r :: p1) ++ p2 ++ b). rewrite Hb1.
    rewrite (Hb2 f' b ltac:(cbn [length] in Hf; lia)). reflexivity.
Qed.

(* the records of one structure: they decode to the cell c whatever follows *)
Definition block_of (blk : recs) (c : gcell) : Prop :=
  blk <> [] /\
  forall f b, spec_structures (S f) (blk ++ b) =
              match spec_structures f b with Some (cs, r) => Some (c :: cs, r) | None => None end.

Lemma structure_local r r6 l1 nm es l2 :
  (rtype r =? 4) = false -> is_rec 5 2 r && (plen r =? 24) = true -> take_str 6 (r6 :: l1) = Some (nm, l1) ->
  spec_elements (length l1) (skip_strclass l1) = Some (es, l2) ->
  exists pre, l1 = pre ++ l2 /\ block_of (r :: r6 :: pre) (cell_of nm es).
Proof.
  intros E4 E5 Hn He.
  destruct (skip_strclass_loc l1) as (ps & Hl1 & Hbs).
  destruct (spec_elements_local _ _ _ _ He) as (pe & Hle & Hlen & Hbe).
  exists (ps ++ pe). split; [rewrite Hl1 at 1; rewrite Hle, app_assoc; reflexivity|].
  split; [discriminate|]. intros f b. cbn [app spec_structures]. rewrite E4, E5.
  unfold take_str in Hn |- *. destruct (is_rec 6 6 r6 && no_nulb (strip_nul (payload r6))) eqn:E6; [|discriminate]. injection Hn as <-.
  rewrite <- app_assoc.
  assert (Hs : sh (pe ++ b) (skip_strclass l1)).
  { rewrite Hle. unfold sh. destruct pe as [|x pe]; [cbn in Hlen; lia|reflexivity]. }
  rewrite (Hbs (pe ++ b) Hs).
  rewrite (Hbe (length (ps ++ pe ++ b)) b ltac:(rewrite !app_length; lia)). reflexivity.
Qed.

(* any sequence of such blocks followed by ENDLIB decodes to the sequence of their cells *)
Theorem transplant_structures_lemma : forall blks cs r4 tail, Forall2 block_of blks cs -> rtype r4 = 4 ->
  forall fuel, (length blks < fuel)%nat -> spec_structures fuel (concat blks ++ r4 :: tail) = Some (cs, tail).
Proof.
  induction blks as [|blk blks IH]; intros cs r4 tail HF Ht fuel Hf; inversion HF as [|? c ? cs' Hb HF']; subst.
  - destruct fuel as [|f]; [cbn in Hf; lia|]. cbn [concat app spec_structures]. rewrite Ht. reflexivity.
  - destruct fuel as [|f]; [cbn in Hf; lia|]. cbn [concat]. rewrite <- app_assoc.
    destruct Hb as [_ Hb]. rewrite Hb. rewrite (IH cs' r4 tail HF' Ht f ltac:(cbn [length] in Hf; lia)). reflexivity.
Qed.

Lemma skip_libopt_loc : forall l, exists pre, l = pre ++ skip_libopt l /\ forall b, sh b (skip_libopt l) -> skip_libopt (pre ++ b) = b.
Proof.
  induction l as [|r l IH]; cbn [skip_libopt].
  - exists []. split; [reflexivity|]. intros b Hb. destruct b; [reflexivity|discriminate].
  - destruct (libopt r) eqn:E.
    + destruct IH as (pre & Hl & Hb). exists (r :: pre). split; [cbn [app]; rewrite <- Hl; reflexivity|].
      intros b H. cbn [app skip_libopt]. rewrite E. apply Hb. exact H.
    + exists []. split; [reflexivity|]. intros b H. cbn [app]. destruct b as [|x b]; [discriminate|].
      injection H as ->. cbn [skip_libopt]. rewrite E. reflexivity.
Qed.

Lemma block_length_pos blks cs : Forall2 block_of blks cs -> (length blks <= length (concat blks))%nat.
Proof.
  induction 1 as [|blk c blks cs [Hne _] _ IH]; [reflexivity|]. cbn [concat length]. rewrite app_length.
  destruct blk; [contradiction|]. cbn [length]. lia.
Qed.
