(* C19, second part about OASIS reals: the decoder accepts every ALTERNATIVE spelling of a value.
   OasisRealProofs.v proves the round trips of the forms oasis_write_real chooses (types 0-3, 7).
   Here: what oasis_read_real_by_type (model: OasisReal.dec_real_by_type) returns for
     type 6  (IEEE single, converted to double: exact for every single, subnormals included),
     type 4/5 (ratio of two unsigned integers: ONE IEEE division of the two converted integers),
   for every legal (possibly non-minimal) integer encoding, and that all spellings of one value
   decode to one bit pattern (oas_real_all_spellings_agree_lemma). *)
Require Import Base OasisInt OasisIntProofs GdsReal GdsRealProofs OasisReal OasisRealProofs.
From Coq Require Import Reals Lia Lra.
From Flocq Require Import Core BinarySingleNaN Binary Bits.
Local Open Scope Z_scope.

Notation B2R64 := (B2R 53 1024).
Notation B2R32 := (B2R 24 128).
Notation fin64 := (is_finite 53 1024).
Notation fin32 := (is_finite 24 128).
Notation sign64 := (Bsign 53 1024).
Notation sign32 := (Bsign 24 128).
Notation fmt64 := (generic_format radix2 (FLT_exp (-1074) 53)).
Notation fmt32 := (generic_format radix2 (FLT_exp (-149) 24)).
(* round to nearest, ties to even, in the binary64 format (no overflow) *)
Notation rnd64 := (round radix2 (FLT_exp (-1074) 53) ZnearestE).

Local Instance prec53 : Prec_gt_0 53 := eq_refl.
Local Instance prec24 : Prec_gt_0 24 := eq_refl.
Local Instance valid64 : Valid_exp (FLT_exp (-1074) 53) := FLT_exp_valid (-1074) 53.

Lemma fexp64_eq : SpecFloat.fexp 53 1024 = FLT_exp (-1074) 53.
Proof. reflexivity. Qed.
Lemma fexp32_eq : SpecFloat.fexp 24 128 = FLT_exp (-149) 24.
Proof. reflexivity. Qed.

Lemma fmt64_B2R (x : binary64) : fmt64 (B2R64 x).
Proof. rewrite <- fexp64_eq. apply generic_format_B2R. Qed.

(* ================================================================== bytes and bit patterns *)
Lemma bits64_range (d : binary64) : (bits64 d < 2 ^ 64)%N.
Proof.
  unfold bits64, bits_of_b64.
  pose proof (bits_of_binary_float_range 52 11 eq_refl eq_refl d) as H.
  change (2 ^ (52 + 11 + 1)) with (Z.of_N (2 ^ 64)) in H. lia.
Qed.

Lemma b64_of_bits64 (d : binary64) : b64_of_bits (Z.of_N (bits64 d)) = d.
Proof.
  unfold bits64, bits_of_b64, b64_of_bits.
  pose proof (bits_of_binary_float_range 52 11 eq_refl eq_refl d) as H.
  rewrite Z2N.id by lia. exact (binary_float_of_bits_of_binary_float 52 11 eq_refl eq_refl eq_refl d).
Qed.

Lemma b32_of_bits32 (f : binary32) : b32_of_bits (Z.of_N (Z.to_N (bits_of_b32 f))) = f.
Proof.
  unfold bits_of_b32, b32_of_bits.
  pose proof (bits_of_binary_float_range 23 8 eq_refl eq_refl f) as H.
  rewrite Z2N.id by lia. exact (binary_float_of_bits_of_binary_float 23 8 eq_refl eq_refl eq_refl f).
Qed.

Lemma bits32_range (f : binary32) : (Z.to_N (bits_of_b32 f) < 256 ^ N.of_nat 4)%N.
Proof.
  unfold bits_of_b32.
  pose proof (bits_of_binary_float_range 23 8 eq_refl eq_refl f) as H.
  change (2 ^ (23 + 8 + 1)) with (Z.of_N (256 ^ N.of_nat 4)) in H. lia.
Qed.

Lemma take_bytes_short n : forall l, (length l < n)%nat -> take_bytes n l = None.
Proof.
  induction n as [|k IH]; intros l Hl; [inversion Hl|].
  destruct l as [|b t]; [reflexivity|]. cbn [take_bytes]. cbn [length] in Hl.
  rewrite IH by lia. reflexivity.
Qed.

(* the four little-endian bytes of a single, followed by anything *)
Definition f32_bytes (f : binary32) : list N := bytes_le 4 (Z.to_N (bits_of_b32 f)).

Lemma dec_float_bytes (f : binary32) rest :
  dec_real (6%N :: f32_bytes f ++ rest) =
  match b64_of_b32 f with Some d => Ok (bits64 d, rest) | None => Ok (b64_qnan_bits, rest) end.
Proof.
  unfold f32_bytes. cbn [dec_real dec_real_by_type].
  pose proof (take_bytes_app (bytes_le 4 (Z.to_N (bits_of_b32 f))) rest) as H.
  rewrite bytes_le_length in H. rewrite H.
  rewrite (of_bytes_le_bytes_le 4) by apply bits32_range.
  rewrite b32_of_bits32. reflexivity.
Qed.

(* ================================================================== type 6: single precision *)
(* every number of the single format is a number of the double format *)
Lemma fmt32_fmt64 x : fmt32 x -> fmt64 x.
Proof.
  intros H. apply (FLT_format_generic radix2 (-149) 24) in H.
  destruct H as [f Hx Hm He]. apply generic_format_FLT.
  apply (FLT_spec radix2 (-1074) 53 x f Hx); [|lia].
  change (radix2 ^ 24) with 16777216 in Hm. change (radix2 ^ 53) with 9007199254740992. lia.
Qed.

(* (double)float is exact: value and sign are kept, the result is finite *)
Lemma b64_of_b32_exact (f : binary32) :
  fin32 f = true ->
  exists d, b64_of_b32 f = Some d /\ fin64 d = true /\ B2R64 d = B2R32 f /\ sign64 d = sign32 f.
Proof.
  destruct f as [s|s|s pl H|s m e H]; cbn [is_finite]; try discriminate; intros _.
  - exists (B754_zero 53 1024 s). repeat split.
  - cbn [b64_of_b32]. eexists. split; [reflexivity|].
    set (f := B754_finite 24 128 s m e H).
    pose proof (binary_normalize_correct 53 1024 eq_refl eq_refl mode_NE (cond_Zopp s (Z.pos m)) e s) as Hn.
    assert (HF : @F2R radix2 {| Fnum := cond_Zopp s (Z.pos m); Fexp := e |} = B2R32 f) by reflexivity.
    rewrite HF in Hn.
    assert (Hg : fmt64 (B2R32 f)).
    { apply fmt32_fmt64. rewrite <- fexp32_eq. apply generic_format_B2R. }
    rewrite fexp64_eq in Hn. change (round_mode mode_NE) with ZnearestE in Hn.
    rewrite round_generic in Hn; [|apply valid_rnd_N|exact Hg].
    rewrite Rlt_bool_true in Hn.
    + destruct Hn as (H1 & H2 & H3). split; [exact H2|]. split; [exact H1|].
      rewrite H3. cbn [Bsign f]. destruct s.
      * rewrite Rcompare_Lt; [reflexivity|]. cbn [B2R f]. apply F2R_lt_0. reflexivity.
      * rewrite Rcompare_Gt; [reflexivity|]. cbn [B2R f]. apply F2R_gt_0. reflexivity.
    + apply Rlt_trans with (bpow radix2 128); [apply abs_B2R_lt_emax|apply bpow_lt; lia].
Qed.

(* TYPE 6, finite singles (normal, subnormal, both zeros): the decoder returns the double with the same
   real value and the same sign - in particular -0.0f gives -0.0 - whatever follows in the stream *)
Theorem oas_real_float_form_lemma (f : binary32) rest :
  fin32 f = true ->
  exists d : binary64,
    dec_real (6%N :: f32_bytes f ++ rest) = Ok (bits64 d, rest)
    /\ fin64 d = true /\ B2R64 d = B2R32 f /\ sign64 d = sign32 f
    /\ b64_of_bits (Z.of_N (bits64 d)) = d.
Proof.
  intros Hf. destruct (b64_of_b32_exact f Hf) as (d & Hd & F & R & S).
  exists d. rewrite dec_float_bytes, Hd. repeat split; try assumption. apply b64_of_bits64.
Qed.

(* infinities map to the infinities of the same sign, every NaN to a NaN *)
Theorem oas_real_float_form_special_lemma rest :
  (forall s, dec_real (6%N :: f32_bytes (B754_infinity 24 128 s) ++ rest)
             = Ok ((if s then 18442240474082181120 else 9218868437227405312)%N, rest))   (* FFF0.. / 7FF0.. *)
  /\ (forall s pl H, dec_real (6%N :: f32_bytes (B754_nan 24 128 s pl H) ++ rest) = Ok (b64_qnan_bits, rest))
  /\ is_nan 53 1024 (b64_of_bits (Z.of_N b64_qnan_bits)) = true.
Proof.
  split; [|split].
  - intros s. rewrite dec_float_bytes. destruct s; reflexivity.
  - intros s pl H. rewrite dec_float_bytes. reflexivity.
  - vm_compute. reflexivity.
Qed.

(* fewer than four bytes: short read *)
Theorem oas_real_float_form_truncated_lemma l :
  (length l < 4)%nat -> dec_real (6%N :: l) = ErrEof.
Proof. intros Hl. cbn [dec_real dec_real_by_type]. rewrite take_bytes_short by exact Hl. reflexivity. Qed.

(* ================================================================== types 4 / 5: ratios *)
Lemma fmt64_bpow64 : fmt64 (bpow radix2 64).
Proof. apply generic_format_bpow. unfold FLT_exp. lia. Qed.

Lemma fmt64_one : fmt64 1%R.
Proof. rewrite <- B2R_one. apply fmt64_B2R. Qed.

Lemma IZR_lt_bpow64 n : (n < two64)%N -> (0 <= IZR (Z.of_N n) <= bpow radix2 64)%R.
Proof.
  intros Hn. split; [apply IZR_le; lia|].
  change (bpow radix2 64) with (IZR (Zpower radix2 64)) || rewrite <- (IZR_Zpower radix2) by lia.
  apply IZR_le. unfold two64 in Hn. change (Zpower radix2 64) with 18446744073709551616. lia.
Qed.

(* (double)uint64: finite, non-negative, the correctly rounded integer *)
Lemma b64_of_uint_correct n :
  (n < two64)%N ->
  fin64 (b64_of_uint n) = true
  /\ B2R64 (b64_of_uint n) = rnd64 (IZR (Z.of_N n))
  /\ sign64 (b64_of_uint n) = false.
Proof.
  intros Hn. destruct (IZR_lt_bpow64 n Hn) as (H0 & H64).
  unfold b64_of_uint.
  pose proof (binary_normalize_correct 53 1024 eq_refl eq_refl mode_NE (Z.of_N n) 0 false) as H.
  assert (HF : @F2R radix2 {| Fnum := Z.of_N n; Fexp := 0 |} = IZR (Z.of_N n)).
  { unfold F2R. cbn [Fnum Fexp bpow]. ring. }
  rewrite HF in H. rewrite fexp64_eq in H. change (round_mode mode_NE) with ZnearestE in H.
  rewrite Rlt_bool_true in H.
  - destruct H as (H1 & H2 & H3). split; [exact H2|]. split; [exact H1|].
    rewrite H3. destruct (Rcompare_spec (IZR (Z.of_N n)) 0) as [Hlt| |]; try reflexivity. lra.
  - apply Rle_lt_trans with (bpow radix2 64); [|apply bpow_lt; lia].
    apply abs_round_le_generic; [exact valid64|apply valid_rnd_N|exact fmt64_bpow64|].
    rewrite Rabs_pos_eq; assumption.
Qed.

Lemma rnd64_uint_bounds n :
  (n < two64)%N -> (0 <= rnd64 (IZR (Z.of_N n)) <= bpow radix2 64)%R.
Proof.
  intros Hn. destruct (IZR_lt_bpow64 n Hn) as (H0 & H64). split.
  - apply round_ge_generic; [exact valid64|apply valid_rnd_N|apply generic_format_0|exact H0].
  - apply round_le_generic; [exact valid64|apply valid_rnd_N|exact fmt64_bpow64|exact H64].
Qed.

Lemma rnd64_uint_ge1 n : (0 < n)%N -> (1 <= rnd64 (IZR (Z.of_N n)))%R.
Proof.
  intros Hn. apply round_ge_generic; [exact valid64|apply valid_rnd_N|exact fmt64_one|].
  apply IZR_le. lia.
Qed.

(* integers below 2^53 are doubles *)
Lemma fmt64_small_int z : Z.abs z < 2 ^ 53 -> fmt64 (IZR z).
Proof.
  intros Hz. apply generic_format_FLT.
  apply (FLT_spec radix2 (-1074) 53 (IZR z) {| Fnum := z; Fexp := 0 |}); cbn [Fnum Fexp]; [|exact Hz|lia].
  unfold F2R. cbn [Fnum Fexp bpow]. ring.
Qed.

Lemma rnd64_small_int z : Z.abs z < 2 ^ 53 -> rnd64 (IZR z) = IZR z.
Proof. intros Hz. apply round_generic; [apply valid_rnd_N|apply fmt64_small_int; exact Hz]. Qed.

(* one IEEE division of two finite doubles, quotient at most 2^64 in magnitude: no overflow *)
Lemma b64_div_correct x y :
  fin64 x = true -> fin64 y = true -> B2R64 y <> 0%R ->
  (Rabs (B2R64 x / B2R64 y) <= bpow radix2 64)%R ->
  fin64 (b64_div mode_NE x y) = true
  /\ B2R64 (b64_div mode_NE x y) = rnd64 (B2R64 x / B2R64 y)
  /\ sign64 (b64_div mode_NE x y) = xorb (sign64 x) (sign64 y).
Proof.
  intros Fx Fy Hy Hq. unfold b64_div.
  pose proof (Bdiv_correct 53 1024 eq_refl eq_refl binop_nan_pl64 mode_NE x y Hy) as H.
  rewrite fexp64_eq in H. change (round_mode mode_NE) with ZnearestE in H.
  rewrite Rlt_bool_true in H.
  - destruct H as (H1 & H2 & H3). rewrite Fx in H2. split; [exact H2|]. split; [exact H1|].
    apply H3. apply fin_not_nan. exact H2.
  - apply Rle_lt_trans with (bpow radix2 64); [|apply bpow_lt; lia].
    apply abs_round_le_generic; [exact valid64|apply valid_rnd_N|exact fmt64_bpow64|exact Hq].
Qed.

Lemma ratio_abs_bound a b : (0 <= a <= bpow radix2 64)%R -> (1 <= b)%R -> (Rabs (a / b) <= bpow radix2 64)%R.
Proof.
  intros (Ha0 & Ha) Hb.
  assert (Hq : (0 <= a / b <= a)%R).
  { split.
    - apply Rmult_le_pos; [exact Ha0|]. apply Rlt_le, Rinv_0_lt_compat. lra.
    - unfold Rdiv. rewrite <- (Rmult_1_r a) at 2. apply Rmult_le_compat_l; [exact Ha0|].
      rewrite <- Rinv_1. apply Rinv_le_contravar; lra. }
  rewrite Rabs_pos_eq; lra.
Qed.

(* the bytes: two unsigned integers in any legal spelling of at most 10 bytes each *)
Lemma dec_ratio_bytes en ed num den rest :
  enc_ok_uint en num -> (length en <= 10)%nat -> (num < two64)%N ->
  enc_ok_uint ed den -> (length ed <= 10)%nat -> (den < two64)%N ->
  dec_real (4%N :: en ++ ed ++ rest)
    = Ok (bits64 (b64_div mode_NE (b64_of_uint num) (b64_of_uint den)), rest)
  /\ dec_real (5%N :: en ++ ed ++ rest)
    = Ok (bits64 (b64_div mode_NE (b64_opp (b64_of_uint num)) (b64_of_uint den)), rest).
Proof.
  intros En Ln Hn Ed Ld Hd. cbn [dec_real dec_real_by_type].
  rewrite (uint_accepts_nonminimal_lemma en num (ed ++ rest) En Ln Hn). cbn [obind].
  rewrite (uint_accepts_nonminimal_lemma ed den rest Ed Ld Hd). cbn [obind]. split; reflexivity.
Qed.

(* TYPES 4 / 5, non-zero denominator: the result is the finite double
      round_NE (round_NE num / round_NE den)
   (negated for type 5, where the sign bit is set even when the numerator is 0), for every pair of
   64-bit operands and every legal spelling of the two integers *)
Theorem oas_real_ratio_form_lemma en ed num den rest :
  enc_ok_uint en num -> (length en <= 10)%nat -> (num < two64)%N ->
  enc_ok_uint ed den -> (length ed <= 10)%nat -> (den < two64)%N -> (0 < den)%N ->
  let q := rnd64 (rnd64 (IZR (Z.of_N num)) / rnd64 (IZR (Z.of_N den))) in
  (exists d : binary64,
     dec_real (4%N :: en ++ ed ++ rest) = Ok (bits64 d, rest)
     /\ fin64 d = true /\ B2R64 d = q /\ sign64 d = false /\ b64_of_bits (Z.of_N (bits64 d)) = d)
  /\ (exists d : binary64,
     dec_real (5%N :: en ++ ed ++ rest) = Ok (bits64 d, rest)
     /\ fin64 d = true /\ B2R64 d = (- q)%R /\ sign64 d = true /\ b64_of_bits (Z.of_N (bits64 d)) = d).
Proof.
  intros En Ln Hn Ed Ld Hd Hd0 q.
  destruct (dec_ratio_bytes en ed num den rest En Ln Hn Ed Ld Hd) as (D4 & D5).
  destruct (b64_of_uint_correct num Hn) as (Fx & Rx & Sx).
  destruct (b64_of_uint_correct den Hd) as (Fy & Ry & Sy).
  pose proof (rnd64_uint_bounds num Hn) as Bx. pose proof (rnd64_uint_ge1 den Hd0) as By.
  assert (Hy : B2R64 (b64_of_uint den) <> 0%R) by (rewrite Ry; lra).
  split.
  - destruct (b64_div_correct (b64_of_uint num) (b64_of_uint den) Fx Fy Hy) as (F & R & S).
    { rewrite Rx, Ry. apply ratio_abs_bound; assumption. }
    eexists. split; [exact D4|]. split; [exact F|]. split; [rewrite R, Rx, Ry; reflexivity|].
    split; [rewrite S, Sx, Sy; reflexivity|apply b64_of_bits64].
  - assert (Fo : fin64 (b64_opp (b64_of_uint num)) = true) by (unfold b64_opp; rewrite is_finite_Bopp; exact Fx).
    destruct (b64_div_correct (b64_opp (b64_of_uint num)) (b64_of_uint den) Fo Fy Hy) as (F & R & S).
    { unfold b64_opp. rewrite B2R_Bopp, Rx, Ry. unfold Rdiv. rewrite Ropp_mult_distr_l_reverse, Rabs_Ropp.
      apply ratio_abs_bound; assumption. }
    eexists. split; [exact D5|]. split; [exact F|].
    split; [|split; [|apply b64_of_bits64]].
    + rewrite R. unfold b64_opp. rewrite B2R_Bopp, Rx, Ry. unfold q, Rdiv.
      rewrite Ropp_mult_distr_l_reverse. apply round_NE_opp.
    + rewrite S. unfold b64_opp. rewrite Bsign_Bopp by (apply fin_not_nan; exact Fx). rewrite Sx, Sy. reflexivity.
Qed.

(* operands below 2^53 are converted exactly: the result is the correctly rounded quotient itself *)
Corollary oas_real_ratio_form_small_lemma en ed num den rest :
  enc_ok_uint en num -> (length en <= 10)%nat -> (num < 2 ^ 53)%N ->
  enc_ok_uint ed den -> (length ed <= 10)%nat -> (den < 2 ^ 53)%N -> (0 < den)%N ->
  let q := rnd64 (IZR (Z.of_N num) / IZR (Z.of_N den)) in
  (exists d : binary64,
     dec_real (4%N :: en ++ ed ++ rest) = Ok (bits64 d, rest)
     /\ fin64 d = true /\ B2R64 d = q /\ sign64 d = false)
  /\ (exists d : binary64,
     dec_real (5%N :: en ++ ed ++ rest) = Ok (bits64 d, rest)
     /\ fin64 d = true /\ B2R64 d = (- q)%R /\ sign64 d = true).
Proof.
  intros En Ln Hn Ed Ld Hd Hd0 q.
  assert (Hn' : (num < two64)%N) by (unfold two64; change (2 ^ 53)%N with 9007199254740992%N in Hn; lia).
  assert (Hd' : (den < two64)%N) by (unfold two64; change (2 ^ 53)%N with 9007199254740992%N in Hd; lia).
  destruct (oas_real_ratio_form_lemma en ed num den rest En Ln Hn' Ed Ld Hd' Hd0) as (P4 & P5).
  assert (Hq : rnd64 (rnd64 (IZR (Z.of_N num)) / rnd64 (IZR (Z.of_N den))) = q).
  { unfold q. rewrite !rnd64_small_int; [reflexivity| |].
    - change (2 ^ 53)%N with 9007199254740992%N in Hd. change (2 ^ 53) with 9007199254740992. lia.
    - change (2 ^ 53)%N with 9007199254740992%N in Hn. change (2 ^ 53) with 9007199254740992. lia. }
  rewrite Hq in P4, P5.
  destruct P4 as (d4 & A & B & C & D & _). destruct P5 as (d5 & A' & B' & C' & D' & _).
  split; [exists d4|exists d5]; repeat split; assumption.
Qed.

(* ZERO DENOMINATOR: (double)0 = +0.0; x / +0.0 is an infinity with the sign of x, and 0.0 / 0.0 a NaN.
   The model's NaN is the positive quiet NaN 7FF8000000000000 (Flocq's default payload); the sign and
   payload of a NaN are not part of the comparison with the C++ (x86-64 SSE2 produces FFF8000000000000). *)
Theorem oas_real_ratio_zero_den_lemma en ez num rest :
  enc_ok_uint en num -> (length en <= 10)%nat -> (num < two64)%N ->
  enc_ok_uint ez 0%N -> (length ez <= 10)%nat ->
  dec_real (4%N :: en ++ ez ++ rest)
    = Ok ((if (num =? 0)%N then 9221120237041090560 else 9218868437227405312)%N, rest)   (* 7FF8.. / 7FF0.. = +inf *)
  /\ dec_real (5%N :: en ++ ez ++ rest)
    = Ok ((if (num =? 0)%N then 9221120237041090560 else 18442240474082181120)%N, rest).  (* 7FF8.. / FFF0.. = -inf *)
Proof.
  intros En Ln Hn Ez Lz.
  assert (Hz : (0 < two64)%N) by reflexivity.
  destruct (dec_ratio_bytes en ez num 0%N rest En Ln Hn Ez Lz Hz) as (D4 & D5).
  rewrite D4, D5. clear D4 D5.
  change (b64_of_uint 0) with (B754_zero 53 1024 false).
  destruct (b64_of_uint_correct num Hn) as (Fx & Rx & Sx).
  destruct (N.eqb_spec num 0) as [->|Hnz].
  - change (b64_of_uint 0) with (B754_zero 53 1024 false). split; vm_compute; reflexivity.
  - assert (Hx : B2R64 (b64_of_uint num) <> 0%R).
    { rewrite Rx. pose proof (rnd64_uint_ge1 num). assert (0 < num)%N by lia. specialize (H H0). lra. }
    destruct (b64_of_uint num) as [s|s|s pl H|s m e H]; try discriminate Fx.
    + exfalso. apply Hx. reflexivity.
    + cbn [Bsign] in Sx. subst s. split; reflexivity.
Qed.

(* ================================================================== one value, many spellings *)
Definition neg_zero_bits : N := 9223372036854775808%N.      (* 8000000000000000 *)

(* an exact quotient num / den of two integers that are doubles themselves (all integers below 2^53 are)
   decodes to the double that IS that quotient, sign included (type 5 of 0 / den is -0.0) *)
Lemma ratio_exact_value (v : binary64) en ed num den rest :
  fin64 v = true ->
  enc_ok_uint en num -> (length en <= 10)%nat -> (num < two64)%N ->
  enc_ok_uint ed den -> (length ed <= 10)%nat -> (den < two64)%N -> (0 < den)%N ->
  fmt64 (IZR (Z.of_N num)) -> fmt64 (IZR (Z.of_N den)) ->
  Rabs (B2R64 v) = (IZR (Z.of_N num) / IZR (Z.of_N den))%R ->
  dec_real ((if sign64 v then 5%N else 4%N) :: en ++ ed ++ rest) = Ok (bits64 v, rest).
Proof.
  intros Fv En Ln Hn Ed Ld Hd Hd0 Gn Gd Hv.
  destruct (oas_real_ratio_form_lemma en ed num den rest En Ln Hn Ed Ld Hd Hd0) as (P4 & P5).
  cbv zeta in P4, P5.
  rewrite (round_generic radix2 _ _ _ Gn), (round_generic radix2 _ _ _ Gd) in P4, P5.
  rewrite <- Hv in P4, P5.
  assert (Hq : rnd64 (Rabs (B2R64 v)) = Rabs (B2R64 v)).
  { apply round_generic; [apply valid_rnd_N|]. apply generic_format_abs. apply fmt64_B2R. }
  rewrite Hq in P4, P5.
  assert (Habs : Rabs (B2R64 v) = if sign64 v then (- B2R64 v)%R else B2R64 v).
  { destruct v as [s|s|s pl H|s m e H]; try discriminate Fv.
    - cbn [B2R Bsign]. rewrite Rabs_R0. destruct s; lra.
    - cbn [Bsign]. destruct s.
      + apply Rabs_left. cbn [B2R]. apply F2R_lt_0. reflexivity.
      + apply Rabs_pos_eq, Rlt_le. cbn [B2R]. apply F2R_gt_0. reflexivity. }
  destruct (sign64 v) eqn:Sv.
  - destruct P5 as (d & D & F & R & S & _). rewrite D. f_equal. f_equal. f_equal.
    apply B2R_Bsign_inj; try assumption; [|congruence]. rewrite R, Habs. ring.
  - destruct P4 as (d & D & F & R & S & _). rewrite D. f_equal. f_equal. f_equal.
    apply B2R_Bsign_inj; try assumption; [|congruence]. rewrite R, Habs. reflexivity.
Qed.

(* the reading asked for by the property: a double that IS num / den with both below 2^53 comes back
   exactly from its ratio spelling *)
Corollary oas_real_ratio_exact_lemma (v : binary64) en ed num den rest :
  fin64 v = true ->
  enc_ok_uint en num -> (length en <= 10)%nat -> (num < 2 ^ 53)%N ->
  enc_ok_uint ed den -> (length ed <= 10)%nat -> (den < 2 ^ 53)%N -> (0 < den)%N ->
  Rabs (B2R64 v) = (IZR (Z.of_N num) / IZR (Z.of_N den))%R ->
  dec_real ((if sign64 v then 5%N else 4%N) :: en ++ ed ++ rest) = Ok (bits64 v, rest).
Proof.
  intros Fv En Ln Hn Ed Ld Hd Hd0 Hv.
  change (2 ^ 53)%N with 9007199254740992%N in Hn, Hd.
  apply (ratio_exact_value v en ed num den rest); try assumption.
  - unfold two64. lia.
  - unfold two64. lia.
  - apply fmt64_small_int. change (2 ^ 53) with 9007199254740992. lia.
  - apply fmt64_small_int. change (2 ^ 53) with 9007199254740992. lia.
Qed.

(* the ratio n / 1 reads exactly like the integer n, and 1 / n exactly like the reciprocal of n:
   for EVERY 64-bit n and every legal spelling of n and of 1 *)
Lemma b64_of_uint_1 : b64_of_uint 1 = b64_one.
Proof.
  assert (H1 : (1 < two64)%N) by reflexivity.
  destruct (b64_of_uint_correct 1%N H1) as (F & R & S). destruct b64_one_facts as (F1 & S1).
  apply B2R_Bsign_inj.
  - exact F.
  - exact F1.
  - rewrite R, B2R_one. apply round_generic; [apply valid_rnd_N|exact fmt64_one].
  - rewrite S, S1. reflexivity.
Qed.

Lemma dec_uint_real_bytes ty en n rest (f : N -> binary64) :
  enc_ok_uint en n -> (length en <= 10)%nat -> (n < two64)%N ->
  (forall bs, dec_real_by_type ty bs = obind (dec_uint bs) (fun '(n, r) => Ok (bits64 (f n), r))) ->
  dec_real (ty :: en ++ rest) = Ok (bits64 (f n), rest).
Proof.
  intros En Ln Hn Hty. cbn [dec_real]. rewrite Hty.
  rewrite (uint_accepts_nonminimal_lemma en n rest En Ln Hn). reflexivity.
Qed.

Theorem oas_real_ratio_respells_lemma en e1 n rest :
  enc_ok_uint en n -> (length en <= 10)%nat -> (n < two64)%N ->
  enc_ok_uint e1 1%N -> (length e1 <= 10)%nat ->
  dec_real (4%N :: en ++ e1 ++ rest) = dec_real (0%N :: en ++ rest)
  /\ dec_real (5%N :: en ++ e1 ++ rest) = dec_real (1%N :: en ++ rest)
  /\ dec_real (4%N :: e1 ++ en ++ rest) = dec_real (2%N :: en ++ rest)
  /\ dec_real (5%N :: e1 ++ en ++ rest) = dec_real (3%N :: en ++ rest).
Proof.
  intros En Ln Hn E1 L1.
  assert (H1 : (1 < two64)%N) by reflexivity.
  destruct (dec_ratio_bytes en e1 n 1%N rest En Ln Hn E1 L1 H1) as (A4 & A5).
  destruct (dec_ratio_bytes e1 en 1%N n rest E1 L1 H1 En Ln Hn) as (B4 & B5).
  rewrite A4, A5, B4, B5. rewrite b64_of_uint_1.
  rewrite (dec_uint_real_bytes 0%N en n rest b64_of_uint En Ln Hn) by reflexivity.
  rewrite (dec_uint_real_bytes 1%N en n rest (fun n => b64_opp (b64_of_uint n)) En Ln Hn) by reflexivity.
  rewrite (dec_uint_real_bytes 2%N en n rest (fun n => b64_div mode_NE b64_one (b64_of_uint n)) En Ln Hn) by reflexivity.
  rewrite (dec_uint_real_bytes 3%N en n rest (fun n => b64_div mode_NE (b64_opp b64_one) (b64_of_uint n)) En Ln Hn) by reflexivity.
  destruct (b64_of_uint_correct n Hn) as (Fx & Rx & Sx).
  destruct b64_one_facts as (F1 & S1).
  repeat split.
  - (* x / 1.0 = x *)
    f_equal. f_equal. f_equal.
    assert (Hy : B2R64 b64_one <> 0%R) by (rewrite B2R_one; lra).
    destruct (b64_div_correct (b64_of_uint n) b64_one Fx F1 Hy) as (F & R & S).
    { rewrite B2R_one, Rx. apply ratio_abs_bound; [apply rnd64_uint_bounds; exact Hn|lra]. }
    apply B2R_Bsign_inj; try assumption.
    + rewrite R, B2R_one. unfold Rdiv. rewrite Rinv_1, Rmult_1_r.
      apply round_generic; [apply valid_rnd_N|apply fmt64_B2R].
    + rewrite S, S1, Sx. reflexivity.
  - f_equal. f_equal. f_equal.
    assert (Hy : B2R64 b64_one <> 0%R) by (rewrite B2R_one; lra).
    assert (Fo : fin64 (b64_opp (b64_of_uint n)) = true) by (unfold b64_opp; rewrite is_finite_Bopp; exact Fx).
    destruct (b64_div_correct (b64_opp (b64_of_uint n)) b64_one Fo F1 Hy) as (F & R & S).
    { unfold b64_opp. rewrite B2R_Bopp, B2R_one, Rx. unfold Rdiv. rewrite Ropp_mult_distr_l_reverse, Rabs_Ropp.
      apply ratio_abs_bound; [apply rnd64_uint_bounds; exact Hn|lra]. }
    apply B2R_Bsign_inj; try assumption.
    + rewrite R, B2R_one. unfold Rdiv. rewrite Rinv_1, Rmult_1_r.
      apply round_generic; [apply valid_rnd_N|apply fmt64_B2R].
    + rewrite S, S1. apply xorb_false_r.
Qed.

(* ALL SPELLINGS OF ONE VALUE DECODE TO ONE BIT PATTERN.  v is any finite double with pattern `bits`. *)
Theorem oas_real_all_spellings_agree_lemma bits rest :
  (bits < 2 ^ 64)%N ->
  let v := b64_of_bits (Z.of_N bits) in
  fin64 v = true ->
  (* the 8-byte form *)
  dec_real (7%N :: bytes_le 8 bits ++ rest) = Ok (bits, rest)
  (* every exact ratio num / den of integers that are doubles (e.g. below 2^53), any legal spelling *)
  /\ (forall en ed num den,
        enc_ok_uint en num -> (length en <= 10)%nat -> (num < two64)%N ->
        enc_ok_uint ed den -> (length ed <= 10)%nat -> (den < two64)%N -> (0 < den)%N ->
        fmt64 (IZR (Z.of_N num)) -> fmt64 (IZR (Z.of_N den)) ->
        Rabs (B2R64 v) = (IZR (Z.of_N num) / IZR (Z.of_N den))%R ->
        dec_real ((if sign64 v then 5%N else 4%N) :: en ++ ed ++ rest) = Ok (bits, rest))
  (* every single that has the same value and sign *)
  /\ (forall f : binary32, fin32 f = true -> B2R32 f = B2R64 v -> sign32 f = sign64 v ->
        dec_real (6%N :: f32_bytes f ++ rest) = Ok (bits, rest))
  (* the form the writer chooses (the sign of -0.0 is dropped by the WRITER: excluded) *)
  /\ (bits <> neg_zero_bits -> dec_real (enc_real bits ++ rest) = Ok (bits, rest))
  (* when the writer chooses integer n (types 0/1): the ratio n / 1 in any spelling *)
  /\ (forall ty n en e1, bits <> neg_zero_bits ->
        enc_real bits = ty :: enc_uint n -> (ty = 0 \/ ty = 1)%N -> (n < two64)%N ->
        enc_ok_uint en n -> (length en <= 10)%nat -> enc_ok_uint e1 1%N -> (length e1 <= 10)%nat ->
        dec_real (ty :: en ++ rest) = Ok (bits, rest)
        /\ dec_real ((ty + 4)%N :: en ++ e1 ++ rest) = Ok (bits, rest))
  (* when the writer chooses the reciprocal of n (types 2/3): the ratio 1 / n in any spelling *)
  /\ (forall ty n en e1,
        enc_real bits = ty :: enc_uint n -> (ty = 2 \/ ty = 3)%N -> (n < two64)%N ->
        enc_ok_uint en n -> (length en <= 10)%nat -> enc_ok_uint e1 1%N -> (length e1 <= 10)%nat ->
        dec_real (ty :: en ++ rest) = Ok (bits, rest)
        /\ dec_real ((ty + 2)%N :: e1 ++ en ++ rest) = Ok (bits, rest)).
Proof.
  intros Hb v Fv.
  assert (Hbits : bits64 v = bits) by (apply bits64_of_bits; exact Hb).
  assert (Hrt : bits <> neg_zero_bits -> dec_real (enc_real bits ++ rest) = Ok (bits, rest)).
  { intros Hnz. apply oas_real_roundtrip_lemma; assumption. }
  assert (Hsame : forall ty n en, (ty = 0 \/ ty = 1 \/ ty = 2 \/ ty = 3)%N ->
            (n < two64)%N -> enc_ok_uint en n -> (length en <= 10)%nat ->
            dec_real (ty :: en ++ rest) = dec_real (ty :: enc_uint n ++ rest)).
  { intros ty n en Hty Hn En Ln.
    destruct (enc_uint_conforms_lemma n Hn) as (Ec & Lc).
    destruct Hty as [-> | [-> | [-> | ->]]]; cbn [dec_real dec_real_by_type];
      rewrite (uint_accepts_nonminimal_lemma en n rest En Ln Hn);
      rewrite (uint_accepts_nonminimal_lemma (enc_uint n) n rest Ec Lc Hn); reflexivity. }
  split; [apply (oas_real_double_form_roundtrip_lemma bits rest Hb)|].
  split; [|split; [|split; [exact Hrt|split]]].
  - intros en ed num den En Ln Hn Ed Ld Hd Hd0 Gn Gd Hv. rewrite <- Hbits.
    apply (ratio_exact_value v en ed num den rest); assumption.
  - intros f Ff Rf Sf. destruct (oas_real_float_form_lemma f rest Ff) as (d & D & F & R & S & _).
    rewrite D. f_equal. f_equal. rewrite <- Hbits. f_equal.
    apply B2R_Bsign_inj; try assumption; congruence.
  - intros ty n en e1 Hnz Henc Hty Hn En Ln E1 L1.
    assert (H0 : dec_real (ty :: en ++ rest) = Ok (bits, rest)).
    { rewrite (Hsame ty n en) by tauto. rewrite <- (Hrt Hnz), Henc. reflexivity. }
    split; [exact H0|].
    destruct (oas_real_ratio_respells_lemma en e1 n rest En Ln Hn E1 L1) as (R0 & R1 & _ & _).
    destruct Hty as [-> | ->]; cbn [N.add Pos.add]; [rewrite R0|rewrite R1]; exact H0.
  - intros ty n en e1 Henc Hty Hn En Ln E1 L1.
    assert (Hnz : bits <> neg_zero_bits).
    { intros ->. vm_compute in Henc. injection Henc as <- _. destruct Hty; discriminate. }
    assert (H0 : dec_real (ty :: en ++ rest) = Ok (bits, rest)).
    { rewrite (Hsame ty n en) by tauto. rewrite <- (Hrt Hnz), Henc. reflexivity. }
    split; [exact H0|].
    destruct (oas_real_ratio_respells_lemma en e1 n rest En Ln Hn E1 L1) as (_ & _ & R2 & R3).
    destruct Hty as [-> | ->]; cbn [N.add Pos.add]; [rewrite R2|rewrite R3]; exact H0.
Qed.

(* ================================================================== the hypotheses are satisfiable *)
(* 0.75 = 3/4 as double 3FE8000000000000, as single 3F400000 (bytes 00 00 40 3F), as the ratio 3 / 4 with
   the 3 spelled in two bytes (83 00) - all decode to the one pattern; 1/3 is not a double: the ratio
   1 / 3 decodes to the correctly rounded 3FD5555555555555 *)
Example oas_real_spellings_nonvacuous :
  enc_ok_uint [131; 0]%N 3%N /\ enc_ok_uint [4]%N 4%N
  /\ dec_real (4 :: [131; 0] ++ [4] ++ [85])%N = Ok (4604930618986332160%N, [85%N])
  /\ dec_real (6 :: [0; 0; 64; 63] ++ [85])%N = Ok (4604930618986332160%N, [85%N])
  /\ dec_real (7 :: bytes_le 8 4604930618986332160 ++ [85])%N = Ok (4604930618986332160%N, [85%N])
  /\ dec_real [4; 1; 3]%N = Ok (4599676419421066581%N, [])
  /\ dec_real [5; 0; 3]%N = Ok (neg_zero_bits, [])
  /\ dec_real [4; 7; 0]%N = Ok (9218868437227405312%N, []).
Proof.
  split; [|split].
  - apply (enc_ok_more 131 [0]%N 0%N); [lia|]. apply enc_ok_last. lia.
  - apply enc_ok_last. lia.
  - repeat split; vm_compute; reflexivity.
Qed.

