(* C01, "further save/load cycles change nothing more": the canonical form only reverses the order of
   each element's (distinct-attribute) property list; a second cycle gives the original back. *)
Require Import Base GdsFrame GdsModel GdsWrite GdsRoundtrip.
From Coq Require Import ZArith Lia.
Local Open Scope N_scope.

Lemma has_attr_false ps a : ~ In a (map fst ps) -> has_attr ps a = false.
Proof.
  induction ps as [|[a' v] ps IH]; [reflexivity|]. cbn [map fst In has_attr]. intros H.
  replace (a' =? a) with false by (symmetry; apply N.eqb_neq; intros ->; apply H; left; reflexivity).
  apply IH. intros Hin. apply H. right. exact Hin.
Qed.

Lemma fold_props_rev : forall ps acc,
  NoDup (map fst ps) -> (forall a, In a (map fst ps) -> ~ In a (map fst acc)) ->
  fold_left (fun acc '(a, v) => set_gds_prop acc a v) ps acc = rev ps ++ acc.
Proof.
  induction ps as [|[a v] ps IH]; intros acc Hnd Hdis; [reflexivity|].
  cbn [fold_left map fst] in *. inversion Hnd as [|? ? Hna Hnd']; subst.
  unfold set_gds_prop at 2. rewrite has_attr_false by (apply Hdis; left; reflexivity).
  rewrite IH.
  - cbn [rev]. rewrite <- app_assoc. reflexivity.
  - exact Hnd'.
  - intros b Hb. cbn [map fst In]. intros [<-|Hin]; [apply Hna; exact Hb|]. apply (Hdis b); [right; exact Hb|exact Hin].
Qed.

Lemma canon_props_rev ps : NoDup (map fst ps) -> canon_props ps = rev ps.
Proof. intros H. unfold canon_props. rewrite fold_props_rev; [apply app_nil_r|exact H|intros a _ []]. Qed.

Lemma canon_props_twice ps : NoDup (map fst ps) -> canon_props (canon_props ps) = ps.
Proof.
  intros H. rewrite (canon_props_rev ps H). rewrite canon_props_rev.
  - apply rev_involutive.
  - rewrite map_rev. apply NoDup_rev. exact H.
Qed.

Definition elem_nodup (e : gelem) : Prop := NoDup (map fst (elem_props e)).
Definition lib_nodup (l : glib) : Prop := Forall (fun c => Forall elem_nodup (cell_elems c)) (g_cells l).

Lemma canon_elem_twice e : elem_nodup e -> canon_elem (canon_elem e) = e.
Proof.
  unfold elem_nodup. destruct e as [[]|[]|[]|[]]; unfold canon_elem, canon_poly, canon_path, canon_ref, canon_label; cbn -[canon_props];
    intros H; rewrite canon_props_twice by exact H; reflexivity.
Qed.

Lemma map_canon_twice {A} (f : A -> A) (inj : A -> gelem) (l : list A) :
  (forall x, canon_elem (inj x) = inj (f x)) -> (forall x y, inj x = inj y -> x = y) ->
  Forall elem_nodup (map inj l) -> map f (map f l) = l.
Proof.
  intros Hc Hinj. induction l as [|x l IH]; [reflexivity|]. cbn [map]. intros H. inversion H as [|? ? Hx Hl]; subst.
  rewrite IH by exact Hl. f_equal. apply Hinj. rewrite <- !Hc. apply canon_elem_twice. exact Hx.
Qed.

Theorem canon_lib_twice l : lib_nodup l -> canon_lib (canon_lib l) = l.
Proof.
  intros H. destruct l as [nm un cells]. unfold canon_lib. cbn [g_name g_units g_cells]. f_equal.
  unfold lib_nodup in H. cbn [g_cells] in H. induction cells as [|c cells IH]; [reflexivity|].
  inversion H as [|? ? Hc Hcs]; subst. cbn [map]. rewrite IH by exact Hcs. f_equal.
  destruct c as [cn ps hs rs ls]. unfold canon_cell, cell_elems in *. cbn [c_name c_polys c_paths c_refs c_labels] in *.
  apply Forall_app in Hc. destruct Hc as [Hp Hc]. apply Forall_app in Hc. destruct Hc as [Hh Hc].
  apply Forall_app in Hc. destruct Hc as [Hl Hr].
  f_equal.
  - apply (map_canon_twice canon_poly EPoly ps); [reflexivity|intros x y [= ->]; reflexivity|exact Hp].
  - apply (map_canon_twice canon_path EPath hs); [reflexivity|intros x y [= ->]; reflexivity|exact Hh].
  - apply (map_canon_twice canon_ref ERef rs); [reflexivity|intros x y [= ->]; reflexivity|exact Hr].
  - apply (map_canon_twice canon_label ELabel ls); [reflexivity|intros x y [= ->]; reflexivity|exact Hl].
Qed.

Lemma elem_ok_canon e : elem_nodup e -> elem_ok e -> elem_ok (canon_elem e).
Proof.
  destruct e as [p|h|r|l]; unfold elem_nodup, canon_elem, elem_ok; cbn [elem_props]; intros Hnd.
  - unfold poly_ok, canon_poly. cbn [p_layer p_type p_pts p_props]. rewrite (canon_props_rev _ Hnd).
    intros (A & B & C & D & E & F). exact (conj A (conj B (conj C (conj (Forall_rev D) (conj E F))))).
  - unfold path_ok, canon_path. cbn [h_layer h_type h_end h_width h_scale_width h_ext h_pts h_props]. rewrite (canon_props_rev _ Hnd).
    intros (A & B & C & D & E & F & G & H). exact (conj A (conj B (conj C (conj (Forall_rev D) (conj E (conj F (conj G H))))))).
  - unfold ref_ok, canon_ref. cbn [r_name r_origin r_refl r_mag r_rot r_rep r_props]. rewrite (canon_props_rev _ Hnd).
    intros (A & B & C & D & E & F). exact (conj A (conj B (conj C (conj D (conj (Forall_rev E) F))))).
  - unfold label_ok, canon_label. cbn [l_layer l_type l_text l_origin l_anchor l_refl l_mag l_rot l_props]. rewrite (canon_props_rev _ Hnd).
    intros (A & B & C & D & E & F & G & H). exact (conj A (conj B (conj C (conj D (conj E (conj F (conj G (Forall_rev H)))))))).
Qed.

Lemma elem_fits_canon e : elem_nodup e -> elem_fits e -> elem_fits (canon_elem e).
Proof.
  destruct e as [p|h|r|l]; unfold elem_nodup, canon_elem, elem_fits, props_fit; cbn [elem_props]; intros Hnd.
  - unfold canon_poly. cbn [p_props]. rewrite (canon_props_rev _ Hnd). intros H. apply Forall_rev. exact H.
  - unfold canon_path. cbn [h_props]. rewrite (canon_props_rev _ Hnd). intros H. apply Forall_rev. exact H.
  - unfold canon_ref. cbn [r_props r_name]. rewrite (canon_props_rev _ Hnd). intros [H1 H2]. split; [apply Forall_rev; exact H1|exact H2].
  - unfold canon_label. cbn [l_props l_text]. rewrite (canon_props_rev _ Hnd). intros [H1 H2]. split; [apply Forall_rev; exact H1|exact H2].
Qed.

Lemma cell_elems_canon c : cell_elems (canon_cell c) = map canon_elem (cell_elems c).
Proof. unfold cell_elems, canon_cell. cbn [c_polys c_paths c_refs c_labels]. rewrite !map_app, !map_map. reflexivity. Qed.

Lemma lib_ok_canon l : lib_nodup l -> lib_ok l -> lib_ok (canon_lib l).
Proof.
  intros Hnd (A & B & C & D). unfold canon_lib. split; [exact A|]. split; [exact B|]. split; [exact C|]. cbn [g_cells].
  unfold lib_nodup in Hnd. induction D as [|c cells [Hn He] Hcs IH]; [constructor|].
  inversion Hnd as [|? ? Hc Hnds]; subst. cbn [map]. constructor; [|apply IH; exact Hnds].
  split; [exact Hn|]. rewrite cell_elems_canon. clear -He Hc.
  induction He as [|e es He1 Hes IH]; [constructor|]. inversion Hc; subst. cbn [map]. constructor; [apply elem_ok_canon; assumption|apply IH; assumption].
Qed.

Lemma lib_fits_canon l : lib_nodup l -> lib_fits l -> lib_fits (canon_lib l).
Proof.
  intros Hnd (A & D). unfold canon_lib. split; [exact A|]. cbn [g_cells].
  unfold lib_nodup in Hnd. induction D as [|c cells [Hn He] Hcs IH]; [constructor|].
  inversion Hnd as [|? ? Hc Hnds]; subst. cbn [map]. constructor; [|apply IH; exact Hnds].
  split; [exact Hn|]. rewrite cell_elems_canon. clear -He Hc.
  induction He as [|e es He1 Hes IH]; [constructor|]. inversion Hc; subst. cbn [map]. constructor; [apply elem_fits_canon; assumption|apply IH; assumption].
Qed.

(* a second save/load cycle gives the original back: with the first cycle, every later cycle alternates
   between L and canon L, which differ only in the order of each element's property list *)
Theorem gds_second_cycle_lemma ts l :
  (length ts = 6)%nat -> lib_ok l -> lib_fits l -> lib_nodup l ->
  read_gds_model None (write_gds_model ts l) = Ok (canon_lib l) /\
  read_gds_model None (write_gds_model ts (canon_lib l)) = Ok l.
Proof.
  intros Hts Hok Hfit Hnd. split; [apply gds_roundtrip_lemma; assumption|].
  rewrite gds_roundtrip_lemma; [|exact Hts|apply lib_ok_canon; assumption|apply lib_fits_canon; assumption].
  rewrite canon_lib_twice by exact Hnd. reflexivity.
Qed.

Example ex_lib_nodup : lib_nodup ex_lib.
Proof. unfold lib_nodup, ex_lib, cell_elems, elem_nodup. cbn. repeat constructor; cbn; intuition discriminate. Qed.
