(* C03 — GDSII reader and writer agree with the format specification.  Theorem-only file. *)
Require Import Base GdsFrame GdsFrameProofs GdsModel GdsWrite GdsProofs Generated.
Local Open Scope N_scope.

Theorem c03_source_constants :
  map kind_of [GdsiiRecord_BOUNDARY; GdsiiRecord_BOX; GdsiiRecord_PATH; GdsiiRecord_SREF; GdsiiRecord_AREF; GdsiiRecord_TEXT;
               GdsiiRecord_XY; GdsiiRecord_ENDEL; GdsiiRecord_ELFLAGS; GdsiiRecord_PLEX; GdsiiRecord_STRANS; GdsiiRecord_MAG;
               GdsiiRecord_ANGLE; GdsiiRecord_COLROW; GdsiiRecord_PRESENTATION; GdsiiRecord_PATHTYPE; GdsiiRecord_BGNEXTN;
               GdsiiRecord_ENDEXTN; GdsiiRecord_PROPATTR; GdsiiRecord_PROPVALUE]
  = [KBoundary; KBoundary; KPath; KRef; KRef; KText; KXY; KEndel; KOther; KOther; KStrans; KMag; KAngle; KColrow;
     KPresentation; KPathtype; KBgnextn; KEndextn; KPropattr; KPropvalue].
Proof. reflexivity. Qed.
Print Assumptions c03_source_constants.

(* record framing is the inverse of record emission for every record of legal size *)
Theorem framing_inverts_emission : forall r rest,
  N.of_nat (length (payload r)) + 4 < 65536 -> rtype r < 256 -> dtype r < 256 ->
  next_record (rec_bytes r ++ rest) = Ok (r, rest).
Proof. exact next_record_rec_bytes. Qed.
Print Assumptions framing_inverts_emission.
