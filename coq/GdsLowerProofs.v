(* C01 / unit c01_lower -- proofs about the lowering model GdsLower.v:
     A. lround                                   B. the 8-byte reals the lowering produces fit 64 bits
     C. lower produces a well-formed grid library; composition with gds_roundtrip
     D. count theorems (records written = Repetition.count, or one AREF)
     E. denotation theorems (what the lowered references denote once re-loaded)
     F. refutation witnesses (off the grid, skew below the tolerance, more than 32767 columns) *)
From Coq Require Import QArith Qround Qabs Permutation Lia Lqa.
Require Import Base GdsFrame GdsFrameProofs GdsModel GdsWrite GdsRoundtrip GdsReal GdsRealProofs Repetition RepetitionProofs GdsLower.
Local Open Scope Q_scope.

(* ================================================================== A. lround *)
Lemma lround_comp x y : x == y -> lround x = lround y.
Proof.
  intro H. unfold lround.
  assert (E1 : Qle_bool 0 x = Qle_bool 0 y) by (rewrite H; reflexivity).
  assert (E2 : Qfloor (x + (1 # 2)) = Qfloor (y + (1 # 2))) by (rewrite H; reflexivity).
  assert (E3 : Qfloor (- x + (1 # 2)) = Qfloor (- y + (1 # 2))) by (rewrite H; reflexivity).
  rewrite E1, E2, E3. reflexivity.
Qed.

Lemma lround_inject z : lround (inject_Z z) = z.
Proof.
  unfold lround. destruct (Qle_bool 0 (inject_Z z)) eqn:E.
  - unfold Qfloor, Qplus, inject_Z. cbn [Qnum Qden]. change (Z.pos (1 * 2)) with 2%Z.
    symmetry. apply Z.div_unique with (r := 1%Z); lia.
  - unfold Qfloor, Qplus, Qopp, inject_Z. cbn [Qnum Qden]. change (Z.pos (1 * 2)) with 2%Z.
    assert (H : ((- z * 2 + 1 * 1) / 2 = - z)%Z) by (symmetry; apply Z.div_unique with (r := 1%Z); lia).
    rewrite H. lia.
Qed.

Lemma lround_of_int q : is_int q -> inject_Z (lround q) == q.
Proof.
  unfold is_int. intro H.
  assert (E : lround q = Qfloor q).
  { transitivity (lround (inject_Z (Qfloor q))); [apply lround_comp; symmetry; exact H|apply lround_inject]. }
  rewrite E. exact H.
Qed.

Lemma is_int_inject z : is_int (inject_Z z).
Proof. unfold is_int. rewrite Qfloor_Z. reflexivity. Qed.
Lemma is_int_comp x y : x == y -> is_int x -> is_int y.
Proof. unfold is_int. intros E H. rewrite <- (Qfloor_comp x y E). transitivity x; assumption. Qed.
Lemma is_int_exists q : is_int q -> exists z, q == inject_Z z.
Proof. intro H. exists (Qfloor q). symmetry. exact H. Qed.
Lemma is_int_plus a b : is_int a -> is_int b -> is_int (a + b).
Proof.
  intros Ha Hb. destruct (is_int_exists a Ha) as [x Hx]. destruct (is_int_exists b Hb) as [y Hy].
  apply (is_int_comp (inject_Z (x + y))); [|apply is_int_inject]. rewrite inject_Z_plus. rewrite Hx, Hy. reflexivity.
Qed.
Lemma is_int_mult a b : is_int a -> is_int b -> is_int (a * b).
Proof.
  intros Ha Hb. destruct (is_int_exists a Ha) as [x Hx]. destruct (is_int_exists b Hb) as [y Hy].
  apply (is_int_comp (inject_Z (x * y))); [|apply is_int_inject]. rewrite inject_Z_mult. rewrite Hx, Hy. reflexivity.
Qed.
Lemma is_int_qN n : is_int (qN n).
Proof. apply is_int_inject. Qed.
Lemma is_int_qnat n : is_int (qnat n).
Proof. apply is_int_inject. Qed.

(* ================================================================== B. the reals fit 64 bits *)
Lemma lor_lt_pow2 a b n : (a < 2 ^ n)%N -> (b < 2 ^ n)%N -> (N.lor a b < 2 ^ n)%N.
Proof.
  intros Ha Hb.
  destruct (N.eq_dec a 0) as [->|Na]; [rewrite N.lor_0_l; assumption|].
  destruct (N.eq_dec b 0) as [->|Nb]; [rewrite N.lor_0_r; assumption|].
  assert (Hl : N.lor a b <> 0%N) by (intro E; apply N.lor_eq_0_iff in E; tauto).
  apply N.log2_lt_pow2; [lia|]. rewrite N.log2_lor.
  apply N.max_lub_lt; apply N.log2_lt_pow2; lia.
Qed.

Lemma gds_encode_with_ok E neg m e : real_ok (gds_encode_with E neg m e).
Proof.
  unfold real_ok, gds_encode_with. change 18446744073709551616%N with (2 ^ 64)%N.
  apply lor_lt_pow2.
  - rewrite N.shiftl_mul_pow2.
    set (u := (((if neg then 128 else 0) + Z.to_N ((64 + E) mod 256)) mod 256)%N).
    assert (Hu : (u < 256)%N) by (subst u; apply N.mod_lt; lia).
    change (2 ^ 64)%N with (256 * 2 ^ 56)%N. apply N.mul_lt_mono_pos_r; [reflexivity|exact Hu].
  - change gds_mant_mask with (N.ones 56). rewrite N.land_ones.
    apply N.lt_trans with (2 ^ 56)%N; [apply N.mod_lt; discriminate|reflexivity].
Qed.

Lemma gds_real_of_dbl_ok bits : real_ok (gds_real_of_dbl bits).
Proof.
  unfold gds_real_of_dbl. destruct (dbl_decompose bits) as [[[neg m] e]|].
  - unfold gds_encode. apply gds_encode_with_ok.
  - unfold real_ok. reflexivity.
Qed.
Lemma rot_real_ok r : real_ok (rot_real r).
Proof. destruct r; cbn [rot_real]; try apply gds_real_of_dbl_ok. unfold real_ok. reflexivity. Qed.

Example gds_real_of_one : gds_real_of_dbl 4607182418800017408 = real_one.   (* 0x3FF0000000000000 = 1.0 *)
Proof. vm_compute. reflexivity. Qed.
Example gds_real_of_ninety : gds_real_of_dbl 4636033603912859648 = 4781133954407202816%N.  (* 90.0 -> 0x425A000000000000 *)
Proof. vm_compute. reflexivity. Qed.

(* ================================================================== C. well-formedness of the lowered library *)
(* list helpers *)
Lemma Forall_map_ {A B} (P : B -> Prop) (f : A -> B) l : Forall (fun a => P (f a)) l -> Forall P (map f l).
Proof. induction 1; cbn [map]; constructor; assumption. Qed.
Lemma Forall_flat_map_in {A B} (P : B -> Prop) (f : A -> list B) l :
  (forall a, In a l -> Forall P (f a)) -> Forall P (flat_map f l).
Proof.
  induction l as [|a l IH]; intro H; cbn [flat_map]; [constructor|].
  apply Forall_app. split; [apply H; left; reflexivity|apply IH; intros b Hb; apply H; right; exact Hb].
Qed.
Lemma Forall_in_ {A} (P : A -> Prop) l : (forall a, In a l -> P a) -> Forall P l.
Proof. apply Forall_forall. Qed.
Lemma last_map_ {A B} (f : A -> B) l d : last (map f l) (f d) = f (last l d).
Proof.
  induction l as [|a l IH]; [reflexivity|]. destruct l as [|b l]; [reflexivity|].
  change (map f (a :: b :: l)) with (f a :: map f (b :: l)).
  change (last (f a :: map f (b :: l)) (f d)) with (last (map f (b :: l)) (f d)).
  change (last (a :: b :: l) d) with (last (b :: l) d). exact IH.
Qed.

(* ---- source-level preconditions: the property's own (tags fit, scaled coordinates fit 32 bits, strings fit a
   record and contain no NUL, property keys fit 16 bits) plus what the GDSII format cannot hold *)
Definition spoly_ok (s : Q) (p : spoly) : Prop :=
  fits16 (sp_layer p) /\ fits16 (sp_type p) /\ Forall prop_ok (sp_props p) /\ props_fit (sp_props p) /\
  forall off, In off (rep_offsets (sp_rep p)) ->
    Forall (fun q => fits_pt (poly_pt s off q)) (sp_pts p) /\
    (* no closing duplicate on the grid (the reader would drop it) *)
    (forall q0, hd_error (sp_pts p) = Some q0 -> poly_pt s off (last (sp_pts p) q0) <> poly_pt s off q0).

Definition spel_ok (s : Q) (sw : bool) (el : spel) : Prop :=
  fits16 (se_layer el) /\ fits16 (se_type el) /\
  (0 <= lround (2 * se_hw el * s) < 2147483648)%Z /\
  (lround (2 * se_hw el * s) = 0%Z -> sw = true) /\          (* WIDTH 0 carries no sign *)
  match end_of (se_end el) with
  | EExt => fits32 (lround (fst (se_ext el) * s)) /\ fits32 (lround (snd (se_ext el) * s))
  | _ => True
  end.
Definition spath_ok (s : Q) (h : spath) : Prop :=
  Forall prop_ok (sh_props h) /\ props_fit (sh_props h) /\ Forall (spel_ok s (sh_scale_width h)) (sh_els h) /\
  forall off, In off (rep_offsets (sh_rep h)) ->
    Forall (fun q => fits_pt (path_pt s off q)) (clean_spine (sh_tolsq h) (sh_spine h)).

Definition slabel_ok (s : Q) (l : slabel) : Prop :=
  fits16 (sl_layer l) /\ fits16 (sl_type l) /\ no_nul (sl_text l) /\ str_fits (sl_text l) /\ (sl_anchor l < 16)%N /\
  Forall prop_ok (sl_props l) /\ props_fit (sl_props l) /\
  forall off, In off (rep_offsets (sl_rep l)) -> fits_pt (org_pt s (sl_origin l) off).

(* an array that will be re-read as a Rectangular repetition keeps x2 and y3 only: its lattice must be exactly
   axis-parallel (a skew below the tolerance is otherwise lost: aref_skew_refuted) *)
Definition sref_ok (s : Q) (r : sref) : Prop :=
  no_nul (sr_name r) /\ str_fits (sr_name r) /\ Forall prop_ok (sr_props r) /\ props_fit (sr_props r) /\
  match aref_plan r with
  | Some a =>
      (* at least one column and one row: the strict grammar (and the reader, which divides by them) needs it *)
      (1 <= a_cols a < 32768)%N /\ (1 <= a_rows a < 32768)%N /\
      fits_pt (scale_pt s (sr_origin r)) /\
      fits_pt (scale_pt s (corner (sr_origin r) (a_v a) (a_cols a))) /\
      fits_pt (scale_pt s (corner (sr_origin r) (a_w a) (a_rows a))) /\
      (reads_regular (sr_refl r) (rot_real (sr_rot r)) = false -> snd (a_v a) == 0 /\ fst (a_w a) == 0)
  | None => forall off, In off (rep_offsets (sr_rep r)) -> fits_pt (org_pt s (sr_origin r) off)
  end.

Definition scell_ok (s : Q) (c : scell) : Prop :=
  no_nul (sc_name c) /\ str_fits (sc_name c) /\ Forall (spoly_ok s) (sc_polys c) /\ Forall (spath_ok s) (sc_paths c) /\
  Forall (slabel_ok s) (sc_labels c) /\ Forall (sref_ok s) (sc_refs c).
(* the two UNITS reals, as encoded, are positive (GdsRoundtrip.unit_ok: the strict grammar requires it) *)
Definition slib_ok (L : slib) : Prop :=
  no_nul (su_name L) /\ str_fits (su_name L) /\ Forall (scell_ok (su_scaling L)) (su_cells L) /\
  unit_ok (gds_real_of_dbl (fst (su_units L))) /\ unit_ok (gds_real_of_dbl (snd (su_units L))).

(* ---- element by element *)
Lemma lower_poly_ok s p : spoly_ok s p ->
  Forall (fun g => poly_ok g /\ elem_fits (EPoly g)) (lower_poly s p).
Proof.
  intros (Hl & Ht & Hpr & Hpf & Hoff). unfold lower_poly.
  destruct (length (sp_pts p) <? 3)%nat eqn:E; [constructor|]. apply Nat.ltb_ge in E.
  apply Forall_map_. apply Forall_in_. intros off Hin. destruct (Hoff off Hin) as [Hfit Hopen].
  split; [|exact Hpf].
  unfold poly_ok. cbn [p_layer p_type p_pts p_props].
  split; [exact Hl|]. split; [exact Ht|]. split; [apply Forall_map_; exact Hfit|]. split; [exact Hpr|].
  split; [rewrite map_length; exact E|].
  intros p0 Hhd. destruct (sp_pts p) as [|q0 tl] eqn:Epts; [discriminate|].
  cbn [map hd_error] in Hhd. injection Hhd as <-.
  change (poly_pt s off q0 :: map (poly_pt s off) tl) with (map (poly_pt s off) (q0 :: tl)).
  rewrite last_map_. apply Hopen. reflexivity.
Qed.

Lemma lower_path_ok s h : spath_ok s h ->
  Forall (fun g => path_ok g /\ elem_fits (EPath g)) (lower_path s h).
Proof.
  intros (Hpr & Hpf & Hels & Hoff). unfold lower_path.
  set (spine := clean_spine (sh_tolsq h) (sh_spine h)) in *.
  destruct (length spine <? 2)%nat eqn:E; [constructor|]. apply Nat.ltb_ge in E.
  apply Forall_flat_map_in. intros el Hel.
  rewrite Forall_forall in Hels. destruct (Hels el Hel) as (Hl & Ht & Hw & Hw0 & Hext).
  unfold lower_path_el. apply Forall_map_. apply Forall_in_. intros off Hin. specialize (Hoff off Hin).
  split; [|exact Hpf].
  unfold path_ok. cbn [h_layer h_type h_end h_width h_scale_width h_ext h_pts h_props].
  split; [exact Hl|]. split; [exact Ht|]. split; [apply Forall_map_; exact Hoff|]. split; [exact Hpr|].
  split; [rewrite map_length; exact E|]. split; [exact Hw|]. split; [exact Hw0|].
  destruct (end_of (se_end el)); try reflexivity. exact Hext.
Qed.

Lemma lower_label_ok s l : slabel_ok s l ->
  Forall (fun g => label_ok g /\ elem_fits (ELabel g)) (lower_label s l).
Proof.
  intros (Hl & Ht & Hnn & Hsf & Han & Hpr & Hpf & Hoff). unfold lower_label.
  apply Forall_map_. apply Forall_in_. intros off Hin. specialize (Hoff off Hin).
  split; [|split; assumption].
  unfold label_ok. cbn [l_layer l_type l_text l_origin l_anchor l_refl l_mag l_rot l_props].
  split; [exact Hl|]. split; [exact Ht|]. split; [exact Hnn|]. split; [exact Hoff|]. split; [exact Han|].
  split; [apply gds_real_of_dbl_ok|]. split; [apply rot_real_ok|exact Hpr].
Qed.

Lemma scale_pt_snd_comp s o v n : snd v == 0 -> snd (scale_pt s (corner o v n)) = snd (scale_pt s o).
Proof. intro H. unfold scale_pt, corner. cbn [fst snd]. apply lround_comp. rewrite H. ring. Qed.
Lemma scale_pt_fst_comp s o v n : fst v == 0 -> fst (scale_pt s (corner o v n)) = fst (scale_pt s o).
Proof. intro H. unfold scale_pt, corner. cbn [fst snd]. apply lround_comp. rewrite H. ring. Qed.

Lemma lower_ref_ok s r : sref_ok s r ->
  Forall (fun g => ref_ok g /\ elem_fits (ERef g)) (lower_ref s r).
Proof.
  intros (Hnn & Hsf & Hpr & Hpf & Hplan). unfold lower_ref.
  destruct (aref_plan r) as [a|].
  - destruct Hplan as (Hc & Hr & Ho & H2 & H3 & Hrect).
    constructor; [|constructor]. split; [|split; assumption].
    unfold ref_ok. cbn [r_name r_origin r_refl r_mag r_rot r_rep r_props].
    split; [exact Hnn|]. split; [exact Ho|]. split; [apply gds_real_of_dbl_ok|]. split; [apply rot_real_ok|]. split; [exact Hpr|].
    assert (Hovf : colrow_overflow a = false).
    { unfold colrow_overflow. apply orb_false_iff. split; apply N.ltb_ge; lia. }
    rewrite Hovf. unfold rep_ok_g. cbn [g_cols g_rows g_regular g_p2 g_p3].
    split; [unfold count16; lia|]. split; [unfold count16; lia|]. split; [exact H2|]. split; [exact H3|].
    split; [reflexivity|].
    intro Hreg. destruct (Hrect Hreg) as [Hv Hw]. split; [apply scale_pt_snd_comp; exact Hv|apply scale_pt_fst_comp; exact Hw].
  - apply Forall_map_. apply Forall_in_. intros off Hin. specialize (Hplan off Hin).
    split; [|split; assumption].
    unfold ref_ok. cbn [r_name r_origin r_refl r_mag r_rot r_rep r_props].
    split; [exact Hnn|]. split; [exact Hplan|]. split; [apply gds_real_of_dbl_ok|]. split; [apply rot_real_ok|]. split; [exact Hpr|exact I].
Qed.

(* ---- cells and the library *)
Lemma Forall_and_l {A} (P Q : A -> Prop) l : Forall (fun a => P a /\ Q a) l -> Forall P l.
Proof. apply Forall_impl. tauto. Qed.
Lemma Forall_and_r {A} (P Q : A -> Prop) l : Forall (fun a => P a /\ Q a) l -> Forall Q l.
Proof. apply Forall_impl. tauto. Qed.

Lemma lower_cell_elems s c : scell_ok s c ->
  Forall (fun e => elem_ok e /\ elem_fits e) (cell_elems (lower_cell s c)).
Proof.
  intros (_ & _ & Hp & Hh & Hl & Hr). unfold cell_elems, lower_cell. cbn [c_polys c_paths c_labels c_refs].
  rewrite Forall_forall in Hp, Hh, Hl, Hr.
  repeat (apply Forall_app; split).
  - apply Forall_map_. apply Forall_flat_map_in. intros p Hin. apply (lower_poly_ok s p (Hp p Hin)).
  - apply Forall_map_. apply Forall_flat_map_in. intros p Hin. apply (lower_path_ok s p (Hh p Hin)).
  - apply Forall_map_. apply Forall_flat_map_in. intros p Hin. apply (lower_label_ok s p (Hl p Hin)).
  - apply Forall_map_. apply Forall_flat_map_in. intros p Hin. apply (lower_ref_ok s p (Hr p Hin)).
Qed.

Theorem lower_ok_lemma L : slib_ok L -> lib_ok (lower L) /\ lib_fits (lower L).
Proof.
  intros (Hnn & Hsf & Hcells & Hu0 & Hu1). unfold lib_ok, lib_fits, lower. cbn [g_name g_units g_cells fst snd].
  split; [split; [exact Hnn|split; [exact Hu0|split; [exact Hu1|]]]|split; [exact Hsf|]].
  - apply Forall_map_. eapply Forall_impl; [|exact Hcells]. intros c Hc. split; [apply Hc|].
    apply (Forall_and_l _ _ _ (lower_cell_elems _ c Hc)).
  - apply Forall_map_. eapply Forall_impl; [|exact Hcells]. intros c Hc. split; [apply Hc|].
    apply (Forall_and_r _ _ _ (lower_cell_elems _ c Hc)).
Qed.

(* the lowering composed with the round trip of the writer and reader models: for EVERY well-formed source
   library, re-loading what was saved gives the lowered library (properties in canonical order) *)
Theorem lower_roundtrip_lemma ts L :
  (length ts = 6)%nat -> slib_ok L ->
  read_gds_model None (write_gds_full ts L) = Ok (canon_lib (lower L)).
Proof.
  intros Hts Hok. destruct (lower_ok_lemma L Hok) as [H1 H2]. unfold write_gds_full.
  apply gds_roundtrip_lemma; assumption.
Qed.

(* ================================================================== D. counts and shape of the copies *)
(* number of copies of an element: Repetition::get_count, or 1 without a repetition *)
Definition copies (r : rep) : N := match r with RNone => 1%N | _ => count r end.
Lemma rep_offsets_count r : rep_ok r -> N.of_nat (length (rep_offsets r)) = copies r.
Proof. intro H. destruct r; try reflexivity; apply (count_offsets_lemma _ H). Qed.

(* one BOUNDARY / TEXT / PATH record group per offset *)
Theorem lower_poly_count_lemma s p : rep_ok (sp_rep p) -> (3 <= length (sp_pts p))%nat ->
  N.of_nat (length (lower_poly s p)) = copies (sp_rep p).
Proof.
  intros Hr Hn. unfold lower_poly. replace (length (sp_pts p) <? 3)%nat with false by (symmetry; apply Nat.ltb_ge; exact Hn).
  rewrite map_length. apply rep_offsets_count. exact Hr.
Qed.
Theorem lower_label_count_lemma s l : rep_ok (sl_rep l) ->
  N.of_nat (length (lower_label s l)) = copies (sl_rep l).
Proof. intro Hr. unfold lower_label. rewrite map_length. apply rep_offsets_count. exact Hr. Qed.

Lemma flat_map_const_length {A B} (f : A -> list B) k l : (forall a, length (f a) = k) -> length (flat_map f l) = (length l * k)%nat.
Proof. intro H. induction l as [|a l IH]; [reflexivity|]. cbn [flat_map length]. rewrite app_length, H, IH. lia. Qed.

Theorem lower_path_count_lemma s h : rep_ok (sh_rep h) -> (2 <= length (clean_spine (sh_tolsq h) (sh_spine h)))%nat ->
  N.of_nat (length (lower_path s h)) =
  (N.of_nat (length (sh_els h)) * copies (sh_rep h))%N.
Proof.
  intros Hr Hn. unfold lower_path.
  replace (length (clean_spine (sh_tolsq h) (sh_spine h)) <? 2)%nat with false by (symmetry; apply Nat.ltb_ge; exact Hn).
  rewrite (flat_map_const_length _ (length (rep_offsets (sh_rep h)))).
  - rewrite Nat2N.inj_mul. rewrite (rep_offsets_count _ Hr). reflexivity.
  - intro el. unfold lower_path_el. apply map_length.
Qed.

(* references: ONE AREF record when the lattice test succeeds, else one SREF per offset *)
Theorem lower_ref_count_lemma s r : rep_ok (sr_rep r) ->
  N.of_nat (length (lower_ref s r)) =
  match aref_plan r with Some _ => 1%N | None => copies (sr_rep r) end.
Proof.
  intro Hr. unfold lower_ref. destruct (aref_plan r); [reflexivity|].
  rewrite map_length. apply rep_offsets_count. exact Hr.
Qed.

(* the zero offset comes first whenever there is a copy at all *)
Lemma lattice_head cols rows f : lattice cols rows f <> [] -> exists t, lattice cols rows f = f O O :: t.
Proof.
  intro Hne. destruct cols as [|c]; [exfalso; apply Hne; reflexivity|].
  destruct rows as [|r]; [exfalso; apply Hne; apply lattice_nil_r|].
  unfold lattice. cbn [seq flat_map map app]. eexists. reflexivity.
Qed.

Theorem rep_offsets_head_lemma r : rep_offsets r <> [] -> exists z t, rep_offsets r = z :: t /\ veq z vzero.
Proof.
  intro Hne. destruct r as [|c rw sx sy|c rw v1 v2|l|l|l]; cbn [rep_offsets] in *.
  - exists (0, 0), []. split; [reflexivity|apply veq_refl].
  - rewrite offsets_spec_lemma in *. cbn [offsets_spec] in *. destruct (lattice_head _ _ _ Hne) as [t Ht].
    exists (rect_at sx sy 0 0), t. split; [exact Ht|].
    split; unfold rect_at, qnat, vzero; cbn [fst snd]; change (inject_Z (Z.of_nat 0)) with 0; ring.
  - rewrite offsets_spec_lemma in *. cbn [offsets_spec] in *. destruct (lattice_head _ _ _ Hne) as [t Ht].
    exists (reg_at v1 v2 0 0), t. split; [exact Ht|].
    split; unfold reg_at, qnat, vzero; cbn [fst snd]; change (inject_Z (Z.of_nat 0)) with 0; ring.
  - eexists _, _. split; [reflexivity|apply veq_refl].
  - eexists _, _. split; [reflexivity|apply veq_refl].
  - eexists _, _. split; [reflexivity|apply veq_refl].
Qed.

(* every copy carries the layer / type tags and the whole property list of the element; its coordinates are
   lround ((p + offset) * scaling): the statement "one record group per offset" in full *)
Theorem lower_poly_copies_lemma s p : (3 <= length (sp_pts p))%nat ->
  lower_poly s p = map (fun off => Build_gpoly (sp_layer p) (sp_type p) (map (poly_pt s off) (sp_pts p)) (sp_props p))
                       (rep_offsets (sp_rep p)).
Proof. intro Hn. unfold lower_poly. replace (length (sp_pts p) <? 3)%nat with false by (symmetry; apply Nat.ltb_ge; exact Hn). reflexivity. Qed.
Theorem lower_label_copies_lemma s l :
  map (fun g => (l_origin g, l_props g, l_text g)) (lower_label s l) =
  map (fun off => (org_pt s (sl_origin l) off, sl_props l, sl_text l)) (rep_offsets (sl_rep l)).
Proof. unfold lower_label. rewrite map_map. reflexivity. Qed.
Theorem lower_ref_sref_copies_lemma s r : aref_plan r = None ->
  map (fun g => (r_origin g, r_rep g, r_props g)) (lower_ref s r) =
  map (fun off => (org_pt s (sr_origin r) off, None, sr_props r)) (rep_offsets (sr_rep r)).
Proof. intro H. unfold lower_ref. rewrite H. rewrite map_map. reflexivity. Qed.

(* ================================================================== E. denotation *)
(* ---- the lattice enumerated with rows outermost is a permutation of the one with columns outermost *)
Lemma flat_map_cons_perm {A B} (g : A -> B) (h : A -> list B) l :
  Permutation (flat_map (fun b => g b :: h b) l) (map g l ++ flat_map h l).
Proof.
  induction l as [|b l IH]; [constructor|]. cbn [flat_map map app].
  apply perm_skip. rewrite IH. apply Permutation_app_swap_app.
Qed.
Lemma flat_map_transpose {A B C} (f : A -> B -> C) la lb :
  Permutation (flat_map (fun a => map (f a) lb) la) (flat_map (fun b => map (fun a => f a b) la) lb).
Proof.
  induction la as [|a la IH].
  - cbn [flat_map map]. induction lb as [|b lb IHb]; [constructor|exact IHb].
  - cbn [flat_map map]. rewrite (flat_map_cons_perm (f a) (fun b => map (fun a0 => f a0 b) la) lb).
    apply Permutation_app_head. exact IH.
Qed.
Lemma lattice_transpose n m (f : nat -> nat -> vec) : Permutation (lattice n m f) (lattice m n (fun i j => f j i)).
Proof. unfold lattice. apply flat_map_transpose. Qed.

Lemma same_points_refl_veq l1 l2 : Forall2 veq l1 l2 -> same_points l1 l2.
Proof. intro H. exists l1. split; [apply Permutation_refl|exact H]. Qed.
Lemma same_points_app a b c d : same_points a b -> same_points c d -> same_points (a ++ c) (b ++ d).
Proof.
  intros (l1 & P1 & F1) (l2 & P2 & F2). exists (l1 ++ l2). split; [apply Permutation_app; assumption|apply Forall2_app; assumption].
Qed.
Lemma Forall2_length_ {A B} (R : A -> B -> Prop) l1 l2 : Forall2 R l1 l2 -> length l1 = length l2.
Proof. induction 1; cbn [length]; congruence. Qed.
Lemma same_points_length a b : same_points a b -> length a = length b.
Proof. intros (l & P & F). rewrite (Permutation_length P). apply (Forall2_length_ _ _ _ F). Qed.

(* ---- grid facts *)
Lemma is_int_zero_mul s : is_int (0 * s).
Proof. apply (is_int_comp (inject_Z 0)); [ring|apply is_int_inject]. Qed.

Lemma grid_round_exact s a b : is_int (a * s) -> is_int (b * s) -> inject_Z (lround ((a + b) * s)) == (a + b) * s.
Proof.
  intros Ha Hb. apply lround_of_int. apply (is_int_comp (a * s + b * s)); [ring|apply is_int_plus; assumption].
Qed.

Lemma lattice_on_grid s c rw f :
  (forall i j, vec_on_grid s (f i j)) -> Forall (vec_on_grid s) (lattice c rw f).
Proof.
  intro H. unfold lattice. apply Forall_flat_map_in. intros i _. apply Forall_map_. apply Forall_in_. intros j _. apply H.
Qed.

Lemma rep_offsets_on_grid s r : rep_on_grid s r -> Forall (vec_on_grid s) (rep_offsets r).
Proof.
  destruct r as [|c rw sx sy|c rw v1 v2|l|l|l]; cbn [rep_on_grid rep_offsets]; intro H.
  - constructor; [|constructor]. split; cbn [fst snd]; apply is_int_zero_mul.
  - rewrite offsets_spec_lemma. cbn [offsets_spec]. apply lattice_on_grid. intros i j. destruct H as [Hx Hy].
    split; unfold rect_at; cbn [fst snd].
    + apply (is_int_comp (qnat i * (sx * s))); [ring|apply is_int_mult; [apply is_int_qnat|exact Hx]].
    + apply (is_int_comp (qnat j * (sy * s))); [ring|apply is_int_mult; [apply is_int_qnat|exact Hy]].
  - rewrite offsets_spec_lemma. cbn [offsets_spec]. apply lattice_on_grid. intros i j. destruct H as [[H1x H1y] [H2x H2y]].
    split; unfold reg_at; cbn [fst snd].
    + apply (is_int_comp (qnat i * (fst v1 * s) + qnat j * (fst v2 * s))); [ring|].
      apply is_int_plus; apply is_int_mult; try apply is_int_qnat; assumption.
    + apply (is_int_comp (qnat i * (snd v1 * s) + qnat j * (snd v2 * s))); [ring|].
      apply is_int_plus; apply is_int_mult; try apply is_int_qnat; assumption.
  - rewrite offsets_spec_lemma. cbn [offsets_spec]. constructor; [split; cbn [fst snd]; apply is_int_zero_mul|exact H].
  - rewrite offsets_spec_lemma. cbn [offsets_spec]. constructor; [split; cbn [fst snd]; apply is_int_zero_mul|].
    apply Forall_map_. eapply Forall_impl; [|exact H]. intros x Hx. split; cbn [fst snd]; [exact Hx|apply is_int_zero_mul].
  - rewrite offsets_spec_lemma. cbn [offsets_spec]. constructor; [split; cbn [fst snd]; apply is_int_zero_mul|].
    apply Forall_map_. eapply Forall_impl; [|exact H]. intros x Hx. split; cbn [fst snd]; [apply is_int_zero_mul|exact Hx].
Qed.

(* ---- the SREF branch: for ALL inputs the re-loaded placements are the lround images, offset by offset *)
Lemma gref_denote_single nm o rf mg rt pr :
  Forall2 veq (gref_denote (Build_gref nm o rf mg rt None pr)) [qpt o].
Proof.
  unfold gref_denote, gref_rep. cbn [r_rep r_origin rep_offsets map]. constructor; [|constructor].
  split; unfold vadd, qpt; cbn [fst snd]; ring.
Qed.

Theorem sref_denotation_lemma s r : aref_plan r = None ->
  Forall2 veq (flat_map gref_denote (lower_ref s r))
              (map (fun off => qpt (org_pt s (sr_origin r) off)) (rep_offsets (sr_rep r))).
Proof.
  intro Hp. unfold lower_ref. rewrite Hp. induction (rep_offsets (sr_rep r)) as [|off l IH]; [constructor|].
  cbn [map flat_map]. exact (Forall2_app (gref_denote_single _ _ _ _ _ _) IH).
Qed.

(* on the grid the lround image is the exact position *)
Lemma org_pt_exact s o off : vec_on_grid s o -> vec_on_grid s off ->
  veq (qpt (org_pt s o off)) ((fst o + fst off) * s, (snd o + snd off) * s).
Proof.
  intros [Hox Hoy] [Hfx Hfy]. unfold org_pt, qpt. split; cbn [fst snd]; apply grid_round_exact; assumption.
Qed.

Theorem sref_denotation_on_grid_lemma s r : aref_plan r = None ->
  vec_on_grid s (sr_origin r) -> rep_on_grid s (sr_rep r) ->
  same_points (flat_map gref_denote (lower_ref s r)) (sref_spec s r).
Proof.
  intros Hp Ho Hr. apply same_points_refl_veq.
  pose proof (sref_denotation_lemma s r Hp) as H1. pose proof (rep_offsets_on_grid s _ Hr) as Hg.
  unfold sref_spec. revert H1 Hg. generalize (flat_map gref_denote (lower_ref s r)). 
  induction (rep_offsets (sr_rep r)) as [|off l IH]; intros l0 H1 Hg; inversion H1; subst; [constructor|].
  inversion Hg; subst. cbn [map]. constructor.
  - eapply veq_trans; [eassumption|]. apply org_pt_exact; assumption.
  - apply IH; assumption.
Qed.

(* ---- the AREF branch *)
(* what the plan stands for: origin + i * a_v + j * a_w, in database units *)
Definition plan_at (s : Q) (o : vec) (a : aplan) (i j : nat) : vec :=
  ((fst o + (qnat i * fst (a_v a) + qnat j * fst (a_w a))) * s,
   (snd o + (qnat i * snd (a_v a) + qnat j * snd (a_w a))) * s).

Lemma wrapZ_of_N n : (n < 32768)%N -> wrapZ (Z.of_N n) = n.
Proof. intro H. unfold wrapZ. rewrite Z.mod_small by lia. apply N2Z.id. Qed.

Lemma qN_nonzero n : n <> 0%N -> ~ qN n == 0.
Proof. intros Hn H. unfold qN, Qeq, inject_Z in H. cbn [Qnum Qden] in H. lia. Qed.

(* corner minus origin, divided by the count, is the lattice vector in database units *)
Lemma corner_quotient s o v n : n <> 0%N -> is_int (o * s) -> is_int (v * s) ->
  (inject_Z (lround ((o + qN n * v) * s)) - inject_Z (lround (o * s))) / qN n == v * s.
Proof.
  intros Hn Ho Hv.
  assert (H1 : inject_Z (lround ((o + qN n * v) * s)) == (o + qN n * v) * s).
  { apply lround_of_int. apply (is_int_comp (o * s + qN n * (v * s))); [ring|].
    apply is_int_plus; [exact Ho|apply is_int_mult; [apply is_int_qN|exact Hv]]. }
  assert (H2 : inject_Z (lround (o * s)) == o * s) by (apply lround_of_int; exact Ho).
  rewrite H1, H2. field. apply qN_nonzero. exact Hn.
Qed.

(* the reader's denotation of the AREF the plan produces is the plan's lattice, point by point, in the order
   of Repetition::get_offsets *)
Lemma aref_reader_lemma s r a :
  aref_plan r = Some a -> (a_cols a < 32768)%N -> (a_rows a < 32768)%N ->
  vec_on_grid s (sr_origin r) -> vec_on_grid s (a_v a) -> vec_on_grid s (a_w a) ->
  (reads_regular (sr_refl r) (rot_real (sr_rot r)) = false -> snd (a_v a) == 0 /\ fst (a_w a) == 0) ->
  Forall2 veq (flat_map gref_denote (lower_ref s r))
              (lattice (N.to_nat (a_cols a)) (N.to_nat (a_rows a)) (plan_at s (sr_origin r) a)).
Proof.
  intros Hp Hc Hr [Hox Hoy] [Hvx Hvy] [Hwx Hwy] Hrect. unfold lower_ref. rewrite Hp.
  assert (Hovf : colrow_overflow a = false).
  { unfold colrow_overflow. apply orb_false_iff. split; apply N.ltb_ge; lia. }
  rewrite Hovf. cbn [flat_map]. rewrite app_nil_r.
  unfold gref_denote, gref_rep. cbn [r_rep r_origin g_cols g_rows g_regular g_p2 g_p3].
  rewrite !wrapZ_of_N by assumption.
  destruct (N.eq_dec (a_cols a) 0) as [Ec|Ec].
  { rewrite Ec. destruct (reads_regular (sr_refl r) (rot_real (sr_rot r))); cbn [rep_offsets offsets N.to_nat loop_outer map]; constructor. }
  destruct (N.eq_dec (a_rows a) 0) as [Er|Er].
  { rewrite Er. destruct (reads_regular (sr_refl r) (rot_real (sr_rot r))); cbn [rep_offsets]; rewrite offsets_spec_lemma; cbn [offsets_spec N.to_nat];
      rewrite !lattice_nil_r; constructor. }
  unfold scale_pt, corner. cbn [fst snd].
  set (ox := fst (sr_origin r)) in *. set (oy := snd (sr_origin r)) in *.
  pose proof (corner_quotient s ox (fst (a_v a)) (a_cols a) Ec Hox Hvx) as Q1.
  pose proof (corner_quotient s oy (snd (a_v a)) (a_cols a) Ec Hoy Hvy) as Q2.
  pose proof (corner_quotient s ox (fst (a_w a)) (a_rows a) Er Hox Hwx) as Q3.
  pose proof (corner_quotient s oy (snd (a_w a)) (a_rows a) Er Hoy Hwy) as Q4.
  pose proof (lround_of_int _ Hox) as O1. pose proof (lround_of_int _ Hoy) as O2.
  destruct (reads_regular (sr_refl r) (rot_real (sr_rot r))) eqn:Ereg.
  - cbn [rep_offsets]. rewrite offsets_spec_lemma. cbn [offsets_spec]. rewrite map_lattice.
    apply Forall2_lattice. intros i j. unfold vadd, qpt, reg_at, plan_at. cbn [fst snd]. fold ox oy.
    split; cbn [fst snd]; [rewrite Q1, Q3, O1|rewrite Q2, Q4, O2]; ring.
  - destruct (Hrect eq_refl) as [Hv0 Hw0].
    cbn [rep_offsets]. rewrite offsets_spec_lemma. cbn [offsets_spec]. rewrite map_lattice.
    apply Forall2_lattice. intros i j. unfold vadd, qpt, rect_at, plan_at. cbn [fst snd]. fold ox oy.
    split; cbn [fst snd]; [rewrite Q1, O1, Hw0|rewrite Q4, O2, Hv0]; ring.
Qed.

(* the plan's lattice is the source lattice: in order (straight branch) or transposed (swapped branch) *)
Lemma lattice_test_cases c rw v1 v2 cs a : lattice_test c rw v1 v2 cs = Some a ->
  a = Build_aplan c rw v1 v2 \/ a = Build_aplan rw c v2 v1.
Proof.
  unfold lattice_test. destruct (aligned v1 (fst cs, snd cs) && aligned v2 (- snd cs, fst cs)).
  - intro H. injection H as <-. left. reflexivity.
  - destruct (aligned v1 (- snd cs, fst cs) && aligned v2 (fst cs, snd cs)); [|discriminate].
    intro H. injection H as <-. right. reflexivity.
Qed.

Lemma plan_lattice_spec s o c rw v1 v2 a :
  a = Build_aplan c rw v1 v2 \/ a = Build_aplan rw c v2 v1 ->
  same_points (lattice (N.to_nat (a_cols a)) (N.to_nat (a_rows a)) (plan_at s o a))
              (map (fun v => ((fst o + fst v) * s, (snd o + snd v) * s)) (lattice (N.to_nat c) (N.to_nat rw) (reg_at v1 v2))).
Proof.
  rewrite map_lattice. intros [->| ->]; cbn [a_cols a_rows].
  - apply same_points_refl_veq. apply Forall2_lattice. intros i j. unfold plan_at, reg_at. cbn [a_v a_w fst snd]. split; cbn [fst snd]; ring.
  - eexists. split; [apply lattice_transpose|].
    apply Forall2_lattice. intros i j. unfold plan_at, reg_at. cbn [a_v a_w fst snd]. split; cbn [fst snd]; ring.
Qed.

Lemma rect_as_reg c rw sx sy :
  Forall2 veq (lattice c rw (reg_at (sx, 0) (0, sy))) (lattice c rw (rect_at sx sy)).
Proof. apply Forall2_lattice. intros i j. unfold reg_at, rect_at. split; cbn [fst snd]; ring. Qed.

Lemma Forall2_veq_map_spec s o l1 l2 : Forall2 veq l1 l2 ->
  Forall2 veq (map (fun v : vec => ((fst o + fst v) * s, (snd o + snd v) * s)) l1)
              (map (fun v : vec => ((fst o + fst v) * s, (snd o + snd v) * s)) l2).
Proof.
  induction 1 as [|a b l1 l2 [Hx Hy] _ IH]; cbn [map]; constructor; [|exact IH].
  split; cbn [fst snd]; [rewrite Hx|rewrite Hy]; reflexivity.
Qed.

Lemma Forall2_veq_trans l1 : forall l2 l3, Forall2 veq l1 l2 -> Forall2 veq l2 l3 -> Forall2 veq l1 l3.
Proof.
  induction l1 as [|a l1 IH]; intros l2 l3 H1 H2; inversion H1; subst; inversion H2; subst; constructor.
  - eapply veq_trans; eassumption.
  - eapply IH; eassumption.
Qed.
Lemma same_points_trans_veq l1 l2 l3 : same_points l1 l2 -> Forall2 veq l2 l3 -> same_points l1 l3.
Proof. intros (l & P & F) H. exists l. split; [exact P|]. eapply Forall2_veq_trans; eassumption. Qed.

(* DENOTATION of an array: on the grid, the AREF (straight or swapped) re-loads to exactly the placements
   origin + get_offsets, as a multiset *)
Theorem aref_denotation_lemma s r a :
  aref_plan r = Some a -> (a_cols a < 32768)%N -> (a_rows a < 32768)%N ->
  vec_on_grid s (sr_origin r) -> rep_on_grid s (sr_rep r) ->
  (reads_regular (sr_refl r) (rot_real (sr_rot r)) = false -> snd (a_v a) == 0 /\ fst (a_w a) == 0) ->
  same_points (flat_map gref_denote (lower_ref s r)) (sref_spec s r).
Proof.
  intros Hp Hc Hr Ho Hg Hrect.
  (* the source lattice as a Regular one *)
  assert (Hsrc : exists c rw v1 v2,
            (a = Build_aplan c rw v1 v2 \/ a = Build_aplan rw c v2 v1) /\ vec_on_grid s v1 /\ vec_on_grid s v2 /\
            Forall2 veq (lattice (N.to_nat c) (N.to_nat rw) (reg_at v1 v2)) (rep_offsets (sr_rep r))).
  { unfold aref_plan in Hp. destruct (sr_rep r) as [|c rw sx sy|c rw v1 v2|l|l|l] eqn:Erep; try discriminate.
    - destruct (rot_quarter (sr_rot r)); [|discriminate]. exists c, rw, (sx, 0), (0, sy).
      split; [eapply lattice_test_cases; exact Hp|]. cbn [rep_on_grid] in Hg. destruct Hg as [Hx Hy].
      split; [split; cbn [fst snd]; [exact Hx|apply is_int_zero_mul]|].
      split; [split; cbn [fst snd]; [apply is_int_zero_mul|exact Hy]|].
      cbn [rep_offsets]. rewrite offsets_spec_lemma. cbn [offsets_spec]. apply rect_as_reg.
    - exists c, rw, v1, v2. split; [eapply lattice_test_cases; exact Hp|]. cbn [rep_on_grid] in Hg. destruct Hg as [H1 H2].
      split; [exact H1|]. split; [exact H2|].
      cbn [rep_offsets]. rewrite offsets_spec_lemma. cbn [offsets_spec].
      clear. induction (lattice (N.to_nat c) (N.to_nat rw) (reg_at v1 v2)); constructor; [apply veq_refl|assumption]. }
  destruct Hsrc as (c & rw & v1 & v2 & Hcase & Hg1 & Hg2 & Hoffs).
  assert (Hva : vec_on_grid s (a_v a) /\ vec_on_grid s (a_w a)).
  { destruct Hcase as [->| ->]; cbn [a_v a_w]; split; assumption. }
  destruct Hva as [Hgv Hgw].
  pose proof (aref_reader_lemma s r a Hp Hc Hr Ho Hgv Hgw Hrect) as H1.
  pose proof (plan_lattice_spec s (sr_origin r) c rw v1 v2 a Hcase) as H2.
  unfold sref_spec.
  apply same_points_trans_veq with (l2 := map (fun v : vec => ((fst (sr_origin r) + fst v) * s, (snd (sr_origin r) + snd v) * s))
                                              (lattice (N.to_nat c) (N.to_nat rw) (reg_at v1 v2))).
  - destruct H2 as (l & P & F).
    (* pull the pointwise equality of the reader side through the permutation *)
    assert (Hex : exists l0, Permutation (flat_map gref_denote (lower_ref s r)) l0 /\ Forall2 veq l0 l).
    { clear F. revert H1. generalize (flat_map gref_denote (lower_ref s r)). induction P; intros l0 H1.
      - inversion H1; subst. exists []. split; constructor.
      - inversion H1 as [|a0 b0 l1 l2 Hab Ht]; subst. destruct (IHP _ Ht) as (l3 & P3 & F3).
        exists (a0 :: l3). split; [apply perm_skip; exact P3|constructor; assumption].
      - inversion H1 as [|a0 b0 l1 l2 Hab Ht]; subst. inversion Ht as [|a1 b1 l3 l4 Hab1 Ht1]; subst.
        exists (a1 :: a0 :: l3). split; [apply perm_swap|constructor; [assumption|constructor; assumption]].
      - destruct (IHP1 _ H1) as (l3 & P3 & F3). destruct (IHP2 _ F3) as (l4 & P4 & F4).
        exists l4. split; [eapply perm_trans; eassumption|exact F4]. }
    destruct Hex as (l0 & P0 & F0). exists l0. split; [exact P0|]. eapply Forall2_veq_trans; eassumption.
  - apply Forall2_veq_map_spec. exact Hoffs.
Qed.

(* both branches together: "a reference with a repetition re-loads as references covering exactly the same
   positions" for every source on the database grid *)
Theorem lower_ref_denotation_lemma s r :
  vec_on_grid s (sr_origin r) -> rep_on_grid s (sr_rep r) ->
  (forall a, aref_plan r = Some a ->
     (a_cols a < 32768)%N /\ (a_rows a < 32768)%N /\
     (reads_regular (sr_refl r) (rot_real (sr_rot r)) = false -> snd (a_v a) == 0 /\ fst (a_w a) == 0)) ->
  same_points (flat_map gref_denote (lower_ref s r)) (sref_spec s r).
Proof.
  intros Ho Hg Hplan. destruct (aref_plan r) as [a|] eqn:Hp.
  - destruct (Hplan a eq_refl) as (Hc & Hr & Hrect). eapply aref_denotation_lemma; eassumption.
  - apply sref_denotation_on_grid_lemma; assumption.
Qed.

(* the AREF itself: the origin and the two far corners are each rounded on their own (this is all that is rounded) *)
Theorem lower_ref_aref_shape_lemma s r a : aref_plan r = Some a -> colrow_overflow a = false ->
  map (fun g => (r_origin g, option_map (fun l => (g_cols l, g_rows l, g_p2 l, g_p3 l)) (r_rep g))) (lower_ref s r) =
  [ (scale_pt s (sr_origin r),
     Some (Z.of_N (a_cols a), Z.of_N (a_rows a), scale_pt s (corner (sr_origin r) (a_v a) (a_cols a)),
           scale_pt s (corner (sr_origin r) (a_w a) (a_rows a)))) ].
Proof. intros Hp Ho. unfold lower_ref. rewrite Hp, Ho. reflexivity. Qed.

(* the fields that do not depend on the branch *)
Theorem lower_ref_fields_lemma s r :
  Forall (fun g => r_name g = sr_name r /\ r_refl g = sr_refl r /\ r_mag g = gds_real_of_dbl (sr_mag r) /\
                   r_rot g = rot_real (sr_rot r) /\ r_props g = sr_props r) (lower_ref s r).
Proof.
  unfold lower_ref. destruct (aref_plan r).
  - constructor; [|constructor]. cbn. repeat split.
  - apply Forall_map_. apply Forall_in_. intros off _. cbn. repeat split.
Qed.

(* polygons, paths and labels: on the grid every copy sits exactly at (p + offset) * scaling *)
Lemma poly_pt_exact s off p : vec_on_grid s off -> vec_on_grid s p ->
  veq (qpt (poly_pt s off p)) ((fst off + fst p) * s, (snd off + snd p) * s).
Proof. intros [Hox Hoy] [Hfx Hfy]. unfold poly_pt, qpt. split; cbn [fst snd]; apply grid_round_exact; assumption. Qed.

Theorem lower_poly_on_grid_lemma s p : (3 <= length (sp_pts p))%nat ->
  Forall (vec_on_grid s) (sp_pts p) -> rep_on_grid s (sp_rep p) ->
  Forall2 (fun g off => Forall2 veq (map qpt (p_pts g)) (map (fun q => ((fst off + fst q) * s, (snd off + snd q) * s)) (sp_pts p)))
          (lower_poly s p) (rep_offsets (sp_rep p)).
Proof.
  intros Hn Hp Hr. rewrite (lower_poly_copies_lemma s p Hn). pose proof (rep_offsets_on_grid s _ Hr) as Hg.
  induction Hg as [|off l Hoff _ IH]; cbn [map]; constructor; [|exact IH].
  cbn [p_pts]. rewrite map_map. clear - Hp Hoff. induction Hp as [|q l Hq _ IH]; cbn [map]; constructor; [|exact IH].
  apply poly_pt_exact; assumption.
Qed.

(* ================================================================== F. what the faithful model refutes *)
Definition round_pts (l : list vec) : list (Z * Z) := map (fun v => (lround (fst v), lround (snd v))) l.
Definition one_dbl : N := 4607182418800017408.     (* 0x3FF0000000000000 *)

(* F1. OFF THE GRID the AREF rounds its two corners while SREFs round every instance: a lattice along the x axis with
   a pitch of 3/8 database unit, 4 columns.  Re-loaded: pitch lround(1.5)/4 = 1/2, instances at 0, 1/2, 1, 3/2;
   the source instances are at 0, 3/8, 3/4, 9/8.  Rounded to the grid: 0 1 1 2 against 0 0 1 1. *)
Definition ex_offgrid : sref :=
  {| sr_name := [65%N]; sr_origin := (0, 0); sr_refl := false; sr_mag := one_dbl; sr_rot := RotZero; sr_props := [];
     sr_rep := RReg 4 1 (3 # 8, 0) (0, 1) |}.
Theorem aref_offgrid_refuted :
  exists s r, aref_plan r <> None /\
    round_pts (flat_map gref_denote (lower_ref s r)) = [(0, 0); (1, 0); (1, 0); (2, 0)]%Z /\
    round_pts (sref_spec s r) = [(0, 0); (0, 0); (1, 0); (1, 0)]%Z.
Proof. exists 1, ex_offgrid. split; [vm_compute; discriminate|]. split; vm_compute; reflexivity. Qed.

(* F1'. the same with a lattice ON the grid and only the origin off it, at a negative tie (lround is not translation
   invariant there): origin -1/2, pitch 1, 3 columns: corners lround(-1/2) = -1 and lround(5/2) = 3, pitch 4/3 *)
Definition ex_tie : sref :=
  {| sr_name := [65%N]; sr_origin := (- (1 # 2), 0); sr_refl := false; sr_mag := one_dbl; sr_rot := RotZero; sr_props := [];
     sr_rep := RReg 3 1 (1, 0) (0, 1) |}.
Theorem aref_tie_origin_refuted :
  exists s r, aref_plan r <> None /\ rep_on_grid s (sr_rep r) /\
    round_pts (flat_map gref_denote (lower_ref s r)) = [(-1, 0); (0, 0); (2, 0)]%Z /\
    round_pts (sref_spec s r) = [(-1, 0); (1, 0); (2, 0)]%Z.
Proof.
  exists 1, ex_tie. split; [vm_compute; discriminate|]. split; [|split; vm_compute; reflexivity].
  cbn. unfold vec_on_grid, is_int. cbn. repeat split; vm_compute; reflexivity.
Qed.

(* F2. ON the grid, a lattice skewed by less than the tolerance (one database unit in a million) on an unrotated,
   unreflected reference: the test accepts it, the AREF is re-read as a RECTANGULAR repetition (x2 and y3 only) and the
   skew is lost.  All hypotheses of aref_denotation_lemma hold except the exact axis-parallelism. *)
Definition ex_skew : sref :=
  {| sr_name := [65%N]; sr_origin := (0, 0); sr_refl := false; sr_mag := one_dbl; sr_rot := RotZero; sr_props := [];
     sr_rep := RReg 3 1 (1000000, 1) (0, 1000) |}.
Definition sum_y (l : list vec) : Q := fold_right (fun v acc => snd v + acc) 0 l.
Lemma sum_y_perm l1 l2 : Permutation l1 l2 -> sum_y l1 == sum_y l2.
Proof.
  induction 1 as [|x l l' P IH|x y l|l l' l'' P1 IH1 P2 IH2]; cbn [sum_y fold_right] in *.
  - reflexivity.
  - rewrite IH. reflexivity.
  - ring.
  - rewrite IH1. exact IH2.
Qed.
Lemma sum_y_veq l1 l2 : Forall2 veq l1 l2 -> sum_y l1 == sum_y l2.
Proof. induction 1 as [|a b l1 l2 [_ Hy] _ IH]; cbn [sum_y fold_right] in *; [reflexivity|]. rewrite Hy, IH. reflexivity. Qed.
Lemma same_points_sum_y l1 l2 : same_points l1 l2 -> sum_y l1 == sum_y l2.
Proof. intros (l & P & F). rewrite (sum_y_perm _ _ P). apply sum_y_veq. exact F. Qed.

Theorem aref_skew_refuted :
  exists s r a, aref_plan r = Some a /\ (a_cols a < 32768)%N /\ (a_rows a < 32768)%N /\
    vec_on_grid s (sr_origin r) /\ rep_on_grid s (sr_rep r) /\
    round_pts (flat_map gref_denote (lower_ref s r)) = [(0, 0); (1000000, 0); (2000000, 0)]%Z /\
    round_pts (sref_spec s r) = [(0, 0); (1000000, 1); (2000000, 2)]%Z /\
    ~ same_points (flat_map gref_denote (lower_ref s r)) (sref_spec s r).
Proof.
  exists 1, ex_skew. eexists. split; [vm_compute; reflexivity|]. cbn [a_cols a_rows].
  split; [reflexivity|]. split; [reflexivity|].
  split; [unfold vec_on_grid, is_int; cbn; split; vm_compute; reflexivity|].
  split; [cbn; unfold vec_on_grid, is_int; cbn; repeat split; vm_compute; reflexivity|].
  split; [vm_compute; reflexivity|]. split; [vm_compute; reflexivity|].
  intro H. apply same_points_sum_y in H. vm_compute in H. discriminate H.
Qed.

(* F3. 32768 to 65535 columns pass the writer's test (`> UINT16_MAX`) and are written as an unsigned 16-bit count; the
   reader takes COLROW as SIGNED 16-bit words: 40000 columns come back as -25536 (a count of 2^64 - 25536 in the C++) *)
Definition ex_colrow : slib :=
  {| su_name := [76%N]; su_units := (4562254508917369340%N, 4562254508917369340%N); su_scaling := 1;
     su_cells := [ {| sc_name := [65%N]; sc_polys := []; sc_paths := []; sc_labels := []; sc_refs := [] |};
                   {| sc_name := [66%N]; sc_polys := []; sc_paths := []; sc_labels := [];
                      sc_refs := [ {| sr_name := [65%N]; sr_origin := (0, 0); sr_refl := false; sr_mag := one_dbl; sr_rot := RotZero;
                                      sr_props := []; sr_rep := RReg 40000 1 (1, 0) (0, 1) |} ] |} ] |}.
Definition colrows (l : glib) : list (list (option (Z * Z))) :=
  map (fun c => map (fun r => option_map (fun g => (g_cols g, g_rows g)) (r_rep r)) (c_refs c)) (g_cells l).
Theorem colrow_signed_refuted :
  exists ts L, lower_err L = WNone /\
    colrows (lower L) = [[]; [Some (40000, 1)]]%Z /\
    (match read_gds_model None (write_gds_full ts L) with Ok l => colrows l | _ => [] end) = [[]; [Some (-25536, 1)]]%Z.
Proof. exists [2020; 6; 17; 11; 22; 33]%Z, ex_colrow. repeat split; vm_compute; reflexivity. Qed.

(* ================================================================== G. the hypotheses are satisfiable *)
Definition ex_src : slib :=
  {| su_name := [76%N; 73%N; 66%N]; su_units := (4598175219545276416%N, 4598175219545276416%N); su_scaling := 4;
     su_cells := [
       {| sc_name := [65%N];
          sc_polys := [ {| sp_layer := 1; sp_type := 2; sp_pts := [(0, 0); (10, 0); (10, 9 # 8)]; sp_props := [(3%N, [104%N; 105%N])];
                           sp_rep := RRect 2 2 (3 # 4) (- (5 # 2)) |} ];
          sc_paths := [ {| sh_spine := [(0, 0); (0, 25); (0, 25 + (1 # 10000)); (- (25 # 2), 25)]; sh_tolsq := 1 # 1000000;
                           sh_els := [ {| se_layer := 4; se_type := 0; se_end := SExt; se_hw := 3 # 8; se_ext := (1 # 4, - (1 # 2)) |} ];
                           sh_scale_width := false; sh_props := []; sh_rep := RExplX [5] |} ];
          sc_labels := [ {| sl_layer := 7; sl_type := 1; sl_text := [116%N; 120%N; 116%N]; sl_origin := (5 # 4, - (5 # 4)); sl_anchor := 5%N;
                            sl_refl := true; sl_mag := one_dbl; sl_rot := RotQuarter 1 4636033603912859648%N;
                            sl_props := [(9%N, [120%N])]; sl_rep := RExpl [(1 # 8, 1 # 8)] |} ];
          sc_refs := [] |};
       {| sc_name := [66%N; 66%N]; sc_polys := []; sc_paths := []; sc_labels := [];
          sc_refs := [ {| sr_name := [65%N]; sr_origin := (25, 50); sr_refl := false; sr_mag := 4611686018427387904%N;
                          sr_rot := RotQuarter 1 4636033603912859648%N; sr_props := [];
                          sr_rep := RReg 3 2 (- (10), 0) (0, 5) |};                       (* swapped branch: AREF 2 x 3 *)
                       {| sr_name := [88%N]; sr_origin := (- (7 # 4), 2); sr_refl := true; sr_mag := one_dbl;
                          sr_rot := RotExact (3 # 5) (4 # 5) 4632514830192082944%N; sr_props := [(1%N, [122%N])];
                          sr_rep := RRect 2 1 10 0 |} ] |} ] |}.                         (* not a quarter turn: two SREFs *)

Ltac in_cases H := cbn in H; repeat (destruct H as [<-|H]; [|]); try contradiction.
Ltac fits_leaf := vm_compute; repeat split; try discriminate; try (intro; discriminate).

Example ex_src_ok : slib_ok ex_src.
Proof.
  unfold slib_ok, ex_src. cbn [su_name su_scaling su_cells su_units fst snd].
  split; [repeat constructor; discriminate|]. split; [unfold str_fits; cbn; lia|].
  split; [|split; vm_compute; split; reflexivity].
  constructor; [|constructor; [|constructor]].
  - unfold scell_ok. cbn [sc_name sc_polys sc_paths sc_labels sc_refs].
    split; [repeat constructor; discriminate|]. split; [unfold str_fits; cbn; lia|].
    split; [|split; [|split; [|constructor]]].
    + constructor; [|constructor]. unfold spoly_ok. cbn [sp_layer sp_type sp_pts sp_props sp_rep].
      split; [unfold fits16; lia|]. split; [unfold fits16; lia|].
      split; [constructor; [split; [cbn; lia|repeat constructor; discriminate]|constructor]|].
      split; [constructor; [unfold str_fits; cbn; lia|constructor]|].
      intros off Hin. in_cases Hin.
      all: split; [repeat (apply Forall_cons || apply Forall_nil); fits_leaf|intros q0 Hq; injection Hq as <-; vm_compute; discriminate].
    + constructor; [|constructor]. unfold spath_ok. cbn [sh_spine sh_tolsq sh_els sh_scale_width sh_props sh_rep].
      split; [constructor|]. split; [constructor|].
      split; [constructor; [|constructor]; unfold spel_ok; cbn [se_layer se_type se_end se_hw se_ext end_of];
              split; [unfold fits16; lia|]; split; [unfold fits16; lia|]; split; [vm_compute; split; [discriminate|reflexivity]|];
              split; [vm_compute; discriminate|fits_leaf]|].
      replace (clean_spine _ _) with [(0, 0); (0, 25); (- (25 # 2), 25)] by (vm_compute; reflexivity).   (* the third point is within the tolerance of the second *)
      intros off Hin. in_cases Hin.
      all: repeat (apply Forall_cons || apply Forall_nil); fits_leaf.
    + constructor; [|constructor]. unfold slabel_ok. cbn [sl_layer sl_type sl_text sl_origin sl_anchor sl_props sl_rep].
      split; [unfold fits16; lia|]. split; [unfold fits16; lia|].
      split; [repeat constructor; discriminate|]. split; [unfold str_fits; cbn; lia|]. split; [lia|].
      split; [constructor; [split; [cbn; lia|repeat constructor; discriminate]|constructor]|].
      split; [constructor; [unfold str_fits; cbn; lia|constructor]|].
      intros off Hin. in_cases Hin. all: fits_leaf.
  - unfold scell_ok. cbn [sc_name sc_polys sc_paths sc_labels sc_refs].
    split; [repeat constructor; discriminate|]. split; [unfold str_fits; cbn; lia|].
    split; [constructor|]. split; [constructor|]. split; [constructor|].
    constructor; [|constructor; [|constructor]].
    + unfold sref_ok. cbn [sr_name sr_props].
      split; [repeat constructor; discriminate|]. split; [unfold str_fits; cbn; lia|]. split; [constructor|]. split; [constructor|].
      replace (aref_plan _) with (Some (Build_aplan 2 3 (0, 5) (- (10), 0))) by (vm_compute; reflexivity).
      cbn [a_cols a_rows a_v a_w sr_origin].
      split; [lia|]. split; [lia|]. split; [fits_leaf|]. split; [fits_leaf|]. split; [fits_leaf|].
      intro H. vm_compute in H. discriminate H.
    + unfold sref_ok. cbn [sr_name sr_props].
      split; [repeat constructor; discriminate|]. split; [unfold str_fits; cbn; lia|].
      split; [constructor; [split; [cbn; lia|repeat constructor; discriminate]|constructor]|].
      split; [constructor; [unfold str_fits; cbn; lia|constructor]|].
      replace (aref_plan _) with (@None aplan) by (vm_compute; reflexivity).
      intros off Hin. in_cases Hin. all: fits_leaf.
Qed.

(* the theorem applied (not merely computed) to this library, and the records it stands for *)
Example ex_src_roundtrip :
  read_gds_model None (write_gds_full [2020; 6; 17; 11; 22; 33]%Z ex_src) = Ok (canon_lib (lower ex_src)).
Proof. apply lower_roundtrip_lemma; [reflexivity|exact ex_src_ok]. Qed.

Example ex_src_shape :
  map (fun c => (length (c_polys c), length (c_paths c), length (c_labels c), map (fun r => option_map (fun g => (g_cols g, g_rows g, g_p2 g, g_p3 g)) (r_rep r)) (c_refs c)))
      (g_cells (lower ex_src)) =
  [ (4%nat, 2%nat, 2%nat, []); (0%nat, 0%nat, 0%nat, [Some (2, 3, (100, 240), (-20, 200))%Z; None; None]) ].
Proof. vm_compute. reflexivity. Qed.

(* the hypotheses of the array denotation theorem on the swapped array above *)
Example ex_aref_hyps :
  let r := {| sr_name := [65%N]; sr_origin := (25, 50); sr_refl := false; sr_mag := 4611686018427387904%N;
              sr_rot := RotQuarter 1 4636033603912859648%N; sr_props := []; sr_rep := RReg 3 2 (- (10), 0) (0, 5) |} in
  exists a, aref_plan r = Some a /\ a_cols a = 2%N /\ a_rows a = 3%N /\ (a_cols a < 32768)%N /\ (a_rows a < 32768)%N /\
    vec_on_grid 4 (sr_origin r) /\ rep_on_grid 4 (sr_rep r) /\
    (reads_regular (sr_refl r) (rot_real (sr_rot r)) = false -> snd (a_v a) == 0 /\ fst (a_w a) == 0).
Proof.
  eexists. split; [vm_compute; reflexivity|]. cbn [a_cols a_rows a_v a_w].
  repeat (split; [reflexivity|]).
  split; [unfold vec_on_grid, is_int; cbn; split; vm_compute; reflexivity|].
  split; [cbn; unfold vec_on_grid, is_int; cbn; repeat split; vm_compute; reflexivity|].
  intro H. vm_compute in H. discriminate H.
Qed.

(* the count theorem applied: the polygon of ex_src carries a 2 x 2 lattice, four BOUNDARY groups are written *)
Example ex_count :
  let p := {| sp_layer := 1; sp_type := 2; sp_pts := [(0, 0); (10, 0); (10, 9 # 8)]; sp_props := [(3%N, [104%N; 105%N])];
              sp_rep := RRect 2 2 (3 # 4) (- (5 # 2)) |} in
  N.of_nat (length (lower_poly 4 p)) = 4%N.
Proof. intro p. rewrite lower_poly_count_lemma; [reflexivity|reflexivity|cbn; lia]. Qed.
