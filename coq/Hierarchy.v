(* C06 - model of the hierarchy queries of gdstk: Cell::get_polygons / get_flexpaths /
   get_robustpaths / get_labels, Reference::get_* and Cell::flatten (src/cell.cpp,
   src/reference.cpp), and the geometry a cell denotes.

   The four families of queries are the same statements over four element arrays, so the model is
   written once over an abstract payload with the two actions the C++ uses on it:
     apply T x  =  x.transform(T.magnification, T.x_reflection, T.rotation, T.origin)
     shift v x  =  x.translate(v)                 (labels: origin += v)
   (the acting object is the placement / argument list of `transform`, whose affine map is
   Affine.placement_map; a label needs the rotation itself, not only the matrix).

   Conventions.
   * an element is (payload, tag, repetition); the repetition is None (RepetitionType::None) or
     Some l where l are the offsets AFTER the leading (0,0) that Repetition::get_offsets always
     emits when count >= 1 (C11: offsets_head_zero) - apply_repetition skips that first offset
     and Reference::get_* adds it to the origin (x + 0.0 = x).  Repetitions of count 0 crash
     apply_repetition (finding F18, property C11) and are outside this model.
   * for a path, every path element (layer/datatype) is its own model element carrying the
     path's repetition: the tag filter of get_flexpaths / get_robustpaths keeps exactly the path
     elements with the tag.
   * a reference whose target name is not in the environment stands for a reference of type
     Name or RawCell: the queries skip it and flatten keeps it.
   * depth is the C++ int64 argument (negative = unlimited); the recursion runs on explicit fuel
     and answers None when the fuel is exhausted (only a cyclic environment does that: the C++
     recursion would not return).  HierarchyProofs relates it to the structural recursion on a
     natural depth. *)
From Coq Require Import QArith List Bool ZArith NArith.
Require Import Affine.
Import ListNotations.

Section Hier.
Variable payload : Type.
Variable apply : placement -> payload -> payload.
Variable shift : Vec2 -> payload -> payload.

Record element : Type := El { e_payload : payload; e_tag : N; e_rep : option (list Vec2) }.
Record reference : Type := Ref { r_target : N; r_place : placement; r_rep : option (list Vec2) }.
Record celldef : Type := Cell { c_elems : list element; c_refs : list reference }.
Definition env : Type := list (N * celldef).

Fixpoint lookup (e : env) (name : N) : option celldef :=
  match e with
  | [] => None
  | (n, c) :: rest => if N.eqb n name then Some c else lookup rest name
  end.

(* X::transform leaves the repetition member alone (finding F8) *)
Definition transform_elem (T : placement) (e : element) : element :=
  El (apply T (e_payload e)) (e_tag e) (e_rep e).

(* X::apply_repetition(result): the repetition of *this is cleared, one translated copy (made by
   copy_from after the clear, so without repetition) per offset but the first is appended *)
Definition clear_rep (e : element) : element := El (e_payload e) (e_tag e) None.
Definition rep_copies (e : element) : list element :=
  match e_rep e with
  | None => []
  | Some l => map (fun o => El (shift o (e_payload e)) (e_tag e) None) l
  end.

Definition tag_match (flt : option N) (e : element) : bool :=
  match flt with None => true | Some t => N.eqb (e_tag e) t end.

(* first part of Cell::get_X: copy the (matching) elements, then if (apply_repetitions) run
   apply_repetition over result[start..finish) appending the copies behind them *)
Definition own_part (apply_repetitions : bool) (flt : option N) (c : celldef) : list element :=
  let own := filter (tag_match flt) (c_elems c) in
  if apply_repetitions then map clear_rep own ++ flat_map rep_copies own else own.

(* the placements a reference stands for: origin + offset for every offset *)
Definition ref_placements (r : reference) : list placement :=
  match r_rep r with
  | None => [r_place r]
  | Some l => r_place r :: map (fun o => placement_shift o (r_place r)) l
  end.

(* loop of Reference::get_X over the child's result: for each src, for each offset, a copy
   transformed by (magnification, x_reflection, rotation, origin + offset) *)
Definition ref_expand (r : reference) (child : list element) : list element :=
  flat_map (fun src => map (fun T => transform_elem T src) (ref_placements r)) child.

Definition next_depth (depth : Z) : Z := if (depth >? 0)%Z then (depth - 1)%Z else (-1)%Z.

Fixpoint sequence {A} (l : list (option A)) : option (list A) :=
  match l with
  | [] => Some []
  | None :: _ => None
  | Some a :: t => match sequence t with Some r => Some (a :: r) | None => None end
  end.

(* Cell::get_X(apply_repetitions, depth, filter, tag, result) *)
Fixpoint cell_get (fuel : nat) (ev : env) (apply_repetitions : bool) (depth : Z) (flt : option N)
         (c : celldef) : option (list element) :=
  match fuel with
  | O => None
  | S fuel' =>
      let own := own_part apply_repetitions flt c in
      if (depth =? 0)%Z then Some own
      else
        let sub := map (fun r =>
                          match lookup ev (r_target r) with
                          | None => Some []              (* type != ReferenceType::Cell: return *)
                          | Some c' =>
                              match cell_get fuel' ev apply_repetitions (next_depth depth) flt c' with
                              | Some child => Some (ref_expand r child)
                              | None => None
                              end
                          end) (c_refs c) in
        match sequence sub with
        | Some ls => Some (own ++ concat ls)
        | None => None
        end
  end.

(* the same recursion on a natural depth (d levels of references are followed) *)
Fixpoint cell_get_d (d : nat) (ev : env) (apply_repetitions : bool) (flt : option N) (c : celldef)
  : list element :=
  own_part apply_repetitions flt c ++
  match d with
  | O => []
  | S d' => flat_map (fun r => match lookup ev (r_target r) with
                               | None => []
                               | Some c' => ref_expand r (cell_get_d d' ev apply_repetitions flt c')
                               end) (c_refs c)
  end.

(* Reference::get_X seen from the parent *)
Definition ref_get_d (d : nat) (ev : env) (apply_repetitions : bool) (flt : option N) (r : reference)
  : list element :=
  match lookup ev (r_target r) with
  | None => []
  | Some c' => ref_expand r (cell_get_d d ev apply_repetitions flt c')
  end.

(* every reference chain from c has at most n Cell-references *)
Fixpoint height_le (ev : env) (n : nat) (c : celldef) : Prop :=
  match n with
  | O => forall r, In r (c_refs c) -> lookup ev (r_target r) = None
  | S m => forall r c', In r (c_refs c) -> lookup ev (r_target r) = Some c' -> height_le ev m c'
  end.

(* ------------------------------------------------------------------ semantics *)
(* a placed shape: payload and tag *)
Definition shape : Type := (payload * N)%type.
Definition shape_of (e : element) : shape := (e_payload e, e_tag e).

(* an element with a repetition denotes itself and one translated copy per further offset *)
Definition elem_shapes (e : element) : list shape :=
  match e_rep e with
  | None => [shape_of e]
  | Some l => shape_of e :: map (fun o => (shift o (e_payload e), e_tag e)) l
  end.
Definition place_shape (T : placement) (s : shape) : shape := (apply T (fst s), snd s).

(* the geometry a cell denotes down to d levels of references: its own shapes plus, for every
   reference and every repetition offset of it, the placed denotation of the referenced cell *)
Fixpoint denote_d (d : nat) (ev : env) (c : celldef) : list shape :=
  flat_map elem_shapes (c_elems c) ++
  match d with
  | O => []
  | S d' => flat_map (fun r => match lookup ev (r_target r) with
                               | None => []
                               | Some c' => flat_map (fun T => map (place_shape T) (denote_d d' ev c'))
                                                     (ref_placements r)
                               end) (c_refs c)
  end.

(* what a list of returned elements describes (repetitions left attached are expanded) *)
Definition expand (l : list element) : list shape := flat_map elem_shapes l.

(* ------------------------------------------------------------------ Cell::flatten *)
Definition is_cell_ref (ev : env) (r : reference) : bool :=
  match lookup ev (r_target r) with Some _ => true | None => false end.

(* the while loop of Cell::flatten over reference_array with remove_unordered(i): a Cell
   reference at index i is replaced by the last entry (and i stays), another one is kept
   (i advances).  Returns (references in the order they are flattened, references kept). *)
Fixpoint flatten_loop (fuel : nat) (ev : env) (arr : list reference)
  : list reference * list reference :=
  match fuel with
  | O => ([], arr)
  | S fuel' =>
      match arr with
      | [] => ([], [])
      | r :: rest =>
          if is_cell_ref ev r then
            let arr' := match rest with [] => [] | _ => last rest r :: removelast rest end in
            let (vis, kept) := flatten_loop fuel' ev arr' in (r :: vis, kept)
          else
            let (vis, kept) := flatten_loop fuel' ev rest in (vis, r :: kept)
      end
  end.

(* Cell::flatten(apply_repetitions): ref->get_X(apply_repetitions, -1, false, 0, X_array) for the
   flattened references; n bounds the height of the cell *)
Definition flatten_d (n : nat) (ev : env) (apply_repetitions : bool) (c : celldef) : celldef :=
  let (vis, kept) := flatten_loop (length (c_refs c)) ev (c_refs c) in
  Cell (c_elems c ++ flat_map (ref_get_d n ev apply_repetitions None) vis) kept.

(* fuel version used for execution *)
Definition flatten_fuel (fuel : nat) (ev : env) (apply_repetitions : bool) (c : celldef) : option celldef :=
  let (vis, kept) := flatten_loop (length (c_refs c)) ev (c_refs c) in
  let sub := map (fun r =>
                    match lookup ev (r_target r) with
                    | None => Some []
                    | Some c' =>
                        match cell_get fuel ev apply_repetitions (-1) None c' with
                        | Some child => Some (ref_expand r child)
                        | None => None
                        end
                    end) vis in
  match sequence sub with
  | Some ls => Some (Cell (c_elems c ++ concat ls) kept)
  | None => None
  end.

End Hier.

Arguments El {payload}.
Arguments e_payload {payload}.
Arguments e_tag {payload}.
Arguments e_rep {payload}.
Arguments Ref : clear implicits.
Arguments Cell {payload}.
Arguments c_elems {payload}.
Arguments c_refs {payload}.

(* ------------------------------------------------------------------ the concrete payloads *)
(* polygon vertices; one FlexPath element (spine, its (half width, offset) list, end extensions,
   scale_width); one RobustPath element (trafo, width_scale, offset_scale, end extensions,
   scale_width); a label placement *)
Inductive gshape : Type :=
| SPoly (pts : polygon)
| SFlex (f : flexpath)
| SRobust (r : robustpath)
| SLabel (P : placement).

(* what the library does *)
Definition gshape_apply (T : placement) (s : gshape) : gshape :=
  match s with
  | SPoly p => SPoly (polyred (polygon_transform T p))
  | SFlex f => SFlex (fpred (flexpath_transform T f))
  | SRobust r => SRobust (rpred (rp_transform T r))
  | SLabel P => SLabel (plred (placement_transform T P))
  end.
Definition gshape_shift (v : Vec2) (s : gshape) : gshape :=
  match s with
  | SPoly p => SPoly (polyred (polygon_translate v p))
  | SFlex f => SFlex (fpred (flexpath_translate v f))
  | SRobust r => SRobust (rpred (rp_translate v r))
  | SLabel P => SLabel (plred (placement_shift v P))
  end.
(* polygons only (used for the statements about explicit matrix composition) *)
Definition poly_apply (T : placement) (p : polygon) : polygon := polygon_transform T p.
Definition poly_shift (v : Vec2) (p : polygon) : polygon := polygon_translate v p.
