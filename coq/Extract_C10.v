(* extraction of the C10 transform model (unit c10_transform); N.eqb only so that ocaml/conv.ml finds the type n *)
From Coq Require Import QArith NArith.
Require Import Affine.
Require Import Extraction ExtrOcamlBasic.
Extraction Blacklist List String Int.
Extraction "../ocaml/extracted/c10_transform.ml"
  polygon_apply_ops polygon_scale flexpath_apply_ops rp_apply_ops placement_apply_ops
  ops_map placements_map placement_map aff_apply aff_linear aff_compose
  rep_transform rep_offsets
  vred ared affred plred polyred fpred rpred repred grid Qred Qmake N.eqb.
