(* C15 — the sagitta bound behind arc_num_points (src/utils.cpp), over the reals.

     uint64_t arc_num_points(double angle, double radius, double tolerance) {
         double c = 1 - tolerance / radius;
         double a = c < -1 ? M_PI : acos(c);
         return (uint64_t)(0.5 + 0.5 * fabs(angle) / a);
     }
   Curve::arc (and ellipse, racetrack) use  num_points = 1 + arc_num_points(..), at least
   GDSTK_MIN_POINTS = 4, i.e.  max 3 (arc_num_points ..)  chords of equal angular width.

   Main result: with that many chords (or more), every point of a circular arc of radius r and
   span theta (any sign, any size) is within 4*tol of the chord of its own angular step.
   Also: the rational form of the NaN condition of the Bezier step rule. *)
From Coq Require Import Reals Lra Lia ZArith Psatz.
Local Open Scope R_scope.

(* ------------------------------------------------------------------ model of arc_num_points *)
Definition arc_half_angle (tol radius : R) : R :=
  let c := 1 - tol / radius in
  if Rlt_dec c (-1) then PI else acos c.

(* the cast (uint64_t) of a non-negative double truncates: Int_part is the floor *)
Definition arc_num_points (angle radius tol : R) : Z :=
  Int_part (/ 2 + / 2 * Rabs angle / arc_half_angle tol radius).

(* number of chords used by Curve::arc:  max(GDSTK_MIN_POINTS, 1 + arc_num_points) - 1 *)
Definition arc_segments (angle radius tol : R) : Z := Z.max 3 (arc_num_points angle radius tol).

(* ------------------------------------------------------------------ geometry *)
Definition pt2 : Type := (R * R)%type.
Definition arc_pt (cx cy r phi0 theta u : R) : pt2 :=
  (cx + r * cos (phi0 + u * theta), cy + r * sin (phi0 + u * theta)).
Definition seg_pt (a b : pt2) (l : R) : pt2 :=
  ((1 - l) * fst a + l * fst b, (1 - l) * snd a + l * snd b).
Definition dist2 (p q : pt2) : R := (fst p - fst q) * (fst p - fst q) + (snd p - snd q) * (snd p - snd q).

(* ------------------------------------------------------------------ the half angle *)
Lemma arc_half_angle_props tol r : 0 < r -> 0 < tol ->
  0 < arc_half_angle tol r <= PI /\ r * (1 - cos (arc_half_angle tol r)) <= tol.
Proof.
  intros Hr Ht. unfold arc_half_angle. cbv zeta.
  assert (Hq : 0 < tol / r) by (apply Rdiv_lt_0_compat; assumption).
  destruct (Rlt_dec (1 - tol / r) (-1)) as [Hc|Hc].
  - split; [split; [apply PI_RGT_0|lra]|].
    rewrite cos_PI.
    assert (2 < tol / r) by lra.
    assert (2 * r < tol).
    { apply Rmult_lt_compat_r with (r := r) in H; [|assumption].
      unfold Rdiv in H. rewrite Rmult_assoc, Rinv_l in H by lra. lra. }
    lra.
  - assert (Hb : -1 <= 1 - tol / r <= 1) by lra.
    pose proof (acos_bound (1 - tol / r)) as [Ha0 Ha1].
    pose proof (cos_acos _ Hb) as Hcos.
    split; [split; [|exact Ha1]|].
    + destruct (Req_dec (acos (1 - tol / r)) 0) as [E|E].
      * rewrite E, cos_0 in Hcos. lra.
      * lra.
    + rewrite Hcos. replace (1 - (1 - tol / r)) with (tol / r) by ring.
      unfold Rdiv. rewrite (Rmult_comm tol), <- Rmult_assoc, Rinv_r by lra. lra.
Qed.

(* core inequality *)
Lemma cos_double_bound a : 1 - cos (2 * a) <= 4 * (1 - cos a).
Proof. rewrite cos_2a_cos. pose proof (COS_bound a). nra. Qed.

Lemma cos_Rabs x : cos (Rabs x) = cos x.
Proof. unfold Rabs. destruct (Rcase_abs x); [apply cos_neg|reflexivity]. Qed.

(* the deviation formula: with the chord from angle m-d to m+d and the arc point at m+phi, the
   chord point of parameter l, (2l-1) sin d = sin phi, is the foot of the perpendicular and the
   distance is r (cos phi - cos d) -- at phi = 0 the sagitta r (1 - cos d) *)
Lemma chord_deviation_formula cx cy r m d phi l :
  (2 * l - 1) * sin d = sin phi ->
  dist2 (cx + r * cos (m + phi), cy + r * sin (m + phi))
        (seg_pt (cx + r * cos (m - d), cy + r * sin (m - d))
                (cx + r * cos (m + d), cy + r * sin (m + d)) l)
  = (r * (cos phi - cos d)) * (r * (cos phi - cos d)).
Proof.
  intros H. unfold dist2, seg_pt. cbn [fst snd].
  rewrite !cos_plus, !sin_plus, cos_minus, sin_minus. rewrite <- H.
  pose proof (sin2_cos2 m) as Hm. unfold Rsqr in Hm.
  transitivity (r * r * (cos phi - cos d) * (cos phi - cos d) * (sin m * sin m + cos m * cos m)).
  - ring.
  - rewrite Hm. ring.
Qed.

(* choosing the chord under the parameter u *)
Lemma pick_segment (n : Z) (u : R) : (1 <= n)%Z -> 0 <= u <= 1 ->
  exists k : Z, (0 <= k < n)%Z /\ IZR k <= u * IZR n <= IZR k + 1.
Proof.
  intros Hn [Hu0 Hu1].
  assert (HN : 1 <= IZR n) by (apply IZR_le; assumption).
  set (x := u * IZR n).
  assert (Hx : 0 <= x <= IZR n) by (unfold x; split; nra).
  destruct (base_Int_part x) as [Hk1 Hk2].
  set (k0 := Int_part x) in *.
  assert (Hk0 : (0 <= k0)%Z).
  { apply le_IZR. assert (-1 < IZR k0) by lra.
    apply lt_IZR in H. apply IZR_le. lia. }
  destruct (Z_lt_le_dec k0 n) as [Hlt|Hge].
  - exists k0. split; [lia|]. fold x. lra.
  - exists (n - 1)%Z. split; [lia|]. fold x.
    assert (IZR n <= IZR k0) by (apply IZR_le; assumption).
    rewrite minus_IZR. lra.
Qed.

(* two points of the unit circle are at most 2 apart *)
Lemma circle_points_close cx cy r al be : 0 <= r ->
  dist2 (cx + r * cos al, cy + r * sin al) (cx + r * cos be, cy + r * sin be) <= (2 * r) * (2 * r).
Proof.
  intros Hr. unfold dist2. cbn [fst snd].
  pose proof (sin2_cos2 al) as Ha. pose proof (sin2_cos2 be) as Hb. unfold Rsqr in *.
  replace ((cx + r * cos al - (cx + r * cos be)) * (cx + r * cos al - (cx + r * cos be)) +
           (cy + r * sin al - (cy + r * sin be)) * (cy + r * sin al - (cy + r * sin be)))
    with (r * r * ((sin al * sin al + cos al * cos al) + (sin be * sin be + cos be * cos be)
                   - 2 * (cos al * cos be + sin al * sin be))) by ring.
  rewrite Ha, Hb.
  assert (-1 <= cos al * cos be + sin al * sin be).
  { rewrite <- cos_minus. apply COS_bound. }
  nra.
Qed.

(* ------------------------------------------------------------------ main theorem *)
Theorem arc_sagitta_bound_lemma : forall (r tol theta cx cy phi0 u : R) (n : Z),
  0 < r -> 0 < tol -> 0 <= u <= 1 -> (arc_segments theta r tol <= n)%Z ->
  exists k : Z, (0 <= k < n)%Z /\ exists l : R, 0 <= l <= 1 /\
    dist2 (arc_pt cx cy r phi0 theta u)
          (seg_pt (arc_pt cx cy r phi0 theta (IZR k / IZR n))
                  (arc_pt cx cy r phi0 theta (IZR (k + 1) / IZR n)) l)
    <= (4 * tol) * (4 * tol).
Proof.
  intros r tol theta cx cy phi0 u n Hr Ht Hu Hn.
  destruct (arc_half_angle_props tol r Hr Ht) as [[Ha0 Ha1] Hatol].
  set (a := arc_half_angle tol r) in *.
  (* n >= 3 and n > |theta|/(2a) - 1/2 *)
  assert (Hn3 : (3 <= n)%Z) by (unfold arc_segments in Hn; lia).
  assert (HnN : (arc_num_points theta r tol <= n)%Z) by (unfold arc_segments in Hn; lia).
  set (N := IZR n).
  assert (HN3 : 3 <= N) by (apply IZR_le in Hn3; exact Hn3).
  assert (Hstep : 3 * Rabs theta < 7 * a * N).
  { unfold arc_num_points in HnN. fold a in HnN.
    destruct (base_Int_part (/ 2 + / 2 * Rabs theta / a)) as [_ Hb].
    apply IZR_le in HnN. fold N in HnN.
    assert (Hq : / 2 * Rabs theta / a < N + / 2) by lra.
    assert (Hq2 : / 2 * Rabs theta < (N + / 2) * a).
    { apply Rmult_lt_compat_r with (r := a) in Hq; [|assumption].
      unfold Rdiv in Hq. rewrite Rmult_assoc, Rinv_l in Hq by lra. lra. }
    nra. }
  destruct (pick_segment n u ltac:(lia) Hu) as (k & Hk & Hku). fold N in Hku.
  exists k. split; [exact Hk|].
  assert (HNpos : 0 < N) by lra.
  assert (HNinv : 0 < / N) by (apply Rinv_0_lt_compat; assumption).
  (* angles *)
  set (m := phi0 + (IZR k + / 2) / N * theta).
  set (dl := theta / (2 * N)).
  set (phi := (u - (IZR k + / 2) / N) * theta).
  assert (E0 : phi0 + u * theta = m + phi) by (unfold m, phi; ring).
  assert (E1 : phi0 + IZR k / N * theta = m - dl) by (unfold m, dl; field; lra).
  assert (E2 : phi0 + IZR (k + 1) / N * theta = m + dl)
    by (rewrite plus_IZR; unfold m, dl; field; lra).
  unfold arc_pt. rewrite E0, E1, E2.
  assert (Hdl : Rabs dl = Rabs theta / (2 * N)).
  { unfold dl, Rdiv. rewrite Rabs_mult. f_equal. apply Rabs_pos_eq.
    apply Rlt_le, Rinv_0_lt_compat. lra. }
  assert (Hphi : Rabs phi <= Rabs dl).
  { rewrite Hdl. unfold phi. rewrite Rabs_mult.
    assert (Rabs (u - (IZR k + / 2) / N) <= / (2 * N)).
    { assert (E : u - (IZR k + / 2) / N = (u * N - IZR k - / 2) / N) by (field; lra).
      rewrite E. unfold Rdiv. rewrite Rabs_mult, (Rabs_pos_eq (/ N)) by lra.
      rewrite Rinv_mult.
      assert (Rabs (u * N - IZR k - / 2) <= / 2) by (apply Rabs_le; lra).
      nra. }
    unfold Rdiv. rewrite (Rmult_comm (Rabs theta)).
    apply Rmult_le_compat_r; [apply Rabs_pos|assumption]. }
  assert (Hd7 : 6 * Rabs dl < 7 * a).
  { rewrite Hdl. unfold Rdiv. rewrite Rinv_mult.
    assert (Rabs theta * / N < 7 * a / 3).
    { apply Rmult_lt_reg_r with (r := N); [assumption|].
      rewrite Rmult_assoc, Rinv_l by lra. lra. }
    lra. }
  destruct (Rle_dec (PI / 3) a) as [Hbig|Hsmall].
  - (* coarse tolerance: 4 tol >= 2 r, any vertex will do *)
    exists 0. split; [lra|].
    assert (Hcos : cos a <= 1 / 2).
    { rewrite <- cos_PI3. pose proof PI_RGT_0. apply cos_decr_1; lra. }
    assert (H2r : 2 * r <= 4 * tol) by nra.
    replace (seg_pt (cx + r * cos (m - dl), cy + r * sin (m - dl))
                    (cx + r * cos (m + dl), cy + r * sin (m + dl)) 0)
      with (cx + r * cos (m - dl), cy + r * sin (m - dl))
      by (unfold seg_pt; cbn [fst snd]; f_equal; ring).
    eapply Rle_trans; [apply circle_points_close; lra|].
    apply Rmult_le_compat; lra.
  - (* fine tolerance: the step is below a quarter turn and the foot of the perpendicular lies
       on the chord *)
    assert (Hsm : a < PI / 3) by lra. clear Hsmall.
    pose proof PI_RGT_0 as Hpi.
    assert (Hdq : Rabs dl < PI / 2) by lra.
    assert (Hcphi : cos dl <= cos phi).
    { rewrite <- (cos_Rabs dl), <- (cos_Rabs phi).
      apply cos_decr_1; try (apply Rabs_pos); lra. }
    assert (Hcd0 : 0 <= cos dl).
    { rewrite <- (cos_Rabs dl). apply cos_ge_0; [pose proof (Rabs_pos dl); lra|lra]. }
    assert (Hdev : r * (cos phi - cos dl) <= 4 * tol).
    { assert (Hc2 : cos (2 * a) <= cos dl).
      { rewrite <- (cos_Rabs dl). apply cos_decr_1; try (apply Rabs_pos); lra. }
      pose proof (cos_double_bound a) as Hdb.
      pose proof (COS_bound phi) as [_ Hp1].
      assert (cos phi - cos dl <= 4 * (1 - cos a)) by lra.
      nra. }
    assert (Hdev0 : 0 <= r * (cos phi - cos dl)) by nra.
    destruct (Req_dec dl 0) as [Hz|Hnz].
    + (* zero span *)
      exists 0. split; [lra|].
      assert (Hp0 : phi = 0).
      { rewrite Hz, Rabs_R0 in Hphi. pose proof (Rabs_pos phi).
        destruct (Req_dec phi 0); [assumption|]. apply Rabs_pos_lt in H0. lra. }
      rewrite (chord_deviation_formula cx cy r m dl phi 0).
      * rewrite Hp0, Hz. replace (r * (cos 0 - cos 0)) with 0 by ring. nra.
      * rewrite Hp0, Hz, sin_0. ring.
    + assert (Hsd : sin dl <> 0).
      { destruct (Rlt_le_dec 0 dl) as [Hpos|Hneg].
        - assert (0 < sin dl); [|lra]. apply sin_gt_0; [assumption|].
          rewrite Rabs_pos_eq in Hdq by lra. lra.
        - assert (Hlt : dl < 0) by lra.
          assert (0 < sin (- dl)); [|rewrite sin_neg in H; lra].
          apply sin_gt_0; [lra|]. rewrite Rabs_left in Hdq by assumption. lra. }
      set (q := sin phi / sin dl).
      assert (Hq : q * sin dl = sin phi) by (unfold q; field; assumption).
      assert (Hq1 : -1 <= q <= 1).
      { pose proof (sin2_cos2 phi) as S1. pose proof (sin2_cos2 dl) as S2. unfold Rsqr in *.
        pose proof (COS_bound phi) as [_ Hp1].
        assert (Hss : sin phi * sin phi <= sin dl * sin dl) by nra.
        assert (Hsd2 : 0 < sin dl * sin dl) by nra.
        assert (Hqq : q * q <= 1).
        { rewrite <- Hq in Hss.
          replace (q * sin dl * (q * sin dl)) with (q * q * (sin dl * sin dl)) in Hss by ring.
          nra. }
        split; nra. }
      exists ((1 + q) / 2). split; [lra|].
      rewrite (chord_deviation_formula cx cy r m dl phi ((1 + q) / 2)).
      * apply Rmult_le_compat; lra.
      * rewrite <- Hq. field.
Qed.

(* the statement for the number of chords Curve::arc itself uses *)
Corollary arc_sagitta_bound_curve_arc : forall (r tol theta cx cy phi0 u : R),
  0 < r -> 0 < tol -> 0 <= u <= 1 ->
  let n := arc_segments theta r tol in
  exists k : Z, (0 <= k < n)%Z /\ exists l : R, 0 <= l <= 1 /\
    dist2 (arc_pt cx cy r phi0 theta u)
          (seg_pt (arc_pt cx cy r phi0 theta (IZR k / IZR n))
                  (arc_pt cx cy r phi0 theta (IZR (k + 1) / IZR n)) l)
    <= (4 * tol) * (4 * tol).
Proof. intros. apply arc_sagitta_bound_lemma; try assumption. unfold n. lia. Qed.

(* the hypotheses are satisfiable and the count is what the C++ returns on a simple input:
   a half turn of radius 1 at tolerance 1 (c = 0, a = pi/2): floor(1/2 + 1) = 1, so 3 chords *)
Example arc_num_points_example : arc_num_points PI 1 1 = 1%Z /\ arc_segments PI 1 1 = 3%Z.
Proof.
  assert (E : arc_num_points PI 1 1 = 1%Z).
  { unfold arc_num_points, arc_half_angle. cbv zeta.
    replace (1 - 1 / 1) with 0 by field.
    destruct (Rlt_dec 0 (-1)) as [H|H]; [lra|].
    rewrite acos_0. pose proof PI_RGT_0 as Hpi.
    rewrite (Rabs_pos_eq PI) by lra.
    replace (/ 2 + / 2 * PI / (PI / 2)) with (3 / 2) by (field; lra).
    unfold Int_part. replace (3 / 2) with (IZR 1 + / 2) by (simpl; lra).
    assert (up (IZR 1 + / 2) = 2%Z); [|lia].
    symmetry. apply (up_tech (IZR 1 + / 2) 1); simpl; lra. }
  split; [exact E|]. unfold arc_segments. rewrite E. reflexivity.
Qed.

(* ------------------------------------------------------------------ the Bezier step rule *)
(* append_cubic / append_quad / append_bezier:
       curvature = fabs(dc.cross(d2c)) / (len_dc * len_dc * len_dc);      len_dc = sqrt(|dc|^2)
       const double cos_half = 1 - curvature * tolerance;
       double angle = 2 * (cos_half < -1 ? M_PI : acos(cos_half));
   acos is defined on [-1, 1]; cos_half never exceeds 1; it is below -1 (the clamp branch) exactly
   when cross^2 * tol^2 > 4 * (|dc|^2)^3  -- the rational condition `step_rule_clamp_condition` of
   Bezier.v (n2 = |dc|^2 > 0, c = dc x d2c). *)
Theorem step_rule_rational_lemma : forall n2 c tol : R, 0 < n2 -> 0 < tol ->
  let len := sqrt n2 in
  let curvature := Rabs c / (len * len * len) in
  (1 - curvature * tol < -1 <-> 4 * (n2 * n2 * n2) < c * c * (tol * tol))
  /\ 1 - curvature * tol <= 1.
Proof.
  intros n2 c tol Hn Ht len curvature.
  assert (Hl : 0 < len) by (apply sqrt_lt_R0; assumption).
  assert (Hll : len * len = n2) by (apply sqrt_sqrt; lra).
  assert (Hl3 : 0 < len * len * len) by (repeat apply Rmult_lt_0_compat; assumption).
  assert (Hc : curvature * (len * len * len) = Rabs c) by (unfold curvature; field; lra).
  assert (Hk0 : 0 <= curvature).
  { unfold curvature. apply Rmult_le_pos; [apply Rabs_pos|].
    apply Rlt_le, Rinv_0_lt_compat; assumption. }
  assert (Hcc : c * c = Rabs c * Rabs c).
  { unfold Rabs. destruct (Rcase_abs c); ring. }
  assert (Hn3 : n2 * n2 * n2 = (len * len * len) * (len * len * len)) by (rewrite <- Hll; ring).
  split; [|nra].
  rewrite Hcc, Hn3, <- Hc.
  set (L3 := len * len * len) in *.
  set (x := curvature * tol).
  assert (Hy : 0 < L3 * L3) by (apply Rmult_lt_0_compat; assumption).
  assert (Hx0 : 0 <= x) by (unfold x; apply Rmult_le_pos; lra).
  replace (curvature * L3 * (curvature * L3) * (tol * tol)) with (x * x * (L3 * L3))
    by (unfold x; ring).
  split; intros H.
  - assert (H2 : 2 < x) by lra.
    assert (H4 : 4 < x * x) by nra.
    apply Rmult_lt_compat_r; assumption.
  - apply Rmult_lt_reg_r in H; [|assumption].
    assert (2 < x); [|lra].
    destruct (Rlt_le_dec 2 x) as [G|G]; [assumption|]. exfalso. nra.
Qed.

(* the step angle as the C++ computes it since fix 66f871b *)
Definition step_angle (curvature tol : R) : R :=
  let c := 1 - curvature * tol in
  2 * (if Rlt_dec c (-1) then PI else acos c).

(* the step is always defined: whenever acos is evaluated its argument lies in [-1, 1]; the angle
   lies in [0, 2 pi] and is positive as soon as curvature * tol > 0, so dt = angle / (curvature *
   len_dc) is a finite positive number (no NaN step: F11 closed) *)
Theorem step_rule_defined_lemma : forall curvature tol : R, 0 <= curvature -> 0 <= tol ->
  let c := 1 - curvature * tol in
  (~ c < -1 -> -1 <= c <= 1)
  /\ 0 <= step_angle curvature tol <= 2 * PI
  /\ (0 < curvature * tol -> 0 < step_angle curvature tol).
Proof.
  intros k tol Hk Ht c.
  assert (Hkt : 0 <= k * tol) by (apply Rmult_le_pos; assumption).
  pose proof PI_RGT_0 as Hpi.
  split; [intros Hc; unfold c in *; lra|].
  unfold step_angle. fold c.
  destruct (Rlt_dec c (-1)) as [Hc|Hc].
  - split; [lra|]. intros _. lra.
  - pose proof (acos_bound c) as [A0 A1].
    split; [lra|]. intros Hpos.
    assert (Hb : -1 <= c <= 1) by (unfold c in *; lra).
    destruct (Req_dec (acos c) 0) as [E|E]; [|lra].
    pose proof (cos_acos c Hb) as Hcos. rewrite E, cos_0 in Hcos. unfold c in Hcos. lra.
Qed.

Lemma Rabs_le_inv' a b : Rabs a <= b -> - b <= a <= b.
Proof. unfold Rabs. destruct (Rcase_abs a); lra. Qed.

(* the two-point acceptance test of append_cubic bounds a cubic piece: the signed distance to the
   chord line is a cubic polynomial s(1-s)(al + be s) of the normalised parameter; if it is at
   most tol in absolute value at s = 1/2 ("mid") and s = 1/3 ("extra") it is below 3.2 tol on
   [0,1].  With A = d(1/2), B = d(1/3):  be = 24 A - 27 B,  al = -8 A + 27/2 B. *)
Theorem cubic_two_point_bound_lemma : forall al be tol s : R,
  0 <= s <= 1 ->
  Rabs ((/ 2) * (1 - / 2) * (al + be * / 2)) <= tol ->
  Rabs ((/ 3) * (1 - / 3) * (al + be * / 3)) <= tol ->
  Rabs (s * (1 - s) * (al + be * s)) <= (16 / 5) * tol.
Proof.
  intros al be tol s Hs HA HB.
  set (A := / 2 * (1 - / 2) * (al + be * / 2)) in *.
  set (B := / 3 * (1 - / 3) * (al + be * / 3)) in *.
  assert (Ebe : be = 24 * A - 27 * B) by (unfold A, B; field).
  assert (Eal : al = -8 * A + 27 / 2 * B) by (unfold A, B; field).
  apply Rabs_le_inv' in HA. apply Rabs_le_inv' in HB.
  assert (E : s * (1 - s) * (al + be * s)
              = A * (s * (1 - s) * (24 * s - 8)) + B * (s * (1 - s) * (27 / 2 - 27 * s))).
  { rewrite Ebe, Eal. ring. }
  rewrite E.
  set (f := s * (1 - s) * (24 * s - 8)). set (g := s * (1 - s) * (27 / 2 - 27 * s)).
  assert (Ht : 0 <= tol) by lra.
  (* |A f + B g| <= tol (|f| + |g|), and |f| + |g| <= 16/5 on [0,1] *)
  assert (Hfg : Rabs f + Rabs g <= 16 / 5).
  { unfold f, g.
    assert (H0 : 0 <= s * (1 - s)) by nra.
    rewrite (Rabs_mult (s * (1 - s)) (24 * s - 8)), (Rabs_mult (s * (1 - s)) (27 / 2 - 27 * s)),
      (Rabs_pos_eq (s * (1 - s))) by assumption.
    unfold Rabs. destruct (Rcase_abs (24 * s - 8)); destruct (Rcase_abs (27 / 2 - 27 * s)).
    - (* s < 1/3 and s > 1/2: impossible *) lra.
    - (* s < 1/3 *) nra.
    - (* s > 1/2: s(1-s)(51 s - 21.5) *)
      assert (s * (1 - s) * (51 * s - 43 / 2) <= 16 / 5); [|nra].
      pose proof (Rle_0_sqr (s - 42 / 55)) as Q1. unfold Rsqr in Q1.
      assert (Q2 : 0 <= 51 * s + 593 / 110) by lra.
      pose proof (Rmult_le_pos _ _ Q1 Q2) as Q.
      nra.
    - (* 1/3 <= s <= 1/2 *) nra. }
  assert (Rabs (A * f + B * g) <= tol * (Rabs f + Rabs g)).
  { eapply Rle_trans; [apply Rabs_triang|]. rewrite !Rabs_mult.
    assert (Rabs A <= tol) by (apply Rabs_le; lra).
    assert (Rabs B <= tol) by (apply Rabs_le; lra).
    pose proof (Rabs_pos f). pose proof (Rabs_pos g). nra. }
  nra.
Qed.
