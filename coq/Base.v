(* Base definitions shared by the models: outcome type, bytes *)
From Coq Require Export List NArith ZArith Bool Lia.
Export ListNotations.

Inductive outcome (A : Type) : Type :=
| Ok (a : A)
| ErrEof            (* short read: ErrorCode::InputFileError *)
| ErrOverflow       (* ErrorCode::Overflow *)
| ErrInvalid        (* ErrorCode::InvalidFile *)
| Crash             (* the C++ dereferences NULL / reads out of bounds here *)
| Hang.             (* the C++ loop does not terminate here *)
Arguments Ok {A} a.
Arguments ErrEof {A}.
Arguments ErrOverflow {A}.
Arguments ErrInvalid {A}.
Arguments Crash {A}.
Arguments Hang {A}.

Definition obind {A B} (x : outcome A) (f : A -> outcome B) : outcome B :=
  match x with
  | Ok a => f a
  | ErrEof => ErrEof | ErrOverflow => ErrOverflow | ErrInvalid => ErrInvalid
  | Crash => Crash | Hang => Hang
  end.

Definition byte := N.
Definition is_byte (b : N) : Prop := (b < 256)%N.
Definition bytes_ok (l : list N) : Prop := Forall is_byte l.
