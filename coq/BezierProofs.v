(* C15 — proofs about the rational model in Bezier.v *)
From Coq Require Import QArith Qround ZArith List Lia Bool Psatz.
Require Import Bezier.
Import ListNotations.
Local Open Scope Q_scope.

(* ================================================================== de Casteljau = Bernstein *)
Lemma lerpQ_eq t a b : lerpQ t a b == (1 - t) * a + t * b.
Proof. unfold lerpQ. apply Qred_correct. Qed.

Lemma dc_step_length t l : length (dc_step t l) = (length l - 1)%nat.
Proof.
  induction l as [|a l IH]; [reflexivity|].
  destruct l as [|b r]; [reflexivity|].
  change (dc_step t (a :: b :: r)) with (lerpQ t a b :: dc_step t (b :: r)).
  cbn [length] in *. rewrite IH. lia.
Qed.

Lemma binom_gt n : forall k, (n < k)%nat -> binom n k = 0%nat.
Proof.
  induction n as [|n IH]; intros k Hk.
  - destruct k; [lia|reflexivity].
  - destruct k; [lia|]. cbn [binom]. rewrite !IH by lia. reflexivity.
Qed.

Lemma bern_gt n i t : (n < i)%nat -> bern n i t == 0.
Proof. intros H. unfold bern. rewrite binom_gt by assumption. cbn. ring. Qed.

Lemma bern_0_0 t : bern 0 0 t == 1.
Proof. unfold bern. cbn. ring. Qed.

Lemma inject_nat_add a b :
  inject_Z (Z.of_nat (a + b)) == inject_Z (Z.of_nat a) + inject_Z (Z.of_nat b).
Proof. rewrite Nat2Z.inj_add, inject_Z_plus. reflexivity. Qed.

Lemma bern_pascal n i t : bern (S n) (S i) t == (1 - t) * bern n (S i) t + t * bern n i t.
Proof.
  unfold bern. cbn [binom]. rewrite inject_nat_add.
  destruct (Nat.lt_ge_cases i n) as [H|H].
  - replace (S n - S i)%nat with (S (n - S i)) by lia.
    replace (n - i)%nat with (S (n - S i)) by lia.
    cbn [qpow]. ring.
  - rewrite (binom_gt n (S i)) by lia.
    replace (S n - S i)%nat with 0%nat by lia.
    replace (n - i)%nat with 0%nat by lia.
    replace (n - S i)%nat with 0%nat by lia.
    cbn [qpow]. change (inject_Z (Z.of_nat 0)) with 0. ring.
Qed.

Lemma bern_pascal_0 n t : bern (S n) 0 t == (1 - t) * bern n 0 t.
Proof.
  unfold bern. replace (binom (S n) 0) with 1%nat by reflexivity.
  replace (binom n 0) with 1%nat by (destruct n; reflexivity).
  replace (S n - 0)%nat with (S (n - 0)) by lia. cbn [qpow]. ring.
Qed.

Lemma bsum_pascal n t : forall l i,
  bsum (S n) (S i) t l == (1 - t) * bsum n (S i) t l + t * bsum n i t l.
Proof.
  induction l as [|a l IH]; intros i; cbn [bsum]; [ring|].
  rewrite IH, bern_pascal. ring.
Qed.

Lemma bsum_dc_step n t : forall l a i,
  bsum n i t (dc_step t (a :: l)) + (1 - t) * bern n (i + length l) t * last (a :: l) 0
  == (1 - t) * bsum n i t (a :: l) + t * bsum n i t l.
Proof.
  induction l as [|b r IH]; intros a i.
  - cbn [dc_step bsum length last]. rewrite Nat.add_0_r. ring.
  - change (dc_step t (a :: b :: r)) with (lerpQ t a b :: dc_step t (b :: r)).
    change (last (a :: b :: r) 0) with (last (b :: r) 0).
    specialize (IH b (S i)).
    cbn [bsum] in *. cbn [length]. rewrite lerpQ_eq.
    replace (i + S (length r))%nat with (S i + length r)%nat by lia.
    (* move everything to one side using IH *)
    assert (E : bsum n (S i) t (dc_step t (b :: r))
                == (1 - t) * (bern n (S i) t * b + bsum n (S (S i)) t r) + t * bsum n (S i) t r
                   - (1 - t) * bern n (S i + length r) t * last (b :: r) 0).
    { rewrite <- IH. ring. }
    rewrite E. ring.
Qed.

Lemma bsum_degree_step n t l :
  length l = S (S n) -> bsum n 0 t (dc_step t l) == bsum (S n) 0 t l.
Proof.
  intros Hl. destruct l as [|a l']; [discriminate|].
  cbn [length] in Hl.
  pose proof (bsum_dc_step n t l' a 0) as H. cbn [Nat.add] in H.
  rewrite (bern_gt n (length l')) in H by lia.
  cbn [bsum]. rewrite bsum_pascal, bern_pascal_0.
  cbn [bsum] in H.
  assert (E : bsum n 0 t (dc_step t (a :: l'))
              == (1 - t) * (bern n 0 t * a + bsum n 1 t l') + t * bsum n 0 t l').
  { rewrite <- H. ring. }
  rewrite E. ring.
Qed.

Lemma dc_iter_bsum t : forall n l, length l = S n -> dc_iter (S n) t l == bsum n 0 t l.
Proof.
  induction n as [|n IH]; intros l Hl.
  - destruct l as [|a [|b r]]; try discriminate.
    cbn [dc_iter bsum]. rewrite bern_0_0. ring.
  - destruct l as [|a [|b r]]; try discriminate.
    change (dc_iter (S (S n)) t (a :: b :: r)) with (dc_iter (S n) t (dc_step t (a :: b :: r))).
    rewrite IH.
    + apply bsum_degree_step. exact Hl.
    + rewrite dc_step_length, Hl. lia.
Qed.

Lemma decasteljau1_bernstein1 t l : l <> [] -> decasteljau1 t l == bernstein1 t l.
Proof.
  intros Hl. unfold decasteljau1, bernstein1.
  destruct l as [|a l']; [congruence|].
  cbn [length]. replace (S (length l') - 1)%nat with (length l') by lia.
  apply dc_iter_bsum. reflexivity.
Qed.

(* main result 1: the evaluation the C++ performs (repeated linear interpolation) is the Bernstein
   polynomial sum_i C(n,i) t^i (1-t)^(n-i) P_i, for every parameter and every control polygon *)
Theorem decasteljau_is_bernstein_lemma : forall (t : Q) (l : list pt),
  l <> [] -> pteq (decasteljau t l) (bernstein t l).
Proof.
  intros t l Hl. unfold pteq, decasteljau, bernstein. cbn [fst snd].
  split; apply decasteljau1_bernstein1; destruct l; cbn; congruence.
Qed.

(* ================================================================== end points *)
Lemma dc_step_0_hd l : l <> [] -> (2 <= length l)%nat -> hd 0 (dc_step 0 l) == hd 0 l.
Proof.
  intros _ H. destruct l as [|a [|b r]]; cbn [length] in H; try lia.
  change (dc_step 0 (a :: b :: r)) with (lerpQ 0 a b :: dc_step 0 (b :: r)).
  cbn [hd]. rewrite lerpQ_eq. ring.
Qed.

Lemma dc_iter_0 : forall n l, length l = S n -> dc_iter (S n) 0 l == hd 0 l.
Proof.
  induction n as [|n IH]; intros l Hl.
  - destruct l as [|a [|b r]]; try discriminate. reflexivity.
  - destruct l as [|a [|b r]]; try discriminate.
    change (dc_iter (S (S n)) 0 (a :: b :: r)) with (dc_iter (S n) 0 (dc_step 0 (a :: b :: r))).
    rewrite IH by (rewrite dc_step_length, Hl; lia).
    apply dc_step_0_hd; [discriminate|cbn [length]; lia].
Qed.

Lemma dc_step_1_last : forall l, (2 <= length l)%nat -> last (dc_step 1 l) 0 == last l 0.
Proof.
  induction l as [|a l IH]; intros H; [cbn in H; lia|].
  destruct l as [|b r]; [cbn in H; lia|].
  change (dc_step 1 (a :: b :: r)) with (lerpQ 1 a b :: dc_step 1 (b :: r)).
  destruct r as [|c r'].
  - cbn [dc_step last]. rewrite lerpQ_eq. ring.
  - change (last (a :: b :: c :: r') 0) with (last (b :: c :: r') 0).
    rewrite <- IH by (cbn [length]; lia).
    change (dc_step 1 (b :: c :: r')) with (lerpQ 1 b c :: dc_step 1 (c :: r')).
    reflexivity.
Qed.

Lemma dc_iter_1 : forall n l, length l = S n -> dc_iter (S n) 1 l == last l 0.
Proof.
  induction n as [|n IH]; intros l Hl.
  - destruct l as [|a [|b r]]; try discriminate. reflexivity.
  - destruct l as [|a [|b r]]; try discriminate.
    change (dc_iter (S (S n)) 1 (a :: b :: r)) with (dc_iter (S n) 1 (dc_step 1 (a :: b :: r))).
    rewrite IH by (rewrite dc_step_length, Hl; lia).
    apply dc_step_1_last. cbn [length]; lia.
Qed.

Lemma hd_map_fst (l : list pt) : hd 0 (map fst l) = fst (hd pzero l).
Proof. destruct l; reflexivity. Qed.
Lemma hd_map_snd (l : list pt) : hd 0 (map snd l) = snd (hd pzero l).
Proof. destruct l; reflexivity. Qed.
Lemma last_map_fst : forall (l : list pt), last (map fst l) 0 = fst (last l pzero).
Proof. induction l as [|a [|b r] IH]; try reflexivity. exact IH. Qed.
Lemma last_map_snd : forall (l : list pt), last (map snd l) 0 = snd (last l pzero).
Proof. induction l as [|a [|b r] IH]; try reflexivity. exact IH. Qed.

(* main result 2: t = 0 gives the first control point, t = 1 the last one *)
Theorem bezier_endpoints_lemma : forall (l : list pt), l <> [] ->
  pteq (decasteljau 0 l) (hd pzero l) /\ pteq (decasteljau 1 l) (last l pzero).
Proof.
  intros l Hl. destruct l as [|a l']; [congruence|].
  unfold pteq, decasteljau, decasteljau1. cbn [fst snd].
  rewrite !map_length. cbn [length].
  repeat split.
  - rewrite dc_iter_0 by (rewrite map_length; reflexivity). rewrite hd_map_fst. reflexivity.
  - rewrite dc_iter_0 by (rewrite map_length; reflexivity). rewrite hd_map_snd. reflexivity.
  - rewrite dc_iter_1 by (rewrite map_length; reflexivity). rewrite last_map_fst. reflexivity.
  - rewrite dc_iter_1 by (rewrite map_length; reflexivity). rewrite last_map_snd. reflexivity.
Qed.

(* ================================================================== section bookkeeping *)
Definition dsec : section := SLine pzero pzero.

Lemma list_ind3 (P : list pt -> Prop) :
  P [] -> (forall a, P [a]) -> (forall a b, P [a; b]) ->
  (forall a b c tl, P tl -> P (a :: b :: c :: tl)) -> forall l, P l.
Proof.
  intros H0 H1 H2 H3. fix IH 1.
  intros [|a [|b [|c tl]]]; [exact H0|apply H1|apply H2|apply H3; apply IH].
Qed.

Lemma list_ind2 (P : list pt -> Prop) :
  P [] -> (forall a, P [a]) -> (forall a b tl, P tl -> P (a :: b :: tl)) -> forall l, P l.
Proof.
  intros H0 H1 H2. fix IH 1.
  intros [|a [|b tl]]; [exact H0|apply H1|apply H2; apply IH].
Qed.

Lemma mod3_SSS n : (S (S (S n)) mod 3 = n mod 3)%nat.
Proof. replace (S (S (S n))) with (n + 1 * 3)%nat by lia. apply Nat.mod_add. lia. Qed.
Lemma mod2_SS n : (S (S n) mod 2 = n mod 2)%nat.
Proof. replace (S (S n)) with (n + 1 * 2)%nat by lia. apply Nat.mod_add. lia. Qed.

Lemma last_cons_ne {A} (a : A) l d : l <> [] -> last (a :: l) d = last l d.
Proof. destruct l; [congruence|reflexivity]. Qed.

(* what one call must achieve *)
Definition call_ok (st : cstate) (c : call) (st' : cstate) (secs : list section) : Prop :=
  chain (cur st) secs (cur st')
  /\ map sec_end secs = requested_ends st c
  /\ (is_arc c = false -> secs <> [] -> lctl st' = penult (sec_ctrl (last secs dsec)))
  /\ (is_smooth c = true -> smooth_chain (lctl st) secs)
  /\ (forall e v, c = CArc e v -> lctl st' = padd (cur st') v).

(* ---- segment arrays *)
Lemma seg_secs_ok rel ref : forall ps first r st',
  ps <> [] -> seg_secs rel ref first ps = (r, st') ->
  chain first r (cur st') /\ map sec_end r = map (off rel ref) ps /\ r <> []
  /\ lctl st' = penult (sec_ctrl (last r dsec)).
Proof.
  induction ps as [|p tl IH]; intros first r st' Hne H; [congruence|].
  destruct tl as [|q tl'].
  - cbn in H. inversion H; subst. cbn. repeat split; congruence.
  - change (seg_secs rel ref first (p :: q :: tl'))
      with (let e := off rel ref p in
            let (r0, st0) := seg_secs rel ref e (q :: tl') in (SLine first e :: r0, st0)) in H.
    cbv zeta in H.
    destruct (seg_secs rel ref (off rel ref p) (q :: tl')) as [r0 st0] eqn:E.
    inversion H; subst. clear H.
    edestruct IH as (Hc & He & Hn & Hl); [|exact E|]; [discriminate|].
    repeat split.
    + exact Hc.
    + cbn [map]. rewrite He. reflexivity.
    + discriminate.
    + rewrite last_cons_ne by assumption. exact Hl.
Qed.

(* ---- cubic *)
Lemma cubic_secs_ok rel ref : forall ps first r l,
  cubic_secs rel ref first ps = (r, l) ->
  chain first r l /\ map sec_end r = map (off rel ref) (every 3 2 ps).
Proof.
  induction ps as [| | |a b c tl IH] using list_ind3; intros first r l H;
    try (cbn in H; inversion H; subst; cbn; split; reflexivity).
  change (cubic_secs rel ref first (a :: b :: c :: tl))
    with (let e := off rel ref c in
          let (r0, l0) := cubic_secs rel ref e tl in
          (SBez [first; off rel ref a; off rel ref b; e] :: r0, l0)) in H.
  cbv zeta in H.
  destruct (cubic_secs rel ref (off rel ref c) tl) as [r0 l0] eqn:E.
  inversion H; subst; clear H.
  destruct (IH _ _ _ E) as [Hc He].
  split.
  - cbn [chain]. split; [reflexivity|exact Hc].
  - change (every 3 2 (a :: b :: c :: tl)) with (c :: every 3 2 tl).
    cbn [map]. rewrite He. reflexivity.
Qed.

Lemma cubic_secs_last rel ref : forall ps first r l,
  ps <> [] -> (length ps mod 3 = 0)%nat ->
  cubic_secs rel ref first ps = (r, l) ->
  r <> [] /\ penult (sec_ctrl (last r dsec)) = off rel ref (nth (length ps - 2) ps pzero).
Proof.
  induction ps as [| | |a b c tl IH] using list_ind3; intros first r l Hne Hm H;
    try congruence; try (cbn in Hm; discriminate).
  change (cubic_secs rel ref first (a :: b :: c :: tl))
    with (let e := off rel ref c in
          let (r0, l0) := cubic_secs rel ref e tl in
          (SBez [first; off rel ref a; off rel ref b; e] :: r0, l0)) in H.
  cbv zeta in H.
  destruct (cubic_secs rel ref (off rel ref c) tl) as [r0 l0] eqn:E.
  inversion H; subst; clear H.
  split; [discriminate|].
  cbn [length] in Hm. rewrite mod3_SSS in Hm.
  destruct tl as [|a' tl'].
  - cbn in E. inversion E; subst. reflexivity.
  - edestruct IH as [Hr Hp]; [|exact Hm|exact E|]; [discriminate|].
    rewrite last_cons_ne by assumption. rewrite Hp.
    destruct tl' as [|b' tl'']; [cbn in Hm; discriminate|].
    f_equal. cbn [length].
    replace (S (S (S (S (S (length tl''))))) - 2)%nat with (S (S (S (length tl'')))) by lia.
    replace (S (S (length tl'')) - 2)%nat with (length tl'') by lia.
    reflexivity.
Qed.

(* ---- quadratic *)
Lemma quad_secs_ok rel ref : forall ps first r l,
  quad_secs rel ref first ps = (r, l) ->
  chain first r l /\ map sec_end r = map (off rel ref) (every 2 1 ps).
Proof.
  induction ps as [| |a b tl IH] using list_ind2; intros first r l H;
    try (cbn in H; inversion H; subst; cbn; split; reflexivity).
  change (quad_secs rel ref first (a :: b :: tl))
    with (let e := off rel ref b in
          let (r0, l0) := quad_secs rel ref e tl in
          (SBez [first; off rel ref a; e] :: r0, l0)) in H.
  cbv zeta in H.
  destruct (quad_secs rel ref (off rel ref b) tl) as [r0 l0] eqn:E.
  inversion H; subst; clear H.
  destruct (IH _ _ _ E) as [Hc He].
  split.
  - cbn [chain]. split; [reflexivity|exact Hc].
  - change (every 2 1 (a :: b :: tl)) with (b :: every 2 1 tl).
    cbn [map]. rewrite He. reflexivity.
Qed.

Lemma quad_secs_last rel ref : forall ps first r l,
  ps <> [] -> (length ps mod 2 = 0)%nat ->
  quad_secs rel ref first ps = (r, l) ->
  r <> [] /\ penult (sec_ctrl (last r dsec)) = off rel ref (nth (length ps - 2) ps pzero).
Proof.
  induction ps as [| |a b tl IH] using list_ind2; intros first r l Hne Hm H;
    try congruence; try (cbn in Hm; discriminate).
  change (quad_secs rel ref first (a :: b :: tl))
    with (let e := off rel ref b in
          let (r0, l0) := quad_secs rel ref e tl in
          (SBez [first; off rel ref a; e] :: r0, l0)) in H.
  cbv zeta in H.
  destruct (quad_secs rel ref (off rel ref b) tl) as [r0 l0] eqn:E.
  inversion H; subst; clear H.
  split; [discriminate|].
  cbn [length] in Hm. rewrite mod2_SS in Hm.
  destruct tl as [|a' tl'].
  - cbn in E. inversion E; subst. reflexivity.
  - edestruct IH as [Hr Hp]; [|exact Hm|exact E|]; [discriminate|].
    rewrite last_cons_ne by assumption. rewrite Hp.
    destruct tl' as [|b' tl'']; [cbn in Hm; discriminate|].
    f_equal. cbn [length].
    replace (S (S (S (S (length tl'')))) - 2)%nat with (S (S (length tl''))) by lia.
    replace (S (S (length tl'')) - 2)%nat with (length tl'') by lia.
    reflexivity.
Qed.

(* ---- smooth cubic *)
Lemma cubic_smooth_secs_ok rel ref : forall ps st r st',
  cubic_smooth_secs rel ref st ps = (r, st') ->
  chain (cur st) r (cur st') /\ map sec_end r = map (off rel ref) (every 2 1 ps)
  /\ smooth_chain (lctl st) r
  /\ (r <> [] -> lctl st' = penult (sec_ctrl (last r dsec)))
  /\ (ps <> [] -> (length ps mod 2 = 0)%nat -> r <> []).
Proof.
  induction ps as [| |a b tl IH] using list_ind2; intros st r st' H;
    try (cbn in H; inversion H; subst; cbn; repeat split; try reflexivity; try congruence;
         intros _ Hm; cbn in Hm; discriminate).
  change (cubic_smooth_secs rel ref st (a :: b :: tl))
    with (let (r0, st0) := cubic_smooth_secs rel ref (mkst (off rel ref b) (off rel ref a)) tl in
          (SBez [cur st; reflect (cur st) (lctl st); off rel ref a; off rel ref b] :: r0, st0)) in H.
  destruct (cubic_smooth_secs rel ref (mkst (off rel ref b) (off rel ref a)) tl) as [r0 st0] eqn:E.
  inversion H; subst; clear H.
  destruct (IH _ _ _ E) as (Hc & He & Hs & Hl & _).
  cbn [cur lctl] in *.
  repeat split.
  - exact Hc.
  - change (every 2 1 (a :: b :: tl)) with (b :: every 2 1 tl). cbn [map]. rewrite He. reflexivity.
  - exact Hs.
  - intros _. destruct r0 as [|s0 r0'].
    + destruct tl as [|x [|y tl']]; cbn in E; inversion E; subst; try reflexivity.
      destruct (cubic_smooth_secs rel ref _ tl'); discriminate.
    + rewrite last_cons_ne by discriminate. apply Hl. discriminate.
  - discriminate.
Qed.

(* ---- smooth quadratic *)
Lemma quad_smooth_secs_ok rel ref : forall ps st r st',
  quad_smooth_secs rel ref st ps = (r, st') ->
  chain (cur st) r (cur st') /\ map sec_end r = map (off rel ref) ps
  /\ smooth_chain (lctl st) r
  /\ (r <> [] -> lctl st' = penult (sec_ctrl (last r dsec))).
Proof.
  induction ps as [|p tl IH]; intros st r st' H.
  - cbn in H. inversion H; subst. cbn. repeat split; congruence.
  - change (quad_smooth_secs rel ref st (p :: tl))
      with (let (r0, st0) := quad_smooth_secs rel ref
                               (mkst (off rel ref p) (reflect (cur st) (lctl st))) tl in
            (SBez [cur st; reflect (cur st) (lctl st); off rel ref p] :: r0, st0)) in H.
    destruct (quad_smooth_secs rel ref (mkst (off rel ref p) (reflect (cur st) (lctl st))) tl)
      as [r0 st0] eqn:E.
    inversion H; subst; clear H.
    destruct (IH _ _ _ E) as (Hc & He & Hs & Hl).
    cbn [cur lctl] in *.
    repeat split.
    + exact Hc.
    + cbn [map]. rewrite He. reflexivity.
    + exact Hs.
    + intros _. destruct r0 as [|s0 r0'].
      * destruct tl as [|x tl']; cbn in E.
        -- inversion E; subst. reflexivity.
        -- destruct (quad_smooth_secs rel ref _ tl'); discriminate.
      * rewrite last_cons_ne by discriminate. apply Hl. discriminate.
Qed.

(* ---- interpolation *)
Lemma interp_tmp_every : forall pts hob, length hob = length pts ->
  every 3 2 (interp_tmp pts hob) = pts
  /\ (length (interp_tmp pts hob) mod 3 = 0)%nat
  /\ (pts <> [] -> interp_tmp pts hob <> []).
Proof.
  induction pts as [|p tl IH]; intros hob Hl.
  - destruct hob; cbn; repeat split; congruence.
  - destruct hob as [|[ca cb] htl]; [discriminate|].
    cbn [length] in Hl. injection Hl as Hl.
    destruct (IH htl Hl) as (He & Hm & _).
    change (interp_tmp (p :: tl) ((ca, cb) :: htl)) with (ca :: cb :: p :: interp_tmp tl htl).
    repeat split.
    + change (every 3 2 (ca :: cb :: p :: interp_tmp tl htl)) with (p :: every 3 2 (interp_tmp tl htl)).
      rewrite He. reflexivity.
    + cbn [length]. rewrite mod3_SSS. exact Hm.
    + discriminate.
Qed.

Lemma map_off_false ref l : map (off false ref) l = l.
Proof. induction l as [|a l IH]; [reflexivity|]. cbn [map off]. rewrite IH. reflexivity. Qed.

Lemma chain_end_last : forall secs p q, secs <> [] -> chain p secs q -> sec_end (last secs dsec) = q.
Proof.
  induction secs as [|s tl IH]; intros p q Hne H; [congruence|].
  destruct tl as [|s' tl'].
  - cbn in H. destruct H as [_ H]. exact H.
  - destruct H as [_ H]. rewrite last_cons_ne by discriminate. eapply IH; [discriminate|exact H].
Qed.

Lemma last_cons_map (f : pt -> pt) x : forall ps, ps <> [] ->
  last (x :: map f ps) pzero = f (last ps pzero).
Proof.
  induction ps as [|p tl IH]; intros H; [congruence|].
  destruct tl as [|q tl']; [reflexivity|].
  change (last (x :: map f (p :: q :: tl')) pzero) with (last (x :: map f (q :: tl')) pzero).
  rewrite IH by discriminate. reflexivity.
Qed.

(* main result 3a: one call, any state *)
Theorem section_call_lemma : forall st c st' secs,
  wf_call c -> run_call st c = Some (st', secs) -> call_ok st c st' secs.
Proof.
  intros st c st' secs Hwf H. unfold call_ok.
  destruct c as [rel p|rel ps|rel x|rel xs|rel y|rel ys|rel ps|rel ps|rel ps|rel p|rel ps|rel ps
                 |rel cycle ps hob|e v]; cbn [run_call is_smooth is_arc requested_ends] in *.
  - (* segment *) inversion H; subst. cbn. repeat split; try congruence.
  - (* segments *)
    destruct ps as [|p tl]; [discriminate|].
    destruct (seg_secs rel (cur st) (cur st) (p :: tl)) as [r st0] eqn:E.
    inversion H; subst; clear H.
    edestruct seg_secs_ok as (Hc & He & Hn & Hl); [|exact E|]; [discriminate|].
    repeat split; auto; try (intros; discriminate).
  - (* horizontal *) inversion H; subst. cbn. repeat split; try congruence.
  - (* horizontals *)
    destruct xs as [|x tl]; [discriminate|].
    match type of H with context [seg_secs false ?r ?f ?l] =>
      destruct (seg_secs false r f l) as [r0 st0] eqn:E end.
    inversion H; subst; clear H.
    edestruct seg_secs_ok as (Hc & He & Hn & Hl); [|exact E|]; [discriminate|].
    rewrite map_off_false in He.
    repeat split; auto; try (intros; discriminate).
  - (* vertical *) inversion H; subst. cbn. repeat split; try congruence.
  - (* verticals *)
    destruct ys as [|y tl]; [discriminate|].
    match type of H with context [seg_secs false ?r ?f ?l] =>
      destruct (seg_secs false r f l) as [r0 st0] eqn:E end.
    inversion H; subst; clear H.
    edestruct seg_secs_ok as (Hc & He & Hn & Hl); [|exact E|]; [discriminate|].
    rewrite map_off_false in He.
    repeat split; auto; try (intros; discriminate).
  - (* cubic *)
    destruct Hwf as [Hne Hm].
    destruct (length ps <? 2)%nat; [discriminate|].
    destruct (cubic_secs rel (cur st) (cur st) ps) as [r l] eqn:E.
    inversion H; subst; clear H.
    destruct (cubic_secs_ok _ _ _ _ _ _ E) as [Hc He].
    destruct (cubic_secs_last _ _ _ _ _ _ Hne Hm E) as [Hn Hp].
    cbn [cur lctl]. repeat split; auto; try (intros; discriminate).
  - (* cubic_smooth *)
    destruct Hwf as [Hne Hm].
    destruct ps as [|p tl]; [discriminate|].
    destruct (cubic_smooth_secs rel (cur st) st (p :: tl)) as [r st0] eqn:E.
    inversion H; subst; clear H.
    destruct (cubic_smooth_secs_ok _ _ _ _ _ _ E) as (Hc & He & Hs & Hl & _).
    repeat split; auto; try (intros; discriminate).
  - (* quadratic *)
    destruct Hwf as [Hne Hm].
    destruct (length ps <? 2)%nat; [discriminate|].
    destruct (quad_secs rel (cur st) (cur st) ps) as [r l] eqn:E.
    inversion H; subst; clear H.
    destruct (quad_secs_ok _ _ _ _ _ _ E) as [Hc He].
    destruct (quad_secs_last _ _ _ _ _ _ Hne Hm E) as [Hn Hp].
    cbn [cur lctl]. repeat split; auto; try (intros; discriminate).
  - (* quadratic_smooth single *)
    inversion H; subst. cbn. repeat split; try congruence; try (destruct rel; reflexivity).
  - (* quadratic_smooth array *)
    destruct (quad_smooth_secs rel (cur st) st ps) as [r st0] eqn:E.
    inversion H; subst; clear H.
    destruct (quad_smooth_secs_ok _ _ _ _ _ _ E) as (Hc & He & Hs & Hl).
    repeat split; auto; try (intros; discriminate).
  - (* bezier *)
    cbn [wf_call] in Hwf.
    destruct (length ps <? 2)%nat eqn:El; [discriminate|].
    inversion H; subst; clear H. cbn [cur lctl chain map sec_end sec_start sec_ctrl hd].
    repeat split; try discriminate.
    + (* requested end *)
      f_equal. apply last_cons_map. destruct ps; [cbn in Hwf; lia|discriminate].
      (* last_ctrl = ctrl[count-2], relative or absolute: closed by `split` (convertible) *)
  - (* interpolation *)
    destruct Hwf as [Hlen Hne].
    set (pts := map (off rel (cur st)) ps ++ (if cycle then [cur st] else [])) in *.
    assert (Hlp : length hob = length pts).
    { unfold pts. rewrite app_length, map_length. destruct cycle; cbn [length]; lia. }
    rewrite Hlp, Nat.eqb_refl in H. cbn [negb orb] in H.
    destruct (length pts =? 0)%nat eqn:E0; [discriminate|].
    apply Nat.eqb_neq in E0.
    assert (Hpne : pts <> []) by (destruct pts; cbn in E0; congruence).
    destruct (interp_tmp_every pts hob Hlp) as (Hev & Hm & Htn).
    destruct (cubic_secs false (cur st) (cur st) (interp_tmp pts hob)) as [r l] eqn:E.
    inversion H; subst; clear H.
    destruct (cubic_secs_ok _ _ _ _ _ _ E) as [Hc He].
    destruct (cubic_secs_last _ _ _ _ _ _ (Htn Hpne) Hm E) as [Hn Hp].
    rewrite map_off_false, Hev in He. cbn [off] in Hp.
    cbn [cur lctl]. repeat split; auto; try (intros; discriminate).
  - (* arc *)
    inversion H; subst. cbn. repeat split; try congruence.
Qed.

(* requested end points along a sequence of calls *)
Fixpoint run_requested (st : cstate) (cs : list call) : list pt :=
  match cs with
  | [] => []
  | c :: tl => requested_ends st c ++
               match run_call st c with
               | Some (st1, _) => run_requested st1 tl
               | None => []
               end
  end.

Lemma chain_app : forall s1 p q s2 r, chain p s1 q -> chain q s2 r -> chain p (s1 ++ s2) r.
Proof.
  induction s1 as [|s tl IH]; intros p q s2 r H1 H2.
  - cbn in H1. subst. exact H2.
  - destruct H1 as [Hs H1]. cbn [app chain]. split; [exact Hs|]. eapply IH; eassumption.
Qed.

(* main result 3b: any sequence of well-formed calls from any state: the sections form one
   chain from the initial point (each starts where the previous one ended, the first at the
   current point) and the end points are exactly the requested ones, in order *)
Theorem section_endpoints_lemma : forall cs st st' secs,
  Forall wf_call cs -> run st cs = Some (st', secs) ->
  chain (cur st) secs (cur st') /\ map sec_end secs = run_requested st cs.
Proof.
  induction cs as [|c tl IH]; intros st st' secs Hwf H.
  - cbn in H. inversion H; subst. cbn. split; reflexivity.
  - inversion Hwf as [|? ? Hc Htl]; subst.
    cbn [run run_requested] in *.
    destruct (run_call st c) as [[st1 s1]|] eqn:E1; [|discriminate].
    destruct (run st1 tl) as [[st2 s2]|] eqn:E2; [|discriminate].
    inversion H; subst; clear H.
    destruct (section_call_lemma _ _ _ _ Hc E1) as (Hch & Hre & _).
    destruct (IH _ _ _ Htl E2) as [Hch2 Hre2].
    split.
    + eapply chain_app; eassumption.
    + rewrite map_app, Hre, Hre2. reflexivity.
Qed.

(* main result 3c: last_ctrl is what the next smooth section needs.  After any call other than an
   arc, a smooth call starts with the reflection, about the junction, of the
   penultimate control point of the section before it: c1 - c0 = e - penult, i.e. the tangent is
   continuous. *)
Theorem smooth_continuation_lemma : forall st c1 st1 s1 c2 st2 s2,
  wf_call c1 -> wf_call c2 -> is_arc c1 = false -> is_smooth c2 = true ->
  run_call st c1 = Some (st1, s1) -> run_call st1 c2 = Some (st2, s2) ->
  s1 <> [] -> s2 <> [] ->
  let prev := last s1 dsec in let next := hd dsec s2 in
  sec_start next = sec_end prev
  /\ nth 1 (sec_ctrl next) pzero = reflect (sec_end prev) (penult (sec_ctrl prev)).
Proof.
  intros st c1 st1 s1 c2 st2 s2 W1 W2 Ha Hs E1 E2 N1 N2 prev next.
  destruct (section_call_lemma _ _ _ _ W1 E1) as (Hc1 & _ & Hl1 & _).
  destruct (section_call_lemma _ _ _ _ W2 E2) as (Hc2 & _ & _ & Hs2 & _).
  specialize (Hl1 Ha N1). specialize (Hs2 Hs).
  pose proof (chain_end_last _ _ _ N1 Hc1) as He.
  destruct s2 as [|n tl]; [congruence|].
  cbn [hd] in next. subst next prev.
  destruct Hc2 as [Hst _]. destruct Hs2 as [Hr _].
  split.
  - rewrite Hst, He. reflexivity.
  - rewrite Hr, Hst, He, Hl1. reflexivity.
Qed.

(* with the curves themselves: every polynomial section evaluates to its start at t = 0 and to
   its end at t = 1 *)
Theorem section_curve_endpoints_lemma : forall s,
  pteq (sec_eval s 0) (sec_start s) /\ pteq (sec_eval s 1) (sec_end s) \/ sec_ctrl s = [].
Proof.
  intros s. destruct (sec_ctrl s) as [|a l] eqn:E; [right; reflexivity|left].
  unfold sec_eval, sec_start, sec_end. rewrite E.
  apply bezier_endpoints_lemma. discriminate.
Qed.

(* F17 (fixed by 7a14b8c): `Curve::bezier` stores ctrl[count-2], the absolute penultimate control
   point, in relative mode too: last_ctrl is what a following smooth section needs. *)
Theorem bezier_last_ctrl_relative_lemma : forall st ps st' secs,
  wf_call (CBezier true ps) -> run_call st (CBezier true ps) = Some (st', secs) ->
  secs <> [] /\ lctl st' = penult (sec_ctrl (last secs dsec)).
Proof.
  intros st ps st' secs W H.
  destruct (section_call_lemma _ _ _ _ W H) as (_ & _ & Hl & _).
  assert (N : secs <> []).
  { cbn [run_call] in H. destruct (length ps <? 2)%nat; [discriminate|]. inversion H. discriminate. }
  split; [exact N|]. apply Hl; [reflexivity|exact N].
Qed.

(* regression example: the input of the former defect.  From (100,100), bezier([(1,0);(2,1);(3,0)],
   relative) leaves last_ctrl = (102,101) (it was (2,1)). *)
Example bezier_last_ctrl_relative_example :
  exists st' secs,
    run_call (mkst (100, 100) (100, 100)) (CBezier true [(1, 0); (2, 1); (3, 0)]) = Some (st', secs)
    /\ lctl st' = (102, 101) /\ cur st' = (103, 100).
Proof. eexists. eexists. split; [vm_compute; reflexivity|]. split; reflexivity. Qed.

(* non-vacuity of the section theorems: a relative cubic, a smooth cubic, a smooth quadratic and an
   absolute general Bezier in sequence are well formed and run *)
Example section_sequence_example :
  let cs := [CCubic true [(1, 0); (1, 1); (2, 1)]; CCubicSmooth false [(4, 0); (5, 0)];
             CQuadSmooth true [(1, 1)]; CBezier false [(7, 2); (8, 2); (9, 0); (9, 1)]] in
  Forall wf_call cs /\
  exists st' secs, run (mkst (0, 0) (0, 0)) cs = Some (st', secs) /\ length secs = 4%nat
                   /\ cur st' = (9, 1) /\ lctl st' = (9, 0).
Proof.
  cbv zeta. split.
  - repeat constructor; cbn; try lia; try discriminate.
  - eexists. eexists. split; [vm_compute; reflexivity|]. repeat split.
Qed.

(* ================================================================== step rule *)
Lemma Qle_bool_false x y : Qle_bool x y = false <-> y < x.
Proof.
  split; intros H.
  - apply Qnot_le_lt. intros G. apply Qle_bool_iff in G. congruence.
  - destruct (Qle_bool x y) eqn:E; [|reflexivity].
    apply Qle_bool_iff in E. exfalso. eapply Qlt_not_le; eassumption.
Qed.

Theorem step_rule_clamp_b_lemma : forall dc d2c tol,
  step_rule_clamp_b dc d2c tol = true <-> step_rule_clamp_condition dc d2c tol.
Proof.
  intros dc d2c tol. unfold step_rule_clamp_b, step_rule_clamp_condition. cbv zeta.
  rewrite !andb_true_iff, !negb_true_iff, !Qle_bool_false, Qle_bool_iff. tauto.
Qed.

(* F11 (fixed by 66f871b).  Regression inputs of the former defect: at t = 1/2 of the hairpin
   (0,0) (1,0) (1,0.001) (0,0.001) with tolerance 0.01 (curvature * tolerance = 26667), and at
   t = 0 of a curve smaller than the tolerance whose control directions span less than a quarter
   turn, the step rule takes the clamp branch -- where the old code evaluated acos below -1 and
   appended a NaN vertex.  That the angle is defined in both branches for every input is
   step_rule_defined_lemma (ArcBound.v). *)
Example step_rule_clamp_regression_example :
  (exists ctrl tol t, length ctrl = 4%nat /\ 0 < tol /\ 0 <= t <= 1 /\
     step_rule_clamp_condition (decasteljau t (deriv1 ctrl)) (decasteljau t (deriv2 ctrl)) tol)
  /\ (exists ctrl tol, length ctrl = 4%nat /\ 0 < tol /\ ctrl_span_lt_quarter ctrl = true /\
     step_rule_clamp_condition (decasteljau 0 (deriv1 ctrl)) (decasteljau 0 (deriv2 ctrl)) tol).
Proof.
  split.
  - exists [(0, 0); (1, 0); (1, 1 # 1000); (0, 1 # 1000)], (1 # 100), (1 # 2).
    split; [reflexivity|]. split; [reflexivity|]. split; [split; discriminate|].
    apply step_rule_clamp_b_lemma. vm_compute. reflexivity.
  - exists [(0, 0); (1 # 1000, 0); (2 # 1000, 1 # 1000); (3 # 1000, 3 # 1000)], (1 # 100).
    split; [reflexivity|]. split; [reflexivity|]. split; [vm_compute; reflexivity|].
    apply step_rule_clamp_b_lemma. vm_compute. reflexivity.
Qed.

(* ================================================================== exact distance test *)
Local Open Scope Z_scope.

(* squared distance, scaled by m^2, from p to the point a + (n/m) (b - a) of the segment *)
Definition zlerp_dist2 (p a b : zpt) (n m : Z) : Z :=
  let x := m * (fst p - fst a) - n * (fst b - fst a) in
  let y := m * (snd p - snd a) - n * (snd b - snd a) in
  x * x + y * y.

Lemma lagrange w1 w2 d1 d2 :
  (w1 * w1 + w2 * w2) * (d1 * d1 + d2 * d2)
  = (w1 * d1 + w2 * d2) * (w1 * d1 + w2 * d2) + (w1 * d2 - w2 * d1) * (w1 * d2 - w2 * d1).
Proof. ring. Qed.

Lemma seg_case_a s m n L W r : s <= 0 -> 0 < m -> 0 <= n -> 0 <= L ->
  m * m * W - 2 * m * n * s + n * n * L < r * r * (m * m) -> W < r * r.
Proof.
  intros Hs Hm Hn HL H.
  assert (0 <= m * n) by (apply Z.mul_nonneg_nonneg; lia).
  assert (0 <= (m * n) * (- s)) by (apply Z.mul_nonneg_nonneg; lia).
  assert (0 <= n * n * L) by (apply Z.mul_nonneg_nonneg; [apply Z.square_nonneg|assumption]).
  assert (H3 : m * m * W < m * m * (r * r)) by lia.
  apply Z.mul_lt_mono_pos_l in H3; [assumption|]. apply Z.mul_pos_pos; assumption.
Qed.

Lemma seg_case_b s m n L W r : L <= s -> 0 < m -> 0 <= n <= m -> 0 <= L ->
  m * m * W - 2 * m * n * s + n * n * L < r * r * (m * m) -> W - 2 * s + L < r * r.
Proof.
  intros Hs Hm Hn HL H.
  assert (E : m * m * W - 2 * m * n * s + n * n * L - m * m * (W - 2 * s + L)
              = (m - n) * (2 * m * s - L * (m + n))) by ring.
  assert (0 <= 2 * m * s - L * (m + n)).
  { assert (L * (m + n) <= L * (2 * m)) by (apply Z.mul_le_mono_nonneg_l; lia).
    assert (m * L <= m * s) by (apply Z.mul_le_mono_nonneg_l; lia). lia. }
  assert (0 <= (m - n) * (2 * m * s - L * (m + n))) by (apply Z.mul_nonneg_nonneg; lia).
  assert (H3 : m * m * (W - 2 * s + L) < m * m * (r * r)) by lia.
  apply Z.mul_lt_mono_pos_l in H3; [assumption|]. apply Z.mul_pos_pos; assumption.
Qed.

Lemma seg_case_c s m n L W X r : W * L = s * s + X * X -> 0 < L -> 0 < m ->
  m * m * W - 2 * m * n * s + n * n * L < r * r * (m * m) -> X * X < r * r * L.
Proof.
  intros Hlag HL Hm H.
  assert (E : L * (m * m * W - 2 * m * n * s + n * n * L)
              = m * m * (X * X) + (m * s - n * L) * (m * s - n * L)).
  { replace (L * (m * m * W - 2 * m * n * s + n * n * L))
      with (m * m * (W * L) - 2 * m * n * s * L + n * n * L * L) by ring.
    rewrite Hlag. ring. }
  assert (H1 : L * (m * m * W - 2 * m * n * s + n * n * L) < L * (r * r * (m * m)))
    by (apply Z.mul_lt_mono_pos_l; assumption).
  rewrite E in H1.
  pose proof (Z.square_nonneg (m * s - n * L)) as Hsq.
  assert (H2 : m * m * (X * X) < m * m * (r * r * L)) by lia.
  apply Z.mul_lt_mono_pos_l in H2; [assumption|]. apply Z.mul_pos_pos; assumption.
Qed.

(* main result 4: the test answers "yes" exactly when some rational point a + (n/m)(b - a),
   0 <= n/m <= 1, of the segment is at distance < r from p *)
Theorem seg_closer_than_lemma : forall p a b r,
  seg_closer_than p a b r = true <->
  exists n m : Z, 0 < m /\ 0 <= n <= m /\ zlerp_dist2 p a b n m < r * r * (m * m).
Proof.
  intros [px py] [ax ay] [bx by_] r.
  unfold seg_closer_than, zlerp_dist2, zdot, zcross, zsub. cbn [fst snd].
  set (w1 := px - ax). set (w2 := py - ay). set (d1 := bx - ax). set (d2 := by_ - ay).
  replace (px - bx) with (w1 - d1) by (unfold w1, d1; ring).
  replace (py - by_) with (w2 - d2) by (unfold w2, d2; ring).
  clearbody w1 w2 d1 d2. clear px py ax ay bx by_.
  assert (Hq : forall n m, (m * w1 - n * d1) * (m * w1 - n * d1) + (m * w2 - n * d2) * (m * w2 - n * d2)
                           = m * m * (w1 * w1 + w2 * w2) - 2 * m * n * (w1 * d1 + w2 * d2)
                             + n * n * (d1 * d1 + d2 * d2))
    by (intros; ring).
  pose proof (lagrange w1 w2 d1 d2) as Hlag.
  assert (HL : 0 <= d1 * d1 + d2 * d2)
    by (pose proof (Z.square_nonneg d1); pose proof (Z.square_nonneg d2); lia).
  set (L := d1 * d1 + d2 * d2) in *. set (s := w1 * d1 + w2 * d2) in *.
  set (W := w1 * w1 + w2 * w2) in *. set (X := w1 * d2 - w2 * d1) in *.
  clearbody L s W X.
  destruct (Z.leb_spec s 0) as [Hs|Hs].
  - (* closest point is a *)
    rewrite Z.ltb_lt. split.
    + intros H. exists 0, 1. split; [lia|]. split; [lia|]. rewrite Hq. lia.
    + intros (n & m & Hm & Hn & H). rewrite Hq in H.
      apply (seg_case_a s m n L W r); try assumption; lia.
  - destruct (Z.leb_spec L s) as [HLs|HLs].
    + (* closest point is b *)
      rewrite Z.ltb_lt.
      replace ((w1 - d1) * (w1 - d1) + (w2 - d2) * (w2 - d2))
        with (w1 * w1 + w2 * w2 - 2 * (w1 * d1 + w2 * d2) + (d1 * d1 + d2 * d2)) by ring.
      pose proof (Hq 1 1) as Hq1.
      split.
      * intros H. exists 1, 1. split; [lia|]. split; [lia|]. rewrite Hq. lia.
      * intros (n & m & Hm & Hn & H). rewrite Hq in H.
        assert (W - 2 * s + L < r * r) by (apply (seg_case_b s m n L W r); try assumption; lia).
        lia.
    + (* interior projection *)
      rewrite Z.ltb_lt.
      assert (HLpos : 0 < L) by lia.
      split.
      * intros H. exists s, L. split; [lia|]. split; [lia|]. rewrite Hq.
        replace (L * L * W - 2 * L * s * s + s * s * L) with (L * (W * L - s * s)) by ring.
        rewrite Hlag. replace (s * s + X * X - s * s) with (X * X) by ring.
        replace (r * r * (L * L)) with (L * (r * r * L)) by ring.
        apply Z.mul_lt_mono_pos_l; assumption.
      * intros (n & m & Hm & Hn & H). rewrite Hq in H.
        apply (seg_case_c s m n L W X r); assumption.
Qed.

(* the test is homogeneous: a common positive factor (the common denominator of rational
   coordinates) does not change the answer -- what q_seg_closer relies on *)
Lemma zlerp_dist2_scale k p a b n m :
  zlerp_dist2 (k * fst p, k * snd p) (k * fst a, k * snd a) (k * fst b, k * snd b) n m
  = k * k * zlerp_dist2 p a b n m.
Proof. unfold zlerp_dist2. cbn [fst snd]. ring. Qed.

Theorem seg_closer_than_scale_lemma : forall k p a b r, 0 < k ->
  seg_closer_than (k * fst p, k * snd p) (k * fst a, k * snd a) (k * fst b, k * snd b) (k * r)
  = seg_closer_than p a b r.
Proof.
  intros k p a b r Hk.
  apply eq_true_iff_eq. rewrite !seg_closer_than_lemma.
  assert (Hkk : 0 < k * k) by nia.
  split; intros (n & m & Hm & Hn & H); exists n, m; (split; [assumption|]); (split; [assumption|]).
  - rewrite zlerp_dist2_scale in H.
    replace (k * r * (k * r) * (m * m)) with (k * k * (r * r * (m * m))) in H by ring.
    apply Z.mul_lt_mono_pos_l in H; assumption.
  - rewrite zlerp_dist2_scale.
    replace (k * r * (k * r) * (m * m)) with (k * k * (r * r * (m * m))) by ring.
    apply Z.mul_lt_mono_pos_l; assumption.
Qed.

(* q_seg_closer is seg_closer_than after multiplying everything by g * den(px) * den(py):
   with px = nx/dx, py = ny/dy, K = dx*dy, the point (g K px, g K py) = (nx dy g, ny dx g), the
   segment end points a/g, b/g become K a, K b and the radius r/g becomes K r *)
Theorem q_seg_closer_lemma : forall g p a b r,
  q_seg_closer g p a b r = true <->
  exists n m : Z, 0 < m /\ 0 <= n <= m /\
    let K := Zpos (Qden (fst p)) * Zpos (Qden (snd p)) in
    zlerp_dist2 (Qnum (fst p) * Zpos (Qden (snd p)) * Zpos g, Qnum (snd p) * Zpos (Qden (fst p)) * Zpos g)
                (fst a * K, snd a * K) (fst b * K, snd b * K) n m
    < (r * K) * (r * K) * (m * m).
Proof. intros. unfold q_seg_closer. apply seg_closer_than_lemma. Qed.

Example seg_closer_than_example :
  seg_closer_than (5, 3) (0, 0) (10, 0) 4 = true /\ seg_closer_than (5, 3) (0, 0) (10, 0) 3 = false
  /\ seg_closer_than (-3, 4) (0, 0) (10, 0) 6 = true /\ seg_closer_than (-3, 4) (0, 0) (10, 0) 5 = false
  /\ q_seg_closer 4 (5 # 4, 3 # 4) (0, 0) (10, 0) 4 = true.
Proof. repeat split; vm_compute; reflexivity. Qed.

Local Open Scope Q_scope.

(* nearest grid integer: within half a grid step *)
Lemma grid_round_lemma g q :
  inject_Z (grid_round g q) <= q * inject_Z (Zpos g) + (1 # 2)
  /\ q * inject_Z (Zpos g) + (1 # 2) < inject_Z (grid_round g q) + 1.
Proof.
  unfold grid_round. split; [apply Qfloor_le|].
  pose proof (Qlt_floor (q * inject_Z (Z.pos g) + (1 # 2))) as H.
  rewrite inject_Z_plus in H. exact H.
Qed.


(* ================================================================== integer evaluation *)
Lemma lerpZ_rel den tn a b qa qb j : ~ inject_Z den == 0 ->
  inject_Z a == qa * qpow (inject_Z den) j -> inject_Z b == qb * qpow (inject_Z den) j ->
  inject_Z (lerpZ den tn a b) == lerpQ (inject_Z tn / inject_Z den) qa qb * qpow (inject_Z den) (S j).
Proof.
  intros Hd Ha Hb. unfold lerpZ. rewrite lerpQ_eq.
  rewrite inject_Z_plus, !inject_Z_mult, Ha, Hb.
  unfold Zminus. rewrite inject_Z_plus, inject_Z_opp. cbn [qpow]. field. exact Hd.
Qed.

Definition zq_rel (den : Z) (j : nat) (z : Z) (q : Q) : Prop := inject_Z z == q * qpow (inject_Z den) j.

Lemma dcz_step_rel den tn j : ~ inject_Z den == 0 -> forall l lq,
  Forall2 (zq_rel den j) l lq ->
  Forall2 (zq_rel den (S j)) (dcz_step den tn l) (dc_step (inject_Z tn / inject_Z den) lq).
Proof.
  intros Hd l lq H. induction H as [|a qa l lq Ha Hl IH]; [constructor|].
  destruct Hl as [|b qb l' lq' Hb Hl'].
  - constructor.
  - change (dcz_step den tn (a :: b :: l')) with (lerpZ den tn a b :: dcz_step den tn (b :: l')).
    change (dc_step (inject_Z tn / inject_Z den) (qa :: qb :: lq'))
      with (lerpQ (inject_Z tn / inject_Z den) qa qb :: dc_step (inject_Z tn / inject_Z den) (qb :: lq')).
    constructor; [|exact IH].
    apply lerpZ_rel; assumption.
Qed.

Lemma Forall2_length' {A B} (R : A -> B -> Prop) l l' : Forall2 R l l' -> length l = length l'.
Proof. induction 1; cbn; congruence. Qed.

Lemma dcz_step_length den tn l : length (dcz_step den tn l) = (length l - 1)%nat.
Proof.
  induction l as [|a l IH]; [reflexivity|].
  destruct l as [|b r]; [reflexivity|].
  change (dcz_step den tn (a :: b :: r)) with (lerpZ den tn a b :: dcz_step den tn (b :: r)).
  cbn [length] in *. rewrite IH. lia.
Qed.

Lemma dcz_iter_rel den tn : ~ inject_Z den == 0 -> forall n j l lq,
  length l = S n -> Forall2 (zq_rel den j) l lq ->
  inject_Z (dcz_iter (S n) den tn l)
  == dc_iter (S n) (inject_Z tn / inject_Z den) lq * qpow (inject_Z den) (j + n).
Proof.
  intros Hd. induction n as [|n IH]; intros j l lq Hl H.
  - destruct H as [|a qa l lq Ha Hl']; [discriminate|].
    destruct Hl'; [|discriminate]. cbn [dcz_iter dc_iter]. rewrite Nat.add_0_r. exact Ha.
  - pose proof (Forall2_length' _ _ _ H) as Hlen.
    destruct H as [|a qa l lq Ha Hl']; [discriminate|].
    destruct Hl' as [|b qb l' lq' Hb Hl'']; [discriminate|].
    change (dcz_iter (S (S n)) den tn (a :: b :: l'))
      with (dcz_iter (S n) den tn (dcz_step den tn (a :: b :: l'))).
    change (dc_iter (S (S n)) (inject_Z tn / inject_Z den) (qa :: qb :: lq'))
      with (dc_iter (S n) (inject_Z tn / inject_Z den) (dc_step (inject_Z tn / inject_Z den) (qa :: qb :: lq'))).
    rewrite (IH (S j) _ (dc_step (inject_Z tn / inject_Z den) (qa :: qb :: lq'))).
    + replace (S j + n)%nat with (j + S n)%nat by lia. reflexivity.
    + rewrite dcz_step_length, Hl. lia.
    + apply dcz_step_rel; [exact Hd|]. constructor; [exact Ha|]. constructor; assumption.
Qed.

(* main result 5: the integer evaluation is the rational de Casteljau scaled by den^(count-1):
   exact, no rounding *)
Theorem decasteljauZ_lemma : forall den tn (l : list Z), (den <> 0)%Z -> l <> [] ->
  inject_Z (decasteljauZ1 den tn l)
  == decasteljau1 (inject_Z tn / inject_Z den) (map inject_Z l) * qpow (inject_Z den) (length l - 1).
Proof.
  intros den tn l Hd Hl. unfold decasteljauZ1, decasteljau1. rewrite map_length.
  destruct l as [|a l']; [congruence|]. cbn [length].
  replace (S (length l') - 1)%nat with (0 + length l')%nat by lia.
  apply dcz_iter_rel.
  - intros H. apply Hd. unfold Qeq in H. cbn in H. lia.
  - reflexivity.
  - clear. generalize (a :: l'). induction l as [|z l IH]; constructor; [|exact IH].
    unfold zq_rel. cbn [qpow]. ring.
Qed.

Local Open Scope Z_scope.

Theorem circle_h_lemma : forall quad a b,
  let '(x, y, d) := circle_h quad a b in x * x + y * y = d * d.
Proof.
  intros quad a b. unfold circle_h.
  destruct (quad mod 4) as [|[p|p|]|p]; try ring; destruct p; ring.
Qed.

Theorem h_seg_closer_lemma : forall xn yn d a b r,
  h_seg_closer (xn, yn, d) a b r = true <->
  exists n m : Z, 0 < m /\ 0 <= n <= m /\
    zlerp_dist2 (xn, yn) (d * fst a, d * snd a) (d * fst b, d * snd b) n m < (d * r) * (d * r) * (m * m).
Proof. intros. unfold h_seg_closer. apply seg_closer_than_lemma. Qed.

(* rounding to the nearest multiple of 2^k *)
Theorem round_shift_lemma : forall k z, 0 < k ->
  2 * Z.abs (2 ^ k * round_shift k z - z) <= 2 ^ k.
Proof.
  intros k z Hk. unfold round_shift.
  rewrite Z.shiftr_div_pow2, Z.shiftl_mul_pow2 by lia. rewrite Z.mul_1_l.
  assert (Hp : 2 ^ k = 2 * 2 ^ (k - 1)).
  { replace k with (1 + (k - 1)) at 1 by lia. rewrite Z.pow_add_r by lia. reflexivity. }
  assert (Hpos : 0 < 2 ^ (k - 1)) by (apply Z.pow_pos_nonneg; lia).
  set (h := 2 ^ (k - 1)) in *.
  pose proof (Z.div_mod (z + h) (2 ^ k) ltac:(lia)) as Hdm.
  pose proof (Z.mod_pos_bound (z + h) (2 ^ k) ltac:(lia)) as Hb.
  lia.
Qed.

Local Open Scope Q_scope.

(* ================================================================== circle and ellipse points *)
Definition on_unit_circle (u : pt) : Prop := norm2 u == 1.

(* a line through a point of the unit circle meets the circle again in a rational point *)
Theorem stereo_on_circle_lemma : forall a c,
  on_unit_circle a -> ~ norm2 (psub c a) == 0 -> on_unit_circle (stereo a c).
Proof.
  intros [ax ay] [cx cy] Ha Hd. unfold on_unit_circle, stereo, norm2, inner, padd, pscale, psub in *.
  cbn [fst snd] in *.
  set (dx := cx - ax) in *. set (dy := cy - ay) in *.
  set (D := dx * dx + dy * dy) in *.
  set (s := - (2 * (ax * dx + ay * dy)) / D).
  assert (Hs : s * D == - (2 * (ax * dx + ay * dy))) by (unfold s; field; exact Hd).
  transitivity ((ax * ax + ay * ay) + s * (2 * (ax * dx + ay * dy)) + s * (s * D)).
  - unfold D. ring.
  - rewrite Hs, Ha. ring.
Qed.

(* the affine map of an ellipse and its inverse *)
Theorem aff_unapply_lemma : forall f p, ~ aff_det f == 0 ->
  pteq (aff_apply f (aff_unapply f p)) p.
Proof.
  intros f [x y] Hd. unfold pteq, aff_apply, aff_unapply. cbn [fst snd].
  unfold aff_det in *. split; field; exact Hd.
Qed.

(* ================================================================== rectangle, cross *)
(* twice the signed area (shoelace) *)
Fixpoint shoelace_open (first prev : pt) (l : list pt) : Q :=
  match l with
  | [] => cross prev first
  | p :: tl => cross prev p + shoelace_open first p tl
  end.
Definition shoelace2 (l : list pt) : Q :=
  match l with [] => 0 | p :: tl => shoelace_open p p tl end.

(* rectangle(corner1, corner2): the four documented corners in order -- every vertex takes its
   abscissa and its ordinate from the two given corners, consecutive vertices share one of them,
   and the enclosed (signed) area is (x2-x1)(y2-y1) *)
Theorem rectangle_vertices_lemma : forall x1 y1 x2 y2,
  rectangle_pts (x1, y1) (x2, y2) = [(x1, y1); (x2, y1); (x2, y2); (x1, y2)]
  /\ shoelace2 (rectangle_pts (x1, y1) (x2, y2)) == 2 * ((x2 - x1) * (y2 - y1)).
Proof.
  intros. split; [reflexivity|].
  unfold shoelace2, rectangle_pts, shoelace_open, cross. cbn [fst snd]. ring.
Qed.

(* cross(center, full_size, arm_width): the twelve documented vertices, i.e. the outline of
   [-s/2, s/2] x [-w/2, w/2]  union  [-w/2, w/2] x [-s/2, s/2] translated to the centre, counter-
   clockwise from (s/2, w/2); enclosed area 2 s w - w^2 *)
Theorem cross_vertices_lemma : forall cx cy s w,
  Forall2 pteq (cross_pts (cx, cy) s w)
    [(cx + s / 2, cy + w / 2); (cx + w / 2, cy + w / 2); (cx + w / 2, cy + s / 2);
     (cx - w / 2, cy + s / 2); (cx - w / 2, cy + w / 2); (cx - s / 2, cy + w / 2);
     (cx - s / 2, cy - w / 2); (cx - w / 2, cy - w / 2); (cx - w / 2, cy - s / 2);
     (cx + w / 2, cy - s / 2); (cx + w / 2, cy - w / 2); (cx + s / 2, cy - w / 2)]
  /\ shoelace2 (cross_pts (cx, cy) s w) == 2 * (2 * s * w - w * w).
Proof.
  intros. split.
  - unfold cross_pts. cbn [map].
    repeat (constructor; [unfold pteq, padd; cbn [fst snd]; split; field|]). constructor.
  - unfold shoelace2, cross_pts, shoelace_open, cross, padd. cbn [map fst snd]. field.
Qed.
