(* C14P (second property file of C14) - the perimeter of Polygon::perimeter in IEEE binary64.
   Theorem-only file: every proof is `exact <lemma>`; Print Assumptions under each.
   perimeter64 (Perimeter.v) is the bit-exact model of the C++ function over Flocq's IEEE operations
   (compared bit for bit with the real function on every run of the c14 unit). *)
Require Import Base Perimeter PerimeterProofs.
From Coq Require Import Reals.
From Flocq Require Import Core BinarySingleNaN Binary Bits.
Local Open Scope R_scope.

(* (a) integer coordinates |c| <= 2^24 (the class of the other C14 cases): the model equals the specification
   - every edge term the correctly rounded square root of the exact integer dx^2 + dy^2, added in vertex
   order, times the count -, as binary64 values (sign of zero included) *)
Theorem perimeter_exact_input_thm : forall (poly : list (Z * Z)) (copies : option N),
  Forall (zin 24) poly ->
  perimeter64 (map vec_of_Z poly) copies = spec_perimeter_Z poly copies.
Proof. exact perimeter_exact_input_lemma. Qed.
Print Assumptions perimeter_exact_input_thm.

Theorem edge_len_Z_correct_thm : forall e : (Z * Z) * (Z * Z),
  let n := ((fst (snd e) - fst (fst e)) * (fst (snd e) - fst (fst e))
            + (snd (snd e) - snd (fst e)) * (snd (snd e) - snd (fst e)))%Z in
  (n <= 2 ^ 53)%Z ->
  B2R64 (edge_len_Z e) = rnd (sqrt (IZR n)) /\ fin64 (edge_len_Z e) = true.
Proof. exact edge_len_Z_correct_lemma. Qed.
Print Assumptions edge_len_Z_correct_thm.

(* Pythagorean edges are exact *)
Theorem edge_len_Z_pythagorean_thm : forall (e : (Z * Z) * (Z * Z)) (k : Z),
  (0 <= k)%Z -> (k * k <= 2 ^ 53)%Z ->
  ((fst (snd e) - fst (fst e)) * (fst (snd e) - fst (fst e))
   + (snd (snd e) - snd (fst e)) * (snd (snd e) - snd (fst e)) = k * k)%Z ->
  B2R64 (edge_len_Z e) = IZR k.
Proof. exact edge_len_Z_pythagorean_lemma. Qed.
Print Assumptions edge_len_Z_pythagorean_thm.

(* (b) every finite input whose coordinates are multiples of 2^-500 of magnitude at most 2^500 (no overflow,
   no product in the subnormal range), up to 2^40 vertices, any count below 2^64:
   |perimeter - count * sum of the exact edge lengths| <= ((1+u)^(n+7) - 1) * count * sum, u = 2^-53
   (n + 4 roundings on the path of every term, 3 more for the running vertex `v0 += v1` of the loop,
   which is not the stored vertex when a difference is inexact) *)
Theorem perimeter_error_thm : forall (poly : list vec64) (copies : option N),
  Forall (okv 500) poly -> (3 <= length poly)%nat -> (Z.of_nat (length poly) <= 2 ^ 40)%Z ->
  copies_ok copies ->
  Rabs (B2R64 (perimeter64 poly copies) - copies_R copies * exact_perimeter (map R2 poly))
  <= ((1 + u) ^ (length poly + 7) - 1) * (copies_R copies * exact_perimeter (map R2 poly)).
Proof. exact perimeter_error_lemma. Qed.
Print Assumptions perimeter_error_thm.

(* a decidable sufficient condition for the class *)
Theorem okv_b_sound_thm : forall l : list vec64, forallb okv_b l = true -> Forall (okv 500) l.
Proof. exact okv_b_sound. Qed.
Print Assumptions okv_b_sound_thm.

(* (d) finite and non-negative on the class *)
Theorem perimeter_finite_nonneg_thm : forall (poly : list vec64) (copies : option N),
  Forall (okv 500) poly -> (Z.of_nat (length poly) <= 2 ^ 40)%Z -> copies_ok copies ->
  fin64 (perimeter64 poly copies) = true /\ 0 <= B2R64 (perimeter64 poly copies).
Proof. exact perimeter_finite_nonneg_lemma. Qed.
Print Assumptions perimeter_finite_nonneg_thm.

(* (c) +0 below three vertices for any vertices and any count *)
Theorem perimeter_short_thm : forall (poly : list vec64) (copies : option N),
  (length poly < 3)%nat -> perimeter64 poly copies = b64_pzero.
Proof. exact perimeter_short_lemma. Qed.
Print Assumptions perimeter_short_thm.

(* the exact sum does not depend on the starting vertex or on the orientation ... *)
Theorem exact_perimeter_rotate_thm : forall a b : list (R * R),
  exact_perimeter (b ++ a) = exact_perimeter (a ++ b).
Proof. exact exact_perimeter_rotate_lemma. Qed.
Print Assumptions exact_perimeter_rotate_thm.

Theorem exact_perimeter_rev_thm : forall l : list (R * R),
  exact_perimeter (rev l) = exact_perimeter l.
Proof. exact exact_perimeter_rev_lemma. Qed.
Print Assumptions exact_perimeter_rev_thm.

(* ... the floating-point value depends on both, and the running vertex does leave the stored vertices *)
Theorem perimeter_rotation_refuted_thm : exists (h : Z * Z) (t : list (Z * Z)),
  perimeter_Z (t ++ [h]) None <> perimeter_Z (h :: t) None.
Proof. exact perimeter_rotation_refuted. Qed.
Print Assumptions perimeter_rotation_refuted_thm.

Theorem perimeter_reversal_refuted_thm : exists l : list (Z * Z),
  perimeter_Z (rev l) None <> perimeter_Z l None.
Proof. exact perimeter_reversal_refuted. Qed.
Print Assumptions perimeter_reversal_refuted_thm.

Theorem drift_refuted_thm : exists v0 q : vec64,
  okv 500 v0 /\ okv 500 q /\ vadd64 v0 (vsub64 q v0) <> q.
Proof. exact drift_refuted. Qed.
Print Assumptions drift_refuted_thm.

(* the hypotheses of (b) hold on a non-trivial input *)
Theorem perimeter_error_instance_thm :
  Forall (okv 500) example_poly /\ (3 <= length example_poly)%nat /\
  copies_ok (Some 18446744073709551615%N) /\
  Rabs (B2R64 (perimeter64 example_poly (Some 18446744073709551615%N))
        - IZR 18446744073709551615 * exact_perimeter (map R2 example_poly))
  <= ((1 + u) ^ 11 - 1) * (IZR 18446744073709551615 * exact_perimeter (map R2 example_poly)).
Proof. exact perimeter_error_example. Qed.
Print Assumptions perimeter_error_instance_thm.
