(* C11 -- proofs about the Repetition model (Repetition.v). *)
From Coq Require Import QArith Qround Lqa Lia.
Require Import Base Repetition.
Open Scope Q_scope.

(* ================================================================== basics *)
Lemma veq_refl v : veq v v.
Proof. split; reflexivity. Qed.
Lemma veq_sym a b : veq a b -> veq b a.
Proof. intros [H1 H2]; split; symmetry; assumption. Qed.
Lemma veq_trans a b c : veq a b -> veq b c -> veq a c.
Proof. intros [H1 H2] [H3 H4]; split; etransitivity; eassumption. Qed.

Lemma In_InV v l : In v l -> InV v l.
Proof. intro H. apply Exists_exists. exists v. split; [assumption | apply veq_refl]. Qed.
Lemma InV_veq v w l : In w l -> veq v w -> InV v l.
Proof. intros H1 H2. apply Exists_exists. exists w. split; assumption. Qed.

Lemma Qlt_bool_true x y : Qlt_bool x y = true -> x < y.
Proof.
  unfold Qlt_bool. intro H. apply negb_true_iff in H.
  apply Qnot_le_lt. intro C. apply Qle_bool_iff in C. congruence.
Qed.
Lemma Qlt_bool_false x y : Qlt_bool x y = false -> y <= x.
Proof. unfold Qlt_bool. intro H. apply negb_false_iff in H. apply Qle_bool_iff. exact H. Qed.

Lemma neq1_false m : neq1 m = false -> m == 1.
Proof. unfold neq1. intro H. apply negb_false_iff in H. apply Qeq_bool_iff. exact H. Qed.

Lemma qnat_nonneg i : 0 <= qnat i.
Proof. unfold qnat. change 0 with (inject_Z 0). rewrite <- Zle_Qle. lia. Qed.
Lemma qnat_le i j : (i <= j)%nat -> qnat i <= qnat j.
Proof. intro H. unfold qnat. rewrite <- Zle_Qle. lia. Qed.
Lemma qN_pred_nat n : (0 < n)%N -> qN (n - 1) = qnat (N.to_nat n - 1).
Proof. intro H. unfold qN, qnat. f_equal. lia. Qed.

(* ================================================================== the loops of get_offsets *)
(* specification-level lattice: column index outer, row index inner *)
Definition lattice (cols rows : nat) (f : nat -> nat -> vec) : list vec :=
  flat_map (fun i => map (f i) (seq 0 rows)) (seq 0 cols).

Definition offsets_spec (r : rep) : list vec :=
  match r with
  | RNone => []
  | RRect c rw sx sy => lattice (N.to_nat c) (N.to_nat rw) (rect_at sx sy)
  | RReg c rw v1 v2 => lattice (N.to_nat c) (N.to_nat rw) (reg_at v1 v2)
  | RExpl l => vzero :: l
  | RExplX l => vzero :: map (fun x => (x, 0)) l
  | RExplY l => vzero :: map (fun y => (0, y)) l
  end.

Lemma loop_emit_spec n : forall j f, loop_emit n j f = map f (seq j n).
Proof. induction n as [|n IH]; intros j f; cbn; [reflexivity | now rewrite IH]. Qed.

Lemma loop_outer_spec n : forall i rows f,
  loop_outer n i rows f = flat_map (fun i => map (f i) (seq 0 rows)) (seq i n).
Proof.
  induction n as [|n IH]; intros i rows f; cbn; [reflexivity|].
  now rewrite loop_emit_spec, IH.
Qed.

(* offsets r is the lattice i*v1 + j*v2 enumerated with the column index i outermost (resp. the
   zero vector followed by the listed offsets / coordinates), as lists, with Leibniz equality *)
Theorem offsets_spec_lemma r : offsets r = offsets_spec r.
Proof. destruct r; cbn; try reflexivity; apply loop_outer_spec. Qed.

Lemma lattice_length cols rows f : length (lattice cols rows f) = (cols * rows)%nat.
Proof.
  unfold lattice. generalize 0%nat at 2.
  induction cols as [|c IH]; intro s; cbn; [reflexivity|].
  now rewrite app_length, map_length, seq_length, IH.
Qed.

Lemma nth_map_seq {A} (g : nat -> A) rows j d : (j < rows)%nat -> nth j (map g (seq 0 rows)) d = g j.
Proof.
  intro H. rewrite (nth_indep _ d (g 0%nat)) by now rewrite map_length, seq_length.
  rewrite map_nth, seq_nth by assumption. reflexivity.
Qed.

Lemma nth_lattice_gen n : forall i0 rows (f : nat -> nat -> vec) i j (d : vec), (i < n)%nat -> (j < rows)%nat ->
  nth (i * rows + j) (flat_map (fun i => map (f i) (seq 0 rows)) (seq i0 n)) d = f (i0 + i)%nat j.
Proof.
  induction n as [|n IH]; intros i0 rows f i j d Hi Hj; [lia|].
  cbn [seq flat_map]. destruct i as [|i].
  - cbn [Nat.mul Nat.add]. rewrite app_nth1 by now rewrite map_length, seq_length.
    rewrite nth_map_seq by assumption. now rewrite Nat.add_0_r.
  - rewrite app_nth2 by (rewrite map_length, seq_length; lia).
    rewrite map_length, seq_length.
    replace (S i * rows + j - rows)%nat with (i * rows + j)%nat by lia.
    rewrite IH by lia. f_equal. lia.
Qed.

(* the documented order: entry number i*rows + j is i*v1 + j*v2 (row index varies fastest) *)
Theorem offsets_nth_lemma :
  (forall c rw sx sy i j d, (i < N.to_nat c)%nat -> (j < N.to_nat rw)%nat ->
     nth (i * N.to_nat rw + j) (offsets (RRect c rw sx sy)) d = (qnat i * sx, qnat j * sy)) /\
  (forall c rw v1 v2 i j d, (i < N.to_nat c)%nat -> (j < N.to_nat rw)%nat ->
     nth (i * N.to_nat rw + j) (offsets (RReg c rw v1 v2)) d =
       (qnat i * fst v1 + qnat j * fst v2, qnat i * snd v1 + qnat j * snd v2)).
Proof.
  split; intros; rewrite offsets_spec_lemma; cbn [offsets_spec]; unfold lattice;
    rewrite nth_lattice_gen by assumption; reflexivity.
Qed.

Lemma in_lattice cols rows f v :
  In v (lattice cols rows f) <-> exists i j, (i < cols)%nat /\ (j < rows)%nat /\ v = f i j.
Proof.
  unfold lattice. rewrite in_flat_map. split.
  - intros (i & Hi & Hv). apply in_map_iff in Hv. destruct Hv as (j & <- & Hj).
    apply in_seq in Hi. apply in_seq in Hj. exists i, j. repeat split; lia.
  - intros (i & j & Hi & Hj & ->). exists i. split; [apply in_seq; lia|].
    apply in_map. apply in_seq. lia.
Qed.

(* ================================================================== count *)
Theorem count_offsets_lemma r : rep_ok r -> N.of_nat (length (offsets r)) = count r.
Proof.
  intro Hok. rewrite offsets_spec_lemma.
  destruct r; cbn [offsets_spec count rep_ok] in *; unfold wrapN;
    try rewrite lattice_length; try (rewrite N.mod_small by assumption);
    cbn [length]; try rewrite map_length; try reflexivity; lia.
Qed.

Corollary count_offsets_nat_lemma r : rep_ok r -> length (offsets r) = N.to_nat (count r).
Proof. intro H. rewrite <- (count_offsets_lemma r H). now rewrite Nat2N.id. Qed.

(* uint64_t wrap-around of columns * rows: outside rep_ok the reported count is wrong *)
Theorem count_wrap_refuted :
  exists c rw, (0 < c)%N /\ (0 < rw)%N /\ count (RRect c rw 1 1) = 0%N.
Proof. exists 4294967296%N, 4294967296%N. repeat split. Qed.

(* ================================================================== zero vector *)
Lemma count_pos_lattice c rw : (0 < wrapN (c * rw))%N -> exists c' r', N.to_nat c = S c' /\ N.to_nat rw = S r'.
Proof.
  unfold wrapN. intro H.
  assert (c * rw <> 0)%N by (intro E; rewrite E in H; cbn in H; lia).
  exists (pred (N.to_nat c)), (pred (N.to_nat rw)). split; nia.
Qed.

(* the first enumerated offset is the zero vector whenever the count is not 0 *)
Theorem offsets_head_zero_lemma r : (0 < count r)%N ->
  exists z t, offsets r = z :: t /\ veq z vzero.
Proof.
  destruct r; cbn [count offsets]; intro H.
  - lia.
  - destruct (count_pos_lattice _ _ H) as (c' & r' & -> & ->). cbn [loop_outer loop_emit app].
    eexists _, _. split; [reflexivity|].
    split; unfold rect_at, qnat, vzero; cbn [fst snd]; change (inject_Z (Z.of_nat 0)) with 0; ring.
  - destruct (count_pos_lattice _ _ H) as (c' & r' & -> & ->). cbn [loop_outer loop_emit app].
    eexists _, _. split; [reflexivity|].
    split; unfold reg_at, qnat, vzero; cbn [fst snd]; change (inject_Z (Z.of_nat 0)) with 0; ring.
  - eexists _, _. split; [reflexivity | apply veq_refl].
  - eexists _, _. split; [reflexivity | apply veq_refl].
  - eexists _, _. split; [reflexivity | apply veq_refl].
Qed.

Theorem zero_in_offsets_lemma r : (0 < count r)%N -> InV vzero (offsets r).
Proof.
  intro H. destruct (offsets_head_zero_lemma r H) as (z & t & -> & Hz).
  apply Exists_cons_hd. apply veq_sym. exact Hz.
Qed.

(* ================================================================== the scan of get_extrema *)
Section Scan.
  Context {A : Type} (key : A -> Q).

  Lemma step_cases lo hi v : exists lo' hi',
    step_key key (lo, hi) v = (lo', hi') /\ (lo' = lo \/ lo' = v) /\ (hi' = hi \/ hi' = v) /\
    (key lo <= key hi ->
       key lo' <= key lo /\ key hi <= key hi' /\ key lo' <= key v /\ key v <= key hi' /\
       key lo' <= key hi').
  Proof.
    unfold step_key.
    destruct (Qlt_bool (key v) (key lo)) eqn:E1; [|destruct (Qlt_bool (key hi) (key v)) eqn:E2];
      eexists _, _; (split; [reflexivity|]); (split; [auto|]); (split; [auto|]); intro H.
    - apply Qlt_bool_true in E1. repeat split; lra.
    - apply Qlt_bool_false in E1. apply Qlt_bool_true in E2. repeat split; lra.
    - apply Qlt_bool_false in E1. apply Qlt_bool_false in E2. repeat split; lra.
  Qed.

  Lemma scan_mem : forall l lo hi,
    (fst (fold_left (step_key key) l (lo, hi)) = lo \/ In (fst (fold_left (step_key key) l (lo, hi))) l) /\
    (snd (fold_left (step_key key) l (lo, hi)) = hi \/ In (snd (fold_left (step_key key) l (lo, hi))) l).
  Proof.
    induction l as [|v l IH]; intros lo hi; cbn [fold_left].
    - cbn. auto.
    - destruct (step_cases lo hi v) as (lo' & hi' & E & Hlo & Hhi & _). rewrite E.
      destruct (IH lo' hi') as [I1 I2]. split.
      + destruct I1 as [I1|I1]; [rewrite I1; destruct Hlo as [->| ->]; [left|right;left]; reflexivity
                                | right; right; exact I1].
      + destruct I2 as [I2|I2]; [rewrite I2; destruct Hhi as [->| ->]; [left|right;left]; reflexivity
                                | right; right; exact I2].
  Qed.

  Lemma scan_bounds : forall l lo hi, key lo <= key hi ->
    key (fst (fold_left (step_key key) l (lo, hi))) <= key lo /\
    key hi <= key (snd (fold_left (step_key key) l (lo, hi))) /\
    (forall x, In x l -> key (fst (fold_left (step_key key) l (lo, hi))) <= key x /\
                          key x <= key (snd (fold_left (step_key key) l (lo, hi)))).
  Proof.
    induction l as [|v l IH]; intros lo hi H; cbn [fold_left].
    - cbn [fst snd]. split; [lra|]. split; [lra|]. intros x [].
    - destruct (step_cases lo hi v) as (lo' & hi' & E & _ & _ & Hb). rewrite E.
      destruct (Hb H) as (B1 & B2 & B3 & B4 & B5).
      destruct (IH lo' hi' B5) as (I1 & I2 & I3).
      split; [lra|]. split; [lra|]. intros x [<-|Hx].
      + split; lra.
      + apply I3. exact Hx.
  Qed.
End Scan.

(* ================================================================== extrema are offsets *)
Lemma rect_in_offsets c rw sx sy i j : (i < N.to_nat c)%nat -> (j < N.to_nat rw)%nat ->
  In (rect_at sx sy i j) (offsets (RRect c rw sx sy)).
Proof.
  intros Hi Hj. rewrite offsets_spec_lemma. cbn [offsets_spec]. apply in_lattice.
  exists i, j. auto.
Qed.
Lemma reg_in_offsets c rw v1 v2 i j : (i < N.to_nat c)%nat -> (j < N.to_nat rw)%nat ->
  In (reg_at v1 v2 i j) (offsets (RReg c rw v1 v2)).
Proof.
  intros Hi Hj. rewrite offsets_spec_lemma. cbn [offsets_spec]. apply in_lattice.
  exists i, j. auto.
Qed.

Ltac q0 := change (qnat 0) with 0 in *.

Ltac rect_at_corner sx sy i j :=
  apply InV_veq with (rect_at sx sy i j);
  [ apply rect_in_offsets; lia
  | split; unfold rect_at; cbn [fst snd]; rewrite ?qN_pred_nat by lia; q0; ring ].
Ltac reg_at_corner v1 v2 i j :=
  apply InV_veq with (reg_at v1 v2 i j);
  [ apply reg_in_offsets; lia
  | split; unfold reg_at, vadd; cbn [fst snd]; rewrite ?qN_pred_nat by lia; q0; ring ].

Lemma extrema_subset_rect c rw sx sy e :
  In e (extrema (RRect c rw sx sy)) -> InV e (offsets (RRect c rw sx sy)).
Proof.
  cbn [extrema].
  destruct ((c =? 0) || (rw =? 0))%N eqn:E0; [intros []|].
  apply orb_false_iff in E0. destruct E0 as [Ec Er]. apply N.eqb_neq in Ec, Er.
  destruct (c =? 1)%N eqn:E1; destruct (rw =? 1)%N eqn:E2; cbn [In]; intro H;
    repeat (destruct H as [<- | H]); try contradiction;
    first [ solve [rect_at_corner sx sy 0%nat 0%nat]
          | solve [rect_at_corner sx sy 0%nat (N.to_nat rw - 1)%nat]
          | solve [rect_at_corner sx sy (N.to_nat c - 1)%nat 0%nat]
          | solve [rect_at_corner sx sy (N.to_nat c - 1)%nat (N.to_nat rw - 1)%nat] ].
Qed.

Lemma extrema_subset_reg c rw v1 v2 e :
  In e (extrema (RReg c rw v1 v2)) -> InV e (offsets (RReg c rw v1 v2)).
Proof.
  cbn [extrema].
  destruct ((c =? 0) || (rw =? 0))%N eqn:E0; [intros []|].
  apply orb_false_iff in E0. destruct E0 as [Ec Er]. apply N.eqb_neq in Ec, Er.
  destruct (c =? 1)%N eqn:E1; destruct (rw =? 1)%N eqn:E2; cbv zeta; cbn [In]; intro H;
    repeat (destruct H as [<- | H]); try contradiction;
    first [ solve [reg_at_corner v1 v2 0%nat 0%nat]
          | solve [reg_at_corner v1 v2 0%nat (N.to_nat rw - 1)%nat]
          | solve [reg_at_corner v1 v2 (N.to_nat c - 1)%nat 0%nat]
          | solve [reg_at_corner v1 v2 (N.to_nat c - 1)%nat (N.to_nat rw - 1)%nat] ].
Qed.

Lemma explX_in l x : x = 0 \/ In x l -> In (x, 0) (offsets (RExplX l)).
Proof.
  cbn [offsets]. intros [->|H]; [left; reflexivity | right].
  apply (in_map (fun x => (x, 0))). exact H.
Qed.
Lemma explY_in l y : y = 0 \/ In y l -> In (0, y) (offsets (RExplY l)).
Proof.
  cbn [offsets]. intros [->|H]; [left; reflexivity | right].
  apply (in_map (fun y => (0, y))). exact H.
Qed.
Lemma expl_in l v : v = vzero \/ In v l -> In v (offsets (RExpl l)).
Proof. cbn [offsets]. intros [->|H]; [left; reflexivity | right; exact H]. Qed.

Theorem extrema_subset_lemma r e : In e (extrema r) -> InV e (offsets r).
Proof.
  destruct r as [|c rw sx sy|c rw v1 v2|l|l|l].
  - intros [].
  - apply extrema_subset_rect.
  - apply extrema_subset_reg.
  - destruct l as [|x0 l']; [intros [<-|[]]; apply In_InV; left; reflexivity|].
    cbn [extrema]. generalize (x0 :: l'). intro l.
    unfold scan_key.
    pose proof (scan_mem (fun v : vec => fst v) l vzero vzero) as [M1 M2].
    pose proof (scan_mem (fun v : vec => snd v) l vzero vzero) as [M3 M4].
    destruct (fold_left (step_key (fun v : vec => fst v)) l (vzero, vzero)) as [a b].
    destruct (fold_left (step_key (fun v : vec => snd v)) l (vzero, vzero)) as [c d].
    cbn [fst snd] in *. cbn [In]. intro H. apply In_InV. apply expl_in.
    repeat (destruct H as [<- | H]); try contradiction; assumption.
  - destruct l as [|x0 l']; [intros [<-|[]]; apply In_InV; left; reflexivity|].
    cbn [extrema]. generalize (x0 :: l'). intro l.
    unfold scan_key.
    pose proof (scan_mem (fun x : Q => x) l 0 0) as [M1 M2].
    destruct (fold_left (step_key (fun x : Q => x)) l (0, 0)) as [a b].
    cbn [fst snd] in *.
    destruct (negb (Qeq_bool a b)); cbn [In]; intro H;
      repeat (destruct H as [<- | H]); try contradiction; apply In_InV; apply explX_in; assumption.
  - destruct l as [|x0 l']; [intros [<-|[]]; apply In_InV; left; reflexivity|].
    cbn [extrema]. generalize (x0 :: l'). intro l.
    unfold scan_key.
    pose proof (scan_mem (fun x : Q => x) l 0 0) as [M1 M2].
    destruct (fold_left (step_key (fun x : Q => x)) l (0, 0)) as [a b].
    cbn [fst snd] in *.
    destruct (negb (Qeq_bool a b)); cbn [In]; intro H;
      repeat (destruct H as [<- | H]); try contradiction; apply In_InV; apply explY_in; assumption.
Qed.

(* ================================================================== bounding boxes *)
Definition qmin (a b : Q) : Q := if Qle_bool a b then a else b.
Definition qmax (a b : Q) : Q := if Qle_bool a b then b else a.
Fixpoint qmin_l (a : Q) (l : list Q) : Q :=
  match l with [] => a | b :: t => qmin a (qmin_l b t) end.
Fixpoint qmax_l (a : Q) (l : list Q) : Q :=
  match l with [] => a | b :: t => qmax a (qmax_l b t) end.

(* (xmin, ymin, xmax, ymax) of a non-empty list of vectors *)
Definition bbox (l : list vec) : option (Q * Q * Q * Q) :=
  match l with
  | [] => None
  | v :: t => Some (qmin_l (fst v) (map fst t), qmin_l (snd v) (map snd t),
                    qmax_l (fst v) (map fst t), qmax_l (snd v) (map snd t))
  end.
Definition bbox_eq (a b : option (Q * Q * Q * Q)) : Prop :=
  match a, b with
  | None, None => True
  | Some (x0, y0, x1, y1), Some (x0', y0', x1', y1') =>
      x0 == x0' /\ y0 == y0' /\ x1 == x1' /\ y1 == y1'
  | _, _ => False
  end.

Lemma qmin_cases a b : (qmin a b = a /\ a <= b) \/ (qmin a b = b /\ b <= a).
Proof.
  unfold qmin. destruct (Qle_bool a b) eqn:E.
  - left. split; [reflexivity | now apply Qle_bool_iff].
  - right. split; [reflexivity|].
    apply Qlt_le_weak. apply Qnot_le_lt. intro C. apply Qle_bool_iff in C. congruence.
Qed.
Lemma qmax_cases a b : (qmax a b = b /\ a <= b) \/ (qmax a b = a /\ b <= a).
Proof.
  unfold qmax. destruct (Qle_bool a b) eqn:E.
  - left. split; [reflexivity | now apply Qle_bool_iff].
  - right. split; [reflexivity|].
    apply Qlt_le_weak. apply Qnot_le_lt. intro C. apply Qle_bool_iff in C. congruence.
Qed.

Lemma qmin_l_spec : forall l a,
  (forall x, In x (a :: l) -> qmin_l a l <= x) /\ In (qmin_l a l) (a :: l).
Proof.
  induction l as [|b t IH]; intro a; cbn [qmin_l].
  - split; [intros x [<-|[]]; lra | left; reflexivity].
  - destruct (IH b) as [L M].
    destruct (qmin_cases a (qmin_l b t)) as [[-> H]|[-> H]].
    + split; [|left; reflexivity]. intros x [<-|Hx]; [lra|]. specialize (L x Hx). lra.
    + split; [|right; exact M]. intros x [<-|Hx]; [lra|]. exact (L x Hx).
Qed.
Lemma qmax_l_spec : forall l a,
  (forall x, In x (a :: l) -> x <= qmax_l a l) /\ In (qmax_l a l) (a :: l).
Proof.
  induction l as [|b t IH]; intro a; cbn [qmax_l].
  - split; [intros x [<-|[]]; lra | left; reflexivity].
  - destruct (IH b) as [L M].
    destruct (qmax_cases a (qmax_l b t)) as [[-> H]|[-> H]].
    + split; [|right; exact M]. intros x [<-|Hx]; [lra|]. exact (L x Hx).
    + split; [|left; reflexivity]. intros x [<-|Hx]; [lra|]. specialize (L x Hx). lra.
Qed.

Lemma qmin_l_dom a l a' l' :
  (forall x, In x (a :: l) -> exists y, In y (a' :: l') /\ y <= x) ->
  (forall y, In y (a' :: l') -> exists x, In x (a :: l) /\ x <= y) ->
  qmin_l a l == qmin_l a' l'.
Proof.
  intros H1 H2. destruct (qmin_l_spec l a) as [L M]. destruct (qmin_l_spec l' a') as [L' M'].
  apply Qle_antisym.
  - destruct (H2 _ M') as (x & Hx & Hle). specialize (L x Hx). lra.
  - destruct (H1 _ M) as (y & Hy & Hle). specialize (L' y Hy). lra.
Qed.
Lemma qmax_l_dom a l a' l' :
  (forall x, In x (a :: l) -> exists y, In y (a' :: l') /\ x <= y) ->
  (forall y, In y (a' :: l') -> exists x, In x (a :: l) /\ y <= x) ->
  qmax_l a l == qmax_l a' l'.
Proof.
  intros H1 H2. destruct (qmax_l_spec l a) as [L M]. destruct (qmax_l_spec l' a') as [L' M'].
  apply Qle_antisym.
  - destruct (H1 _ M) as (y & Hy & Hle). specialize (L' y Hy). lra.
  - destruct (H2 _ M') as (x & Hx & Hle). specialize (L x Hx). lra.
Qed.

Section Proj.
  Context (p : vec -> Q) (p_proper : forall a b, veq a b -> p a == p b).

  Lemma min_proj_eq e0 E o0 O :
    (forall e, In e (e0 :: E) -> InV e (o0 :: O)) ->
    (forall o, In o (o0 :: O) -> exists e, In e (e0 :: E) /\ p e <= p o) ->
    qmin_l (p e0) (map p E) == qmin_l (p o0) (map p O).
  Proof.
    intros Hsub Hdom. apply qmin_l_dom.
    - change (p e0 :: map p E) with (map p (e0 :: E)).
      change (p o0 :: map p O) with (map p (o0 :: O)).
      intros x Hx. apply in_map_iff in Hx. destruct Hx as (e & <- & He).
      specialize (Hsub e He). apply Exists_exists in Hsub. destruct Hsub as (o & Ho & Heq).
      exists (p o). split; [apply in_map; exact Ho|]. rewrite (p_proper _ _ Heq). lra.
    - change (p e0 :: map p E) with (map p (e0 :: E)).
      change (p o0 :: map p O) with (map p (o0 :: O)).
      intros y Hy. apply in_map_iff in Hy. destruct Hy as (o & <- & Ho).
      destruct (Hdom o Ho) as (e & He & Hle). exists (p e). split; [apply in_map; exact He | exact Hle].
  Qed.

  Lemma max_proj_eq e0 E o0 O :
    (forall e, In e (e0 :: E) -> InV e (o0 :: O)) ->
    (forall o, In o (o0 :: O) -> exists e, In e (e0 :: E) /\ p o <= p e) ->
    qmax_l (p e0) (map p E) == qmax_l (p o0) (map p O).
  Proof.
    intros Hsub Hdom. apply qmax_l_dom.
    - change (p e0 :: map p E) with (map p (e0 :: E)).
      change (p o0 :: map p O) with (map p (o0 :: O)).
      intros x Hx. apply in_map_iff in Hx. destruct Hx as (e & <- & He).
      specialize (Hsub e He). apply Exists_exists in Hsub. destruct Hsub as (o & Ho & Heq).
      exists (p o). split; [apply in_map; exact Ho|]. rewrite (p_proper _ _ Heq). lra.
    - change (p e0 :: map p E) with (map p (e0 :: E)).
      change (p o0 :: map p O) with (map p (o0 :: O)).
      intros y Hy. apply in_map_iff in Hy. destruct Hy as (o & <- & Ho).
      destruct (Hdom o Ho) as (e & He & Hle). exists (p e). split; [apply in_map; exact He | exact Hle].
  Qed.
End Proj.

(* E spans O: every member of O lies, coordinate by coordinate, between members of E *)
Definition spans (E O : list vec) : Prop :=
  forall o, In o O ->
    (exists e, In e E /\ fst e <= fst o) /\ (exists e, In e E /\ snd e <= snd o) /\
    (exists e, In e E /\ fst o <= fst e) /\ (exists e, In e E /\ snd o <= snd e).

Theorem bbox_eq_of_span E O :
  (forall e, In e E -> InV e O) -> spans E O -> (E = [] -> O = []) ->
  bbox_eq (bbox E) (bbox O).
Proof.
  destruct E as [|e0 E'], O as [|o0 O']; intros Hsub Hsp Hne.
  - exact I.
  - discriminate (Hne eq_refl).
  - specialize (Hsub e0 (or_introl eq_refl)). inversion Hsub.
  - cbn [bbox bbox_eq].
    assert (Pf : forall a b, veq a b -> fst a == fst b) by (intros a b [H _]; exact H).
    assert (Ps : forall a b, veq a b -> snd a == snd b) by (intros a b [_ H]; exact H).
    split; [|split; [|split]].
    + apply (min_proj_eq fst Pf); [exact Hsub|]. intros o Ho. apply (Hsp o Ho).
    + apply (min_proj_eq snd Ps); [exact Hsub|]. intros o Ho. apply (Hsp o Ho).
    + apply (max_proj_eq fst Pf); [exact Hsub|]. intros o Ho. apply (Hsp o Ho).
    + apply (max_proj_eq snd Ps); [exact Hsub|]. intros o Ho. apply (Hsp o Ho).
Qed.

(* ================================================================== extrema span the offsets *)
Lemma scalar_lo t C a : 0 <= t -> t <= C -> exists b : bool, (if b then C else 0) * a <= t * a.
Proof.
  intros H0 H1. destruct (Qlt_le_dec a 0); [exists true | exists false]; nra.
Qed.
Lemma scalar_hi t C a : 0 <= t -> t <= C -> exists b : bool, t * a <= (if b then C else 0) * a.
Proof.
  intros H0 H1. destruct (Qlt_le_dec a 0); [exists false | exists true]; nra.
Qed.

Definition cmax (n : N) : Q := qnat (N.to_nat n - 1).
Definition corner (n : N) (b : bool) : Q := if b then cmax n else 0.

Lemma cmax_one : cmax 1 = 0.
Proof. reflexivity. Qed.

Ltac pick_elem tac :=
  first [ solve [eexists; split; [left; reflexivity | tac]]
        | solve [eexists; split; [right; left; reflexivity | tac]]
        | solve [eexists; split; [right; right; left; reflexivity | tac]]
        | solve [eexists; split; [right; right; right; left; reflexivity | tac]] ].

Lemma rect_corner_in c rw sx sy bi bj : c <> 0%N -> rw <> 0%N ->
  exists e, In e (extrema (RRect c rw sx sy)) /\
            (fst e == corner c bi * sx /\ snd e == corner rw bj * sy).
Proof.
  intros Ec Er. cbn [extrema].
  destruct ((c =? 0) || (rw =? 0))%N eqn:E0.
  { apply orb_true_iff in E0. destruct E0 as [E|E]; apply N.eqb_eq in E; congruence. }
  destruct (c =? 1)%N eqn:E1; destruct (rw =? 1)%N eqn:E2;
    try (apply N.eqb_eq in E1; subst c); try (apply N.eqb_eq in E2; subst rw);
    destruct bi, bj; unfold corner; rewrite ?cmax_one; unfold cmax;
    pick_elem ltac:(cbn [fst snd]; rewrite ?qN_pred_nat by lia; split; ring).
Qed.

Lemma reg_corner_in c rw v1 v2 bi bj : c <> 0%N -> rw <> 0%N ->
  exists e, In e (extrema (RReg c rw v1 v2)) /\
            (fst e == corner c bi * fst v1 + corner rw bj * fst v2 /\
             snd e == corner c bi * snd v1 + corner rw bj * snd v2).
Proof.
  intros Ec Er. cbn [extrema].
  destruct ((c =? 0) || (rw =? 0))%N eqn:E0.
  { apply orb_true_iff in E0. destruct E0 as [E|E]; apply N.eqb_eq in E; congruence. }
  destruct (c =? 1)%N eqn:E1; destruct (rw =? 1)%N eqn:E2;
    try (apply N.eqb_eq in E1; subst c); try (apply N.eqb_eq in E2; subst rw);
    destruct bi, bj; unfold corner; rewrite ?cmax_one; unfold cmax; cbv zeta;
    pick_elem ltac:(unfold vadd; cbn [fst snd]; rewrite ?qN_pred_nat by lia; split; ring).
Qed.

Lemma lattice_index_bounds c i : (i < N.to_nat c)%nat -> 0 <= qnat i /\ qnat i <= cmax c.
Proof. intro H. split; [apply qnat_nonneg | apply qnat_le; lia]. Qed.

Lemma spans_rect c rw sx sy : spans (extrema (RRect c rw sx sy)) (offsets (RRect c rw sx sy)).
Proof.
  intros o Ho. rewrite offsets_spec_lemma in Ho. cbn [offsets_spec] in Ho.
  apply in_lattice in Ho. destruct Ho as (i & j & Hi & Hj & ->).
  assert (Ec : c <> 0%N) by lia. assert (Er : rw <> 0%N) by lia.
  destruct (lattice_index_bounds c i Hi) as [I0 I1].
  destruct (lattice_index_bounds rw j Hj) as [J0 J1].
  unfold rect_at. cbn [fst snd].
  split; [|split; [|split]].
  - destruct (scalar_lo (qnat i) (cmax c) sx I0 I1) as [bi Hb].
    destruct (rect_corner_in c rw sx sy bi false Ec Er) as (e & He & Hx & _).
    exists e. split; [exact He|]. rewrite Hx. exact Hb.
  - destruct (scalar_lo (qnat j) (cmax rw) sy J0 J1) as [bj Hb].
    destruct (rect_corner_in c rw sx sy false bj Ec Er) as (e & He & _ & Hy).
    exists e. split; [exact He|]. rewrite Hy. exact Hb.
  - destruct (scalar_hi (qnat i) (cmax c) sx I0 I1) as [bi Hb].
    destruct (rect_corner_in c rw sx sy bi false Ec Er) as (e & He & Hx & _).
    exists e. split; [exact He|]. rewrite Hx. exact Hb.
  - destruct (scalar_hi (qnat j) (cmax rw) sy J0 J1) as [bj Hb].
    destruct (rect_corner_in c rw sx sy false bj Ec Er) as (e & He & _ & Hy).
    exists e. split; [exact He|]. rewrite Hy. exact Hb.
Qed.

Lemma spans_reg c rw v1 v2 : spans (extrema (RReg c rw v1 v2)) (offsets (RReg c rw v1 v2)).
Proof.
  intros o Ho. rewrite offsets_spec_lemma in Ho. cbn [offsets_spec] in Ho.
  apply in_lattice in Ho. destruct Ho as (i & j & Hi & Hj & ->).
  assert (Ec : c <> 0%N) by lia. assert (Er : rw <> 0%N) by lia.
  destruct (lattice_index_bounds c i Hi) as [I0 I1].
  destruct (lattice_index_bounds rw j Hj) as [J0 J1].
  unfold reg_at. cbn [fst snd].
  split; [|split; [|split]].
  - destruct (scalar_lo (qnat i) (cmax c) (fst v1) I0 I1) as [bi Hbi].
    destruct (scalar_lo (qnat j) (cmax rw) (fst v2) J0 J1) as [bj Hbj].
    destruct (reg_corner_in c rw v1 v2 bi bj Ec Er) as (e & He & Hx & _).
    exists e. split; [exact He|]. rewrite Hx. unfold corner. lra.
  - destruct (scalar_lo (qnat i) (cmax c) (snd v1) I0 I1) as [bi Hbi].
    destruct (scalar_lo (qnat j) (cmax rw) (snd v2) J0 J1) as [bj Hbj].
    destruct (reg_corner_in c rw v1 v2 bi bj Ec Er) as (e & He & _ & Hy).
    exists e. split; [exact He|]. rewrite Hy. unfold corner. lra.
  - destruct (scalar_hi (qnat i) (cmax c) (fst v1) I0 I1) as [bi Hbi].
    destruct (scalar_hi (qnat j) (cmax rw) (fst v2) J0 J1) as [bj Hbj].
    destruct (reg_corner_in c rw v1 v2 bi bj Ec Er) as (e & He & Hx & _).
    exists e. split; [exact He|]. rewrite Hx. unfold corner. lra.
  - destruct (scalar_hi (qnat i) (cmax c) (snd v1) I0 I1) as [bi Hbi].
    destruct (scalar_hi (qnat j) (cmax rw) (snd v2) J0 J1) as [bj Hbj].
    destruct (reg_corner_in c rw v1 v2 bi bj Ec Er) as (e & He & _ & Hy).
    exists e. split; [exact He|]. rewrite Hy. unfold corner. lra.
Qed.

Lemma spans_expl l : spans (extrema (RExpl l)) (offsets (RExpl l)).
Proof.
  destruct l as [|x0 l'].
  { intros o [<-|[]]. repeat split; exists (0, 0); (split; [left; reflexivity | cbn; lra]). }
  cbn [extrema]. generalize (x0 :: l'). intro l.
  unfold scan_key.
  pose proof (scan_bounds (fun v : vec => fst v) l vzero vzero) as Bx.
  pose proof (scan_bounds (fun v : vec => snd v) l vzero vzero) as By.
  destruct (fold_left (step_key (fun v : vec => fst v)) l (vzero, vzero)) as [a b].
  destruct (fold_left (step_key (fun v : vec => snd v)) l (vzero, vzero)) as [c d].
  cbn [fst snd] in Bx, By.
  destruct Bx as (Bx1 & Bx2 & Bx3); [cbn; lra|]. destruct By as (By1 & By2 & By3); [cbn; lra|].
  cbn [offsets]. intros o [<-|Ho].
  - split; [|split; [|split]].
    + exists a. split; [left; reflexivity | exact Bx1].
    + exists c. split; [right; right; left; reflexivity | exact By1].
    + exists b. split; [right; left; reflexivity | exact Bx2].
    + exists d. split; [right; right; right; left; reflexivity | exact By2].
  - destruct (Bx3 o Ho) as [X1 X2]. destruct (By3 o Ho) as [Y1 Y2].
    split; [|split; [|split]].
    + exists a. split; [left; reflexivity | exact X1].
    + exists c. split; [right; right; left; reflexivity | exact Y1].
    + exists b. split; [right; left; reflexivity | exact X2].
    + exists d. split; [right; right; right; left; reflexivity | exact Y2].
Qed.

Lemma spans_explX l : spans (extrema (RExplX l)) (offsets (RExplX l)).
Proof.
  destruct l as [|x0 l'].
  { intros o [<-|[]]. repeat split; exists (0, 0); (split; [left; reflexivity | cbn; lra]). }
  cbn [extrema]. generalize (x0 :: l'). intro l.
  unfold scan_key.
  pose proof (scan_bounds (fun x : Q => x) l 0 0) as B.
  destruct (fold_left (step_key (fun x : Q => x)) l (0, 0)) as [a b].
  cbn [fst snd] in B. destruct B as (B1 & B2 & B3); [lra|].
  assert (Hall : forall o, In o (offsets (RExplX l)) -> a <= fst o /\ fst o <= b /\ snd o == 0).
  { cbn [offsets]. intros o [<-|Ho]; [cbn; repeat split; lra|].
    apply in_map_iff in Ho. destruct Ho as (x & <- & Hx). destruct (B3 x Hx). cbn. repeat split; lra. }
  destruct (Qeq_bool a b) eqn:Eab; cbn [negb]; intros o Ho; destruct (Hall o Ho) as (H1 & H2 & H3).
  - apply Qeq_bool_iff in Eab.
    split; [|split; [|split]]; exists (a, 0); (split; [left; reflexivity | cbn [fst snd]; lra]).
  - split; [|split; [|split]].
    + exists (a, 0). split; [left; reflexivity | cbn [fst snd]; lra].
    + exists (a, 0). split; [left; reflexivity | cbn [fst snd]; lra].
    + exists (b, 0). split; [right; left; reflexivity | cbn [fst snd]; lra].
    + exists (a, 0). split; [left; reflexivity | cbn [fst snd]; lra].
Qed.

Lemma spans_explY l : spans (extrema (RExplY l)) (offsets (RExplY l)).
Proof.
  destruct l as [|x0 l'].
  { intros o [<-|[]]. repeat split; exists (0, 0); (split; [left; reflexivity | cbn; lra]). }
  cbn [extrema]. generalize (x0 :: l'). intro l.
  unfold scan_key.
  pose proof (scan_bounds (fun x : Q => x) l 0 0) as B.
  destruct (fold_left (step_key (fun x : Q => x)) l (0, 0)) as [a b].
  cbn [fst snd] in B. destruct B as (B1 & B2 & B3); [lra|].
  assert (Hall : forall o, In o (offsets (RExplY l)) -> a <= snd o /\ snd o <= b /\ fst o == 0).
  { cbn [offsets]. intros o [<-|Ho]; [cbn; repeat split; lra|].
    apply in_map_iff in Ho. destruct Ho as (x & <- & Hx). destruct (B3 x Hx). cbn. repeat split; lra. }
  destruct (Qeq_bool a b) eqn:Eab; cbn [negb]; intros o Ho; destruct (Hall o Ho) as (H1 & H2 & H3).
  - apply Qeq_bool_iff in Eab.
    split; [|split; [|split]]; exists (0, a); (split; [left; reflexivity | cbn [fst snd]; lra]).
  - split; [|split; [|split]].
    + exists (0, a). split; [left; reflexivity | cbn [fst snd]; lra].
    + exists (0, a). split; [left; reflexivity | cbn [fst snd]; lra].
    + exists (0, a). split; [left; reflexivity | cbn [fst snd]; lra].
    + exists (0, b). split; [right; left; reflexivity | cbn [fst snd]; lra].
Qed.

Lemma lattice_nil_r cols f : lattice cols 0 f = [].
Proof.
  unfold lattice.
  assert (H : forall s, flat_map (fun i => map (f i) (seq 0 0)) (seq s cols) = []).
  { induction cols as [|c IH]; intro s; cbn; [reflexivity | apply IH]. }
  apply H.
Qed.

(* no extreme is reported exactly when there is no offset (None, or zero columns / rows) *)
Lemma extrema_nil_offsets_nil r : extrema r = [] -> offsets r = [].
Proof.
  destruct r as [|c rw sx sy|c rw v1 v2|l|l|l].
  - reflexivity.
  - cbn [extrema]. destruct ((c =? 0) || (rw =? 0))%N eqn:E0.
    + intros _. rewrite offsets_spec_lemma. cbn [offsets_spec].
      apply orb_true_iff in E0. destruct E0 as [E|E]; apply N.eqb_eq in E; subst;
        [reflexivity | apply lattice_nil_r].
    + destruct (c =? 1)%N, (rw =? 1)%N; discriminate.
  - cbn [extrema]. destruct ((c =? 0) || (rw =? 0))%N eqn:E0.
    + intros _. rewrite offsets_spec_lemma. cbn [offsets_spec].
      apply orb_true_iff in E0. destruct E0 as [E|E]; apply N.eqb_eq in E; subst;
        [reflexivity | apply lattice_nil_r].
    + destruct (c =? 1)%N, (rw =? 1)%N; cbv zeta; discriminate.
  - destruct l; [discriminate|]. cbn [extrema].
    destruct (scan_key _ _ _), (scan_key _ _ _). discriminate.
  - destruct l; [discriminate|]. cbn [extrema].
    destruct (scan_key _ _ _). destruct (negb _); discriminate.
  - destruct l; [discriminate|]. cbn [extrema].
    destruct (scan_key _ _ _). destruct (negb _); discriminate.
Qed.

Theorem extrema_spans_lemma r : spans (extrema r) (offsets r).
Proof.
  destruct r as [|c rw sx sy|c rw v1 v2|l|l|l].
  - intros o [].
  - apply spans_rect.
  - apply spans_reg.
  - apply spans_expl.
  - apply spans_explX.
  - apply spans_explY.
Qed.

(* the bounding box of the reported extrema is the bounding box of all offsets: every kind,
   every count (including 0 and 1), every sign pattern, every explicit list (including the empty
   one, for which get_extrema now reports the origin) *)
Theorem extrema_bbox_lemma r : bbox_eq (bbox (extrema r)) (bbox (offsets r)).
Proof.
  apply bbox_eq_of_span.
  - intros e. apply extrema_subset_lemma.
  - apply extrema_spans_lemma.
  - apply extrema_nil_offsets_nil.
Qed.

(* explicit kinds with an empty list: count 1, the single offset 0, the single extreme 0 *)
Theorem extrema_empty_explicit_lemma :
  forall r, In r [RExpl []; RExplX []; RExplY []] ->
    rep_ok r /\ count r = 1%N /\ offsets r = [vzero] /\ extrema r = [vzero].
Proof.
  intros r [<-|[<-|[<-|[]]]]; repeat split; cbn; auto.
Qed.

(* ================================================================== transform *)
Lemma map_flat_map {A B C} (h : B -> C) (F : A -> list B) l :
  map h (flat_map F l) = flat_map (fun x => map h (F x)) l.
Proof. induction l as [|a l IH]; cbn; [reflexivity | now rewrite map_app, IH]. Qed.

Lemma Forall2_map_pointwise {A B} (R : B -> B -> Prop) (f g : A -> B) l :
  (forall x, R (f x) (g x)) -> Forall2 R (map f l) (map g l).
Proof. intro H. induction l; cbn; constructor; auto. Qed.

Lemma Forall2_lattice (R : vec -> vec -> Prop) cols rows f g :
  (forall i j, R (f i j) (g i j)) -> Forall2 R (lattice cols rows f) (lattice cols rows g).
Proof.
  intro H. unfold lattice. generalize (seq 0 cols). intro l.
  induction l as [|i l IH]; cbn; [constructor|].
  apply Forall2_app; [apply Forall2_map_pointwise; apply H | exact IH].
Qed.

Lemma map_lattice h cols rows f :
  map h (lattice cols rows f) = lattice cols rows (fun i j => h (f i j)).
Proof.
  unfold lattice. rewrite map_flat_map. apply flat_map_ext. intro i. apply map_map.
Qed.

Ltac m_is_1 :=
  match goal with
  | H : neq1 ?m = false |- _ => apply neq1_false in H
  | _ => idtac
  end.
(* coordinate-wise ring goal, using m == 1 when that is known *)
Ltac fin :=
  split; cbn [fst snd];
  try (match goal with H : ?m == 1 |- _ => rewrite H end);
  ring.

Lemma linear_vzero m xr rt : veq vzero (linear m xr rt vzero).
Proof.
  unfold linear, vzero. destruct (rot_cs rt) as [c s]. destruct xr; split; cbn [fst snd]; ring.
Qed.

(* transforming a repetition maps each offset, in order, by the linear part of the transform *)
Theorem transform_linear_lemma r m xr rt :
  Forall2 veq (offsets (transform r m xr rt)) (map (linear m xr rt) (offsets r)).
Proof.
  destruct r as [|c rw sx sy|c rw v1 v2|l|l|l].
  - constructor.
  - (* Rectangular *)
    cbn [transform].
    destruct (xr || match rt with None => false | Some _ => true end) eqn:Eb.
    + destruct (rot_cs rt) as [ca sa] eqn:Ers.
      rewrite !offsets_spec_lemma. cbn [offsets_spec]. rewrite map_lattice.
      apply Forall2_lattice. intros i j. unfold reg_at, rect_at, linear. rewrite Ers.
      generalize (qnat i) (qnat j). intros qi qj.
      destruct (neq1 m) eqn:Em; destruct xr; m_is_1; fin.
    + apply orb_false_iff in Eb. destruct Eb as [-> Ert]. destruct rt; [discriminate|].
      rewrite !offsets_spec_lemma. cbn [offsets_spec]. rewrite map_lattice.
      apply Forall2_lattice. intros i j. unfold rect_at, linear. cbn [rot_cs].
      generalize (qnat i) (qnat j). intros qi qj.
      destruct (neq1 m) eqn:Em; m_is_1; fin.
  - (* Regular *)
    cbn [transform]. rewrite !offsets_spec_lemma. cbn [offsets_spec]. rewrite map_lattice.
    apply Forall2_lattice. intros i j. unfold reg_at, linear, cplx_mul.
    generalize (qnat i) (qnat j). intros qi qj.
    destruct v1 as [a b], v2 as [a' b'].
    destruct rt as [[cs sn]|]; cbn [rot_cs];
      destruct (neq1 m) eqn:Em; destruct xr; m_is_1; fin.
  - (* Explicit *)
    cbn [transform].
    destruct rt as [[cs sn]|].
    + destruct xr; cbn [offsets map]; (constructor; [apply linear_vzero|]);
        apply Forall2_map_pointwise; intros [x y];
        unfold linear, cplx_mul, cplx_conj; cbn [rot_cs fst snd]; fin.
    + destruct xr; destruct (neq1 m) eqn:Em; cbn [andb offsets map];
        (constructor; [apply linear_vzero|]).
      * apply Forall2_map_pointwise; intros [x y]; unfold linear; cbn [rot_cs fst snd];
          fin.
      * apply Forall2_map_pointwise; intros [x y]; unfold linear; cbn [rot_cs fst snd]; m_is_1;
          fin.
      * apply Forall2_map_pointwise; intros [x y]; unfold linear; cbn [rot_cs fst snd];
          fin.
      * rewrite <- (map_id l) at 1.
        apply Forall2_map_pointwise; intros [x y]; unfold linear; cbn [rot_cs fst snd]; m_is_1;
          fin.
  - (* ExplicitX *)
    cbn [transform].
    destruct rt as [[cs sn]|].
    + cbn [offsets map]. (constructor; [apply linear_vzero|]). rewrite !map_map.
      apply Forall2_map_pointwise; intros x; unfold linear; cbn [rot_cs fst snd].
      destruct xr; fin.
    + destruct (neq1 m) eqn:Em; cbn [offsets map]; (constructor; [apply linear_vzero|]);
        rewrite !map_map; apply Forall2_map_pointwise; intros x; unfold linear; cbn [rot_cs fst snd];
        m_is_1; destruct xr; fin.
  - (* ExplicitY *)
    cbn [transform].
    destruct rt as [[cs sn]|].
    + cbn [offsets map]. (constructor; [apply linear_vzero|]). rewrite !map_map.
      apply Forall2_map_pointwise; intros y; unfold linear; cbn [rot_cs fst snd].
      destruct xr; fin.
    + destruct (xr || neq1 m) eqn:Eb.
      * cbn [offsets map]. (constructor; [apply linear_vzero|]). rewrite !map_map.
        apply Forall2_map_pointwise; intros y; unfold linear; cbn [rot_cs fst snd].
        destruct xr; fin.
      * apply orb_false_iff in Eb. destruct Eb as [-> Em].
        cbn [offsets map]. (constructor; [apply linear_vzero|]). rewrite !map_map.
        apply Forall2_map_pointwise; intros y; unfold linear; cbn [rot_cs fst snd]. m_is_1.
        fin.
Qed.

(* the transform keeps the count *)
Corollary transform_count_lemma r m xr rt :
  length (offsets (transform r m xr rt)) = length (offsets r).
Proof.
  pose proof (transform_linear_lemma r m xr rt) as H.
  assert (L : forall (a b : list vec), Forall2 veq a b -> length a = length b).
  { induction 1; cbn; congruence. }
  apply L in H. now rewrite map_length in H.
Qed.

(* [linear] with a genuine rotation is a similarity of ratio |m| *)
Lemma linear_norm m xr rt v : rot_ok rt ->
  fst (linear m xr rt v) * fst (linear m xr rt v) + snd (linear m xr rt v) * snd (linear m xr rt v)
  == m * m * (fst v * fst v + snd v * snd v).
Proof.
  unfold rot_ok, linear. destruct v as [x y]. destruct rt as [[c s]|]; cbn [rot_cs fst snd]; intro H.
  - destruct xr; cbn [fst snd].
    + transitivity (m * m * (x * x + y * y) * (c * c + s * s)); [ring | rewrite H; ring].
    + transitivity (m * m * (x * x + y * y) * (c * c + s * s)); [ring | rewrite H; ring].
  - destruct xr; cbn [fst snd]; ring.
Qed.

(* ================================================================== apply_repetition *)
Section ApplyProofs.
  Context {E : Type} (translate : vec -> E -> E).

  Lemma apply_none e : apply_repetition translate e RNone = Ok ([], RNone).
  Proof. reflexivity. Qed.

  Lemma wrapZ_pred_small n : (N.of_nat (S n) < two64N)%N -> wrapZ (Z.of_nat (S n) - 1) = N.of_nat n.
  Proof.
    unfold wrapZ, two64N. intro H. rewrite Z.mod_small by lia. lia.
  Qed.

  (* One copy per offset other than the first (which is the zero vector when there is one, see
     offsets_head_zero_lemma), in the enumeration order, duplicates kept; each copy is the
     element translated by that offset; copies and the original are left without repetition.
     Holds for every representable repetition: None and count 0 give no copy (tl [] = []). *)
  Theorem apply_repetition_spec_lemma e r :
    rep_ok r ->
    apply_repetition translate e r =
      Ok (map (fun v => (translate v e, RNone)) (tl (offsets r)), RNone) /\
    N.of_nat (length (map (fun v => (translate v e, RNone)) (tl (offsets r)))) = (count r - 1)%N.
  Proof.
    intros Hok.
    pose proof (count_offsets_lemma r Hok) as Hc.
    assert (Hlt : (N.of_nat (length (offsets r)) < two64N)%N).
    { rewrite Hc. destruct r; cbn [count] in *; unfold wrapN;
        try (apply N.mod_lt; discriminate). reflexivity. }
    split.
    - destruct r; [reflexivity| | | | |];
        unfold apply_repetition;
        (destruct (offsets _) as [|z t] eqn:Ho; [reflexivity|]);
        cbn [length skipn tl] in *;
        replace (N.of_nat (S (length t)) =? 0)%N with false by (symmetry; apply N.eqb_neq; lia);
        rewrite (wrapZ_pred_small (length t) Hlt), N.ltb_irrefl, Nat2N.id, firstn_all; reflexivity.
    - rewrite map_length, <- Hc. destruct (offsets r); cbn [tl length]; lia.
  Qed.

  (* the repaired degenerate case: no offsets (zero columns or rows) => no copies, no crash *)
  Lemma apply_zero_count_ok e r : offsets r = [] -> apply_repetition translate e r = Ok ([], RNone).
  Proof.
    intros Ho. destruct r; [reflexivity| | | | |]; unfold apply_repetition; rewrite Ho; reflexivity.
  Qed.

  (* the model's Crash branch is dead code for representable repetitions *)
  Corollary apply_repetition_no_crash_lemma e r : rep_ok r -> apply_repetition translate e r <> Crash.
  Proof. intros H C. destruct (apply_repetition_spec_lemma e r H) as [Heq _]. congruence. Qed.
End ApplyProofs.

(* What is still false in "always includes the zero vector": with columns = 0 (or rows = 0) the
   count is 0 and the set of offsets is empty.  (apply_repetition then makes no copy and clears
   the repetition; get_extrema reports nothing.) *)
Theorem zero_count_refuted :
  exists r, rep_ok r /\ r <> RNone /\ count r = 0%N /\ offsets r = [] /\ ~ InV vzero (offsets r).
Proof.
  exists (RRect 0 1 1 1). split; [reflexivity|]. split; [discriminate|].
  split; [reflexivity|]. split; [reflexivity|]. intro H; inversion H.
Qed.

(* both degenerate directions, every lattice kind, any spacing: empty set, no extrema, and
   apply_repetition returns no copies and leaves the element without repetition *)
Theorem zero_count_apply_lemma :
  forall c rw, (c = 0 \/ rw = 0)%N ->
  forall (E : Type) (translate : vec -> E -> E) (e : E),
    (forall sx sy, offsets (RRect c rw sx sy) = [] /\ extrema (RRect c rw sx sy) = [] /\
                   apply_repetition translate e (RRect c rw sx sy) = Ok ([], RNone)) /\
    (forall v1 v2, offsets (RReg c rw v1 v2) = [] /\ extrema (RReg c rw v1 v2) = [] /\
                   apply_repetition translate e (RReg c rw v1 v2) = Ok ([], RNone)).
Proof.
  intros c rw H E translate e.
  assert (Ho : forall f, lattice (N.to_nat c) (N.to_nat rw) f = []).
  { intro f. destruct H as [-> | ->]; [reflexivity | apply lattice_nil_r]. }
  assert (Hb : ((c =? 0) || (rw =? 0))%N = true).
  { destruct H as [-> | ->]; [reflexivity | apply orb_true_r]. }
  split; intros.
  - assert (O : offsets (RRect c rw sx sy) = []) by (rewrite offsets_spec_lemma; apply Ho).
    split; [exact O|]. split; [cbn [extrema]; now rewrite Hb | now apply apply_zero_count_ok].
  - assert (O : offsets (RReg c rw v1 v2) = []) by (rewrite offsets_spec_lemma; apply Ho).
    split; [exact O|]. split; [cbn [extrema]; now rewrite Hb | now apply apply_zero_count_ok].
Qed.

(* the concrete element used by the extracted driver *)
Corollary apply_elem_spec_lemma {A} (e : elem A) r :
  rep_ok r ->
  apply_elem e r = Ok (map (fun v => (mkElem (map (fun p => vadd p v) (e_pos e)) (e_rest e), RNone))
                           (tl (offsets r)), RNone).
Proof. intros H1. apply (apply_repetition_spec_lemma elem_translate e r H1). Qed.

(* ================================================================== hypotheses are satisfiable *)
Example rep_ok_example :
  let r := RReg 3 2 (2, 1) (-1, 3) in
  rep_ok r /\ (0 < count r)%N /\ count r = 6%N /\
  offsets r = offsets_spec r /\ length (extrema r) = 4%nat.
Proof. cbn. repeat split; reflexivity. Qed.

Example rot_ok_example : rot_ok (Some (3 # 5, 4 # 5)) /\ rot_ok (Some (0, -1 # 1)) /\ rot_ok None.
Proof. cbn. repeat split; reflexivity. Qed.

Example rep_ok_zero_count_example : rep_ok (RReg 3 0 (1, 2) (3, 4)) /\ count (RReg 3 0 (1, 2) (3, 4)) = 0%N.
Proof. cbn. split; reflexivity. Qed.

Print Assumptions offsets_spec_lemma.
Print Assumptions offsets_nth_lemma.
Print Assumptions count_offsets_lemma.
Print Assumptions zero_in_offsets_lemma.
Print Assumptions extrema_subset_lemma.
Print Assumptions extrema_bbox_lemma.
Print Assumptions extrema_empty_explicit_lemma.
Print Assumptions transform_linear_lemma.
Print Assumptions apply_repetition_spec_lemma.
Print Assumptions zero_count_refuted.
Print Assumptions zero_count_apply_lemma.
Print Assumptions apply_repetition_no_crash_lemma.
Print Assumptions count_wrap_refuted.
