(* extraction of the CBLOCK-aware reader / writer models (unit oas_cblock); inflate / deflate stay function arguments *)
Require Import Base OasisInt OasisSpec OasisRead OasisCblock.
Require Import Extraction ExtrOcamlBasic.
Extraction Blacklist List String Int.
Extraction "../ocaml/extracted/oas_cblock.ml" read_oas_model_c lib_missing Z.of_N Z.mul Z.sub Z.add.
