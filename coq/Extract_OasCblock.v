(* extraction of the CBLOCK-aware reader / writer models (unit oas_cblock); inflate / deflate stay function arguments *)
Require Import Base OasisInt OasisSpec PropList OasisWrite OasisCblockWrite.
Require OasisRead OasisCblock.
Require Import Extraction ExtrOcamlBasic.
Extraction Blacklist List String Int.
Extraction "../ocaml/extracted/oas_cblock.ml" OasisCblock.read_oas_model_c OasisRead.lib_missing write_oas_model_c
  mkWCfg mkWLib mkWCell mkWPoly mkWPath mkWPel mkWLabel mkWRef
  Z.of_N Z.mul Z.sub Z.add.
