(* Gallina model of the second, incremental GDSII writer of the public API and of the raw-cell writer:

     gdswriter_init / GdsWriter::write_cell / write_rawcell / close   (include/gdstk/gdswriter.hpp)
     RawCell::to_gds                                                  (src/rawcell.cpp)
     the raw-cell loop of Library::write_gds                          (src/library.cpp)

   Cells are on the database grid (GdsModel.v / GdsWrite.v: `cell_records` is Cell::to_gds); a raw cell is the
   C++ struct: name, `source` (RawSource* + file offset, not yet read) or `data` (bytes in memory), `size`,
   `dependencies` (pointers = indices into the heap of raw cells).  RawCell::to_gds MUTATES the raw cell (lazy read:
   `data = allocate(size); pread; source->uses--; source = NULL`, and `size = 0` after a short read), so the model
   threads a heap of raw cells and of reference-counted sources through a session.

   What the C++ does NOT do (read rawcell.cpp: to_gds is 20 lines): it does not look at `dependencies`, and it keeps
   no "already written" mark - a raw cell written twice (through one or through two writers, or listed twice in
   Library::rawcell_array) is emitted twice, the second time from `data`.  The model mirrors exactly that.
   Definitions only. *)
Require Import Base GdsFrame GdsModel GdsWrite GdsRaw.
From Coq Require Import ZArith.
Local Open Scope N_scope.

(* ------------------------------------------------------------------ results *)
(* RCrash: the C++ dereferences a freed RawSource / a pointer that is no raw cell, or writes past `data`;
   RFracture: a polygon with more than max_points > 4 vertices goes through Polygon::fracture (Clipper; property C12):
   outside this model *)
Inductive gres (A : Type) : Type := ROk (a : A) | RCrash | RFracture.
Arguments ROk {A} a.
Arguments RCrash {A}.
Arguments RFracture {A}.

Definition gbind {A B} (x : gres A) (f : A -> gres B) : gres B :=
  match x with ROk a => f a | RCrash => RCrash | RFracture => RFracture end.

(* ------------------------------------------------------------------ gdswriter_init *)
(* struct GdsWriter: `unit` / `precision` enter the file only through the two 8-byte reals of UNITS
   (gdsii_real_from_double (precision / unit), gdsii_real_from_double (precision): property C19) and through
   scaling = unit / precision of write_cell (the grid); they are kept as those two patterns.  `timestamp` is kept as
   the six 16-bit words written (tm_year + 1900, tm_mon + 1, tm_mday, tm_hour, tm_min, tm_sec). *)
Record gwriter := { gw_units : N * N; gw_max_points : N; gw_ts : list Z }.

(* `uint64_t len = strlen(library_name); if (len % 2) len++;` *)
Definition even_len (s : bytes) : nat := if Nat.even (length s) then length s else S (length s).

(* uint16_t buffer_start[] = {6, 0x0002, 0x0258, 28, 0x0102, <12 timestamp words>, (uint16_t)(4 + len), 0x0206};
   big_endian_swap16; fwrite;  fwrite(library_name, 1, len, out)  - the terminating NUL pads an odd name -;
   uint16_t buffer_units[] = {20, 0x0305};  uint64_t units[] = {real(precision / unit), real(precision)} *)
Definition gdswriter_header (name : bytes) (u0 u1 : N) (max_points : N) (ts : list Z) : bytes :=
  flat_map enc16 ([6; 2; 600; 28; 258]%Z ++ ts ++ ts ++ [(4 + Z.of_nat (even_len name))%Z; 518%Z])
  ++ pad_even name
  ++ flat_map enc16 [20; 773]%Z
  ++ enc64 u0 ++ enc64 u1.

(* the same bytes seen as four records (proved equal in GdsWriterProofs.v) *)
Definition gdswriter_header_records (name : bytes) (u0 u1 : N) (ts : list Z) : list grecord :=
  [mkrec 0 2 (enc16 600); mkrec 1 2 (ts_bytes ts); mkrec 2 6 (pad_even name); mkrec 3 5 (enc64 u0 ++ enc64 u1)].

(* ------------------------------------------------------------------ GdsWriter::write_cell *)
(* Cell::to_gds: `if (max_points > 4 && polygon->point_array.count > max_points) polygon->fracture(...)` *)
Definition needs_fracture (mp : N) (c : gcell) : bool :=
  (4 <? mp) && existsb (fun p => mp <? N.of_nat (length (p_pts p))) (c_polys c).

(* cell.to_gds(out, unit / precision, max_points, precision, &timestamp) *)
Definition gdswriter_cell (w : gwriter) (c : gcell) : gres bytes :=
  if needs_fracture (gw_max_points w) c then RFracture
  else ROk (flat_map rec_bytes (cell_records (gw_ts w) c)).

(* ------------------------------------------------------------------ raw cells *)
Inductive rawsrc :=
| Lazy (s : nat) (off : N)     (* source != NULL: RawSource number s, union member `offset` *)
| Loaded (data : bytes).       (* source == NULL: union member `data` (the allocation) *)

Record rawcell := { rw_name : bytes; rw_src : rawsrc; rw_size : N; rw_deps : list nat }.
(* RawSource: the open FILE (its bytes NOW: pread sees the file as it is when to_gds runs), uint32_t uses;
   rs_open = false once `uses` reached 0: fclose + free_allocation(source) *)
Record rawsource := { rs_file : bytes; rs_uses : N; rs_open : bool }.
Record rheap := { rh_cells : list rawcell; rh_srcs : list rawsource }.

Fixpoint upd {A} (l : list A) (i : nat) (x : A) : list A :=
  match l, i with
  | [], _ => []
  | _ :: tl, O => x :: tl
  | y :: tl, S k => y :: upd tl k x
  end.

(* pread(fileno(file), buffer, num_bytes, offset): the bytes present from `offset` on, at most num_bytes; the return
   value is their number *)
Definition pread (file : bytes) (n off : N) : bytes := firstn (N.to_nat n) (skipn (N.to_nat off) file).

(* source->uses--; if (source->uses == 0) { fclose(source->file); free_allocation(source); } *)
Definition release (src : rawsource) : rawsource :=
  let u := (rs_uses src + 4294967295) mod 4294967296 in
  {| rs_file := rs_file src; rs_uses := u; rs_open := negb (u =? 0) |}.

(* ErrorCode RawCell::to_gds(FILE* out): new heap, bytes appended to `out`, error_code != NoError (InputFileError) *)
Definition rawcell_to_gds (h : rheap) (r : nat) : gres (rheap * bytes * bool) :=
  match nth_error (rh_cells h) r with
  | None => RCrash
  | Some c =>
      match rw_src c with
      | Loaded data =>
          (* fwrite(data, 1, size, out) *)
          if N.of_nat (length data) <? rw_size c then RCrash
          else ROk (h, firstn (N.to_nat (rw_size c)) data, false)
      | Lazy s off =>
          match nth_error (rh_srcs h) s with
          | None => RCrash
          | Some src =>
              if rs_open src then
                (* data = allocate(size); result = source->offset_read(data, size, off);
                   if (result < 0 || (uint64_t)result != size) { error_code = InputFileError; size = 0; } *)
                let data := pread (rs_file src) (rw_size c) off in
                let short := negb (N.of_nat (length data) =? rw_size c) in
                let size' := if short then 0 else rw_size c in
                let c' := {| rw_name := rw_name c; rw_src := Loaded data; rw_size := size'; rw_deps := rw_deps c |} in
                (* source->uses--; ...; source = NULL; fwrite(data, 1, size, out) *)
                ROk ({| rh_cells := upd (rh_cells h) r c'; rh_srcs := upd (rh_srcs h) s (release src) |},
                     firstn (N.to_nat size') data, short)
              else RCrash
          end
      end
  end.

(* ------------------------------------------------------------------ a session of one writer *)
Inductive gwop := WCell (c : gcell) | WRaw (r : nat).

(* one call: write_cell / write_rawcell; the third component is `error_code != NoError` of the call *)
Definition gdswriter_op (w : gwriter) (h : rheap) (op : gwop) : gres (rheap * bytes * bool) :=
  match op with
  | WCell c => gbind (gdswriter_cell w c) (fun b => ROk (h, b, false))
  | WRaw r => rawcell_to_gds h r
  end.

Fixpoint gdswriter_ops (w : gwriter) (h : rheap) (ops : list gwop) : gres (rheap * bytes * list bool) :=
  match ops with
  | [] => ROk (h, [], [])
  | op :: tl =>
      gbind (gdswriter_op w h op) (fun '(h1, b1, e1) =>
      gbind (gdswriter_ops w h1 tl) (fun '(h2, b2, e2) => ROk (h2, b1 ++ b2, e1 :: e2)))
  end.

(* GdsWriter::close: uint16_t buffer_end[] = {4, 0x0400} *)
Definition gdswriter_close : bytes := flat_map enc16 [4; 1024]%Z.

(* gdswriter_init; the calls; close: the file, the heap afterwards, the error flag of every call *)
Definition gdswriter_run (name : bytes) (w : gwriter) (h : rheap) (ops : list gwop) : gres (rheap * bytes * list bool) :=
  gbind (gdswriter_ops w h ops) (fun '(h', body, errs) =>
    ROk (h', gdswriter_header name (fst (gw_units w)) (snd (gw_units w)) (gw_max_points w) (gw_ts w) ++ body ++ gdswriter_close, errs)).

(* ------------------------------------------------------------------ several writers alive at the same time *)
(* ops carry the index of the GdsWriter they are called on; the heap of raw cells is shared *)
Fixpoint session_chunks (ws : list (bytes * gwriter)) (h : rheap) (ops : list (nat * gwop))
  : gres (rheap * list (nat * bytes) * list bool) :=
  match ops with
  | [] => ROk (h, [], [])
  | (k, op) :: tl =>
      match nth_error ws k with
      | None => RCrash
      | Some (_, w) =>
          gbind (gdswriter_op w h op) (fun '(h1, b1, e1) =>
          gbind (session_chunks ws h1 tl) (fun '(h2, ch, e2) => ROk (h2, (k, b1) :: ch, e1 :: e2)))
      end
  end.

Definition chunks_of (k : nat) (ch : list (nat * bytes)) : bytes :=
  flat_map (fun x => if Nat.eqb (fst x) k then snd x else []) ch.

Fixpoint session_files (k : nat) (ws : list (bytes * gwriter)) (ch : list (nat * bytes)) : list bytes :=
  match ws with
  | [] => []
  | (name, w) :: tl =>
      (gdswriter_header name (fst (gw_units w)) (snd (gw_units w)) (gw_max_points w) (gw_ts w) ++ chunks_of k ch ++ gdswriter_close)
      :: session_files (S k) tl ch
  end.

Definition session_run (ws : list (bytes * gwriter)) (h : rheap) (ops : list (nat * gwop)) : gres (rheap * list bytes * list bool) :=
  gbind (session_chunks ws h ops) (fun '(h', ch, errs) => ROk (h', session_files 0 ws ch, errs)).

(* ------------------------------------------------------------------ Library::write_gds with raw cells in the library *)
(* header (same statements as gdswriter_init, with the library's name / unit / precision);
   for every cell of cell_array: cell->to_gds(out, scaling, max_points, precision, timestamp);
   for every raw cell of rawcell_array: rawcell->to_gds(out);   ENDLIB.  error_code = the last error *)
Definition library_write_gds_model (name : bytes) (units : N * N) (max_points : N) (ts : list Z)
    (cells : list gcell) (raws : list nat) (h : rheap) : gres (rheap * bytes * list bool) :=
  let w := {| gw_units := units; gw_max_points := max_points; gw_ts := ts |} in
  gbind (gdswriter_ops w h (map WCell cells)) (fun '(h1, b1, e1) =>
  gbind (gdswriter_ops w h1 (map WRaw raws)) (fun '(h2, b2, e2) =>
    ROk (h2, gdswriter_header name (fst units) (snd units) max_points ts ++ b1 ++ b2 ++ gdswriter_close, e1 ++ e2))).

(* ------------------------------------------------------------------ heaps made by read_rawcells *)
(* read_rawcells(F): every BGNSTR allocates a RawCell with source = the one RawSource of the call (uses++), offset and
   size = the byte range of the structure; ENDLIB resolves the dependency names (GdsRaw.raw_finish: e_deps = creation
   indices).  Raw cells shadowed by a later structure of the same name are not in the returned map (they keep their
   share of `uses`: the source is then never closed).  The raw cells of the call are appended to the heap in creation
   (= file) order. *)
Definition deps_of (es : list rawentry) (c : rawc) : list nat :=
  match find (fun e => rc_off (e_cell e) =? rc_off c) es with
  | Some e => e_deps e
  | None => []
  end.

Definition heap_add_file (h : rheap) (file_now : bytes) (res : rawres) : rheap :=
  let '(es, cells, _) := res in
  let base := length (rh_cells h) in
  let s := length (rh_srcs h) in
  let u := N.of_nat (length cells) mod 4294967296 in
  {| rh_cells := rh_cells h ++
       map (fun c => {| rw_name := rc_name c; rw_src := Lazy s (rc_off c); rw_size := rc_size c;
                        rw_deps := map (fun d => (base + d)%nat) (deps_of es c) |}) cells;
     rh_srcs := rh_srcs h ++ [ {| rs_file := file_now; rs_uses := u; rs_open := negb (u =? 0) |} ] |}.

Definition empty_heap : rheap := {| rh_cells := []; rh_srcs := [] |}.

(* number of RawSource files still open *)
Definition open_sources (h : rheap) : N := N.of_nat (length (filter rs_open (rh_srcs h))).

(* ------------------------------------------------------------------ what a caller has to write *)
(* Neither GdsWriter nor RawCell::to_gds follows `dependencies`.  The set a caller must write so that no reference
   of a raw cell dangles is the dependency closure; `raw_closure` lists it dependencies first, every raw cell once
   (depth-first, post-order, with the list written so far as the visited set).  The recursion has no "in progress"
   mark, like RawCell::get_dependencies(true, ...) of rawcell.cpp - the only traversal of raw dependencies in the C++
   (modelled in Graph.v, raw_deps) -: on a cyclic dependency graph it does not end; None = fuel exhausted. *)
Definition raw_deps_of (h : rheap) (r : nat) : list nat :=
  match nth_error (rh_cells h) r with Some c => rw_deps c | None => [] end.

Fixpoint visit (fuel : nat) (h : rheap) (acc : option (list nat)) (r : nat) : option (list nat) :=
  match fuel with
  | O => None
  | S f =>
      match acc with
      | None => None
      | Some a =>
          if existsb (Nat.eqb r) a then Some a
          else match fold_left (visit f h) (raw_deps_of h r) (Some a) with
               | None => None
               | Some a' => if existsb (Nat.eqb r) a' then Some a' else Some (a' ++ [r])
               end
      end
  end.

Definition raw_closure (h : rheap) (roots : list nat) : option (list nat) :=
  fold_left (visit (S (length (rh_cells h))) h) roots (Some []).
