(* C08 — the Arc section of a RobustPath over the reals: SubPath::eval / SubPath::gradient for
   SubPathType::Arc (src/robustpath.cpp), the spine normal used for the offset, and the constructors
   RobustPath::arc / RobustPath::turn.  Definitions only; the proofs are in ArcSectionProofs.v.

     Vec2 SubPath::gradient(double u, const double *trafo) const {
         Vec2 grad;
         u = u < 0 ? 0 : (u > 1 ? 1 : u);
         switch (type) { ...
             case SubPathType::Arc: {
                 const double angle = LERP(angle_i, angle_f, u);
                 const double dx = -radius_x * (angle_f - angle_i) * sin(angle);
                 const double dy = radius_y * (angle_f - angle_i) * cos(angle);
                 grad = Vec2{dx * cos_rot - dy * sin_rot, dx * sin_rot + dy * cos_rot};
             } break; ... }
         const double dx = grad.x;  const double dy = grad.y;
         Vec2 result = Vec2{dx * trafo[0] + dy * trafo[1], dx * trafo[3] + dy * trafo[4]};
         return result;
     }
     Vec2 SubPath::eval(double u, const double *trafo) const {
         if (u < 0) { const Vec2 p = eval(0, trafo); const Vec2 v = gradient(0, trafo); return p + v * u; }
         if (u > 1) { const Vec2 p = eval(1, trafo); const Vec2 v = gradient(1, trafo); return p + v * (u - 1); }
         Vec2 point;
         switch (type) { ...
             case SubPathType::Arc: {
                 const double angle = LERP(angle_i, angle_f, u);
                 const double x = radius_x * cos(angle);
                 const double y = radius_y * sin(angle);
                 point = center + Vec2{x * cos_rot - y * sin_rot, x * sin_rot + y * cos_rot};
             } break; ... }
         const double x = point.x;  const double y = point.y;
         Vec2 result = Vec2{x * trafo[0] + y * trafo[1] + trafo[2], x * trafo[3] + y * trafo[4] + trafo[5]};
         return result;
     }

   The polynomial sections are modelled over Q in PathBook.v (gradient = formal derivative of the
   Bernstein form); sin / cos need the reals, so the arc section lives here, over R, with the
   derivative of Coquelicot (`is_derive`).  cos_rot / sin_rot are independent fields of the record,
   exactly as in the C++ struct; the theorems that need a rotation say  cr^2 + sr^2 = 1. *)
From Coq Require Import Reals.
Local Open Scope R_scope.

Definition rpt : Type := (R * R)%type.

(* the fields of SubPath an Arc section uses *)
Record arc_section := mkArc {
  a_cx : R; a_cy : R;          (* center *)
  a_rx : R; a_ry : R;          (* radius_x, radius_y *)
  a_ai : R; a_af : R;          (* angle_i, angle_f *)
  a_cr : R; a_sr : R }.        (* cos_rot, sin_rot *)

(* trafo[0..5] *)
Record rtrafo := mkRT { m0 : R; m1 : R; m2 : R; m3 : R; m4 : R; m5 : R }.
Definition rtrafo_id : rtrafo := mkRT 1 0 0 0 1 0.

(* LERP(a, b, u) ((a) * (1 - (u)) + (b) * (u)) *)
Definition rlerp (a b u : R) : R := a * (1 - u) + b * u.

(* u = u < 0 ? 0 : (u > 1 ? 1 : u) *)
Definition clamp01R (u : R) : R := if Rlt_dec u 0 then 0 else if Rgt_dec u 1 then 1 else u.

(* the Arc case of the switch of SubPath::gradient *)
Definition arc_grad_raw (s : arc_section) (u : R) : rpt :=
  let angle := rlerp (a_ai s) (a_af s) u in
  let dx := - a_rx s * (a_af s - a_ai s) * sin angle in
  let dy := a_ry s * (a_af s - a_ai s) * cos angle in
  (dx * a_cr s - dy * a_sr s, dx * a_sr s + dy * a_cr s).

(* the last three lines of SubPath::gradient *)
Definition lin_apply (tr : rtrafo) (g : rpt) : rpt :=
  let dx := fst g in
  let dy := snd g in
  (dx * m0 tr + dy * m1 tr, dx * m3 tr + dy * m4 tr).

(* SubPath::gradient after the clamp *)
Definition arc_gradient01 (s : arc_section) (tr : rtrafo) (u : R) : rpt :=
  lin_apply tr (arc_grad_raw s u).

(* SubPath::gradient *)
Definition arc_gradient (s : arc_section) (tr : rtrafo) (u : R) : rpt :=
  let u := clamp01R u in
  arc_gradient01 s tr u.

(* the Arc case of the switch of SubPath::eval *)
Definition arc_point_raw (s : arc_section) (u : R) : rpt :=
  let angle := rlerp (a_ai s) (a_af s) u in
  let x := a_rx s * cos angle in
  let y := a_ry s * sin angle in
  (a_cx s + (x * a_cr s - y * a_sr s), a_cy s + (x * a_sr s + y * a_cr s)).

(* the last lines of SubPath::eval *)
Definition aff_apply (tr : rtrafo) (p : rpt) : rpt :=
  let x := fst p in
  let y := snd p in
  (x * m0 tr + y * m1 tr + m2 tr, x * m3 tr + y * m4 tr + m5 tr).

(* SubPath::eval for 0 <= u <= 1 *)
Definition arc_eval01 (s : arc_section) (tr : rtrafo) (u : R) : rpt :=
  aff_apply tr (arc_point_raw s u).

(* SubPath::eval *)
Definition arc_eval (s : arc_section) (tr : rtrafo) (u : R) : rpt :=
  if Rlt_dec u 0 then
    let p := arc_eval01 s tr 0 in
    let v := arc_gradient s tr 0 in
    (fst p + fst v * u, snd p + snd v * u)
  else if Rgt_dec u 1 then
    let p := arc_eval01 s tr 1 in
    let v := arc_gradient s tr 1 in
    (fst p + fst v * (u - 1), snd p + snd v * (u - 1))
  else arc_eval01 s tr u.

(* ------------------------------------------------------------------ Vec2 helpers (vec.hpp) *)
Definition vlen_sq (v : rpt) : R := fst v * fst v + snd v * snd v.      (* length_sq: inner with itself *)
Definition vlen (v : rpt) : R := sqrt (vlen_sq v).                      (* length *)
Definition vortho (v : rpt) : rpt := (- snd v, fst v).                  (* ortho: Vec2{-e[1], e[0]} *)
Definition vdotR (a b : rpt) : R := fst a * fst b + snd a * snd b.      (* inner *)
Definition vcrossR (a b : rpt) : R := fst a * snd b - snd a * fst b.    (* cross *)
(* normalize: if (len > 0) { e[0] /= len; e[1] /= len; } *)
Definition vnormalize (v : rpt) : rpt :=
  let len := vlen v in
  if Rlt_dec 0 len then (fst v / len, snd v / len) else v.

(* RobustPath::center_position:
       const Vec2 sp_position = spine_position(subpath, u);            // subpath.eval(u, trafo)
       const double offset_value = interp(offset_, u) * offset_scale;
       Vec2 spine_normal = subpath.gradient(u, trafo).ortho();
       spine_normal.normalize();
       Vec2 result = sp_position + offset_value * spine_normal;
   (left_position / right_position add / subtract 0.5 * width_value * center_normal, where
   center_normal is ortho + normalize of a finite-difference gradient of center_position: the same
   ortho convention, `left` is the + side) *)
Definition arc_spine_normal (s : arc_section) (tr : rtrafo) (u : R) : rpt :=
  vnormalize (vortho (arc_gradient s tr u)).
Definition arc_center_position (s : arc_section) (tr : rtrafo) (offset_value u : R) : rpt :=
  let sp := arc_eval s tr u in
  let n := arc_spine_normal s tr u in
  (fst sp + offset_value * fst n, snd sp + offset_value * snd n).

(* ------------------------------------------------------------------ constructors *)
(* RobustPath::arc(radius_x, radius_y, initial_angle, final_angle, rotation, ..):
       sub.angle_i = initial_angle - rotation;  sub.angle_f = final_angle - rotation;
       sub.cos_rot = cos(rotation);  sub.sin_rot = sin(rotation);
       double x = radius_x * cos(sub.angle_i);  double y = radius_y * sin(sub.angle_i);
       sub.center = end_point - Vec2{x * cos_rot - y * sin_rot, x * sin_rot + y * cos_rot};
       x = radius_x * cos(sub.angle_f);  y = radius_y * sin(sub.angle_f);
       end_point = sub.center + Vec2{x * cos_rot - y * sin_rot, x * sin_rot + y * cos_rot};
   returns the section and the new end_point *)
Definition rp_arc (end_point : rpt) (radius_x radius_y initial_angle final_angle rotation : R)
  : arc_section * rpt :=
  let ai := initial_angle - rotation in
  let af := final_angle - rotation in
  let cr := cos rotation in
  let sr := sin rotation in
  let x := radius_x * cos ai in
  let y := radius_y * sin ai in
  let cx := fst end_point - (x * cr - y * sr) in
  let cy := snd end_point - (x * sr + y * cr) in
  let x' := radius_x * cos af in
  let y' := radius_y * sin af in
  (mkArc cx cy radius_x radius_y ai af cr sr,
   (cx + (x' * cr - y' * sr), cy + (x' * sr + y' * cr))).

(* RobustPath::turn(radius, angle, ..), with phi = direction.angle() (atan2 of the gradient at the
   end of the previous section; only cos phi and sin phi matter):
       const double initial_angle = direction.angle() + (angle < 0 ? 0.5 * M_PI : -0.5 * M_PI);
       arc(radius, radius, initial_angle, initial_angle + angle, 0, width_, offset_); *)
Definition rp_turn (end_point : rpt) (phi radius angle : R) : arc_section * rpt :=
  let initial_angle := phi + (if Rlt_dec angle 0 then / 2 * PI else - / 2 * PI) in
  rp_arc end_point radius radius initial_angle (initial_angle + angle) 0.

(* the class of transformations a RobustPath can hold (translate / scale / mirror / rotate keep it):
   the linear part is k times an isometry *)
Definition rt_similar (tr : rtrafo) (k : R) : Prop :=
  m0 tr * m0 tr + m3 tr * m3 tr = k * k /\
  m1 tr * m1 tr + m4 tr * m4 tr = k * k /\
  m0 tr * m1 tr + m3 tr * m4 tr = 0.
Definition rt_det (tr : rtrafo) : R := m0 tr * m4 tr - m1 tr * m3 tr.
