(* C06 - proofs about the hierarchy model of Hierarchy.v. *)
From Coq Require Import QArith List Bool ZArith NArith Lia Permutation.
Require Import Affine AffineProofs Hierarchy.
Import ListNotations.

(* ------------------------------------------------------------------ lists *)
Lemma flat_map_nil_all {A B} (f : A -> list B) l : (forall x, In x l -> f x = []) -> flat_map f l = [].
Proof.
  induction l; simpl; intros H; [reflexivity|].
  rewrite (H a) by (left; reflexivity). rewrite IHl; [reflexivity|]. intros x Hx; apply H; right; exact Hx.
Qed.

Lemma flat_map_ext_in {A B} (f g : A -> list B) l :
  (forall x, In x l -> f x = g x) -> flat_map f l = flat_map g l.
Proof.
  induction l; simpl; intros H; [reflexivity|].
  rewrite (H a) by (left; reflexivity). rewrite IHl; [reflexivity|]. intros x Hx; apply H; right; exact Hx.
Qed.

Lemma Permutation_flat_map_pointwise {A B} (f g : A -> list B) l :
  (forall x, In x l -> Permutation (f x) (g x)) -> Permutation (flat_map f l) (flat_map g l).
Proof.
  induction l; simpl; intros H; [constructor|].
  apply Permutation_app; [apply H; left; reflexivity|apply IHl; intros x Hx; apply H; right; exact Hx].
Qed.

Lemma Permutation_flat_map_list {A B} (f : A -> list B) l l' :
  Permutation l l' -> Permutation (flat_map f l) (flat_map f l').
Proof.
  induction 1; simpl.
  - constructor.
  - apply Permutation_app_head; assumption.
  - rewrite !app_assoc. apply Permutation_app_tail. apply Permutation_app_comm.
  - eapply Permutation_trans; eassumption.
Qed.

(* exchanging two nested loops permutes the result *)
Lemma flat_map_transpose {A B C} (f : A -> B -> C) (la : list A) (lb : list B) :
  Permutation (flat_map (fun a => map (fun b => f a b) lb) la)
              (flat_map (fun b => map (fun a => f a b) la) lb).
Proof.
  induction la as [|a la IH]; simpl.
  - induction lb; simpl; [constructor|assumption].
  - eapply Permutation_trans; [apply Permutation_app_head; exact IH|].
    clear IH. induction lb as [|b lb IH]; simpl; [constructor|].
    constructor.
    eapply Permutation_trans; [|apply Permutation_app_head; exact IH].
    rewrite !app_assoc. apply Permutation_app_tail. apply Permutation_app_comm.
Qed.

Lemma sequence_map_some {A B} (f : A -> option B) (g : A -> B) l :
  (forall x, In x l -> f x = Some (g x)) -> sequence (map f l) = Some (map g l).
Proof.
  induction l; simpl; intros H; [reflexivity|].
  rewrite (H a) by (left; reflexivity). rewrite IHl; [reflexivity|]. intros x Hx; apply H; right; exact Hx.
Qed.

Lemma concat_map_flat_map {A B} (f : A -> list B) l : concat (map f l) = flat_map f l.
Proof. symmetry; apply flat_map_concat_map. Qed.

Lemma filter_flat_map {A B} (p : B -> bool) (f : A -> list B) l :
  filter p (flat_map f l) = flat_map (fun x => filter p (f x)) l.
Proof. induction l; simpl; [reflexivity|]. rewrite filter_app, IHl. reflexivity. Qed.

Lemma filter_true {A} (l : list A) : filter (fun _ => true) l = l.
Proof. induction l; simpl; [reflexivity|]. rewrite IHl; reflexivity. Qed.

Section HierProofs.
Variable payload : Type.
Variable apply : placement -> payload -> payload.
Variable shift : Vec2 -> payload -> payload.

Notation element := (element payload).
Notation celldef := (celldef payload).
Notation env := (env payload).
Notation cell_get := (cell_get payload apply shift).
Notation cell_get_d := (cell_get_d payload apply shift).
Notation ref_get_d := (ref_get_d payload apply shift).
Notation own_part := (own_part payload shift).
Notation ref_expand := (ref_expand payload apply).
Notation transform_elem := (transform_elem payload apply).
Notation rep_copies := (rep_copies payload shift).
Notation denote_d := (denote_d payload apply shift).
Notation elem_shapes := (elem_shapes payload shift).
Notation expand := (expand payload shift).
Notation place_shape := (place_shape payload apply).
Notation flatten_d := (flatten_d payload apply shift).
Notation flatten_fuel := (flatten_fuel payload apply shift).
Notation height_le := (height_le payload).
Notation lookup := (lookup payload).
Notation flatten_loop := (flatten_loop payload).
Notation is_cell_ref := (is_cell_ref payload).
Notation shape_of := (@shape_of payload).
Notation clear_rep := (@clear_rep payload).
Notation tag_match := (@tag_match payload).

(* ------------------------------------------------------------------ depth: int64 + fuel versus natural depth *)
Lemma next_depth_succ d : next_depth (Z.of_nat (S d)) = Z.of_nat d.
Proof. unfold next_depth. replace (Z.of_nat (S d) >? 0)%Z with true by (symmetry; apply Z.gtb_lt; lia). lia. Qed.
Lemma next_depth_neg z : (z < 0)%Z -> next_depth z = (-1)%Z.
Proof. intros H. unfold next_depth. destruct (z >? 0)%Z eqn:E; [|reflexivity]. apply Z.gtb_lt in E. lia. Qed.

(* a non-negative depth argument follows exactly that many levels of references *)
Theorem cell_get_depth_lemma (ev : env) ar flt : forall d fuel c,
  (d < fuel)%nat -> cell_get fuel ev ar (Z.of_nat d) flt c = Some (cell_get_d d ev ar flt c).
Proof.
  induction d as [|d IH]; intros fuel c Hf; destruct fuel as [|fuel]; try lia.
  - simpl. rewrite app_nil_r. reflexivity.
  - cbn [Hierarchy.cell_get Hierarchy.cell_get_d].
    replace (Z.of_nat (S d) =? 0)%Z with false by (symmetry; apply Z.eqb_neq; lia).
    rewrite next_depth_succ.
    rewrite (sequence_map_some _ (fun r => match lookup ev (r_target r) with
                                            | None => []
                                            | Some c' => ref_expand r (cell_get_d d ev ar flt c')
                                            end)).
    + rewrite concat_map_flat_map. reflexivity.
    + intros r _. destruct (lookup ev (r_target r)) as [c'|]; [|reflexivity].
      rewrite IH by lia. reflexivity.
Qed.

(* a negative depth argument follows the references to the bottom of an acyclic environment *)
Theorem cell_get_unlimited_lemma (ev : env) ar flt : forall n fuel c depth,
  (depth < 0)%Z -> height_le ev n c -> (n < fuel)%nat ->
  cell_get fuel ev ar depth flt c = Some (cell_get_d n ev ar flt c).
Proof.
  induction n as [|n IH]; intros fuel c depth Hd Hh Hf; destruct fuel as [|fuel]; try lia;
  assert (Hz : (depth =? 0)%Z = false) by (apply Z.eqb_neq; lia).
  - cbn [Hierarchy.cell_get Hierarchy.cell_get_d]. rewrite Hz.
    rewrite (sequence_map_some _ (fun _ => [])).
    + rewrite concat_map_flat_map. rewrite flat_map_nil_all by reflexivity. reflexivity.
    + intros r Hr. simpl in Hh. rewrite (Hh r Hr). reflexivity.
  - cbn [Hierarchy.cell_get Hierarchy.cell_get_d]. rewrite Hz.
    rewrite next_depth_neg by exact Hd.
    rewrite (sequence_map_some _ (fun r => match lookup ev (r_target r) with
                                            | None => []
                                            | Some c' => ref_expand r (cell_get_d n ev ar flt c')
                                            end)).
    + rewrite concat_map_flat_map. reflexivity.
    + intros r Hr. destruct (lookup ev (r_target r)) as [c'|] eqn:E; [|reflexivity].
      rewrite (IH fuel c' (-1)%Z); [reflexivity|lia| |lia].
      simpl in Hh. exact (Hh r c' Hr E).
Qed.

(* height is monotone and the query saturates at the height *)
Lemma height_le_S (ev : env) : forall n c, height_le ev n c -> height_le ev (S n) c.
Proof.
  induction n as [|n IH]; intros c H.
  - simpl in *. intros r c' Hr E. rewrite (H r Hr) in E. discriminate.
  - intros r c' Hr E. apply IH. exact (H r c' Hr E).
Qed.

Theorem depth_saturates_lemma (ev : env) ar flt : forall n c d,
  height_le ev n c -> (n <= d)%nat -> cell_get_d d ev ar flt c = cell_get_d n ev ar flt c.
Proof.
  induction n as [|n IH]; intros c d Hh Hd.
  - destruct d; [reflexivity|]. cbn [Hierarchy.cell_get_d]. f_equal.
    apply flat_map_nil_all. intros r Hr. simpl in Hh. rewrite (Hh r Hr). reflexivity.
  - destruct d as [|d]; [lia|]. cbn [Hierarchy.cell_get_d]. f_equal.
    apply flat_map_ext_in. intros r Hr. destruct (lookup ev (r_target r)) as [c'|] eqn:E; [|reflexivity].
    rewrite (IH c' d); [reflexivity| |lia]. exact (Hh r c' Hr E).
Qed.

(* ------------------------------------------------------------------ tag filter *)
Lemma tag_match_transform t T (e : element) : tag_match t (transform_elem T e) = tag_match t e.
Proof. destruct t; reflexivity. Qed.
Lemma tag_match_clear t (e : element) : tag_match t (clear_rep e) = tag_match t e.
Proof. destruct t; reflexivity. Qed.

Lemma filter_map_clear t (l : list element) :
  filter (tag_match t) (map clear_rep l) = map clear_rep (filter (tag_match t) l).
Proof.
  induction l; simpl; [reflexivity|]. rewrite tag_match_clear.
  destruct (tag_match t a); simpl; rewrite IHl; reflexivity.
Qed.

Lemma filter_rep_copies t (e : element) :
  filter (tag_match t) (rep_copies e) = if tag_match t e then rep_copies e else [].
Proof.
  unfold Hierarchy.rep_copies. destruct (e_rep e) as [l|]; [|destruct (tag_match t e); reflexivity].
  assert (H : forall o, tag_match t (El (shift o (e_payload e)) (e_tag e) None) = tag_match t e)
    by (intros; destruct t; reflexivity).
  induction l; simpl; [destruct (tag_match t e); reflexivity|].
  rewrite H, IHl. destruct (tag_match t e); reflexivity.
Qed.

Lemma filter_flat_rep_copies t (l : list element) :
  filter (tag_match t) (flat_map rep_copies l) = flat_map rep_copies (filter (tag_match t) l).
Proof.
  induction l; simpl; [reflexivity|]. rewrite filter_app, filter_rep_copies, IHl.
  destruct (tag_match t a); reflexivity.
Qed.

Lemma own_part_filter ar t (c : celldef) :
  own_part ar (Some t) c = filter (tag_match (Some t)) (own_part ar None c).
Proof.
  unfold Hierarchy.own_part. cbn [Hierarchy.tag_match]. rewrite filter_true.
  destruct ar; [|reflexivity].
  rewrite filter_app, filter_map_clear, filter_flat_rep_copies. reflexivity.
Qed.

Lemma ref_expand_filter t r (child : list element) :
  ref_expand r (filter (tag_match t) child) = filter (tag_match t) (ref_expand r child).
Proof.
  unfold Hierarchy.ref_expand. rewrite filter_flat_map.
  induction child as [|e child IH]; simpl; [reflexivity|].
  assert (H : filter (tag_match t) (map (fun T => transform_elem T e) (ref_placements r)) =
              if tag_match t e then map (fun T => transform_elem T e) (ref_placements r) else []).
  { clear IH. generalize (ref_placements r) as L. intros L.
    induction L as [|T L IHL]; simpl; [destruct (tag_match t e); reflexivity|].
    rewrite tag_match_transform, IHL. destruct (tag_match t e); reflexivity. }
  rewrite H. destruct (tag_match t e); simpl; rewrite IH; reflexivity.
Qed.

(* "tag filters keep exactly the matching shapes": querying with a filter is filtering the
   unfiltered query (as lists, in the same order) *)
Theorem filter_is_filter_lemma (ev : env) ar t : forall d c,
  cell_get_d d ev ar (Some t) c = filter (tag_match (Some t)) (cell_get_d d ev ar None c).
Proof.
  induction d as [|d IH]; intros c; cbn [Hierarchy.cell_get_d]; rewrite filter_app, own_part_filter.
  - reflexivity.
  - f_equal. rewrite filter_flat_map. apply flat_map_ext_in. intros r _.
    destruct (lookup ev (r_target r)) as [c'|]; [|reflexivity].
    rewrite IH. apply ref_expand_filter.
Qed.

(* ------------------------------------------------------------------ repetitions applied = denotation *)
Definition no_rep (e : element) : Prop := e_rep e = None.

Lemma expand_no_rep (l : list element) : Forall no_rep l -> expand l = map shape_of l.
Proof.
  induction 1; simpl; [reflexivity|]. unfold Hierarchy.expand in *. simpl.
  unfold Hierarchy.elem_shapes at 1. rewrite H. simpl. rewrite IHForall. reflexivity.
Qed.

Lemma own_part_applied_no_rep flt (c : celldef) : Forall no_rep (own_part true flt c).
Proof.
  unfold Hierarchy.own_part. apply Forall_app; split.
  - apply Forall_forall. intros e He. apply in_map_iff in He. destruct He as (x & <- & _). reflexivity.
  - apply Forall_forall. intros e He. apply in_flat_map in He. destruct He as (x & _ & He).
    unfold Hierarchy.rep_copies in He. destruct (e_rep x); [|destruct He].
    apply in_map_iff in He. destruct He as (o & <- & _). reflexivity.
Qed.

Lemma ref_expand_no_rep r (child : list element) : Forall no_rep child -> Forall no_rep (ref_expand r child).
Proof.
  intros H. apply Forall_forall. intros e He. unfold Hierarchy.ref_expand in He.
  apply in_flat_map in He. destruct He as (x & Hx & He). apply in_map_iff in He. destruct He as (T & <- & _).
  rewrite Forall_forall in H. exact (H x Hx).
Qed.

Lemma cell_get_applied_no_rep (ev : env) flt : forall d c, Forall no_rep (cell_get_d d ev true flt c).
Proof.
  induction d as [|d IH]; intros c; cbn [Hierarchy.cell_get_d]; apply Forall_app; split;
  try apply own_part_applied_no_rep; [constructor|].
  apply Forall_forall. intros e He. apply in_flat_map in He. destruct He as (r & _ & He).
  destruct (lookup ev (r_target r)) as [c'|]; [|destruct He].
  pose proof (ref_expand_no_rep r _ (IH c')) as H. rewrite Forall_forall in H. exact (H e He).
Qed.

Lemma own_part_applied_shapes (l : list element) :
  Permutation (map shape_of (map clear_rep l ++ flat_map rep_copies l)) (flat_map elem_shapes l).
Proof.
  induction l as [|e l IH]; simpl; [constructor|].
  unfold Hierarchy.elem_shapes at 1. unfold Hierarchy.rep_copies at 1.
  rewrite map_app in IH.
  destruct (e_rep e) as [offs|]; simpl.
  - constructor. rewrite !map_app. rewrite (map_map _ shape_of offs).
    eapply Permutation_trans; [apply Permutation_app_swap_app|].
    apply Permutation_app_head. exact IH.
  - constructor. rewrite map_app. exact IH.
Qed.

Lemma ref_expand_shapes r (child : list element) (S : list (payload * N)) :
  Permutation (map shape_of child) S ->
  Permutation (map shape_of (ref_expand r child))
              (flat_map (fun T => map (place_shape T) S) (ref_placements r)).
Proof.
  intros H. unfold Hierarchy.ref_expand.
  eapply Permutation_trans.
  2:{ apply Permutation_flat_map_pointwise. intros T _. apply Permutation_map. exact H. }
  assert (E : map shape_of (flat_map (fun src => map (fun T => transform_elem T src) (ref_placements r)) child) =
              flat_map (fun src => map (fun T => place_shape T (shape_of src)) (ref_placements r)) child).
  { clear H. induction child; simpl; [reflexivity|]. rewrite map_app, map_map, IHchild. reflexivity. }
  rewrite E.
  eapply Permutation_trans; [apply (flat_map_transpose (fun src T => place_shape T (shape_of src)))|].
  apply Permutation_flat_map_pointwise. intros T _. rewrite map_map. apply Permutation_refl.
Qed.

(* "Depth limits cut the recursion at exactly that level" and, at every level, the query with
   repetitions applied returns the denotation truncated at that level (as a multiset of placed
   shapes; the order differs: originals before copies, element-major under a repeated reference) *)
Theorem depth_cut_lemma (ev : env) : forall d c,
  Permutation (map shape_of (cell_get_d d ev true None c)) (denote_d d ev c).
Proof.
  induction d as [|d IH]; intros c; cbn [Hierarchy.cell_get_d Hierarchy.denote_d]; rewrite map_app;
  apply Permutation_app.
  - unfold Hierarchy.own_part. cbn [Hierarchy.tag_match]. rewrite filter_true. apply own_part_applied_shapes.
  - constructor.
  - unfold Hierarchy.own_part. cbn [Hierarchy.tag_match]. rewrite filter_true. apply own_part_applied_shapes.
  - assert (E : map shape_of (flat_map (fun r => match lookup ev (r_target r) with
                                                  | None => []
                                                  | Some c' => ref_expand r (cell_get_d d ev true None c')
                                                  end) (c_refs c)) =
                flat_map (fun r => map shape_of (match lookup ev (r_target r) with
                                                  | None => []
                                                  | Some c' => ref_expand r (cell_get_d d ev true None c')
                                                  end)) (c_refs c)).
    { induction (c_refs c); simpl; [reflexivity|]. rewrite map_app, IHl. reflexivity. }
    rewrite E. apply Permutation_flat_map_pointwise. intros r _.
    destruct (lookup ev (r_target r)) as [c'|]; [|constructor].
    apply ref_expand_shapes. apply IH.
Qed.

(* the C++ entry point: depth < 0, any fuel above the height of the cell *)
Theorem get_applied_is_denote_lemma (ev : env) n fuel c depth :
  (depth < 0)%Z -> height_le ev n c -> (n < fuel)%nat ->
  exists l, cell_get fuel ev true depth None c = Some l /\
            Forall no_rep l /\ Permutation (map shape_of l) (denote_d n ev c).
Proof.
  intros Hd Hh Hf. exists (cell_get_d n ev true None c).
  split; [apply cell_get_unlimited_lemma; assumption|].
  split; [apply cell_get_applied_no_rep|apply depth_cut_lemma].
Qed.

(* ... and with a depth limit d >= 0 *)
Theorem get_depth_is_truncation_lemma (ev : env) d fuel c :
  (d < fuel)%nat ->
  exists l, cell_get fuel ev true (Z.of_nat d) None c = Some l /\
            Forall no_rep l /\ Permutation (map shape_of l) (denote_d d ev c).
Proof.
  intros Hf. exists (cell_get_d d ev true None c).
  split; [apply cell_get_depth_lemma; assumption|].
  split; [apply cell_get_applied_no_rep|apply depth_cut_lemma].
Qed.

(* the denotation itself saturates at the height *)
Lemma denote_saturates (ev : env) : forall n c d,
  height_le ev n c -> (n <= d)%nat -> denote_d d ev c = denote_d n ev c.
Proof.
  induction n as [|n IH]; intros c d Hh Hd.
  - destruct d; [reflexivity|]. cbn [Hierarchy.denote_d]. f_equal.
    apply flat_map_nil_all. intros r Hr. simpl in Hh. rewrite (Hh r Hr). reflexivity.
  - destruct d as [|d]; [lia|]. cbn [Hierarchy.denote_d]. f_equal.
    apply flat_map_ext_in. intros r Hr. destruct (lookup ev (r_target r)) as [c'|] eqn:E; [|reflexivity].
    apply flat_map_ext_in. intros T _. rewrite (IH c' d); [reflexivity| |lia]. exact (Hh r c' Hr E).
Qed.

(* ------------------------------------------------------------------ flatten *)
Lemma removelast_last_perm {A} (l : list A) d : l <> [] -> Permutation (last l d :: removelast l) l.
Proof.
  intros H. rewrite (app_removelast_last d H) at 3. apply Permutation_cons_append.
Qed.
Lemma flatten_loop_spec (ev : env) : forall fuel arr,
  (length arr <= fuel)%nat ->
  Permutation (fst (flatten_loop fuel ev arr) ++ snd (flatten_loop fuel ev arr)) arr /\
  Forall (fun r => is_cell_ref ev r = true) (fst (flatten_loop fuel ev arr)) /\
  Forall (fun r => is_cell_ref ev r = false) (snd (flatten_loop fuel ev arr)).
Proof.
  induction fuel as [|fuel IH]; intros arr Hl.
  - destruct arr; [|simpl in Hl; lia]. simpl. repeat split; constructor.
  - destruct arr as [|r rest]; [simpl; repeat split; constructor|].
    cbn [Hierarchy.flatten_loop]. destruct (is_cell_ref ev r) eqn:Ec.
    + set (arr' := match rest with [] => [] | _ => last rest r :: removelast rest end).
      assert (Hp : Permutation arr' rest).
      { subst arr'. destruct rest as [|x rest']; [constructor|]. apply removelast_last_perm. discriminate. }
      assert (Hl' : (length arr' <= fuel)%nat).
      { rewrite (Permutation_length Hp). simpl in Hl. lia. }
      destruct (IH arr' Hl') as (P1 & P2 & P3).
      destruct (flatten_loop fuel ev arr') as [vis kept]. simpl in *.
      repeat split.
      * constructor. eapply Permutation_trans; [exact P1|exact Hp].
      * constructor; assumption.
      * assumption.
    + assert (Hl' : (length rest <= fuel)%nat) by (simpl in Hl; lia).
      destruct (IH rest Hl') as (P1 & P2 & P3).
      destruct (flatten_loop fuel ev rest) as [vis kept]. simpl in *.
      repeat split.
      * eapply Permutation_trans; [apply Permutation_sym, Permutation_middle|]. constructor. exact P1.
      * assumption.
      * constructor; assumption.
Qed.

(* after flatten no reference to a cell is left *)
Theorem flatten_no_cell_refs_lemma (ev : env) n ar c :
  Forall (fun r => is_cell_ref ev r = false) (c_refs (flatten_d n ev ar c)).
Proof.
  unfold Hierarchy.flatten_d.
  destruct (flatten_loop_spec ev (length (c_refs c)) (c_refs c) (le_n _)) as (_ & _ & P3).
  destruct (flatten_loop (length (c_refs c)) ev (c_refs c)) as [vis kept]. exact P3.
Qed.

Lemma ref_part_shapes (ev : env) d r :
  Permutation (map shape_of (ref_get_d d ev true None r))
              (match lookup ev (r_target r) with
               | None => []
               | Some c' => flat_map (fun T => map (place_shape T) (denote_d d ev c')) (ref_placements r)
               end).
Proof.
  unfold Hierarchy.ref_get_d. destruct (lookup ev (r_target r)) as [c'|]; [|constructor].
  apply ref_expand_shapes. apply depth_cut_lemma.
Qed.

(* "before or after flattening the cell ... describes the same set of shapes": flatten with
   repetitions applied preserves the denotation (to any depth m: nothing is left to follow) *)
Theorem flatten_preserves_denote_lemma (ev : env) n m c :
  height_le ev (S n) c ->
  Permutation (denote_d m ev (flatten_d n ev true c)) (denote_d (S n) ev c).
Proof.
  intros Hh. unfold Hierarchy.flatten_d.
  destruct (flatten_loop_spec ev (length (c_refs c)) (c_refs c) (le_n _)) as (P1 & P2 & P3).
  destruct (flatten_loop (length (c_refs c)) ev (c_refs c)) as [vis kept]. simpl in P1, P2, P3.
  set (F := fun r => match lookup ev (r_target r) with
                     | None => []
                     | Some c' => flat_map (fun T => map (place_shape T) (denote_d n ev c')) (ref_placements r)
                     end).
  assert (Hkept : forall k, flat_map (fun r => match lookup ev (r_target r) with
                     | None => []
                     | Some c' => flat_map (fun T => map (place_shape T) (denote_d k ev c')) (ref_placements r)
                     end) kept = []).
  { intros k. apply flat_map_nil_all. intros r Hr. rewrite Forall_forall in P3. specialize (P3 r Hr).
    unfold Hierarchy.is_cell_ref in P3. destruct (lookup ev (r_target r)); [discriminate|reflexivity]. }
  assert (Hown : Permutation (flat_map elem_shapes (c_elems c ++ flat_map (ref_get_d n ev true None) vis))
                             (flat_map elem_shapes (c_elems c) ++ flat_map F (c_refs c))).
  { rewrite flat_map_app. apply Permutation_app_head.
    assert (Hn : Forall no_rep (flat_map (ref_get_d n ev true None) vis)).
    { apply Forall_forall. intros e He. apply in_flat_map in He. destruct He as (r & _ & He).
      unfold Hierarchy.ref_get_d in He. destruct (lookup ev (r_target r)) as [c'|]; [|destruct He].
      pose proof (ref_expand_no_rep r _ (cell_get_applied_no_rep ev None n c')) as H.
      rewrite Forall_forall in H. exact (H e He). }
    pose proof (expand_no_rep _ Hn) as Ee. unfold Hierarchy.expand in Ee. rewrite Ee.
    assert (E2 : map shape_of (flat_map (ref_get_d n ev true None) vis) =
                 flat_map (fun r => map shape_of (ref_get_d n ev true None r)) vis).
    { clear. induction vis; simpl; [reflexivity|]. rewrite map_app, IHvis. reflexivity. }
    rewrite E2.
    eapply Permutation_trans; [apply Permutation_flat_map_pointwise; intros r _; apply ref_part_shapes|].
    fold F.
    eapply Permutation_trans; [|apply Permutation_flat_map_list; exact P1].
    rewrite flat_map_app. unfold F at 3. rewrite Hkept. rewrite app_nil_r. apply Permutation_refl. }
  cbn [Hierarchy.denote_d]. fold F.
  destruct m as [|m]; cbn [Hierarchy.denote_d Hierarchy.c_elems Hierarchy.c_refs].
  - rewrite app_nil_r. exact Hown.
  - rewrite Hkept, app_nil_r. exact Hown.
Qed.

(* the executable flatten agrees with flatten_d *)
Theorem flatten_fuel_lemma (ev : env) n fuel ar c :
  height_le ev (S n) c -> (n < fuel)%nat -> flatten_fuel fuel ev ar c = Some (flatten_d n ev ar c).
Proof.
  intros Hh Hf. unfold Hierarchy.flatten_fuel, Hierarchy.flatten_d.
  destruct (flatten_loop_spec ev (length (c_refs c)) (c_refs c) (le_n _)) as (P1 & _ & _).
  destruct (flatten_loop (length (c_refs c)) ev (c_refs c)) as [vis kept]. simpl in P1.
  rewrite (sequence_map_some _ (ref_get_d n ev ar None)).
  - rewrite concat_map_flat_map. reflexivity.
  - intros r Hr. unfold Hierarchy.ref_get_d. destruct (lookup ev (r_target r)) as [c'|] eqn:E; [|reflexivity].
    rewrite (cell_get_unlimited_lemma ev ar None n fuel c' (-1)%Z); [reflexivity|lia| |exact Hf].
    apply (Hh r c'); [|exact E].
    eapply Permutation_in; [exact P1|]. apply in_or_app. left. exact Hr.
Qed.

End HierProofs.

(* ------------------------------------------------------------------ polygons: composition by hand *)
Definition pshape_is (tag : N) (pts : polygon) (s : polygon * N) (A : aff) : Prop :=
  snd s = tag /\ poly_eq (fst s) (map (aff_apply A) pts).

Lemma poly_apply_twice T1 T2 pts :
  poly_eq (poly_apply T1 (poly_apply T2 pts))
          (map (aff_apply (aff_compose (placement_map T1) (placement_map T2))) pts).
Proof.
  unfold poly_apply.
  eapply poly_eq_trans; [apply polygon_transform_affine_lemma|].
  eapply poly_eq_trans; [|apply map_aff_compose].
  apply map_poly_eq; [|apply polygon_transform_affine_lemma].
  intros p q H. apply aff_apply_proper; [reflexivity|exact H].
Qed.

(* a polygon two references down: top --(P1, rep1)--> mid --(P2, rep2)--> leaf.  Every shape the
   top cell denotes is the polygon moved by the product of the two matrices (each reference
   contributes translate(offset) . placement_map), one shape per pair of offsets. *)
Theorem compose_by_hand_lemma P1 rep1 P2 rep2 pts tag :
  let leaf := Cell [El pts tag None] [] in
  let mid := Cell [] [Ref 2%N P2 rep2] in
  let top := Cell [] [Ref 1%N P1 rep1] in
  let ev := [(0%N, top); (1%N, mid); (2%N, leaf)] in
  Forall2 (pshape_is tag pts)
          (denote_d polygon poly_apply poly_shift 2 ev top)
          (flat_map (fun T1 => map (fun T2 => aff_compose (placement_map T1) (placement_map T2))
                                   (ref_placements (Ref 2%N P2 rep2)))
                    (ref_placements (Ref 1%N P1 rep1))).
Proof.
  intros leaf mid top ev. subst leaf mid top ev.
  cbn [denote_d c_elems c_refs flat_map lookup r_target N.eqb Pos.eqb app elem_shapes e_rep shape_of e_payload e_tag].
  rewrite !app_nil_r.
  generalize (ref_placements (Ref 1%N P1 rep1)) as L1. generalize (ref_placements (Ref 2%N P2 rep2)) as L2.
  intros L2 L1. induction L1 as [|T1 L1 IH]; simpl; [constructor|].
  apply Forall2_app; [|exact IH].
  clear IH. induction L2 as [|T2 L2 IH]; simpl; [constructor|].
  constructor; [|exact IH].
  split; [reflexivity|]. simpl. apply poly_apply_twice.
Qed.

(* the placements of a repeated reference are translate(offset) after the placement *)
Lemma ref_placements_maps r :
  Forall2 (fun T o => aff_eq (placement_map T) (aff_compose (translate_map o) (placement_map (r_place r))))
          (ref_placements r)
          (match r_rep r with None => [vzero] | Some l => vzero :: l end).
Proof.
  unfold ref_placements. destruct (r_rep r) as [l|].
  - constructor.
    + unfold placement_map, aff_compose, translate_map, vzero; repeat split; simpl; ring.
    + induction l; simpl; constructor; auto. apply placement_shift_map.
  - constructor; [|constructor].
    unfold placement_map, aff_compose, translate_map, vzero; repeat split; simpl; ring.
Qed.

(* and the same through Reference::transform: the placement of the inner reference seen from the
   top is placement_transform T1 T2 (C10: reference_transform_compose_lemma) *)
Corollary compose_by_hand_placement T1 T2 pts :
  poly_eq (poly_apply T1 (poly_apply T2 pts)) (poly_apply (placement_transform T1 T2) pts).
Proof.
  eapply poly_eq_trans; [apply poly_apply_twice|].
  apply poly_eq_sym. unfold poly_apply.
  eapply poly_eq_trans; [apply polygon_transform_affine_lemma|].
  apply map_pointwise. intros p. apply aff_apply_proper; [apply reference_transform_compose_lemma|reflexivity].
Qed.

(* ------------------------------------------------------------------ F8: repetitions left attached *)
(* leaf: unit square repeated at (5,0); top references leaf rotated by 90 degrees *)
Definition f8_leaf : celldef polygon := Cell [El [V2 0 0; V2 1 0; V2 1 1; V2 0 1] 7%N (Some [V2 5 0])] [].
Definition f8_top : celldef polygon := Cell [] [Ref 1%N (Pl vzero a90 1 false) None].
Definition f8_env : env polygon := [(0%N, f8_top); (1%N, f8_leaf)].

Definition shape_eqb (a b : polygon * N) : bool := list_eqb veqb (fst a) (fst b) && N.eqb (snd a) (snd b).
Definition shape_eq (a b : polygon * N) : Prop := poly_eq (fst a) (fst b) /\ snd a = snd b.
Lemma shape_eqb_complete a b : shape_eq a b -> shape_eqb a b = true.
Proof.
  intros [H1 H2]. unfold shape_eqb. rewrite H2, N.eqb_refl, andb_true_r.
  apply (list_eqb_complete veq); [apply veqb_complete|exact H1].
Qed.

Example f8_height : height_le polygon f8_env 1 f8_top.
Proof. intros r c' [<-|[]] E. vm_compute in E. injection E as <-. intros r []. Qed.

(* with apply_repetitions = false the returned element keeps the offset (5,0) although its
   vertices were rotated: the shape (0,5),(0,6),(-1,6),(-1,5) that the cell denotes is not among
   the shapes the result describes (it describes (5,0),(5,1),(4,1),(4,0) instead) *)
Theorem get_unapplied_refuted :
  exists (ev : env polygon) c n l s,
    height_le polygon ev n c /\
    cell_get polygon poly_apply poly_shift (S n) ev false (-1) None c = Some l /\
    In s (denote_d polygon poly_apply poly_shift n ev c) /\
    forall s', In s' (expand polygon poly_shift l) -> ~ shape_eq s s'.
Proof.
  exists f8_env, f8_top, 1%nat.
  eexists. exists (nth 1 (denote_d polygon poly_apply poly_shift 1 f8_env f8_top) ([], 0%N)).
  split; [apply f8_height|].
  split; [vm_compute; reflexivity|].
  split.
  - vm_compute. right. left. reflexivity.
  - intros s' Hs' Heq. apply shape_eqb_complete in Heq.
    vm_compute in Hs'. destruct Hs' as [<-|[<-|[]]]; vm_compute in Heq; discriminate.
Qed.

(* the same after Cell::flatten(apply_repetitions = false) *)
Theorem flatten_unapplied_refuted :
  exists (ev : env polygon) c n s,
    height_le polygon ev (S n) c /\
    In s (denote_d polygon poly_apply poly_shift (S n) ev c) /\
    forall s', In s' (denote_d polygon poly_apply poly_shift 0 ev (flatten_d polygon poly_apply poly_shift n ev false c)) ->
               ~ shape_eq s s'.
Proof.
  exists f8_env, f8_top, 0%nat.
  exists (nth 1 (denote_d polygon poly_apply poly_shift 1 f8_env f8_top) ([], 0%N)).
  split; [apply f8_height|].
  split.
  - vm_compute. right. left. reflexivity.
  - intros s' Hs' Heq. apply shape_eqb_complete in Heq.
    vm_compute in Hs'. destruct Hs' as [<-|[<-|[]]]; vm_compute in Heq; discriminate.
Qed.

(* where a reference does not rotate, reflect or magnify, leaving the repetition attached is
   harmless: the witness needs a non-trivial linear part *)
Example get_unapplied_translation_only_ok :
  let top := Cell [] [Ref 1%N (Pl (V2 3 4) azero 1 false) None] in
  let ev := [(0%N, top); (1%N, f8_leaf)] in
  map (fun s => (polyred (fst s), snd s)) (expand polygon poly_shift (cell_get_d polygon poly_apply poly_shift 1 ev false None top)) =
  map (fun s => (polyred (fst s), snd s)) (denote_d polygon poly_apply poly_shift 1 ev top).
Proof. vm_compute. reflexivity. Qed.

(* ------------------------------------------------------------------ assumptions *)
Print Assumptions cell_get_depth_lemma.
Print Assumptions cell_get_unlimited_lemma.
Print Assumptions depth_saturates_lemma.
Print Assumptions filter_is_filter_lemma.
Print Assumptions depth_cut_lemma.
Print Assumptions get_applied_is_denote_lemma.
Print Assumptions get_depth_is_truncation_lemma.
Print Assumptions flatten_no_cell_refs_lemma.
Print Assumptions flatten_preserves_denote_lemma.
Print Assumptions flatten_fuel_lemma.
Print Assumptions compose_by_hand_lemma.
Print Assumptions compose_by_hand_placement.
Print Assumptions get_unapplied_refuted.
Print Assumptions flatten_unapplied_refuted.
