(* Gallina model of the GDSII writers on the database grid (see GdsModel.v for the data types):
   Library::write_gds, Cell::to_gds, Polygon::to_gds, FlexPath::to_gds (simple paths),
   Reference::to_gds (SREF, or AREF when the element carries a lattice), Label::to_gds,
   properties_to_gds.  Repetition expansion and the AREF-or-SREFs decision happen before this model
   (the harness expands with Repetition::get_offsets, which C11 covers). Definitions only. *)
Require Import Base GdsFrame GdsModel.
From Coq Require Import ZArith.
Local Open Scope N_scope.

(* big-endian two's complement fields: the C++ casts to (u)intNN_t and byte-swaps *)
Definition enc16 (z : Z) : bytes := let v := Z.to_N (z mod 65536) in [v / 256; v mod 256].
Definition enc32 (z : Z) : bytes :=
  let v := Z.to_N (z mod 4294967296) in
  [v / 16777216; (v / 65536) mod 256; (v / 256) mod 256; v mod 256].
Definition enc64 (v : N) : bytes :=
  [ (v / 72057594037927936) mod 256; (v / 281474976710656) mod 256; (v / 1099511627776) mod 256;
    (v / 4294967296) mod 256; (v / 16777216) mod 256; (v / 65536) mod 256; (v / 256) mod 256; v mod 256 ].

Definition mkrec (t d : N) (p : bytes) : grecord := {| rtype := t; dtype := d; payload := p |}.

(* strings are written with `len = strlen; if (len % 2) len++` bytes: the terminating NUL pads *)
Definition pad_even (s : bytes) : bytes := if Nat.even (length s) then s else s ++ [0].

Definition enc_points (pts : list pt) : bytes := flat_map (fun '(x, y) => enc32 x ++ enc32 y) pts.

(* XY records of at most 8190 points each *)
Definition xy_chunk : nat := N.to_nat 8190.
Fixpoint xy_records (fuel : nat) (pts : list pt) : list grecord :=
  match fuel with
  | O => []
  | S f =>
      match pts with
      | [] => []
      | _ => mkrec 16 3 (enc_points (firstn xy_chunk pts)) :: xy_records f (skipn xy_chunk pts)
      end
  end.

(* properties_to_gds: value bytes are the stored C string WITH its terminating NUL (count = strlen+1);
   odd count with trailing NUL drops the NUL, otherwise a NUL is appended: i.e. the string padded even *)
Definition prop_records (ps : gprops) : list grecord :=
  flat_map (fun '(a, v) => [mkrec 43 2 (enc16 (Z.of_N a)); mkrec 44 6 (pad_even v)]) ps.

Definition endel : grecord := mkrec 17 0 [].

Definition poly_records (p : gpoly) : list grecord :=
  if (length (p_pts p) <? 3)%nat then []
  else
    let pts := p_pts p ++ [hd (0, 0)%Z (p_pts p)] in
    [mkrec 8 0 []; mkrec 13 2 (enc16 (p_layer p)); mkrec 14 2 (enc16 (p_type p))]
    ++ xy_records (length pts) pts ++ prop_records (p_props p) ++ [endel].

Definition end_code (e : endt) : Z := match e with EFlush => 0 | ERound => 1 | EHalf => 2 | EExt => 4 end%Z.

Definition path_records (h : gpath) : list grecord :=
  if (length (h_pts h) <? 2)%nat then []
  else
    [mkrec 9 0 []; mkrec 13 2 (enc16 (h_layer h)); mkrec 14 2 (enc16 (h_type h));
     mkrec 33 2 (enc16 (end_code (h_end h)));
     mkrec 15 3 (enc32 (if h_scale_width h then h_width h else (- h_width h)%Z))]
    ++ (match h_end h with
        | EExt => [mkrec 48 3 (enc32 (fst (h_ext h))); mkrec 49 3 (enc32 (snd (h_ext h)))]
        | _ => []
        end)
    ++ xy_records (length (h_pts h)) (h_pts h) ++ prop_records (h_props h) ++ [endel].

Definition strans_records (refl : bool) (mag rot : N) : list grecord :=
  if negb refl && (mag =? real_one) && (rot =? 0) then []
  else
    [mkrec 26 1 (if refl then [128; 0] else [0; 0])]
    ++ (if mag =? real_one then [] else [mkrec 27 5 (enc64 mag)])
    ++ (if rot =? 0 then [] else [mkrec 28 5 (enc64 rot)]).

Definition ref_records (r : gref) : list grecord :=
  [mkrec (match r_rep r with Some _ => 11 | None => 10 end) 0 []; mkrec 18 6 (pad_even (r_name r))]
  ++ strans_records (r_refl r) (r_mag r) (r_rot r)
  ++ (match r_rep r with
      | Some g => [mkrec 19 2 (enc16 (g_cols g) ++ enc16 (g_rows g));
                   mkrec 16 3 (enc_points [r_origin r; g_p2 g; g_p3 g])]
      | None => [mkrec 16 3 (enc_points [r_origin r])]
      end)
  ++ prop_records (r_props r) ++ [endel].

Definition label_records (l : glabel) : list grecord :=
  [mkrec 12 0 []; mkrec 13 2 (enc16 (l_layer l)); mkrec 22 2 (enc16 (l_type l));
   mkrec 23 1 (enc16 (Z.of_N (l_anchor l)))]
  ++ strans_records (l_refl l) (l_mag l) (l_rot l)
  ++ [mkrec 16 3 (enc_points [l_origin l]); mkrec 25 6 (pad_even (l_text l))]
  ++ prop_records (l_props l) ++ [endel].

(* twelve 16-bit words: modification and access time *)
Definition ts_bytes (ts : list Z) : bytes := flat_map enc16 (ts ++ ts).

(* Cell::to_gds: BGNSTR, STRNAME, polygons, paths, (robust paths), labels? order in the C++:
   polygons, flexpaths, robustpaths, labels, references, ENDSTR *)
Definition cell_records (ts : list Z) (c : gcell) : list grecord :=
  [mkrec 5 2 (ts_bytes ts); mkrec 6 6 (pad_even (c_name c))]
  ++ flat_map poly_records (c_polys c)
  ++ flat_map path_records (c_paths c)
  ++ flat_map label_records (c_labels c)
  ++ flat_map ref_records (c_refs c)
  ++ [mkrec 7 0 []].

Definition lib_records (ts : list Z) (l : glib) : list grecord :=
  [mkrec 0 2 (enc16 600); mkrec 1 2 (ts_bytes ts); mkrec 2 6 (pad_even (g_name l));
   mkrec 3 5 (enc64 (fst (g_units l)) ++ enc64 (snd (g_units l)))]
  ++ flat_map (cell_records ts) (g_cells l)
  ++ [mkrec 4 0 []].

Definition write_gds_model (ts : list Z) (l : glib) : bytes := flat_map rec_bytes (lib_records ts l).
