(* reader_accepts_spec: every stream the strict grammar accepts is loaded by the reader model to the
   layout the grammar assigns to it. *)
Require Import Base GdsFrame GdsFrameProofs GdsModel GdsWrite GdsRoundtrip GdsSpec.
From Coq Require Import ZArith Lia ZifyBool ZifyN ZifyNat.
Local Open Scope N_scope.

Lemma is_rec_true t d r : is_rec t d r = true -> rtype r = t /\ dtype r = d.
Proof. unfold is_rec. intros H. apply andb_prop in H. destruct H as [A B]. apply N.eqb_eq in A, B. auto. Qed.

Lemma take1_some t d len l r tl : take1 t d len l = Some (r, tl) -> l = r :: tl /\ rtype r = t /\ dtype r = d.
Proof.
  unfold take1. destruct l as [|r0 l0]; [discriminate|].
  destruct (is_rec t d r0 && (plen r0 =? len)) eqn:E; [|discriminate].
  intros [= <- <-]. apply andb_prop in E. destruct E as [E _]. apply is_rec_true in E. tauto.
Qed.

Lemma opt1_cases t d len l o tl : opt1 t d len l = (o, tl) ->
  (o = None /\ tl = l) \/ (exists r, o = Some r /\ l = r :: tl /\ rtype r = t /\ dtype r = d).
Proof.
  unfold opt1. destruct (take1 t d len l) as [[r tl0]|] eqn:E.
  - intros [= <- <-]. right. exists r. apply take1_some in E. tauto.
  - intros [= <- <-]. left. auto.
Qed.

Lemma take_str_some t l s tl : take_str t l = Some (s, tl) -> exists r, l = r :: tl /\ rtype r = t /\ s = strip_nul (payload r).
Proof.
  unfold take_str. destruct l as [|r l0]; [discriminate|]. destruct (is_rec t 6 r) eqn:E; [|discriminate].
  intros [= <- <-]. exists r. apply is_rec_true in E. tauto.
Qed.

Lemma take_endel_some l tl : take_endel l = Some tl -> exists r, l = r :: tl /\ rtype r = 17.
Proof.
  unfold take_endel. destruct l as [|r l0]; [discriminate|]. destruct (rtype r =? 17) eqn:E; [|discriminate].
  intros [= <-]. exists r. apply N.eqb_eq in E. auto.
Qed.

(* ------------------------------------------------------------------ ignored records *)
Lemma step_other f st r : kind_of (rtype r) = KOther -> step_gds f st r = SCont st.
Proof. intros H. unfold step_gds. rewrite H. reflexivity. Qed.

Lemma run_skip_flags f st : forall l, run f st l = run f st (skip_flags l).
Proof.
  induction l as [|r l IH]; [reflexivity|]. cbn [skip_flags].
  destruct ((rtype r =? 38) || (rtype r =? 47)) eqn:E; [|reflexivity].
  cbn [run]. rewrite step_other; [exact IH|].
  apply orb_prop in E. destruct E as [E|E]; apply N.eqb_eq in E; rewrite E; reflexivity.
Qed.

Lemma run_skip_strclass f st : forall l, run f st l = run f st (skip_strclass l).
Proof.
  induction l as [|r l IH]; [reflexivity|]. cbn [skip_strclass].
  destruct (rtype r =? 52) eqn:E; [|reflexivity].
  cbn [run]. rewrite step_other; [exact IH|]. apply N.eqb_eq in E. rewrite E. reflexivity.
Qed.

Lemma libopt_other r : libopt r = true -> kind_of (rtype r) = KOther.
Proof.
  unfold libopt. destruct (rtype r) as [|p]; [discriminate|].
  repeat (destruct p as [p|p|]; try discriminate; try reflexivity).
Qed.

Lemma run_skip_libopt f st : forall l, run f st l = run f st (skip_libopt l).
Proof.
  induction l as [|r l IH]; [reflexivity|]. cbn [skip_libopt].
  destruct (libopt r) eqn:E; [|reflexivity].
  cbn [run]. rewrite step_other; [exact IH|]. apply libopt_other. exact E.
Qed.

(* one reader step on an abstract record whose type (and data type) are known *)
Ltac step_rec Ht :=
  cbn [run]; unfold step_gds at 1; rewrite Ht;
  cbn [kind_of s_name s_units s_done s_cur s_open s_width s_key s_path_started];
  unfold with_open, with_cur, with_name, with_units, with_done, with_width, with_key, with_started;
  cbn [s_name s_units s_done s_cur s_open s_width s_key s_path_started swapped
       p_layer p_type p_pts p_props h_layer h_type h_end h_width h_scale_width h_ext h_pts h_props
       r_name r_origin r_refl r_mag r_rot r_rep r_props l_layer l_type l_text l_origin l_anchor l_refl l_mag l_rot l_props
       new_poly new_path new_ref new_label].

(* ------------------------------------------------------------------ XY+ *)
Lemma xy_cond r : is_rec 16 3 r && (plen r mod 8 =? 0) = true -> rtype r = 16 /\ dtype r = 3.
Proof. intros H. apply andb_prop in H. destruct H as [H _]. apply is_rec_true. exact H. Qed.

Lemma run_xy_more_poly f nm un dn cu wd ky ps la ty pr : forall l pts rest acc,
  take_xy_more l = (pts, rest) ->
  run f (Build_rstate nm un dn cu (Some (EPoly (Build_gpoly la ty acc pr))) wd ky ps) l =
  run f (Build_rstate nm un dn cu (Some (EPoly (Build_gpoly la ty (acc ++ pts) pr))) wd ky ps) rest.
Proof.
  induction l as [|r l IH]; intros pts rest acc; cbn [take_xy_more].
  - intros [= <- <-]. rewrite app_nil_r. reflexivity.
  - destruct (is_rec 16 3 r && (plen r mod 8 =? 0)) eqn:E.
    + destruct (take_xy_more l) as [pts' rest'] eqn:El. intros [= <- <-].
      destruct (xy_cond r E) as [Ht Hd]. step_rec Ht. rewrite Hd. cbn [swapped].
      rewrite (IH pts' rest' _ eq_refl). rewrite <- app_assoc. reflexivity.
    + intros [= <- <-]. rewrite app_nil_r. reflexivity.
Qed.

Lemma run_xy_poly_spec f nm un dn cu wd ky ps la ty pr l pts rest :
  take_xy l = Some (pts, rest) ->
  run f (Build_rstate nm un dn cu (Some (EPoly (Build_gpoly la ty [] pr))) wd ky ps) l =
  run f (Build_rstate nm un dn cu (Some (EPoly (Build_gpoly la ty pts pr))) wd ky ps) rest.
Proof.
  unfold take_xy. destruct l as [|r l]; [discriminate|].
  destruct (is_rec 16 3 r && (plen r mod 8 =? 0)) eqn:E; [|discriminate].
  destruct (take_xy_more l) as [pts' rest'] eqn:El. intros [= <- <-].
  destruct (xy_cond r E) as [Ht Hd]. step_rec Ht. rewrite Hd. cbn [swapped app].
  apply run_xy_more_poly. exact El.
Qed.

Lemma run_xy_more_path f nm un dn cu wd ky la ty en hw sw ex pr : forall l pts rest acc,
  take_xy_more l = (pts, rest) ->
  run f (Build_rstate nm un dn cu (Some (EPath (Build_gpath la ty en hw sw ex acc pr))) wd ky true) l =
  run f (Build_rstate nm un dn cu (Some (EPath (Build_gpath la ty en hw sw ex (acc ++ pts) pr))) wd ky true) rest.
Proof.
  induction l as [|r l IH]; intros pts rest acc; cbn [take_xy_more].
  - intros [= <- <-]. rewrite app_nil_r. reflexivity.
  - destruct (is_rec 16 3 r && (plen r mod 8 =? 0)) eqn:E.
    + destruct (take_xy_more l) as [pts' rest'] eqn:El. intros [= <- <-].
      destruct (xy_cond r E) as [Ht Hd]. step_rec Ht. rewrite Hd. cbn [swapped].
      rewrite (IH pts' rest' _ eq_refl). rewrite <- app_assoc. reflexivity.
    + intros [= <- <-]. rewrite app_nil_r. reflexivity.
Qed.

Lemma run_xy_path_spec f nm un dn cu wd ky la ty en hw sw ex pr l pts rest :
  take_xy l = Some (pts, rest) ->
  run f (Build_rstate nm un dn cu (Some (EPath (Build_gpath la ty en hw sw ex [] pr))) wd ky false) l =
  run f (Build_rstate nm un dn cu (Some (EPath (Build_gpath la ty en wd sw ex pts pr))) wd ky true) rest.
Proof.
  unfold take_xy. destruct l as [|r l]; [discriminate|].
  destruct (is_rec 16 3 r && (plen r mod 8 =? 0)) eqn:E; [|discriminate].
  destruct (take_xy_more l) as [pts' rest'] eqn:El. intros [= <- <-].
  destruct (xy_cond r E) as [Ht Hd]. step_rec Ht. rewrite Hd. cbn [swapped app].
  apply run_xy_more_path. exact El.
Qed.

(* ------------------------------------------------------------------ properties *)
Definition with_props (e : gelem) (ps : gprops) : gelem :=
  match e with
  | EPoly p => EPoly (Build_gpoly (p_layer p) (p_type p) (p_pts p) ps)
  | EPath h => EPath (Build_gpath (h_layer h) (h_type h) (h_end h) (h_width h) (h_scale_width h) (h_ext h) (h_pts h) ps)
  | ERef r => ERef (Build_gref (r_name r) (r_origin r) (r_refl r) (r_mag r) (r_rot r) (r_rep r) ps)
  | ELabel l => ELabel (Build_glabel (l_layer l) (l_type l) (l_text l) (l_origin l) (l_anchor l) (l_refl l) (l_mag l) (l_rot l) ps)
  end.

Lemma set_props_with e a v : set_props e a v = with_props e (set_gds_prop (elem_props e) a v).
Proof. destruct e; reflexivity. Qed.
Lemma with_props_props e ps : elem_props (with_props e ps) = ps.
Proof. destruct e; reflexivity. Qed.
Lemma with_props_twice e ps qs : with_props (with_props e ps) qs = with_props e qs.
Proof. destruct e; reflexivity. Qed.

Lemma run_take_props f nm un dn cu wd ps_ : forall l e ky ps rest,
  take_props (elem_props e) l = (ps, rest) ->
  exists ky', run f (Build_rstate nm un dn cu (Some e) wd ky ps_) l =
              run f (Build_rstate nm un dn cu (Some (with_props e ps)) wd ky' ps_) rest.
Proof.
  fix IH 1. intros l e ky ps rest. destruct l as [|ra [|rv l]]; cbn [take_props].
  - intros [= <- <-]. exists ky. destruct e as [[]|[]|[]|[]]; reflexivity.
  - intros [= <- <-]. exists ky. destruct e as [[]|[]|[]|[]]; reflexivity.
  - destruct (is_rec 43 2 ra && (plen ra =? 2) && is_rec 44 6 rv) eqn:E.
    + intros H. apply andb_prop in E. destruct E as [E Ev]. apply andb_prop in E. destruct E as [Ea _].
      apply is_rec_true in Ea, Ev. destruct Ea as [Hta Hda]. destruct Ev as [Htv Hdv].
      step_rec Hta. rewrite Hda. cbn [swapped]. step_rec Htv.
      rewrite set_props_with.
      set (e' := with_props e (set_gds_prop (elem_props e) (Z.to_N (d16 (swap2 (payload ra)) 0 mod 65536)) (cstring (payload rv)))).
      assert (Hp : elem_props e' = set_gds_prop (elem_props e) (Z.to_N (d16 (swap2 (payload ra)) 0 mod 65536)) (cstring (payload rv)))
        by (subst e'; apply with_props_props).
      rewrite <- Hp in H.
      destruct (IH l e' (Z.to_N (d16 (swap2 (payload ra)) 0 mod 65536)) ps rest H) as [ky' Hr].
      exists ky'. rewrite Hr. subst e'. rewrite with_props_twice. reflexivity.
    + intros [= <- <-]. exists ky. destruct e as [[]|[]|[]|[]]; reflexivity.
Qed.
