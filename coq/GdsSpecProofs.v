(* reader_accepts_spec: every stream the strict grammar accepts is loaded by the reader model to the
   layout the grammar assigns to it. *)
Require Import Base GdsFrame GdsFrameProofs GdsModel GdsWrite GdsRoundtrip GdsSpec.
From Coq Require Import ZArith Lia ZifyBool ZifyN ZifyNat.
Local Open Scope N_scope.

Lemma is_rec_true t d r : is_rec t d r = true -> rtype r = t /\ dtype r = d.
Proof. unfold is_rec. intros H. apply andb_prop in H. destruct H as [A B]. apply N.eqb_eq in A, B. auto. Qed.

Lemma take1_some t d len l r tl : take1 t d len l = Some (r, tl) -> l = r :: tl /\ rtype r = t /\ dtype r = d.
Proof.
  unfold take1. destruct l as [|r0 l0]; [discriminate|].
  destruct (is_rec t d r0 && (plen r0 =? len)) eqn:E; [|discriminate].
  intros [= <- <-]. apply andb_prop in E. destruct E as [E _]. apply is_rec_true in E. tauto.
Qed.

Lemma opt1_cases t d len l o tl : opt1 t d len l = (o, tl) ->
  (o = None /\ tl = l) \/ (exists r, o = Some r /\ l = r :: tl /\ rtype r = t /\ dtype r = d).
Proof.
  unfold opt1. destruct (take1 t d len l) as [[r tl0]|] eqn:E.
  - intros [= <- <-]. right. exists r. apply take1_some in E. tauto.
  - intros [= <- <-]. left. auto.
Qed.

Lemma take_str_some t l s tl : take_str t l = Some (s, tl) -> exists r, l = r :: tl /\ rtype r = t /\ s = strip_nul (payload r).
Proof.
  unfold take_str. destruct l as [|r l0]; [discriminate|]. destruct (is_rec t 6 r && no_nulb (strip_nul (payload r))) eqn:E; [|discriminate].
  intros [= <- <-]. exists r. apply andb_prop in E. destruct E as [E _]. apply is_rec_true in E. tauto.
Qed.

Lemma take_endel_some l tl : take_endel l = Some tl -> exists r, l = r :: tl /\ rtype r = 17.
Proof.
  unfold take_endel. destruct l as [|r l0]; [discriminate|]. destruct (rtype r =? 17) eqn:E; [|discriminate].
  intros [= <-]. exists r. apply N.eqb_eq in E. auto.
Qed.

Lemma take_xy1_some l x : take_xy1 l = Some x -> take_xy l = Some x.
Proof. unfold take_xy1. destruct l as [|r l]; [discriminate|]. destruct (8 <=? plen r); [auto|discriminate]. Qed.

(* ------------------------------------------------------------------ ignored records *)
Lemma step_other f st r : kind_of (rtype r) = KOther -> step_gds f st r = SCont st.
Proof. intros H. unfold step_gds. rewrite H. reflexivity. Qed.

Lemma run_skip_flags f st : forall l, run f st l = run f st (skip_flags l).
Proof.
  induction l as [|r l IH]; [reflexivity|]. cbn [skip_flags].
  destruct ((rtype r =? 38) || (rtype r =? 47)) eqn:E; [|reflexivity].
  cbn [run]. rewrite step_other; [exact IH|].
  apply orb_prop in E. destruct E as [E|E]; apply N.eqb_eq in E; rewrite E; reflexivity.
Qed.

Lemma run_skip_strclass f st : forall l, run f st l = run f st (skip_strclass l).
Proof.
  induction l as [|r l IH]; [reflexivity|]. cbn [skip_strclass].
  destruct (rtype r =? 52) eqn:E; [|reflexivity].
  cbn [run]. rewrite step_other; [exact IH|]. apply N.eqb_eq in E. rewrite E. reflexivity.
Qed.

Lemma libopt_other r : libopt r = true -> kind_of (rtype r) = KOther.
Proof.
  unfold libopt. destruct (rtype r) as [|p]; [discriminate|].
  repeat (destruct p as [p|p|]; try discriminate; try reflexivity).
Qed.

Lemma run_skip_libopt f st : forall l, run f st l = run f st (skip_libopt l).
Proof.
  induction l as [|r l IH]; [reflexivity|]. cbn [skip_libopt].
  destruct (libopt r) eqn:E; [|reflexivity].
  cbn [run]. rewrite step_other; [exact IH|]. apply libopt_other. exact E.
Qed.

(* one reader step on an abstract record whose type (and data type) are known *)
Ltac step_rec Ht :=
  cbn [run]; unfold step_gds at 1; rewrite Ht;
  cbn [kind_of s_name s_units s_done s_cur s_open s_width s_key s_path_started];
  unfold with_open, with_cur, with_name, with_units, with_done, with_width, with_key, with_started;
  cbn [s_name s_units s_done s_cur s_open s_width s_key s_path_started swapped
       p_layer p_type p_pts p_props h_layer h_type h_end h_width h_scale_width h_ext h_pts h_props
       r_name r_origin r_refl r_mag r_rot r_rep r_props l_layer l_type l_text l_origin l_anchor l_refl l_mag l_rot l_props
       new_poly new_path new_ref new_label].

(* ------------------------------------------------------------------ XY+ *)
Lemma xy_cond r : is_rec 16 3 r && (plen r mod 8 =? 0) = true -> rtype r = 16 /\ dtype r = 3.
Proof. intros H. apply andb_prop in H. destruct H as [H _]. apply is_rec_true. exact H. Qed.

Lemma run_xy_more_poly f nm un dn cu wd ky ps la ty pr : forall l pts rest acc,
  take_xy_more l = (pts, rest) ->
  run f (Build_rstate nm un dn cu (Some (EPoly (Build_gpoly la ty acc pr))) wd ky ps) l =
  run f (Build_rstate nm un dn cu (Some (EPoly (Build_gpoly la ty (acc ++ pts) pr))) wd ky ps) rest.
Proof.
  induction l as [|r l IH]; intros pts rest acc; cbn [take_xy_more].
  - intros [= <- <-]. rewrite app_nil_r. reflexivity.
  - destruct (is_rec 16 3 r && (plen r mod 8 =? 0)) eqn:E.
    + destruct (take_xy_more l) as [pts' rest'] eqn:El. intros [= <- <-].
      destruct (xy_cond r E) as [Ht Hd]. step_rec Ht. rewrite Hd. cbn [swapped].
      rewrite (IH pts' rest' _ eq_refl). rewrite <- app_assoc. reflexivity.
    + intros [= <- <-]. rewrite app_nil_r. reflexivity.
Qed.

Lemma run_xy_poly_spec f nm un dn cu wd ky ps la ty pr l pts rest :
  take_xy l = Some (pts, rest) ->
  run f (Build_rstate nm un dn cu (Some (EPoly (Build_gpoly la ty [] pr))) wd ky ps) l =
  run f (Build_rstate nm un dn cu (Some (EPoly (Build_gpoly la ty pts pr))) wd ky ps) rest.
Proof.
  unfold take_xy. destruct l as [|r l]; [discriminate|].
  destruct (is_rec 16 3 r && (plen r mod 8 =? 0)) eqn:E; [|discriminate].
  destruct (take_xy_more l) as [pts' rest'] eqn:El. intros [= <- <-].
  destruct (xy_cond r E) as [Ht Hd]. step_rec Ht. rewrite Hd. cbn [swapped app].
  apply run_xy_more_poly. exact El.
Qed.

Lemma run_xy_more_path f nm un dn cu wd ky la ty en hw sw ex pr : forall l pts rest acc,
  take_xy_more l = (pts, rest) ->
  run f (Build_rstate nm un dn cu (Some (EPath (Build_gpath la ty en hw sw ex acc pr))) wd ky true) l =
  run f (Build_rstate nm un dn cu (Some (EPath (Build_gpath la ty en hw sw ex (acc ++ pts) pr))) wd ky true) rest.
Proof.
  induction l as [|r l IH]; intros pts rest acc; cbn [take_xy_more].
  - intros [= <- <-]. rewrite app_nil_r. reflexivity.
  - destruct (is_rec 16 3 r && (plen r mod 8 =? 0)) eqn:E.
    + destruct (take_xy_more l) as [pts' rest'] eqn:El. intros [= <- <-].
      destruct (xy_cond r E) as [Ht Hd]. step_rec Ht. rewrite Hd. cbn [swapped].
      rewrite (IH pts' rest' _ eq_refl). rewrite <- app_assoc. reflexivity.
    + intros [= <- <-]. rewrite app_nil_r. reflexivity.
Qed.

Lemma run_xy_path_spec f nm un dn cu wd ky la ty en hw sw ex pr l pts rest :
  take_xy l = Some (pts, rest) ->
  run f (Build_rstate nm un dn cu (Some (EPath (Build_gpath la ty en hw sw ex [] pr))) wd ky false) l =
  run f (Build_rstate nm un dn cu (Some (EPath (Build_gpath la ty en wd sw ex pts pr))) wd ky true) rest.
Proof.
  unfold take_xy. destruct l as [|r l]; [discriminate|].
  destruct (is_rec 16 3 r && (plen r mod 8 =? 0)) eqn:E; [|discriminate].
  destruct (take_xy_more l) as [pts' rest'] eqn:El. intros [= <- <-].
  destruct (xy_cond r E) as [Ht Hd]. step_rec Ht. rewrite Hd. cbn [swapped app].
  apply run_xy_more_path. exact El.
Qed.

(* ------------------------------------------------------------------ properties *)
Definition with_props (e : gelem) (ps : gprops) : gelem :=
  match e with
  | EPoly p => EPoly (Build_gpoly (p_layer p) (p_type p) (p_pts p) ps)
  | EPath h => EPath (Build_gpath (h_layer h) (h_type h) (h_end h) (h_width h) (h_scale_width h) (h_ext h) (h_pts h) ps)
  | ERef r => ERef (Build_gref (r_name r) (r_origin r) (r_refl r) (r_mag r) (r_rot r) (r_rep r) ps)
  | ELabel l => ELabel (Build_glabel (l_layer l) (l_type l) (l_text l) (l_origin l) (l_anchor l) (l_refl l) (l_mag l) (l_rot l) ps)
  end.

Lemma set_props_with e a v : set_props e a v = with_props e (set_gds_prop (elem_props e) a v).
Proof. destruct e; reflexivity. Qed.
Lemma with_props_props e ps : elem_props (with_props e ps) = ps.
Proof. destruct e; reflexivity. Qed.
Lemma with_props_twice e ps qs : with_props (with_props e ps) qs = with_props e qs.
Proof. destruct e; reflexivity. Qed.

Lemma run_take_props f nm un dn cu wd ps_ : forall l e ky ps rest,
  take_props (elem_props e) l = (ps, rest) ->
  exists ky', run f (Build_rstate nm un dn cu (Some e) wd ky ps_) l =
              run f (Build_rstate nm un dn cu (Some (with_props e ps)) wd ky' ps_) rest.
Proof.
  fix IH 1. intros l e ky ps rest. destruct l as [|ra [|rv l]]; cbn [take_props].
  - intros [= <- <-]. exists ky. destruct e as [[]|[]|[]|[]]; reflexivity.
  - intros [= <- <-]. exists ky. destruct e as [[]|[]|[]|[]]; reflexivity.
  - destruct (is_rec 43 2 ra && (plen ra =? 2) && is_rec 44 6 rv) eqn:E.
    + intros H. apply andb_prop in E. destruct E as [E Ev]. apply andb_prop in E. destruct E as [Ea _].
      apply is_rec_true in Ea, Ev. destruct Ea as [Hta Hda]. destruct Ev as [Htv Hdv].
      step_rec Hta. rewrite Hda. cbn [swapped]. step_rec Htv.
      rewrite set_props_with.
      set (e' := with_props e (set_gds_prop (elem_props e) (Z.to_N (d16 (swap2 (payload ra)) 0 mod 65536)) (cstring (payload rv)))).
      assert (Hp : elem_props e' = set_gds_prop (elem_props e) (Z.to_N (d16 (swap2 (payload ra)) 0 mod 65536)) (cstring (payload rv)))
        by (subst e'; apply with_props_props).
      rewrite <- Hp in H.
      destruct (IH l e' (Z.to_N (d16 (swap2 (payload ra)) 0 mod 65536)) ps rest H) as [ky' Hr].
      exists ky'. rewrite Hr. subst e'. rewrite with_props_twice. reflexivity.
    + intros [= <- <-]. exists ky. destruct e as [[]|[]|[]|[]]; reflexivity.
Qed.

(* ------------------------------------------------------------------ elements *)
Lemma closed_drop pts o : closed_poly pts = Some o -> drop_closing pts = Some o.
Proof.
  unfold closed_poly, drop_closing. destruct pts as [|p0 pts]; [discriminate|].
  destruct ((fst p0 =? fst (last (p0 :: pts) p0))%Z && (snd p0 =? snd (last (p0 :: pts) p0))%Z); [auto|discriminate].
Qed.

Ltac t1 H r l Ht Hd :=
  let E := fresh "E" in
  destruct (take1_some _ _ _ _ _ _ H) as (E & Ht & Hd); subst.

Lemma run_spec_boundary f nm un dn c b wd ky ps box l e rest :
  spec_boundary box l = Some (e, rest) ->
  exists wd' ky' ps',
  run f (Build_rstate nm un dn (Some (c, b)) (Some (EPoly new_poly)) wd ky ps) l =
  run f (Build_rstate nm un dn (Some (commit f c e, b)) None wd' ky' ps') rest.
Proof.
  unfold spec_boundary. rewrite (run_skip_flags f _ l). generalize (skip_flags l). clear l. intros l.
  destruct (take1 13 2 2 l) as [[rl l1]|] eqn:H1; [|discriminate].
  destruct (take1 (if box then 46 else 14) 2 2 l1) as [[rt l2]|] eqn:H2; [|discriminate].
  destruct (take_xy l2) as [[pts l3]|] eqn:H3; [|discriminate].
  destruct (take_props [] l3) as [prs l4] eqn:H4.
  destruct (take_endel l4) as [l5|] eqn:H5; [|discriminate].
  destruct (closed_poly pts) as [opn|] eqn:H6; [|discriminate].
  intros [= <- <-].
  destruct (take1_some _ _ _ _ _ _ H1) as (-> & Ht1 & Hd1).
  destruct (take1_some _ _ _ _ _ _ H2) as (-> & Ht2 & Hd2).
  destruct (take_endel_some _ _ H5) as (re & -> & Hte).
  unfold new_poly. step_rec Ht1. rewrite Hd1. cbn [swapped].
  assert (Hk : kind_of (rtype rt) = KDatatype) by (rewrite Ht2; destruct box; reflexivity).
  cbn [run]. unfold step_gds at 1. rewrite Hk.
  cbn [s_open]. unfold with_open. cbn [s_name s_units s_done s_cur s_open s_width s_key s_path_started p_layer p_type p_pts p_props].
  rewrite Hd2. cbn [swapped].
  rewrite (run_xy_poly_spec f nm un dn (Some (c, b)) wd ky ps _ _ [] l2 pts l3 H3).
  destruct (run_take_props f nm un dn (Some (c, b)) wd ps l3
              (EPoly (Build_gpoly (d16 (swap2 (payload rl)) 0) (d16 (swap2 (payload rt)) 0) pts [])) ky prs (re :: l5) H4) as [ky' Hp].
  rewrite Hp. cbn [with_props p_layer p_type p_pts].
  step_rec Hte. rewrite (closed_drop _ _ H6). cbn [s_cur].
  do 3 eexists. reflexivity.
Qed.

(* optional records of a PATH *)
Lemma run_opt_pathtype f nm un dn cu wd ky ps la ty en hw sw ex pts pr l o l' :
  opt1 33 2 2 l = (o, l') ->
  run f (Build_rstate nm un dn cu (Some (EPath (Build_gpath la ty en hw sw ex pts pr))) wd ky ps) l =
  run f (Build_rstate nm un dn cu (Some (EPath (Build_gpath la ty
          (match o with Some r => match f16 r with 0%Z => EFlush | 1%Z => ERound | 2%Z => EHalf | _ => EExt end | None => en end)
          hw sw ex pts pr))) wd ky ps) l'.
Proof.
  intros H. destruct (opt1_cases _ _ _ _ _ _ H) as [[-> ->]|(r & -> & -> & Ht & Hd)]; [reflexivity|].
  step_rec Ht. rewrite Hd. cbn [swapped]. reflexivity.
Qed.

Lemma run_opt_width_path f nm un dn cu wd ky ps la ty en hw sw ex pts pr l o l' :
  opt1 15 3 4 l = (o, l') ->
  run f (Build_rstate nm un dn cu (Some (EPath (Build_gpath la ty en hw sw ex pts pr))) wd ky ps) l =
  run f (Build_rstate nm un dn cu (Some (EPath (Build_gpath la ty en hw
          (match o with Some r => (0 <=? f32 r)%Z | None => sw end) ex pts pr)))
          (match o with Some r => Z.abs (f32 r) | None => wd end) ky ps) l'.
Proof.
  intros H. destruct (opt1_cases _ _ _ _ _ _ H) as [[-> ->]|(r & -> & -> & Ht & Hd)]; [reflexivity|].
  step_rec Ht. rewrite Hd. cbn [swapped]. reflexivity.
Qed.

Lemma run_opt_bgnextn f nm un dn cu wd ky ps la ty en hw sw e0 e1 pts pr l o l' :
  opt1 48 3 4 l = (o, l') ->
  run f (Build_rstate nm un dn cu (Some (EPath (Build_gpath la ty en hw sw (e0, e1) pts pr))) wd ky ps) l =
  run f (Build_rstate nm un dn cu (Some (EPath (Build_gpath la ty en hw sw
          (match o with Some r => f32 r | None => e0 end, e1) pts pr))) wd ky ps) l'.
Proof.
  intros H. destruct (opt1_cases _ _ _ _ _ _ H) as [[-> ->]|(r & -> & -> & Ht & Hd)]; [reflexivity|].
  step_rec Ht. rewrite Hd. cbn [swapped fst snd]. reflexivity.
Qed.

Lemma run_opt_endextn f nm un dn cu wd ky ps la ty en hw sw e0 e1 pts pr l o l' :
  opt1 49 3 4 l = (o, l') ->
  run f (Build_rstate nm un dn cu (Some (EPath (Build_gpath la ty en hw sw (e0, e1) pts pr))) wd ky ps) l =
  run f (Build_rstate nm un dn cu (Some (EPath (Build_gpath la ty en hw sw
          (e0, match o with Some r => f32 r | None => e1 end) pts pr))) wd ky ps) l'.
Proof.
  intros H. destruct (opt1_cases _ _ _ _ _ _ H) as [[-> ->]|(r & -> & -> & Ht & Hd)]; [reflexivity|].
  step_rec Ht. rewrite Hd. cbn [swapped fst snd]. reflexivity.
Qed.

Lemma run_spec_path f nm un dn c b ky l e rest :
  spec_path l = Some (e, rest) ->
  exists wd' ky' ps',
  run f (Build_rstate nm un dn (Some (c, b)) (Some (EPath new_path)) 0%Z ky false) l =
  run f (Build_rstate nm un dn (Some (commit f c e, b)) None wd' ky' ps') rest.
Proof.
  unfold spec_path. rewrite (run_skip_flags f _ l). generalize (skip_flags l). clear l. intros l.
  destruct (take1 13 2 2 l) as [[rl l1]|] eqn:H1; [|discriminate].
  destruct (take1 14 2 2 l1) as [[rt l2]|] eqn:H2; [|discriminate].
  destruct (opt1 33 2 2 l2) as [opt_ l3] eqn:H3.
  destruct (opt1 15 3 4 l3) as [ow l4] eqn:H4.
  destruct (opt1 48 3 4 l4) as [ob l5] eqn:H5.
  destruct (opt1 49 3 4 l5) as [oe l6] eqn:H6.
  destruct (width_ok ow) eqn:Hwok; [|discriminate].
  destruct (take_xy1 l6) as [[pts l7]|] eqn:H7; [|discriminate]. apply take_xy1_some in H7.
  destruct (take_props [] l7) as [prs l8] eqn:H8.
  destruct (take_endel l8) as [l9|] eqn:H9; [|discriminate].
  intros [= <- <-].
  destruct (take1_some _ _ _ _ _ _ H1) as (-> & Ht1 & Hd1).
  destruct (take1_some _ _ _ _ _ _ H2) as (-> & Ht2 & Hd2).
  destruct (take_endel_some _ _ H9) as (re & -> & Hte).
  unfold new_path. step_rec Ht1. rewrite Hd1. cbn [swapped].
  step_rec Ht2. rewrite Hd2. cbn [swapped].
  rewrite (run_opt_pathtype _ _ _ _ _ _ _ _ _ _ _ _ _ _ _ _ _ _ _ H3).
  rewrite (run_opt_width_path _ _ _ _ _ _ _ _ _ _ _ _ _ _ _ _ _ _ _ H4).
  rewrite (run_opt_bgnextn _ _ _ _ _ _ _ _ _ _ _ _ _ _ _ _ _ _ _ _ H5).
  rewrite (run_opt_endextn _ _ _ _ _ _ _ _ _ _ _ _ _ _ _ _ _ _ _ _ H6).
  rewrite (run_xy_path_spec _ _ _ _ _ _ _ _ _ _ _ _ _ _ _ _ _ H7).
  match goal with |- context [Some (EPath ?h)] =>
    destruct (run_take_props f nm un dn (Some (c, b))
                (match ow with Some r => Z.abs (f32 r) | None => 0%Z end) true l7 (EPath h) ky prs (re :: l9) H8) as [ky' Hp]
  end.
  rewrite Hp. cbn [with_props h_layer h_type h_end h_width h_scale_width h_ext h_pts].
  step_rec Hte. cbn [s_cur]. unfold f16.
  destruct ow as [rw|]; do 3 eexists; reflexivity.
Qed.

(* [STRANS [MAG] [ANGLE]] on an open reference / label *)
Lemma run_take_strans_ref f nm un dn cu wd ky ps rn ro rp pr l refl mag rot l' :
  take_strans l = ((refl, mag, rot), l') ->
  run f (Build_rstate nm un dn cu (Some (ERef (Build_gref rn ro false real_one 0 rp pr))) wd ky ps) l =
  run f (Build_rstate nm un dn cu (Some (ERef (Build_gref rn ro refl mag rot rp pr))) wd ky ps) l'.
Proof.
  unfold take_strans. destruct (take1 26 1 2 l) as [[rs l1]|] eqn:H1.
  - destruct (opt1 27 5 8 l1) as [om l2] eqn:H2. destruct (opt1 28 5 8 l2) as [oa l3] eqn:H3.
    intros [= <- <- <- <-]. destruct (take1_some _ _ _ _ _ _ H1) as (-> & Ht & Hd).
    step_rec Ht. rewrite Hd. cbn [swapped].
    destruct (opt1_cases _ _ _ _ _ _ H2) as [[-> ->]|(rm & -> & -> & Htm & Hdm)];
    destruct (opt1_cases _ _ _ _ _ _ H3) as [[-> ->]|(ra & -> & -> & Hta & Hda)].
    + reflexivity.
    + step_rec Hta. rewrite Hda. reflexivity.
    + step_rec Htm. rewrite Hdm. reflexivity.
    + step_rec Htm. rewrite Hdm. cbn [swapped]. step_rec Hta. rewrite Hda. reflexivity.
  - intros [= <- <- <- <-]. reflexivity.
Qed.

Lemma run_take_strans_label f nm un dn cu wd ky ps la ty tx o an pr l refl mag rot l' :
  take_strans l = ((refl, mag, rot), l') ->
  run f (Build_rstate nm un dn cu (Some (ELabel (Build_glabel la ty tx o an false real_one 0 pr))) wd ky ps) l =
  run f (Build_rstate nm un dn cu (Some (ELabel (Build_glabel la ty tx o an refl mag rot pr))) wd ky ps) l'.
Proof.
  unfold take_strans. destruct (take1 26 1 2 l) as [[rs l1]|] eqn:H1.
  - destruct (opt1 27 5 8 l1) as [om l2] eqn:H2. destruct (opt1 28 5 8 l2) as [oa l3] eqn:H3.
    intros [= <- <- <- <-]. destruct (take1_some _ _ _ _ _ _ H1) as (-> & Ht & Hd).
    step_rec Ht. rewrite Hd. cbn [swapped].
    destruct (opt1_cases _ _ _ _ _ _ H2) as [[-> ->]|(rm & -> & -> & Htm & Hdm)];
    destruct (opt1_cases _ _ _ _ _ _ H3) as [[-> ->]|(ra & -> & -> & Hta & Hda)].
    + reflexivity.
    + step_rec Hta. rewrite Hda. reflexivity.
    + step_rec Htm. rewrite Hdm. reflexivity.
    + step_rec Htm. rewrite Hdm. cbn [swapped]. step_rec Hta. rewrite Hda. reflexivity.
  - intros [= <- <- <- <-]. reflexivity.
Qed.

Lemma run_spec_ref f nm un dn c b wd ky ps array l e rest :
  spec_ref array l = Some (e, rest) ->
  exists wd' ky' ps',
  run f (Build_rstate nm un dn (Some (c, b)) (Some (ERef new_ref)) wd ky ps) l =
  run f (Build_rstate nm un dn (Some (commit f c e, b)) None wd' ky' ps') rest.
Proof.
  unfold spec_ref. rewrite (run_skip_flags f _ l). generalize (skip_flags l). clear l. intros l.
  destruct (take_str 18 l) as [[rn l1]|] eqn:H1; [|discriminate].
  destruct (take_strans l1) as [[[refl mag] rot] l2] eqn:H2.
  destruct (take_str_some _ _ _ _ H1) as (rs & -> & Hts & ->).
  unfold new_ref. step_rec Hts.
  rewrite (run_take_strans_ref _ _ _ _ _ _ _ _ _ _ _ _ _ _ _ _ _ H2).
  destruct array.
  - destruct (take1 19 2 4 l2) as [[rc l3]|] eqn:H3; [|discriminate].
    destruct (colrow_ok rc) eqn:Hcr; [|discriminate].
    destruct (take1 16 3 24 l3) as [[rx l4]|] eqn:H4; [|discriminate].
    destruct (take_props [] l4) as [prs l5] eqn:H5.
    destruct (take_endel l5) as [l6|] eqn:H6; [|discriminate].
    intros [= <- <-].
    destruct (take1_some _ _ _ _ _ _ H3) as (-> & Ht3 & Hd3).
    destruct (take1_some _ _ _ _ _ _ H4) as (-> & Ht4 & Hd4).
    destruct (take_endel_some _ _ H6) as (re & -> & Hte).
    step_rec Ht3. rewrite Hd3. cbn [swapped].
    step_rec Ht4. rewrite Hd4. cbn [swapped g_cols g_rows].
    match goal with |- context [Some (ERef ?r)] =>
      destruct (run_take_props f nm un dn (Some (c, b)) wd ps l4 (ERef r) ky prs (re :: l6) H5) as [ky' Hp]
    end.
    rewrite Hp. cbn [with_props r_name r_origin r_refl r_mag r_rot r_rep].
    step_rec Hte. cbn [s_cur].
    destruct ((real_mantissa rot =? 0) && negb refl); cbn [negb]; do 3 eexists; reflexivity.
  - destruct (take1 16 3 8 l2) as [[rx l4]|] eqn:H4; [|discriminate].
    destruct (take_props [] l4) as [prs l5] eqn:H5.
    destruct (take_endel l5) as [l6|] eqn:H6; [|discriminate].
    intros [= <- <-].
    destruct (take1_some _ _ _ _ _ _ H4) as (-> & Ht4 & Hd4).
    destruct (take_endel_some _ _ H6) as (re & -> & Hte).
    step_rec Ht4. rewrite Hd4. cbn [swapped].
    match goal with |- context [Some (ERef ?r)] =>
      destruct (run_take_props f nm un dn (Some (c, b)) wd ps l4 (ERef r) ky prs (re :: l6) H5) as [ky' Hp]
    end.
    rewrite Hp. cbn [with_props r_name r_origin r_refl r_mag r_rot r_rep].
    step_rec Hte. cbn [s_cur]. do 3 eexists. reflexivity.
Qed.

Lemma run_spec_text f nm un dn c b wd ky ps l e rest :
  spec_text l = Some (e, rest) ->
  exists wd' ky' ps',
  run f (Build_rstate nm un dn (Some (c, b)) (Some (ELabel new_label)) wd ky ps) l =
  run f (Build_rstate nm un dn (Some (commit f c e, b)) None wd' ky' ps') rest.
Proof.
  unfold spec_text. rewrite (run_skip_flags f _ l). generalize (skip_flags l). clear l. intros l.
  destruct (take1 13 2 2 l) as [[rl l1]|] eqn:H1; [|discriminate].
  destruct (take1 22 2 2 l1) as [[rt l2]|] eqn:H2; [|discriminate].
  destruct (opt1 23 1 2 l2) as [opr l3] eqn:H3.
  destruct (opt1 33 2 2 l3) as [opt_ l4] eqn:H4.
  destruct (opt1 15 3 4 l4) as [ow l5] eqn:H5.
  destruct (width_ok ow) eqn:Hwok; [|discriminate].
  destruct (take_strans l5) as [[[refl mag] rot] l6] eqn:H6.
  destruct (take1 16 3 8 l6) as [[rx l7]|] eqn:H7; [|discriminate].
  destruct (take_str 25 l7) as [[tx l8]|] eqn:H8; [|discriminate].
  destruct (take_props [] l8) as [prs l9] eqn:H9.
  destruct (take_endel l9) as [l10|] eqn:H10; [|discriminate].
  intros [= <- <-].
  destruct (take1_some _ _ _ _ _ _ H1) as (-> & Ht1 & Hd1).
  destruct (take1_some _ _ _ _ _ _ H2) as (-> & Ht2 & Hd2).
  destruct (take1_some _ _ _ _ _ _ H7) as (-> & Ht7 & Hd7).
  destruct (take_str_some _ _ _ _ H8) as (rs & -> & Hts & ->).
  destruct (take_endel_some _ _ H10) as (re & -> & Hte).
  unfold new_label. step_rec Ht1. rewrite Hd1. cbn [swapped].
  step_rec Ht2. rewrite Hd2. cbn [swapped].
  (* the three optional records *)
  assert (Hopt : exists wd1,
    run f (Build_rstate nm un dn (Some (c, b)) (Some (ELabel (Build_glabel (d16 (swap2 (payload rl)) 0) (d16 (swap2 (payload rt)) 0) [] (0, 0)%Z 0 false real_one 0 []))) wd ky ps) l2 =
    run f (Build_rstate nm un dn (Some (c, b)) (Some (ELabel (Build_glabel (d16 (swap2 (payload rl)) 0) (d16 (swap2 (payload rt)) 0) [] (0, 0)%Z
            (match opr with Some r => Z.to_N (f16 r mod 16) | None => 0 end) false real_one 0 []))) wd1 ky ps) l5).
  { destruct (opt1_cases _ _ _ _ _ _ H3) as [[-> ->]|(r3 & -> & -> & Ht3 & Hd3)];
    destruct (opt1_cases _ _ _ _ _ _ H4) as [[-> ->]|(r4 & -> & -> & Ht4 & Hd4)];
    destruct (opt1_cases _ _ _ _ _ _ H5) as [[-> ->]|(r5 & -> & -> & Ht5 & Hd5)];
    try (step_rec Ht3; rewrite Hd3; cbn [swapped]);
    try (step_rec Ht4);
    try (step_rec Ht5);
    eexists; reflexivity. }
  destruct Hopt as [wd1 Hopt]. rewrite Hopt.
  rewrite (run_take_strans_label _ _ _ _ _ _ _ _ _ _ _ _ _ _ _ _ _ _ _ H6).
  step_rec Ht7. rewrite Hd7. cbn [swapped]. step_rec Hts.
  match goal with |- context [Some (ELabel ?r)] =>
    destruct (run_take_props f nm un dn (Some (c, b)) wd1 ps l8 (ELabel r) ky prs (re :: l10) H9) as [ky' Hp]
  end.
  rewrite Hp. cbn [with_props l_layer l_type l_text l_origin l_anchor l_refl l_mag l_rot].
  step_rec Hte. cbn [s_cur]. do 3 eexists. reflexivity.
Qed.

(* an element, starting from its first record *)
Lemma run_spec_element f nm un dn c b wd ky ps l e rest :
  spec_element l = Some (e, rest) ->
  exists wd' ky' ps',
  run f (Build_rstate nm un dn (Some (c, b)) None wd ky ps) l =
  run f (Build_rstate nm un dn (Some (commit f c e, b)) None wd' ky' ps') rest.
Proof.
  unfold spec_element. destruct l as [|r l]; [discriminate|].
  destruct (plen r =? 0); [|discriminate].
  destruct (rtype r) as [|p] eqn:Ht; [discriminate|].
  do 6 (try (destruct p as [p|p|])); try discriminate; intros H;
  step_rec Ht;
  first [ apply run_spec_boundary with (box := true); exact H
        | apply run_spec_boundary with (box := false); exact H
        | apply run_spec_ref with (array := true); exact H
        | apply run_spec_ref with (array := false); exact H
        | apply run_spec_path; exact H
        | apply run_spec_text; exact H ].
Qed.

(* ------------------------------------------------------------------ structures and the library *)
Lemma run_spec_elements f nm un dn b : forall fuel l es rest c wd ky ps,
  spec_elements fuel l = Some (es, rest) ->
  exists wd' ky' ps',
  run f (Build_rstate nm un dn (Some (c, b)) None wd ky ps) l =
  run f (Build_rstate nm un dn (Some (fold_left (commit f) es c, b)) None wd' ky' ps') rest.
Proof.
  induction fuel as [|fu IH]; intros l es rest c wd ky ps; cbn [spec_elements]; [discriminate|].
  destruct l as [|r l]; [discriminate|].
  destruct (rtype r =? 7) eqn:E7.
  - intros [= <- <-]. apply N.eqb_eq in E7. step_rec E7. do 3 eexists. reflexivity.
  - destruct (spec_element (r :: l)) as [[e rest1]|] eqn:He; [|discriminate].
    destruct (spec_elements fu rest1) as [[es' rest2]|] eqn:Hes; [|discriminate].
    intros [= <- <-].
    destruct (run_spec_element f nm un dn c b wd ky ps (r :: l) e rest1 He) as (wd1 & ky1 & ps1 & H1).
    rewrite H1. cbn [fold_left]. apply IH. exact Hes.
Qed.

Lemma run_spec_structures nm un : forall fuel l cs rest dn cu wd ky ps,
  spec_structures fuel l = Some (cs, rest) ->
  run None (Build_rstate nm un dn cu None wd ky ps) l =
  SRet {| g_name := nm; g_units := un; g_cells := flush dn cu ++ cs |}.
Proof.
  induction fuel as [|fu IH]; intros l cs rest dn cu wd ky ps; cbn [spec_structures]; [discriminate|].
  destruct l as [|r l]; [discriminate|].
  destruct (rtype r =? 4) eqn:E4.
  - intros [= <- <-]. apply N.eqb_eq in E4. step_rec E4. unfold flush_cur. cbn [s_cur s_done]. fold (flush dn cu).
    rewrite app_nil_r. reflexivity.
  - destruct (is_rec 5 2 r && (plen r =? 24)) eqn:E5; [|discriminate].
    destruct (take_str 6 l) as [[cn l1]|] eqn:Hn; [|discriminate].
    destruct (spec_elements (length l1) (skip_strclass l1)) as [[es l2]|] eqn:Hes; [|discriminate].
    destruct (spec_structures fu l2) as [[cs' l3]|] eqn:Hcs; [|discriminate].
    intros [= <- <-].
    apply andb_prop in E5. destruct E5 as [E5 _]. apply is_rec_true in E5. destruct E5 as [Ht5 _].
    destruct (take_str_some _ _ _ _ Hn) as (rn & -> & Htn & ->).
    step_rec Ht5. unfold flush_cur. cbn [s_cur s_done]. fold (flush dn cu).
    step_rec Htn. unfold empty_cell. cbn [c_polys c_paths c_refs c_labels].
    rewrite (run_skip_strclass None _ l1).
    destruct (run_spec_elements None nm un (flush dn cu) true _ _ _ _
                (Build_gcell (strip_nul (payload rn)) [] [] [] []) wd ky ps Hes) as (wd1 & ky1 & ps1 & H1).
    rewrite H1. rewrite (IH _ _ _ _ _ _ _ _ Hcs). cbn [flush]. rewrite <- app_assoc. reflexivity.
Qed.

Theorem run_spec_records l L : spec_records l = Some L -> run None init_state l = SRet L.
Proof.
  unfold spec_records.
  destruct (take1 0 2 2 l) as [[r0 l1]|] eqn:H0; [|discriminate].
  destruct (take1 1 2 24 l1) as [[r1 l2]|] eqn:H1; [|discriminate].
  destruct (take_str 2 l2) as [[nm l3]|] eqn:H2; [|discriminate].
  destruct (take1 3 5 16 (skip_libopt l3)) as [[ru l4]|] eqn:H3; [|discriminate].
  destruct (units_ok ru) eqn:Huok; [|discriminate].
  destruct (spec_structures (length l4) l4) as [[cs rest]|] eqn:H4; [|discriminate].
  intros [= <-].
  destruct (take1_some _ _ _ _ _ _ H0) as (-> & Ht0 & _).
  destruct (take1_some _ _ _ _ _ _ H1) as (-> & Ht1 & _).
  destruct (take_str_some _ _ _ _ H2) as (rn & -> & Htn & ->).
  destruct (take1_some _ _ _ _ _ _ H3) as (Hl & Ht3 & Hd3).
  unfold init_state. step_rec Ht0. step_rec Ht1. step_rec Htn.
  rewrite (run_skip_libopt None _ l3). rewrite Hl. step_rec Ht3. rewrite Hd3. cbn [swapped].
  rewrite (run_spec_structures _ _ _ _ _ _ _ _ _ _ _ H4). reflexivity.
Qed.

(* ------------------------------------------------------------------ framing *)
Lemma loop_frame : forall fuel bs l, frame_all fuel bs = Some l ->
  forall st fuel2, (fuel <= fuel2)%nat ->
  forall lib, run None st l = SRet lib ->
  exists r', reader_loop rstate (option glib) (step_for_loop None) fuel2 st bs = Ok (Some lib, r').
Proof.
  induction fuel as [|fu IH]; intros bs l; cbn [frame_all]; [discriminate|].
  destruct bs as [|b0 bs0].
  - intros [= <-] st fuel2 _ lib H. discriminate.
  - set (bs := b0 :: bs0).
    destruct (next_record bs) as [[r rest]| | | | |] eqn:En; try discriminate.
    destruct (Nat.even (length (payload r))); [|discriminate].
    destruct (rtype r =? 4) eqn:E4.
    + intros [= <-] st fuel2 Hf lib Hrun. destruct fuel2 as [|f2]; [lia|].
      cbn [reader_loop]. rewrite En. unfold step_for_loop. cbn [run] in Hrun.
      destruct (step_gds None st r) as [st'|l'|]; try discriminate.
      injection Hrun as <-. eexists. reflexivity.
    + destruct (frame_all fu rest) as [l'|] eqn:Hfr; [|discriminate].
      intros [= <-] st fuel2 Hf lib Hrun. destruct fuel2 as [|f2]; [lia|].
      cbn [reader_loop]. rewrite En. unfold step_for_loop at 1. cbn [run] in Hrun.
      destruct (step_gds None st r) as [st'|l''|] eqn:Es; try discriminate.
      * apply (IH rest l' Hfr st' f2 ltac:(lia) lib Hrun).
      * injection Hrun as <-. eexists. reflexivity.
Qed.

(* every stream the strict grammar accepts is loaded to the layout the grammar assigns to it *)
Theorem reader_accepts_spec_lemma bs L : spec_decode bs = Some L -> read_gds_model None bs = Ok L.
Proof.
  unfold spec_decode. destruct (frame_all (S (length bs)) bs) as [l|] eqn:Hf; [|discriminate].
  intros Hs. apply run_spec_records in Hs.
  destruct (loop_frame _ _ _ Hf init_state (S (length bs)) (le_n _) L Hs) as [r' Hr].
  unfold read_gds_model, reader. rewrite Hr. reflexivity.
Qed.

(* non-vacuity: the strict decoder accepts what the writer model emits for the example library *)
Example spec_accepts_written_example :
  spec_decode (write_gds_model [2020; 6; 17; 11; 22; 33]%Z ex_lib) = Some (canon_lib ex_lib).
Proof. vm_compute. reflexivity. Qed.
