(* GDSII record framing (gdsii_read_record of src/gdsii.cpp) and the shape common to all five
   GDSII readers of src/library.cpp / src/rawcell.cpp:

     while (true) { err = gdsii_read_record(...); if (err) return ERROR(err);
                    switch (record type) { ... case X: return RESULT; ... } }

   Definitions only. *)
Require Import Base.
Local Open Scope N_scope.

Record grecord := { rtype : N; dtype : N; payload : list N }.

Definition rec_len (r : grecord) : N := 4 + N.of_nat (length (payload r)).

(* gdsii_read_record on the remaining bytes of the file:
   - fewer than 4 bytes left            -> InputFileError  (ErrEof)
   - big-endian length field < 4        -> InvalidFile     (ErrInvalid)
   - fewer than length-4 bytes follow   -> InputFileError  (ErrEof)
   the 64 KiB buffer of the callers always suffices (length <= 65535). *)
Definition next_record (bs : list N) : outcome (grecord * list N) :=
  match bs with
  | b0 :: b1 :: b2 :: b3 :: tl =>
      let len := b0 * 256 + b1 in
      if len <? 4 then ErrInvalid
      else
        let n := N.to_nat (len - 4) in
        if (length tl <? n)%nat then ErrEof
        else Ok ({| rtype := b2; dtype := b3; payload := firstn n tl |}, skipn n tl)
  | _ => ErrEof
  end.

(* serialisation of one record (what every to_gds writer emits: big-endian length, type, data type) *)
Definition rec_bytes (r : grecord) : list N :=
  let len := rec_len r in
  (len / 256) :: (len mod 256) :: rtype r :: dtype r :: payload r.

Section Loop.
  Variable St Res : Type.
  (* per-record semantics: continue with a new state, or return *)
  Variable step : St -> grecord -> St + Res.

  (* result and the bytes left unread when the reader returned *)
  Fixpoint reader_loop (fuel : nat) (st : St) (bs : list N) : outcome (Res * list N) :=
    match fuel with
    | O => Hang
    | S f =>
        match next_record bs with
        | Ok (r, rest) =>
            match step st r with
            | inl st' => reader_loop f st' rest
            | inr res => Ok (res, rest)
            end
        | ErrEof => ErrEof
        | ErrInvalid => ErrInvalid
        | ErrOverflow => ErrOverflow
        | Crash => Crash
        | Hang => Hang
        end
    end.

  (* each record consumes at least 4 bytes: length bs + 1 iterations always suffice *)
  Definition reader (st : St) (bs : list N) : outcome (Res * list N) :=
    reader_loop (S (length bs)) st bs.
End Loop.

(* ------------------------------------------------------------------ status-level instances.
   For the truncation property only the record type at which each reader returns matters. *)
Definition RT_BGNLIB : N := 1.
Definition RT_UNITS : N := 3.
Definition RT_ENDLIB : N := 4.

(* read_gds, read_rawcells, gds_info: return at ENDLIB *)
Definition step_until (stop : N) (st : unit) (r : grecord) : unit + unit :=
  if rtype r =? stop then inr tt else inl tt.
Definition status_until (stop : N) (bs : list N) : outcome (unit * list N) :=
  reader unit unit (step_until stop) tt bs.

(* gds_units: returns the two 8-byte patterns of the first UNITS record *)
Definition be_value (l : list N) : N := fold_left (fun acc b => acc * 256 + b) l 0.
Definition step_units (st : unit) (r : grecord) : unit + (N * N) :=
  if rtype r =? RT_UNITS then
    inr (be_value (firstn 8 (payload r)), be_value (firstn 8 (skipn 8 (payload r))))
  else inl tt.
Definition gds_units_model (bs : list N) : outcome ((N * N) * list N) :=
  reader unit (N * N) step_units tt bs.

(* gds_timestamp (read-only mode): the six 16-bit words after the BGNLIB header, or InvalidFile when
   the record is not 28 bytes long *)
Fixpoint words16 (l : list N) : list N :=
  match l with
  | a :: b :: tl => (a * 256 + b) :: words16 tl
  | _ => []
  end.
Definition step_timestamp (st : unit) (r : grecord) : unit + option (list N) :=
  if rtype r =? RT_BGNLIB then
    if rec_len r =? 28 then inr (Some (firstn 6 (words16 (payload r)))) else inr None
  else if rtype r =? RT_ENDLIB then inr (Some [])   (* loop `break`: zeroed result, no error *)
  else inl tt.
Definition gds_timestamp_model (bs : list N) : outcome (option (list N) * list N) :=
  reader unit (option (list N)) step_timestamp tt bs.
