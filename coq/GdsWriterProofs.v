(* Proofs about the model of GdsWriter / RawCell::to_gds / the raw-cell part of Library::write_gds (GdsWriterModel.v). *)
Require Import Base GdsFrame GdsFrameProofs GdsModel GdsWrite GdsRoundtrip GdsSpec GdsSpecProofs GdsConform GdsRaw GdsTransplant
  GdsRawProofs GdsWriterModel.
From Coq Require Import ZArith Lia ZifyBool ZifyN ZifyNat.
Local Open Scope N_scope.

(* ================================================================== A. the header is four records *)
Definition name_fits (name : bytes) : Prop := N.of_nat (length name) <= 65000.

Lemma even_len_pad s : length (pad_even s) = even_len s.
Proof. unfold pad_even, even_len. destruct (Nat.even (length s)); [reflexivity|]. rewrite app_length. cbn [length]. lia. Qed.

Lemma enc16_small z : (0 <= z < 65536)%Z -> enc16 z = [Z.to_N z / 256; Z.to_N z mod 256].
Proof. intros H. unfold enc16. rewrite Z.mod_small by lia. reflexivity. Qed.

Lemma gdswriter_header_records_eq name u0 u1 mp ts :
  (length ts = 6)%nat -> name_fits name ->
  gdswriter_header name u0 u1 mp ts = flat_map rec_bytes (gdswriter_header_records name u0 u1 ts).
Proof.
  intros Hts Hn. unfold gdswriter_header, gdswriter_header_records.
  cbn [flat_map]. rewrite app_nil_r.
  unfold rec_bytes, rec_len. cbn [mkrec payload rtype dtype].
  rewrite (ts_bytes_length ts Hts), even_len_pad.
  rewrite !flat_map_app. fold (ts_bytes ts). unfold ts_bytes at 1.
  assert (Hl : (length (enc64 u0 ++ enc64 u1) = 16)%nat) by reflexivity. rewrite Hl.
  assert (He : (even_len name <= S (length name))%nat) by (unfold even_len; destruct (Nat.even (length name)); lia).
  unfold name_fits in Hn.
  cbn [flat_map app]. rewrite (enc16_small (4 + Z.of_nat (even_len name))) by lia.
  replace (Z.to_N (4 + Z.of_nat (even_len name))) with (4 + N.of_nat (even_len name)) by lia.
  change (enc16 6) with [0; 6]. change (enc16 2) with [0; 2]. change (enc16 600) with [2; 88]. change (enc16 28) with [0; 28].
  change (enc16 258) with [1; 2]. change (enc16 518) with [2; 6]. change (enc16 20) with [0; 20]. change (enc16 773) with [3; 5].
  change ((4 + N.of_nat 2) / 256) with 0. change ((4 + N.of_nat 2) mod 256) with 6.
  change ((4 + N.of_nat 24) / 256) with 0. change ((4 + N.of_nat 24) mod 256) with 28.
  change ((4 + N.of_nat 16) / 256) with 0. change ((4 + N.of_nat 16) mod 256) with 20.
  change ((4 + N.of_nat (length [2; 88])) / 256) with 0. change ((4 + N.of_nat (length [2; 88])) mod 256) with 6.
  unfold ts_bytes. rewrite ?flat_map_app. rewrite <- ?app_assoc. cbn [app]. rewrite <- ?app_assoc, ?app_nil_r. reflexivity.
Qed.

Lemma gdswriter_close_record : gdswriter_close = rec_bytes (mkrec 4 0 []).
Proof. reflexivity. Qed.

(* ================================================================== B. a session of cells is Library::write_gds *)
Definition no_fracture (mp : N) (cells : list gcell) : Prop := Forall (fun c => needs_fracture mp c = false) cells.

Lemma flat_map_flat_map {A B C} (f : B -> list C) (g : A -> list B) l :
  flat_map f (flat_map g l) = flat_map (fun x => flat_map f (g x)) l.
Proof. induction l as [|a l IH]; [reflexivity|]. cbn [flat_map]. rewrite flat_map_app, IH. reflexivity. Qed.

Lemma gdswriter_ops_cells w h : forall cells, no_fracture (gw_max_points w) cells ->
  gdswriter_ops w h (map WCell cells) =
  ROk (h, flat_map rec_bytes (flat_map (cell_records (gw_ts w)) cells), repeat false (length cells)).
Proof.
  induction cells as [|c cells IH]; intros Hf; [reflexivity|].
  inversion Hf as [|? ? Hc Hcs]; subst. cbn [map gdswriter_ops gdswriter_op]. unfold gdswriter_cell. rewrite Hc.
  cbn [gbind]. rewrite IH by assumption. cbn [gbind flat_map length repeat]. rewrite flat_map_app. reflexivity.
Qed.

(* (a) GdsWriter fed with cells only produces, byte for byte, what Library::write_gds produces for the library holding
   those cells in that order under the same name / units / timestamp - for EVERY list of cells (no well-formedness is
   needed for this equality), as long as no polygon goes through Polygon::fracture *)
Theorem gdswriter_is_library_lemma name u0 u1 mp ts h cells :
  (length ts = 6)%nat -> name_fits name -> no_fracture mp cells ->
  gdswriter_run name {| gw_units := (u0, u1); gw_max_points := mp; gw_ts := ts |} h (map WCell cells) =
  ROk (h, write_gds_model ts {| g_name := name; g_units := (u0, u1); g_cells := cells |}, repeat false (length cells)).
Proof.
  intros Hts Hn Hf. unfold gdswriter_run. rewrite gdswriter_ops_cells by exact Hf. cbn [gbind gw_units gw_max_points gw_ts fst snd].
  rewrite gdswriter_header_records_eq by assumption. rewrite gdswriter_close_record.
  unfold write_gds_model, lib_records, gdswriter_header_records. cbn [g_name g_units g_cells fst snd].
  rewrite !flat_map_app. cbn [flat_map]. rewrite !app_nil_r. reflexivity.
Qed.

(* hence the theorems about Library::write_gds apply to GdsWriter output *)
Corollary gdswriter_conforms_lemma name u0 u1 mp ts h cells :
  let l := {| g_name := name; g_units := (u0, u1); g_cells := cells |} in
  (length ts = 6)%nat -> lib_ok l -> lib_fits l -> no_fracture mp cells ->
  exists out, gdswriter_run name {| gw_units := (u0, u1); gw_max_points := mp; gw_ts := ts |} h (map WCell cells) =
                ROk (h, out, repeat false (length cells)) /\
              spec_decode out = Some (canon_lib l) /\ read_gds_model None out = Ok (canon_lib l).
Proof.
  intros l Hts Hok Hfit Hf. exists (write_gds_model ts l). split; [|split].
  - apply gdswriter_is_library_lemma; try assumption. destruct Hfit as [Hn _]. exact Hn.
  - apply writer_conforms_lemma; assumption.
  - apply gds_roundtrip_lemma; assumption.
Qed.

(* ================================================================== C. the heap of raw cells *)
Lemma upd_length {A} (l : list A) : forall i x, length (upd l i x) = length l.
Proof. induction l as [|y l IH]; intros [|i] x; cbn [upd length]; try reflexivity. rewrite IH. reflexivity. Qed.

Lemma nth_error_upd_same {A} (l : list A) : forall i x, (i < length l)%nat -> nth_error (upd l i x) i = Some x.
Proof.
  induction l as [|y l IH]; intros [|i] x H; cbn [length] in H; try lia; cbn [upd nth_error]; [reflexivity|].
  apply IH. lia.
Qed.

Lemma nth_error_upd_other {A} (l : list A) : forall i j x, i <> j -> nth_error (upd l i x) j = nth_error l j.
Proof.
  induction l as [|y l IH]; intros [|i] [|j] x H; cbn [upd nth_error]; try reflexivity; try congruence.
  apply IH. congruence.
Qed.

Lemma map_upd {A B} (f : A -> B) (l : list A) : forall i x y, nth_error l i = Some y -> f x = f y -> map f (upd l i x) = map f l.
Proof.
  induction l as [|z l IH]; intros [|i] x y H E; cbn [nth_error] in H; try discriminate; cbn [upd map].
  - injection H as ->. rewrite E. reflexivity.
  - rewrite (IH i x y H E). reflexivity.
Qed.

Definition b2n (b : bool) : nat := if b then 1%nat else 0%nat.

Lemma filter_upd_count {A} (p : A -> bool) (l : list A) : forall i x y, nth_error l i = Some y ->
  (length (filter p (upd l i x)) + b2n (p y) = length (filter p l) + b2n (p x))%nat.
Proof.
  induction l as [|z l IH]; intros [|i] x y H; cbn [nth_error] in H; try discriminate; cbn [upd filter].
  - injection H as ->. destruct (p x), (p y); cbn [length b2n]; lia.
  - specialize (IH i x y H). destruct (p z); cbn [length]; lia.
Qed.

Definition is_lazy_on (s : nat) (c : rawcell) : bool :=
  match rw_src c with Lazy s' _ => Nat.eqb s' s | Loaded _ => false end.
Definition lazy_count (s : nat) (cells : list rawcell) : nat := length (filter (is_lazy_on s) cells).

(* every raw cell can be read in full (the file still holds its byte range), or sits in memory with a buffer of at
   least `size` bytes *)
Definition cell_sound (h : rheap) (c : rawcell) : Prop :=
  match rw_src c with
  | Loaded d => rw_size c <= N.of_nat (length d)
  | Lazy s off => exists src, nth_error (rh_srcs h) s = Some src /\
                              N.of_nat (length (pread (rs_file src) (rw_size c) off)) = rw_size c
  end.
(* the reference count of a source is the number of raw cells still pointing at it; it is open while that is > 0 *)
Definition src_sound (cells : list rawcell) (s : nat) (src : rawsource) : Prop :=
  rs_uses src = N.of_nat (lazy_count s cells) /\ rs_uses src < 4294967296 /\ rs_open src = negb (rs_uses src =? 0).
Definition heap_wf (h : rheap) : Prop :=
  Forall (cell_sound h) (rh_cells h) /\
  forall s src, nth_error (rh_srcs h) s = Some src -> src_sound (rh_cells h) s src.

(* the bytes a raw cell stands for *)
Definition raw_bytes (h : rheap) (r : nat) : option bytes :=
  match nth_error (rh_cells h) r with
  | None => None
  | Some c =>
      match rw_src c with
      | Loaded d => Some (firstn (N.to_nat (rw_size c)) d)
      | Lazy s off => match nth_error (rh_srcs h) s with
                      | Some src => Some (pread (rs_file src) (rw_size c) off)
                      | None => None
                      end
      end
  end.

Lemma pread_firstn file n off : firstn (N.to_nat n) (pread file n off) = pread file n off.
Proof. unfold pread. rewrite firstn_firstn, Nat.min_id. reflexivity. Qed.

(* RawCell::to_gds on a well-formed heap: no error, exactly the bytes of THAT raw cell (nothing of its dependencies),
   the heap stays well formed and every raw cell keeps standing for the same bytes, names and dependencies *)
Lemma to_gds_wf h r c : heap_wf h -> nth_error (rh_cells h) r = Some c ->
  exists h' b, rawcell_to_gds h r = ROk (h', b, false) /\ raw_bytes h r = Some b /\ heap_wf h' /\
    (forall r', raw_bytes h' r' = raw_bytes h r') /\
    length (rh_cells h') = length (rh_cells h) /\
    map rw_name (rh_cells h') = map rw_name (rh_cells h) /\ map rw_deps (rh_cells h') = map rw_deps (rh_cells h) /\
    length (rh_srcs h') = length (rh_srcs h).
Proof.
  intros [Hc Hs] Hr. unfold rawcell_to_gds, raw_bytes. rewrite Hr.
  pose proof (proj1 (Forall_forall _ _) Hc c (nth_error_In _ _ Hr)) as Hcs. unfold cell_sound in Hcs.
  destruct (rw_src c) as [s off|d] eqn:Esrc.
  - destruct Hcs as (src & Hsrc & Hlen). rewrite Hsrc.
    destruct (Hs s src Hsrc) as (Hu & Hlt & Hop).
    assert (Hrl : (r < length (rh_cells h))%nat) by (apply nth_error_Some; congruence).
    assert (Hsl : (s < length (rh_srcs h))%nat) by (apply nth_error_Some; congruence).
    assert (Hpos : (1 <= lazy_count s (rh_cells h))%nat).
    { unfold lazy_count. destruct (in_split _ _ (nth_error_In _ _ Hr)) as (l1 & l2 & El). rewrite El, filter_app. cbn [filter].
      unfold is_lazy_on at 2. rewrite Esrc, Nat.eqb_refl. rewrite app_length. cbn [length]. lia. }
    assert (Hopen : rs_open src = true) by (rewrite Hop; apply negb_true_iff; apply N.eqb_neq; lia).
    rewrite Hopen. rewrite Hlen, N.eqb_refl. cbn [negb].
    set (c' := {| rw_name := rw_name c; rw_src := Loaded (pread (rs_file src) (rw_size c) off); rw_size := rw_size c; rw_deps := rw_deps c |}).
    do 2 eexists. split; [reflexivity|]. split; [rewrite pread_firstn; reflexivity|].
    assert (Hcount : forall s', lazy_count s' (upd (rh_cells h) r c') = (lazy_count s' (rh_cells h) - b2n (Nat.eqb s s'))%nat).
    { intros s'. unfold lazy_count. pose proof (filter_upd_count (is_lazy_on s') (rh_cells h) r c' c Hr) as Hf.
      replace (is_lazy_on s' c') with false in Hf by reflexivity. unfold is_lazy_on at 2 in Hf. rewrite Esrc in Hf.
      cbn [b2n] in Hf. lia. }
    split; [|split; [|split; [|split; [|split]]]].
    + split; cbn [rh_cells rh_srcs].
      * apply Forall_forall. intros x Hx. apply In_nth_error in Hx. destruct Hx as [j Hj].
        destruct (Nat.eq_dec r j) as [->|Hne].
        -- rewrite nth_error_upd_same in Hj by exact Hrl. injection Hj as <-. unfold cell_sound. cbn [c' rw_src rw_size]. lia.
        -- rewrite nth_error_upd_other in Hj by exact Hne.
           pose proof (proj1 (Forall_forall _ _) Hc x (nth_error_In _ _ Hj)) as Hx. unfold cell_sound in *.
           destruct (rw_src x) as [sx ox|dx]; [|exact Hx]. destruct Hx as (srcx & Hsx & Hlx).
           destruct (Nat.eq_dec s sx) as [<-|Hns].
           ++ exists (release src). split; [apply nth_error_upd_same; exact Hsl|]. cbn [release rs_file].
              rewrite Hsx in Hsrc. injection Hsrc as ->. exact Hlx.
           ++ exists srcx. split; [cbn [rh_srcs]; rewrite nth_error_upd_other by exact Hns; exact Hsx|exact Hlx].
      * intros s' src' Hs'. destruct (Nat.eq_dec s s') as [<-|Hns].
        -- rewrite nth_error_upd_same in Hs' by exact Hsl. injection Hs' as <-. unfold src_sound. cbn [release rs_uses rs_open].
           rewrite Hcount, Nat.eqb_refl. cbn [b2n]. rewrite Hu.
           replace ((N.of_nat (lazy_count s (rh_cells h)) + 4294967295) mod 4294967296) with (N.of_nat (lazy_count s (rh_cells h) - 1)).
           { split; [reflexivity|]. split; [lia|reflexivity]. }
           apply N.mod_unique with 1; lia.
        -- rewrite nth_error_upd_other in Hs' by exact Hns. destruct (Hs s' src' Hs') as (Hu' & Hlt' & Hop').
           unfold src_sound. rewrite Hcount. replace (Nat.eqb s s') with false by (symmetry; apply Nat.eqb_neq; exact Hns).
           cbn [b2n]. rewrite Nat.sub_0_r. repeat split; assumption.
    + intros r'. cbn [rh_cells rh_srcs]. destruct (Nat.eq_dec r r') as [<-|Hne].
      * rewrite nth_error_upd_same by exact Hrl. cbn [c' rw_src rw_size]. rewrite Hr, Esrc, Hsrc, pread_firstn. reflexivity.
      * rewrite nth_error_upd_other by exact Hne. destruct (nth_error (rh_cells h) r') as [x|]; [|reflexivity].
        destruct (rw_src x) as [sx ox|dx]; [|reflexivity].
        destruct (Nat.eq_dec s sx) as [<-|Hns].
        -- rewrite nth_error_upd_same by exact Hsl. rewrite Hsrc. reflexivity.
        -- rewrite nth_error_upd_other by exact Hns. reflexivity.
    + cbn [rh_cells]. apply upd_length.
    + cbn [rh_cells]. apply map_upd with (y := c); [exact Hr|reflexivity].
    + cbn [rh_cells]. apply map_upd with (y := c); [exact Hr|reflexivity].
    + cbn [rh_srcs]. apply upd_length.
  - replace (N.of_nat (length d) <? rw_size c) with false by (symmetry; apply N.ltb_ge; exact Hcs).
    exists h. eexists. split; [reflexivity|]. split; [reflexivity|]. split; [split; assumption|].
    repeat split; reflexivity.
Qed.

(* what a session can observe of the raw cells does not change: bytes, names, dependencies *)
Definition heap_same (h h' : rheap) : Prop :=
  (forall r, raw_bytes h' r = raw_bytes h r) /\ length (rh_cells h') = length (rh_cells h) /\
  map rw_name (rh_cells h') = map rw_name (rh_cells h) /\ map rw_deps (rh_cells h') = map rw_deps (rh_cells h) /\
  length (rh_srcs h') = length (rh_srcs h).
Lemma heap_same_refl h : heap_same h h.
Proof. repeat split; reflexivity. Qed.
Lemma heap_same_trans a b c : heap_same a b -> heap_same b c -> heap_same a c.
Proof.
  intros (A1 & A2 & A3 & A4 & A5) (B1 & B2 & B3 & B4 & B5). split; [|repeat split; congruence].
  intros r. rewrite B1. apply A1.
Qed.

Definition op_valid (mp : N) (h : rheap) (op : gwop) : Prop :=
  match op with WCell c => needs_fracture mp c = false | WRaw r => (r < length (rh_cells h))%nat end.
(* the bytes one call appends, from the heap as it was when the session began *)
Definition op_chunk (ts : list Z) (h : rheap) (op : gwop) : bytes :=
  match op with
  | WCell c => flat_map rec_bytes (cell_records ts c)
  | WRaw r => match raw_bytes h r with Some b => b | None => [] end
  end.

Lemma gdswriter_op_wf w h op : heap_wf h -> op_valid (gw_max_points w) h op ->
  exists h', gdswriter_op w h op = ROk (h', op_chunk (gw_ts w) h op, false) /\ heap_wf h' /\ heap_same h h'.
Proof.
  intros Hwf Hv. destruct op as [c|r]; cbn [gdswriter_op op_valid op_chunk] in *.
  - exists h. unfold gdswriter_cell. rewrite Hv. cbn [gbind]. split; [reflexivity|]. split; [exact Hwf|apply heap_same_refl].
  - destruct (nth_error (rh_cells h) r) as [c|] eqn:Hr; [|apply nth_error_None in Hr; lia].
    destruct (to_gds_wf h r c Hwf Hr) as (h' & b & H1 & H2 & H3 & H4 & H5 & H6 & H7 & H8).
    exists h'. rewrite H1, H2. split; [reflexivity|]. split; [exact H3|]. repeat split; assumption.
Qed.

Lemma op_valid_same mp h h' op : heap_same h h' -> op_valid mp h op -> op_valid mp h' op.
Proof. intros (_ & Hl & _) H. destruct op; cbn [op_valid] in *; [exact H|lia]. Qed.
Lemma op_chunk_same ts h h' op : heap_same h h' -> op_chunk ts h' op = op_chunk ts h op.
Proof. intros (Hb & _). destruct op; cbn [op_chunk]; [reflexivity|]. rewrite Hb. reflexivity. Qed.

(* a whole session on a well-formed heap: no crash, no error, each call appends the bytes of its own argument *)
Lemma gdswriter_ops_wf w : forall ops h, heap_wf h -> Forall (op_valid (gw_max_points w) h) ops ->
  exists h', gdswriter_ops w h ops = ROk (h', flat_map (op_chunk (gw_ts w) h) ops, repeat false (length ops)) /\
             heap_wf h' /\ heap_same h h'.
Proof.
  induction ops as [|op ops IH]; intros h Hwf Hv.
  - exists h. split; [reflexivity|]. split; [exact Hwf|apply heap_same_refl].
  - inversion Hv as [|? ? Hv1 Hv2]; subst.
    destruct (gdswriter_op_wf w h op Hwf Hv1) as (h1 & E1 & Hwf1 & Hs1).
    assert (Hv2' : Forall (op_valid (gw_max_points w) h1) ops).
    { eapply Forall_impl; [|exact Hv2]. intros o. apply op_valid_same. exact Hs1. }
    destruct (IH h1 Hwf1 Hv2') as (h2 & E2 & Hwf2 & Hs2).
    exists h2. cbn [gdswriter_ops]. rewrite E1. cbn [gbind]. rewrite E2. cbn [gbind flat_map length repeat].
    split; [|split; [exact Hwf2|exact (heap_same_trans _ _ _ Hs1 Hs2)]].
    do 4 f_equal. apply flat_map_ext. intros o. apply op_chunk_same. exact Hs1.
Qed.

Lemma gdswriter_run_wf name w ops h : heap_wf h -> Forall (op_valid (gw_max_points w) h) ops ->
  exists h', gdswriter_run name w h ops =
             ROk (h', gdswriter_header name (fst (gw_units w)) (snd (gw_units w)) (gw_max_points w) (gw_ts w) ++
                      flat_map (op_chunk (gw_ts w) h) ops ++ gdswriter_close, repeat false (length ops)) /\
             heap_wf h' /\ heap_same h h'.
Proof.
  intros Hwf Hv. destruct (gdswriter_ops_wf w ops h Hwf Hv) as (h' & E & Hwf' & Hs). exists h'.
  unfold gdswriter_run. rewrite E. cbn [gbind]. split; [reflexivity|split; assumption].
Qed.

(* ================================================================== D. the produced stream is accepted and decodes *)
(* records of one written cell: sizes, strict framing, and the structure they form for the grammar *)
Lemma cell_rec_ok ts c : (length ts = 6)%nat -> cell_fits c -> Forall rec_ok (cell_records ts c).
Proof.
  intros Hts [Hcn Hce]. rewrite cell_records_elems. repeat (apply Forall_app; split).
  - apply Forall_cons; [apply rec_ok_mk; [lia|lia|rewrite (ts_bytes_length ts Hts); lia]|].
    apply Forall_cons; [apply rec_ok_str; [lia|assumption]|apply Forall_nil].
  - apply Forall_flat_map_. eapply Forall_impl; [|exact Hce]. apply elem_rec_ok.
  - apply Forall_cons; [apply rec_ok_mk; [lia|lia|cbn; lia]|apply Forall_nil].
Qed.

Lemma cell_rec_strict ts c : (length ts = 6)%nat -> Forall rec_strict (cell_records ts c).
Proof.
  intros Hts. rewrite cell_records_elems. repeat (apply Forall_app; split).
  - apply Forall_cons; [split; [cbn [mkrec payload]; rewrite (ts_bytes_length ts Hts); reflexivity|discriminate]|].
    apply Forall_cons; [split; [cbn [mkrec payload]; apply pad_even_even|discriminate]|apply Forall_nil].
  - apply Forall_flat_map_. apply Forall_forall. intros e _. apply elem_strict.
  - apply Forall_cons; [split; [reflexivity|discriminate]|apply Forall_nil].
Qed.

Lemma cell_block_of ts c : (length ts = 6)%nat -> cell_ok c -> block_of (cell_records ts c) (canon_cell c).
Proof.
  intros Hts [Hn He]. split; [rewrite cell_records_elems; discriminate|].
  intros f b. rewrite cell_records_elems. rewrite <- !app_assoc. cbn [app spec_structures mkrec rtype N.eqb Pos.eqb].
  rewrite is_rec_mk, plen_mk, (ts_bytes_length ts Hts). cbn [N.of_nat Pos.of_succ_nat Pos.succ N.eqb Pos.eqb andb].
  rewrite take_str_mk by assumption.
  assert (Hsk : forall tl, skip_strclass (flat_map elem_records (cell_elems c) ++ mkrec 7 0 [] :: tl) =
                           flat_map elem_records (cell_elems c) ++ mkrec 7 0 [] :: tl).
  { intros tl. destruct (cell_elems c) as [|e es] eqn:Ee; [reflexivity|]. cbn [flat_map].
    inversion He as [|? ? He1 _]; subst. destruct (elem_records_head e He1) as (r & tl' & Hr & _ & H52 & _).
    rewrite Hr. cbn [app skip_strclass]. replace (rtype r =? 52) with false by (symmetry; apply N.eqb_neq; exact H52). reflexivity. }
  rewrite Hsk. rewrite spec_elements_written.
  - rewrite cell_of_canon. reflexivity.
  - exact He.
  - rewrite app_length. cbn [length]. pose proof (elems_records_length _ He). lia.
Qed.

(* the four header records of gdswriter_init followed by ANY structures and ENDLIB *)
Lemma spec_records_gdswriter name u0 u1 ts blks cs :
  (length ts = 6)%nat -> no_nul name -> unit_ok u0 -> unit_ok u1 -> Forall2 block_of blks cs ->
  spec_records (gdswriter_header_records name u0 u1 ts ++ concat blks ++ [mkrec 4 0 []]) =
  Some {| g_name := name; g_units := (u0, u1); g_cells := cs |}.
Proof.
  intros Hts Hn Hu0 Hu1 HF. unfold gdswriter_header_records, spec_records. cbn [app].
  rewrite take1_mk by reflexivity. rewrite take1_mk by (rewrite (ts_bytes_length ts Hts); reflexivity).
  rewrite take_str_mk by assumption.
  cbn [skip_libopt libopt mkrec rtype].
  rewrite take1_mk by reflexivity.
  destruct (units_written u0 u1 Hu0 Hu1) as (Hd0 & Hd1 & Huok). rewrite Huok.
  rewrite (transplant_structures_lemma blks cs (mkrec 4 0 []) [] HF eq_refl).
  - cbn [mkrec payload]. rewrite Hd0, Hd1. reflexivity.
  - rewrite app_length. cbn [length]. pose proof (block_length_pos _ _ HF). lia.
Qed.

Lemma header_rec_ok name u0 u1 ts : (length ts = 6)%nat -> name_fits name ->
  Forall rec_ok (gdswriter_header_records name u0 u1 ts) /\ Forall rec_strict (gdswriter_header_records name u0 u1 ts).
Proof.
  intros Hts Hn. unfold gdswriter_header_records. split.
  - apply Forall_cons; [apply rec_ok_mk; [lia|lia|cbn; lia]|].
    apply Forall_cons; [apply rec_ok_mk; [lia|lia|rewrite (ts_bytes_length ts Hts); lia]|].
    apply Forall_cons; [apply rec_ok_str; [lia|exact Hn]|].
    apply Forall_cons; [apply rec_ok_mk; [lia|lia|cbn; lia]|apply Forall_nil].
  - apply Forall_cons; [split; [reflexivity|discriminate]|].
    apply Forall_cons; [split; [cbn [mkrec payload]; rewrite (ts_bytes_length ts Hts); reflexivity|discriminate]|].
    apply Forall_cons; [split; [cbn [mkrec payload]; apply pad_even_even|discriminate]|].
    apply Forall_cons; [split; [reflexivity|discriminate]|apply Forall_nil].
Qed.

(* what each call of a session contributes: the records it writes and the cell they encode *)
Inductive op_denotes (mp : N) (ts : list Z) (h : rheap) : gwop -> recs -> gcell -> Prop :=
| den_cell c : cell_ok c -> cell_fits c -> needs_fracture mp c = false ->
    op_denotes mp ts h (WCell c) (cell_records ts c) (canon_cell c)
| den_raw r blk c : raw_bytes h r = Some (flat_map rec_bytes blk) -> block_of blk c ->
    Forall rec_ok blk -> Forall rec_strict blk ->
    op_denotes mp ts h (WRaw r) blk c.

Inductive ops_denote (mp : N) (ts : list Z) (h : rheap) : list gwop -> list recs -> list gcell -> Prop :=
| dens_nil : ops_denote mp ts h [] [] []
| dens_cons op blk c ops blks cs : op_denotes mp ts h op blk c -> ops_denote mp ts h ops blks cs ->
    ops_denote mp ts h (op :: ops) (blk :: blks) (c :: cs).

Lemma raw_bytes_valid h r b : raw_bytes h r = Some b -> (r < length (rh_cells h))%nat.
Proof. unfold raw_bytes. destruct (nth_error (rh_cells h) r) eqn:E; [|discriminate]. intros _. apply nth_error_Some. congruence. Qed.

Lemma ops_denote_facts mp ts h ops blks cs : (length ts = 6)%nat -> ops_denote mp ts h ops blks cs ->
  Forall (op_valid mp h) ops /\ flat_map (op_chunk ts h) ops = flat_map rec_bytes (concat blks) /\
  Forall rec_ok (concat blks) /\ Forall rec_strict (concat blks) /\ Forall2 block_of blks cs /\ length cs = length ops.
Proof.
  intros Hts. induction 1 as [|op blk c ops blks cs Hop Hops IH].
  - repeat split; constructor.
  - destruct IH as (I1 & I2 & I3 & I4 & I5 & I6). cbn [flat_map concat length]. rewrite flat_map_app, I2, I6.
    destruct Hop as [c0 Hok Hfit Hfr|r blk c0 Hb Hblk Hrok Hst].
    + repeat split; try reflexivity.
      * constructor; [exact Hfr|exact I1].
      * apply Forall_app. split; [apply cell_rec_ok; assumption|exact I3].
      * apply Forall_app. split; [apply cell_rec_strict; assumption|exact I4].
      * constructor; [apply cell_block_of; assumption|exact I5].
    + repeat split; try reflexivity.
      * constructor; [exact (raw_bytes_valid _ _ _ Hb)|exact I1].
      * cbn [op_chunk]. rewrite Hb. reflexivity.
      * apply Forall_app. split; assumption.
      * apply Forall_app. split; assumption.
      * constructor; assumption.
Qed.

Definition writer_ok (name : bytes) (w : gwriter) : Prop :=
  no_nul name /\ name_fits name /\ unit_ok (fst (gw_units w)) /\ unit_ok (snd (gw_units w)) /\ (length (gw_ts w) = 6)%nat.

(* (b) a session mixing cells and raw cells whose bytes are grammar-valid structures: the file is accepted by the strict
   decoder and decodes (hence loads, by reader_accepts_spec) to the cells written and the structures the raw cells stand
   for, one per call, in call order *)
Theorem gdswriter_transplant_lemma name w h ops blks cs :
  writer_ok name w -> heap_wf h -> ops_denote (gw_max_points w) (gw_ts w) h ops blks cs ->
  exists h' out, gdswriter_run name w h ops = ROk (h', out, repeat false (length ops)) /\
    heap_wf h' /\ heap_same h h' /\
    out = flat_map rec_bytes (gdswriter_header_records name (fst (gw_units w)) (snd (gw_units w)) (gw_ts w) ++ concat blks ++ [mkrec 4 0 []]) /\
    spec_decode out = Some {| g_name := name; g_units := gw_units w; g_cells := cs |} /\
    read_gds_model None out = Ok {| g_name := name; g_units := gw_units w; g_cells := cs |}.
Proof.
  intros (Hnn & Hnf & Hu0 & Hu1 & Hts) Hwf Hden.
  destruct (ops_denote_facts _ _ _ _ _ _ Hts Hden) as (Hv & Hch & Hrok & Hst & HF2 & Hlen).
  destruct (gdswriter_run_wf name w ops h Hwf Hv) as (h' & E & Hwf' & Hs).
  exists h'. eexists. split; [exact E|]. split; [exact Hwf'|]. split; [exact Hs|].
  set (hdr := gdswriter_header_records name (fst (gw_units w)) (snd (gw_units w)) (gw_ts w)).
  assert (Hout : gdswriter_header name (fst (gw_units w)) (snd (gw_units w)) (gw_max_points w) (gw_ts w) ++
                 flat_map (op_chunk (gw_ts w) h) ops ++ gdswriter_close =
                 flat_map rec_bytes ((hdr ++ concat blks) ++ [mkrec 4 0 []])).
  { rewrite gdswriter_header_records_eq by assumption. rewrite Hch, gdswriter_close_record.
    rewrite !flat_map_app. cbn [flat_map]. rewrite app_nil_r, <- app_assoc. reflexivity. }
  rewrite Hout. destruct (header_rec_ok name (fst (gw_units w)) (snd (gw_units w)) (gw_ts w) Hts Hnf) as [Hhok Hhst].
  assert (Hdec : spec_decode (flat_map rec_bytes ((hdr ++ concat blks) ++ [mkrec 4 0 []])) =
                 Some {| g_name := name; g_units := gw_units w; g_cells := cs |}).
  { unfold spec_decode. rewrite frame_all_written.
    - rewrite <- app_assoc. subst hdr. rewrite (spec_records_gdswriter name (fst (gw_units w)) (snd (gw_units w)) (gw_ts w) blks cs) by assumption. destruct (gw_units w); reflexivity.
    - apply Forall_app. split; assumption.
    - apply Forall_app. split; assumption.
    - assert (Hl : forall pre, (length pre <= length (flat_map rec_bytes (pre ++ [mkrec 4 0 []])))%nat).
      { clear. induction pre as [|r pre IH]; cbn [app flat_map length]; [lia|]. rewrite app_length. unfold rec_bytes at 1. cbn [length]. lia. }
      specialize (Hl (hdr ++ concat blks)). lia. }
  split; [rewrite <- app_assoc; reflexivity|]. split; [exact Hdec|].
  apply reader_accepts_spec_lemma. exact Hdec.
Qed.

(* ================================================================== E. raw cells taken from a conforming file (C17) *)
Lemma next_record_ok bs r rest : Forall byte_ok bs -> next_record bs = Ok (r, rest) -> rec_ok r.
Proof.
  intros Hb. destruct bs as [|b0 [|b1 [|b2 [|b3 tl]]]]; cbn [next_record]; try discriminate.
  destruct (b0 * 256 + b1 <? 4) eqn:El; [discriminate|].
  destruct (length tl <? N.to_nat (b0 * 256 + b1 - 4))%nat eqn:E; [discriminate|].
  intros [= <- <-]. apply Nat.ltb_ge in E. apply N.ltb_ge in El.
  inversion Hb as [|? ? H0 Hb1]; subst. inversion Hb1 as [|? ? H1 Hb2]; subst.
  inversion Hb2 as [|? ? H2 Hb3]; subst. inversion Hb3 as [|? ? H3 _]; subst. unfold byte_ok in *.
  unfold rec_ok. cbn [payload rtype dtype]. rewrite firstn_length_le by exact E. lia.
Qed.

Lemma frame_all_recs : forall fuel bs l, Forall byte_ok bs -> frame_all fuel bs = Some l ->
  Forall rec_ok l /\ Forall (fun r => Nat.even (length (payload r)) = true) l /\
  (forall pre r post, l = pre ++ r :: post -> post <> [] -> rtype r <> 4).
Proof.
  induction fuel as [|f IH]; intros bs l Hb; cbn [frame_all]; [discriminate|].
  destruct bs as [|b0 bs0].
  { intros [= <-]. split; [constructor|]. split; [constructor|]. intros pre r post H. destruct pre; discriminate. }
  set (bs := b0 :: bs0) in *.
  destruct (next_record bs) as [[r rest]| | | | |] eqn:En; try discriminate.
  destruct (Nat.even (length (payload r))) eqn:Ev; [|discriminate].
  pose proof (next_record_ok _ _ _ Hb En) as Hr.
  destruct (rtype r =? 4) eqn:E4.
  - intros [= <-]. split; [constructor; [exact Hr|constructor]|]. split; [constructor; [exact Ev|constructor]|].
    intros pre r' post H Hp. destruct pre as [|x pre]; [injection H as _ <-; congruence|].
    injection H as _ H. destruct pre; discriminate.
  - destruct (frame_all f rest) as [l'|] eqn:Hf; [|discriminate]. intros [= <-].
    destruct (IH rest l' (next_record_rest_ok _ _ _ Hb En) Hf) as (I1 & I2 & I3).
    split; [constructor; assumption|]. split; [constructor; assumption|].
    intros pre r' post H Hp. destruct pre as [|x pre].
    + injection H as <- _. apply N.eqb_neq. exact E4.
    + injection H as _ H. exact (I3 pre r' post H Hp).
Qed.

Lemma raw_finish_cells st : exists es miss, raw_finish st = (es, rev (w_cells st), miss).
Proof.
  unfold raw_finish.
  match goal with |- context [let '(es, miss) := ?G in _] => destruct G as [es miss] end.
  exists es, miss. reflexivity.
Qed.

(* the i-th raw cell recorded for consecutive blocks *)
Lemma raw_of_nth : forall blocks cs p i b, length blocks = length cs -> nth_error blocks i = Some b ->
  exists c, nth_error (raw_of p blocks cs) i = Some c /\ rc_size c = total b.
Proof.
  induction blocks as [|b0 blocks IH]; intros cs p i b Hlen Hi; [destruct i; discriminate|].
  destruct cs as [|c0 cs]; [discriminate|]. destruct i as [|i]; cbn [nth_error raw_of] in *.
  - injection Hi as <-. eexists. split; reflexivity.
  - apply IH; [cbn [length] in Hlen; lia|exact Hi].
Qed.

Lemma raw_of_length : forall blocks cs p, length blocks = length cs -> length (raw_of p blocks cs) = length cs.
Proof.
  induction blocks as [|b blocks IH]; intros cs p Hlen; destruct cs as [|c cs]; try discriminate; [reflexivity|].
  cbn [raw_of length]. rewrite IH by (cbn [length] in Hlen; lia). reflexivity.
Qed.

Definition mk_raw (base s : nat) (es : list rawentry) (c : rawc) : rawcell :=
  {| rw_name := rc_name c; rw_src := Lazy s (rc_off c); rw_size := rc_size c;
     rw_deps := map (fun d => (base + d)%nat) (deps_of es c) |}.

Lemma heap_add_file_empty F es cells miss :
  heap_add_file empty_heap F (es, cells, miss) =
  {| rh_cells := map (mk_raw 0 0 es) cells;
     rh_srcs := [ {| rs_file := F; rs_uses := N.of_nat (length cells) mod 4294967296;
                     rs_open := negb (N.of_nat (length cells) mod 4294967296 =? 0) |} ] |}.
Proof. reflexivity. Qed.

Lemma lazy_count_mk es cells : lazy_count 0 (map (mk_raw 0 0 es) cells) = length cells.
Proof. unfold lazy_count. induction cells as [|c cells IH]; [reflexivity|]. cbn [map filter is_lazy_on mk_raw rw_src Nat.eqb length]. rewrite IH. reflexivity. Qed.

(* the denotation of a call when the raw cells come from the file whose full load is L *)
Definition denote_in (L : glib) (op : gwop) : gcell :=
  match op with WCell c => canon_cell c | WRaw i => nth i (g_cells L) empty_cell end.
Definition op_ok_in (mp : N) (L : glib) (op : gwop) : Prop :=
  match op with
  | WCell c => cell_ok c /\ cell_fits c /\ needs_fracture mp c = false
  | WRaw i => (i < length (g_cells L))%nat
  end.

(* C17, raw cells: take the raw cells of a file F the strict grammar accepts (read_rawcells), write any selection of
   them - any order, repeats allowed, mixed with ordinary cells - through a GdsWriter: the new file is accepted by the
   strict decoder and LOADS (read_gds model) to exactly the cells those raw cells are in the full load of F *)
Theorem gdswriter_c17_lemma F L : spec_decode F = Some L -> Forall byte_ok F -> N.of_nat (length (g_cells L)) < 4294967296 ->
  exists res, read_rawcells_model F = Ok res /\
    let h := heap_add_file empty_heap F res in
    heap_wf h /\ length (rh_cells h) = length (g_cells L) /\
    forall name w ops, writer_ok name w -> Forall (op_ok_in (gw_max_points w) L) ops ->
      exists h' out, gdswriter_run name w h ops = ROk (h', out, repeat false (length ops)) /\ heap_wf h' /\
        spec_decode out = Some {| g_name := name; g_units := gw_units w; g_cells := map (denote_in L) ops |} /\
        read_gds_model None out = Ok {| g_name := name; g_units := gw_units w; g_cells := map (denote_in L) ops |}.
Proof.
  unfold spec_decode. destruct (frame_all (S (length F)) F) as [l|] eqn:Hf; [|discriminate].
  intros Hs Hb Hn.
  destruct (raw_spec_records_lemma _ _ Hs) as (hdr & blocks & r4 & rest & Hl & Ht4 & Hblk & Hlen & HF2 & Htr & Hrun).
  destruct (frame_all_bytes _ _ _ Hb Hf) as (tail0 & Hbs).
  destruct (frame_all_recs _ _ _ Hb Hf) as (Hrok & Hev & Hno4).
  destruct (loop_frame_raw _ _ _ Hf raw_init (S (length F)) (le_n _) _ Hrun) as [r' Hr].
  set (cells := raw_of (total hdr) blocks (g_cells L)) in *.
  destruct (raw_finish_cells (closed (rev cells) (names_set [] 0 (g_cells L)) (total hdr + total (concat blocks)))) as (es & miss & Hfin).
  cbn [closed w_cells] in Hfin. rewrite rev_involutive in Hfin.
  exists (es, cells, miss). split.
  { unfold read_rawcells_model, reader. rewrite Hr, Hfin. reflexivity. }
  cbn zeta. rewrite heap_add_file_empty.
  assert (Hcl : length cells = length (g_cells L)) by (apply raw_of_length; exact Hlen).
  (* the byte range of every raw cell is its block *)
  assert (Hsl : map (raw_slice F) cells = map (flat_map rec_bytes) blocks).
  { rewrite Hbs, Hl. rewrite !flat_map_app. cbn [flat_map]. rewrite <- !app_assoc. unfold cells.
    replace (total hdr) with (N.of_nat (length (flat_map rec_bytes hdr))) by (rewrite length_flat_bytes; lia).
    apply raw_slices. exact Hlen. }
  assert (Hcell : forall i b, nth_error blocks i = Some b ->
            exists c, nth_error cells i = Some c /\ rc_size c = total b /\ pread F (rc_size c) (rc_off c) = flat_map rec_bytes b).
  { intros i b Hi. destruct (raw_of_nth blocks (g_cells L) (total hdr) i b Hlen Hi) as (c & Hc & Hsz). fold cells in Hc.
    exists c. split; [exact Hc|]. split; [exact Hsz|].
    pose proof (f_equal (fun x => nth_error x i) Hsl) as Hm. cbn beta in Hm. rewrite !nth_error_map, Hc, Hi in Hm.
    cbn [option_map] in Hm. injection Hm as Hm. exact Hm. }
  set (h := {| rh_cells := map (mk_raw 0 0 es) cells; rh_srcs := _ |}).
  assert (Hwf : heap_wf h).
  { split; cbn [h rh_cells rh_srcs].
    - apply Forall_forall. intros x Hx. apply in_map_iff in Hx. destruct Hx as (c & <- & Hc).
      apply In_nth_error in Hc. destruct Hc as [i Hi].
      assert (Hib : (i < length blocks)%nat) by (rewrite Hlen, <- Hcl; apply nth_error_Some; congruence).
      destruct (nth_error blocks i) as [b|] eqn:Eb; [|apply nth_error_None in Eb; lia].
      destruct (Hcell i b Eb) as (c' & Hc' & Hsz & Hpr). rewrite Hi in Hc'. injection Hc' as <-.
      unfold cell_sound. cbn [mk_raw rw_src rw_size]. eexists. split; [reflexivity|]. cbn [rs_file].
      rewrite Hpr, length_flat_bytes, Hsz. lia.
    - intros s src Hsrc. destruct s as [|s]; [|destruct s; discriminate]. injection Hsrc as <-.
      unfold src_sound. cbn [rs_uses rs_open]. rewrite lazy_count_mk, Hcl.
      rewrite N.mod_small by exact Hn. repeat split; [exact Hn]. }
  split; [exact Hwf|]. split; [cbn [h rh_cells]; rewrite map_length; exact Hcl|].
  intros name w ops Hw Hops.
  (* strictness of the records of the structure section *)
  assert (Hstrict : Forall rec_strict (concat blocks) /\ Forall rec_ok (concat blocks)).
  { rewrite Hl in Hrok, Hev, Hno4. split.
    - apply Forall_forall. intros x Hx. destruct (in_split _ _ Hx) as (p1 & p2 & Ex). split.
      + apply (proj1 (Forall_forall _ _) Hev). apply in_or_app. right. apply in_or_app. left. exact Hx.
      + apply (Hno4 (hdr ++ p1) x (p2 ++ r4 :: rest)).
        * rewrite Ex. rewrite <- !app_assoc. reflexivity.
        * destruct p2; discriminate.
    - apply Forall_app in Hrok. destruct Hrok as [_ Hrok]. apply Forall_app in Hrok. tauto. }
  destruct Hstrict as [Hst Hok].
  assert (Hden : exists blks, ops_denote (gw_max_points w) (gw_ts w) h ops blks (map (denote_in L) ops)).
  { induction Hops as [|op ops Hop _ IH]; [exists []; constructor|]. destruct IH as [blks IH].
    destruct op as [c|i]; cbn [op_ok_in] in Hop.
    - destruct Hop as (H1 & H2 & H3). eexists (_ :: blks). cbn [map denote_in]. constructor; [constructor; assumption|exact IH].
    - assert (Hib : (i < length blocks)%nat) by lia.
      destruct (nth_error blocks i) as [b|] eqn:Eb; [|apply nth_error_None in Eb; lia].
      destruct (Hcell i b Eb) as (c & Hc & Hsz & Hpr).
      exists (b :: blks). cbn [map denote_in]. constructor; [|exact IH].
      assert (Hin : In b blocks) by (eapply nth_error_In; exact Eb).
      assert (Hsub : forall P : grecord -> Prop, Forall P (concat blocks) -> Forall P b).
      { intros P HP. apply Forall_forall. intros x Hx. apply (proj1 (Forall_forall _ _) HP). apply in_concat. exists b. split; assumption. }
      constructor.
      + unfold raw_bytes. cbn [h rh_cells rh_srcs]. rewrite nth_error_map, Hc. cbn [option_map mk_raw rw_src rw_size nth_error rs_file].
        rewrite Hpr. reflexivity.
      + clear -HF2 Eb Hop. revert i Eb Hop. induction HF2 as [|x y xs ys Hxy _ IH]; intros i Eb Hop; [destruct i; discriminate|].
        destruct i as [|i]; cbn [nth_error nth] in *; [injection Eb as <-; exact Hxy|]. apply IH; [exact Eb|cbn [length] in Hop; lia].
      + apply Hsub. exact Hok.
      + apply Hsub. exact Hst. }
  destruct Hden as [blks Hden].
  destruct (gdswriter_transplant_lemma name w h ops blks _ Hw Hwf Hden) as (h' & out & E & Hwf' & _ & _ & Hd & Hrd).
  exists h', out. split; [exact E|]. split; [exact Hwf'|]. split; [exact Hd|exact Hrd].
Qed.

(* ================================================================== F. Library::write_gds with raw cells *)
Lemma gdswriter_ops_app w : forall a b h,
  gdswriter_ops w h (a ++ b) =
  gbind (gdswriter_ops w h a) (fun '(h1, b1, e1) =>
  gbind (gdswriter_ops w h1 b) (fun '(h2, b2, e2) => ROk (h2, b1 ++ b2, e1 ++ e2))).
Proof.
  induction a as [|op a IH]; intros b h; cbn [app gdswriter_ops].
  - cbn [gbind]. destruct (gdswriter_ops w h b) as [[[h2 b2] e2]| |]; reflexivity.
  - destruct (gdswriter_op w h op) as [[[h1 b1] e1]| |]; cbn [gbind]; try reflexivity.
    rewrite IH. destruct (gdswriter_ops w h1 a) as [[[h2 b2] e2]| |]; cbn [gbind]; try reflexivity.
    destruct (gdswriter_ops w h2 b) as [[[h3 b3] e3]| |]; cbn [gbind]; try reflexivity.
    rewrite <- app_assoc. reflexivity.
Qed.

(* Library::write_gds = the same statements as a GdsWriter session: its cells, then its raw cells *)
Theorem library_write_gds_is_session_lemma name units mp ts cells raws h :
  library_write_gds_model name units mp ts cells raws h =
  gdswriter_run name {| gw_units := units; gw_max_points := mp; gw_ts := ts |} h (map WCell cells ++ map WRaw raws).
Proof.
  unfold library_write_gds_model, gdswriter_run. rewrite gdswriter_ops_app.
  destruct (gdswriter_ops _ h (map WCell cells)) as [[[h1 b1] e1]| |]; cbn [gbind]; try reflexivity.
  destruct (gdswriter_ops _ h1 (map WRaw raws)) as [[[h2 b2] e2]| |]; cbn [gbind gw_units gw_max_points gw_ts]; try reflexivity.
  rewrite <- app_assoc. reflexivity.
Qed.

(* without raw cells it is the writer model the earlier theorems are about *)
Theorem library_write_gds_conservative_lemma l mp ts h :
  (length ts = 6)%nat -> name_fits (g_name l) -> no_fracture mp (g_cells l) ->
  library_write_gds_model (g_name l) (g_units l) mp ts (g_cells l) [] h =
  ROk (h, write_gds_model ts l, repeat false (length (g_cells l))).
Proof.
  intros Hts Hn Hf. rewrite library_write_gds_is_session_lemma. cbn [map]. rewrite app_nil_r.
  destruct l as [nm [u0 u1] cells]. cbn [g_name g_units g_cells] in *. apply gdswriter_is_library_lemma; assumption.
Qed.

(* ================================================================== G. several writers: the files do not depend on the interleaving *)
Definition ops_of (k : nat) (ops : list (nat * gwop)) : list gwop :=
  flat_map (fun x => if Nat.eqb (fst x) k then [snd x] else []) ops.

Lemma session_chunks_wf ws : forall ops h, heap_wf h ->
  Forall (fun x => exists nm w, nth_error ws (fst x) = Some (nm, w) /\ op_valid (gw_max_points w) h (snd x)) ops ->
  exists h' ch, session_chunks ws h ops = ROk (h', ch, repeat false (length ops)) /\ heap_wf h' /\ heap_same h h' /\
    forall k nm w, nth_error ws k = Some (nm, w) -> chunks_of k ch = flat_map (op_chunk (gw_ts w) h) (ops_of k ops).
Proof.
  induction ops as [|[k op] ops IH]; intros h Hwf Hv.
  - exists h, []. split; [reflexivity|]. split; [exact Hwf|]. split; [apply heap_same_refl|]. reflexivity.
  - inversion Hv as [|? ? Hv1 Hv2]; subst. destruct Hv1 as (nm & w & Hk & Hop). cbn [fst snd] in Hk, Hop.
    destruct (gdswriter_op_wf w h op Hwf Hop) as (h1 & E1 & Hwf1 & Hs1).
    assert (Hv2' : Forall (fun x => exists nm w, nth_error ws (fst x) = Some (nm, w) /\ op_valid (gw_max_points w) h1 (snd x)) ops).
    { eapply Forall_impl; [|exact Hv2]. intros x (nm' & w' & H1 & H2). exists nm', w'. split; [exact H1|].
      eapply op_valid_same; [exact Hs1|exact H2]. }
    destruct (IH h1 Hwf1 Hv2') as (h2 & ch & E2 & Hwf2 & Hs2 & Hch).
    exists h2, ((k, op_chunk (gw_ts w) h op) :: ch). cbn [session_chunks]. rewrite Hk, E1. cbn [gbind]. rewrite E2. cbn [gbind length repeat].
    split; [reflexivity|]. split; [exact Hwf2|]. split; [exact (heap_same_trans _ _ _ Hs1 Hs2)|].
    intros k' nm' w' Hk'. unfold chunks_of, ops_of. cbn [flat_map fst snd]. fold (chunks_of k' ch). fold (ops_of k' ops).
    rewrite (Hch k' nm' w' Hk').
    assert (Hext : flat_map (op_chunk (gw_ts w') h1) (ops_of k' ops) = flat_map (op_chunk (gw_ts w') h) (ops_of k' ops)).
    { apply flat_map_ext. intros o. apply op_chunk_same. exact Hs1. }
    rewrite Hext. destruct (Nat.eqb k k') eqn:Ek; [|reflexivity].
    apply Nat.eqb_eq in Ek. subst k'. rewrite Hk in Hk'. injection Hk' as <- <-. cbn [flat_map app]. rewrite ?app_nil_r. reflexivity.
Qed.

Lemma session_files_nth : forall ws k0 ch k nm w, nth_error ws k = Some (nm, w) ->
  nth_error (session_files k0 ws ch) k =
  Some (gdswriter_header nm (fst (gw_units w)) (snd (gw_units w)) (gw_max_points w) (gw_ts w) ++ chunks_of (k0 + k) ch ++ gdswriter_close).
Proof.
  induction ws as [|[nm0 w0] ws IH]; intros k0 ch k nm w Hk; [destruct k; discriminate|].
  destruct k as [|k]; cbn [nth_error session_files] in *.
  - injection Hk as <- <-. rewrite Nat.add_0_r. reflexivity.
  - rewrite (IH (S k0) ch k nm w Hk). replace (S k0 + k)%nat with (k0 + S k)%nat by lia. reflexivity.
Qed.

(* two (or more) GdsWriter objects alive at once, calls interleaved in any way, raw cells shared between them: each
   file is what that writer alone would have produced from the initial heap - in particular a raw cell written through
   two writers appears, in full, in both files *)
Theorem session_writer_independent_lemma ws ops h : heap_wf h ->
  Forall (fun x => exists nm w, nth_error ws (fst x) = Some (nm, w) /\ op_valid (gw_max_points w) h (snd x)) ops ->
  exists h' files, session_run ws h ops = ROk (h', files, repeat false (length ops)) /\ heap_wf h' /\ heap_same h h' /\
    forall k nm w, nth_error ws k = Some (nm, w) ->
      exists hk, gdswriter_run nm w h (ops_of k ops) = ROk (hk, nth k files [], repeat false (length (ops_of k ops))).
Proof.
  intros Hwf Hv. destruct (session_chunks_wf ws ops h Hwf Hv) as (h' & ch & E & Hwf' & Hs & Hch).
  exists h', (session_files 0 ws ch). unfold session_run. rewrite E. cbn [gbind].
  split; [reflexivity|]. split; [exact Hwf'|]. split; [exact Hs|].
  intros k nm w Hk.
  assert (Hvk : Forall (op_valid (gw_max_points w) h) (ops_of k ops)).
  { clear -Hv Hk. induction Hv as [|[k' op] ops (nm' & w' & H1 & H2) _ IH]; [constructor|].
    unfold ops_of. cbn [flat_map fst snd]. fold (ops_of k ops). cbn [fst snd] in H1, H2.
    destruct (Nat.eqb k' k) eqn:Ek; [|exact IH]. apply Nat.eqb_eq in Ek. subst k'. rewrite Hk in H1. injection H1 as <- <-.
    cbn [app]. constructor; assumption. }
  destruct (gdswriter_run_wf nm w (ops_of k ops) h Hwf Hvk) as (hk & Ek & _ & _). exists hk. rewrite Ek.
  rewrite (nth_error_nth _ _ _ (session_files_nth ws 0 ch k nm w Hk)). cbn [Nat.add]. rewrite (Hch k nm w Hk). reflexivity.
Qed.

(* ================================================================== H. what RawCell::to_gds emits; the short read *)
(* for ANY heap: a call that reports no error has appended exactly the bytes of the raw cell it was called on, a call
   that reports InputFileError has appended nothing; `dependencies` is never read *)
Lemma rawcell_to_gds_emits h r h' b e : rawcell_to_gds h r = ROk (h', b, e) ->
  (e = false /\ raw_bytes h r = Some b) \/ (e = true /\ b = []).
Proof.
  unfold rawcell_to_gds, raw_bytes. destruct (nth_error (rh_cells h) r) as [c|]; [|discriminate].
  destruct (rw_src c) as [s off|d].
  - destruct (nth_error (rh_srcs h) s) as [src|]; [|discriminate]. destruct (rs_open src); [|discriminate].
    destruct (N.of_nat (length (pread (rs_file src) (rw_size c) off)) =? rw_size c) eqn:E; cbn [negb]; intros [= <- <- <-].
    + left. split; [reflexivity|]. rewrite pread_firstn. reflexivity.
    + right. split; reflexivity.
  - destruct (N.of_nat (length d) <? rw_size c); [discriminate|]. intros [= <- <- <-]. left. split; reflexivity.
Qed.

(* the file shrank after read_rawcells: the first write reports InputFileError and appends nothing; the raw cell is
   then empty for good - every later write appends nothing and reports NO error *)
Lemma rawcell_short_read_lemma h r c s off src :
  nth_error (rh_cells h) r = Some c -> rw_src c = Lazy s off -> nth_error (rh_srcs h) s = Some src -> rs_open src = true ->
  N.of_nat (length (pread (rs_file src) (rw_size c) off)) <> rw_size c ->
  exists h1, rawcell_to_gds h r = ROk (h1, [], true) /\ rawcell_to_gds h1 r = ROk (h1, [], false).
Proof.
  intros Hr Hsrc Hs Hop Hshort. unfold rawcell_to_gds at 1. rewrite Hr, Hsrc, Hs, Hop.
  replace (N.of_nat (length (pread (rs_file src) (rw_size c) off)) =? rw_size c) with false by (symmetry; apply N.eqb_neq; exact Hshort).
  cbn [negb]. eexists. split; [reflexivity|]. unfold rawcell_to_gds. cbn [rh_cells].
  rewrite nth_error_upd_same by (apply nth_error_Some; congruence). cbn [rw_src rw_size].
  replace (N.of_nat (length (pread (rs_file src) (rw_size c) off)) <? 0) with false by (symmetry; apply N.ltb_ge; lia).
  reflexivity.
Qed.

(* ================================================================== I. dependencies: once, closure *)
Inductive reach (h : rheap) : nat -> nat -> Prop :=
| reach_refl r : reach h r r
| reach_step r d x : In d (raw_deps_of h r) -> reach h d x -> reach h r x.

Definition closed_set (h : rheap) (S : list nat) : Prop := forall x d, In x S -> In d (raw_deps_of h x) -> In d S.
(* a dependency DAG: some rank decreases along every dependency *)
Definition dag (h : rheap) (rank : nat -> nat) : Prop := forall x d, In d (raw_deps_of h x) -> (rank d < rank x)%nat.

Lemma existsb_eqb_in r a : existsb (Nat.eqb r) a = true <-> In r a.
Proof.
  rewrite existsb_exists. split.
  - intros (x & Hx & E). apply Nat.eqb_eq in E. subst. exact Hx.
  - intros H. exists r. split; [exact H|apply Nat.eqb_refl].
Qed.

Lemma NoDup_snoc (a : list nat) r : NoDup a -> ~ In r a -> NoDup (a ++ [r]).
Proof.
  induction a as [|y a IHa]; intros N Hnin; cbn [app]; [constructor; [intros []|constructor]|].
  inversion N as [|? ? Hy N']; subst. constructor.
  - intros Hin. apply in_app_or in Hin. destruct Hin as [Hin|[<-|[]]]; [exact (Hy Hin)|]. apply Hnin. left. reflexivity.
  - apply IHa; [exact N'|]. intros H. apply Hnin. right. exact H.
Qed.

Definition visit_post (h : rheap) (from : list nat) (a a' : list nat) : Prop :=
  NoDup a' /\ closed_set h a' /\ incl a a' /\ incl from a' /\
  (forall x, In x a' -> In x a \/ exists r, In r from /\ reach h r x).

Lemma visit_dag h rank : dag h rank -> forall fuel r a, (rank r < fuel)%nat -> NoDup a -> closed_set h a ->
  exists a', visit fuel h (Some a) r = Some a' /\ visit_post h [r] a a'.
Proof.
  intros Hdag. induction fuel as [|f IH]; intros r a Hrk Hnd Hcl; [lia|].
  cbn [visit]. destruct (existsb (Nat.eqb r) a) eqn:Ein.
  - apply existsb_eqb_in in Ein. exists a. split; [reflexivity|]. split; [exact Hnd|]. split; [exact Hcl|].
    split; [apply incl_refl|]. split; [intros x [<-|[]]; exact Ein|]. intros x Hx. left. exact Hx.
  - (* the dependencies, one after the other *)
    assert (Hfold : forall ds a0, (forall d, In d ds -> (rank d < f)%nat) -> NoDup a0 -> closed_set h a0 ->
              exists a1, fold_left (visit f h) ds (Some a0) = Some a1 /\ visit_post h ds a0 a1).
    { induction ds as [|d ds IHd]; intros a0 Hds Hnd0 Hcl0.
      - exists a0. split; [reflexivity|]. split; [exact Hnd0|]. split; [exact Hcl0|]. split; [apply incl_refl|].
        split; [intros x []|]. intros x Hx. left. exact Hx.
      - destruct (IH d a0 (Hds d (or_introl eq_refl)) Hnd0 Hcl0) as (a1 & E1 & N1 & C1 & I1 & F1 & R1).
        destruct (IHd a1 (fun x Hx => Hds x (or_intror Hx)) N1 C1) as (a2 & E2 & N2 & C2 & I2 & F2 & R2).
        exists a2. cbn [fold_left]. rewrite E1. split; [exact E2|]. split; [exact N2|]. split; [exact C2|].
        split; [eapply incl_tran; eassumption|]. split.
        + intros x [<-|Hx]; [apply I2, F1; left; reflexivity|apply F2; exact Hx].
        + intros x Hx. destruct (R2 x Hx) as [Hx1|(r0 & Hr0 & Hre)].
          * destruct (R1 x Hx1) as [Hx0|(r0 & [<-|[]] & Hre)]; [left; exact Hx0|]. right. exists d. split; [left; reflexivity|exact Hre].
          * right. exists r0. split; [right; exact Hr0|exact Hre]. }
    destruct (Hfold (raw_deps_of h r) a) as (a1 & E1 & N1 & C1 & I1 & F1 & R1); try assumption.
    { intros d Hd. pose proof (Hdag r d Hd). lia. }
    rewrite E1. destruct (existsb (Nat.eqb r) a1) eqn:Ein1.
    + apply existsb_eqb_in in Ein1. exists a1. split; [reflexivity|]. split; [exact N1|]. split; [exact C1|]. split; [exact I1|].
      split; [intros x [<-|[]]; exact Ein1|].
      intros x Hx. destruct (R1 x Hx) as [Hx0|(d & Hd & Hre)]; [left; exact Hx0|].
      right. exists r. split; [left; reflexivity|]. eapply reach_step; eassumption.
    + assert (Hnin : ~ In r a1) by (intros H; apply existsb_eqb_in in H; congruence).
      exists (a1 ++ [r]). split; [reflexivity|]. split.
      { apply NoDup_snoc; assumption. }
      split.
      { intros x d Hx Hd. apply in_app_or in Hx. apply in_or_app. destruct Hx as [Hx|[<-|[]]].
        - left. eapply C1; eassumption.
        - left. apply F1. exact Hd. }
      split; [intros x Hx; apply in_or_app; left; apply I1; exact Hx|].
      split; [intros x [<-|[]]; apply in_or_app; right; left; reflexivity|].
      intros x Hx. apply in_app_or in Hx. destruct Hx as [Hx|[<-|[]]].
      * destruct (R1 x Hx) as [Hx0|(d & Hd & Hre)]; [left; exact Hx0|].
        right. exists r. split; [left; reflexivity|]. eapply reach_step; eassumption.
      * right. exists r. split; [left; reflexivity|apply reach_refl].
Qed.

(* (c), the part that holds: for every dependency DAG the closure list names every root and every transitive
   dependency (closure), each raw cell once, and nothing that is not reachable from a root *)
Theorem raw_closure_dag_lemma h rank roots : dag h rank -> (forall x, (rank x <= length (rh_cells h))%nat) ->
  exists l, raw_closure h roots = Some l /\ NoDup l /\ closed_set h l /\ incl roots l /\
            (forall x, In x l -> exists r, In r roots /\ reach h r x).
Proof.
  intros Hdag Hrk. unfold raw_closure.
  assert (Hfold : forall ds a0, NoDup a0 -> closed_set h a0 ->
            exists a1, fold_left (visit (S (length (rh_cells h))) h) ds (Some a0) = Some a1 /\ visit_post h ds a0 a1).
  { induction ds as [|d ds IHd]; intros a0 Hnd0 Hcl0.
    - exists a0. split; [reflexivity|]. split; [exact Hnd0|]. split; [exact Hcl0|]. split; [apply incl_refl|].
      split; [intros x []|]. intros x Hx. left. exact Hx.
    - destruct (visit_dag h rank Hdag (S (length (rh_cells h))) d a0 ltac:(pose proof (Hrk d); lia) Hnd0 Hcl0) as (a1 & E1 & N1 & C1 & I1 & F1 & R1).
      destruct (IHd a1 N1 C1) as (a2 & E2 & N2 & C2 & I2 & F2 & R2).
      exists a2. cbn [fold_left]. rewrite E1. split; [exact E2|]. split; [exact N2|]. split; [exact C2|].
      split; [eapply incl_tran; eassumption|]. split.
      + intros x [<-|Hx]; [apply I2, F1; left; reflexivity|apply F2; exact Hx].
      + intros x Hx. destruct (R2 x Hx) as [Hx1|(r0 & Hr0 & Hre)].
        * destruct (R1 x Hx1) as [Hx0|(r0 & [<-|[]] & Hre)]; [left; exact Hx0|]. right. exists d. split; [left; reflexivity|exact Hre].
        * right. exists r0. split; [right; exact Hr0|exact Hre]. }
  destruct (Hfold roots [] (NoDup_nil _) ltac:(intros x d [])) as (l & E & N & C & _ & F & R).
  exists l. split; [exact E|]. split; [exact N|]. split; [exact C|]. split; [exact F|].
  intros x Hx. destruct (R x Hx) as [[]|H]. exact H.
Qed.

Definition deps_valid (h : rheap) : Prop := forall x d, In d (raw_deps_of h x) -> (d < length (rh_cells h))%nat.

Lemma reach_valid h r x : deps_valid h -> (r < length (rh_cells h))%nat -> reach h r x -> (x < length (rh_cells h))%nat.
Proof. intros Hdv Hr H. induction H as [r|r d x Hd _ IH]; [exact Hr|]. apply IH. eapply Hdv. exact Hd. Qed.

(* (c) put together: on a well-formed heap whose dependency graph is a DAG, writing the closure list of any roots
   emits every root and every transitive dependency, each exactly once (one call = one structure), without error *)
Theorem rawcell_once_partial_lemma name w h rank roots :
  heap_wf h -> deps_valid h -> dag h rank -> (forall x, (rank x <= length (rh_cells h))%nat) ->
  Forall (fun r => (r < length (rh_cells h))%nat) roots ->
  exists l h', raw_closure h roots = Some l /\ NoDup l /\ closed_set h l /\ incl roots l /\
    gdswriter_run name w h (map WRaw l) =
    ROk (h', gdswriter_header name (fst (gw_units w)) (snd (gw_units w)) (gw_max_points w) (gw_ts w) ++
             flat_map (fun r => match raw_bytes h r with Some b => b | None => [] end) l ++ gdswriter_close,
         repeat false (length l)).
Proof.
  intros Hwf Hdv Hdag Hrk Hroots.
  destruct (raw_closure_dag_lemma h rank roots Hdag Hrk) as (l & E & N & C & I & R).
  assert (Hv : Forall (op_valid (gw_max_points w) h) (map WRaw l)).
  { apply Forall_forall. intros op Hop. apply in_map_iff in Hop. destruct Hop as (x & <- & Hx). cbn [op_valid].
    destruct (R x Hx) as (r & Hr & Hre). apply (reach_valid h r x Hdv); [|exact Hre].
    apply (proj1 (Forall_forall _ _) Hroots). exact Hr. }
  destruct (gdswriter_run_wf name w (map WRaw l) h Hwf Hv) as (h' & Er & _ & _).
  exists l, h'. split; [exact E|]. split; [exact N|]. split; [exact C|]. split; [exact I|].
  rewrite Er, map_length.
  assert (Hfm : flat_map (op_chunk (gw_ts w) h) (map WRaw l) = flat_map (fun r => match raw_bytes h r with Some b => b | None => [] end) l).
  { clear. induction l as [|x l IH]; [reflexivity|]. cbn [map flat_map op_chunk]. rewrite IH. reflexivity. }
  rewrite Hfm. reflexivity.
Qed.

Print Assumptions gdswriter_is_library_lemma.
Print Assumptions gdswriter_conforms_lemma.
Print Assumptions gdswriter_transplant_lemma.
Print Assumptions gdswriter_c17_lemma.
Print Assumptions library_write_gds_is_session_lemma.
Print Assumptions library_write_gds_conservative_lemma.
Print Assumptions session_writer_independent_lemma.
Print Assumptions rawcell_to_gds_emits.
Print Assumptions rawcell_short_read_lemma.
Print Assumptions raw_closure_dag_lemma.
Print Assumptions rawcell_once_partial_lemma.
