Require Import Base Winding ClipGlue GeomOracle.
Require Import Extraction ExtrOcamlBasic.
Extraction Blacklist List String Int.
Extraction "../ocaml/extracted/c05_boolean.ml" wn inside covers wn_sum cover_count on_boundary shoelace2 perim1
  seg_closer_than poly_closer_than poly_near group_near sample_ok first_bad count_ok
  bool_verdict bop area2 perim_sum area_close link_holes normalise
  Z.add Z.sub Z.mul Z.opp Z.abs Z.leb Z.ltb Z.eqb Z.max Z.min Z.of_nat N.add.
