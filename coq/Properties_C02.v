(* C02 - OASIS save/load round trip, model level.
   Theorem-only file: every proof is `exact <lemma>` or a two-line composition of lemmas; Print Assumptions under each.
   write_oas_model (OasisWrite.v) is compared byte for byte with Library::write_oas, read_oas_model (OasisRead.v) dump for dump
   with read_oas, on every run (units c04w and c04r). *)
Require Import Base OasisInt OasisSpec OasisSpecProofs OasisRead OasisReadProofs OasisWrite OasisWriteProofs OasisRoundtrip Generated.
Local Open Scope N_scope.

(* the file gdstk writes (covered subset: polygons, simple FlexPaths, labels, references, every repetition type, properties,
   name tables, END record; with and without S_CELL_OFFSET) is accepted by the strict decoder and decodes to the saved library *)
Theorem oas_writer_conforms : forall (cfg : wcfg) (l : wlib), wlib_ok l ->
  spec_oas_decode (write_oas_model cfg l) = Some (view_w cfg l).
Proof. exact oas_writer_conforms_lemma. Qed.
Print Assumptions oas_writer_conforms.

(* whatever the strict decoder accepts inside the covered class, the reader model loads to the layout it encodes *)
Theorem oas_reader_accepts_spec_partial : forall bs L, spec_oas_decode bs = Some L -> covered bs ->
  read_oas_model bs = Ok (view L).
Proof. exact oas_reader_accepts_spec_partial_lemma. Qed.
Print Assumptions oas_reader_accepts_spec_partial.

(* save then load, on the two statement-level models: the library comes back (as the reader's view of the saved layout) *)
Theorem oas_models_roundtrip : forall (cfg : wcfg) (l : wlib), wlib_ok l -> covered (write_oas_model cfg l) ->
  read_oas_model (write_oas_model cfg l) = Ok (view (view_w cfg l)).
Proof.
  intros cfg l Hok Hcov. apply oas_reader_accepts_spec_partial_lemma; [apply oas_writer_conforms_lemma; exact Hok|exact Hcov].
Qed.
Print Assumptions oas_models_roundtrip.

(* ... and the file the writer model emits always IS in the covered class (minimal encodings, 32-bit tags, PROPERTY records only
   after START / elements / CELLNAME, distinct cell numbers): the round trip holds with no condition on the stream.
   wlib_small: tags below 2^32 (always true of gdstk's 32+32-bit Tag), fewer than 2^31 vertices / repetition entries, fewer
   than 2^26 distinct label texts and property names *)
Theorem writer_output_covered : forall (cfg : wcfg) (l : wlib), wlib_ok l -> wlib_small l -> covered (write_oas_model cfg l).
Proof. exact writer_output_covered_lemma. Qed.
Print Assumptions writer_output_covered.

Theorem oas_models_roundtrip_full : forall (cfg : wcfg) (l : wlib), wlib_ok l -> wlib_small l ->
  read_oas_model (write_oas_model cfg l) = Ok (OasisRead.view (view_w cfg l)).
Proof. exact oas_models_roundtrip_full_lemma. Qed.
Print Assumptions oas_models_roundtrip_full.

Example oas_models_roundtrip_full_nonvacuous : wlib_ok sample_wlib /\ wlib_small sample_wlib.
Proof. split; [exact sample_wlib_ok|exact sample_wlib_small]. Qed.

(* the offsets stored in S_CELL_OFFSET point at the CELL records *)
Theorem cell_offsets_point_at_cells : forall cfg l j off, nth_error (cell_offsets cfg l) j = Some off ->
  exists pre post,
    run_start (write_oas_run cfg l) ++ concat (run_records (write_oas_run cfg l)) ++ run_end (write_oas_run cfg l)
    = pre ++ OasisRecord_CELL_REF_NUM :: post /\ off = N.of_nat (length pre).
Proof. exact cell_offsets_point_at_cells_lemma. Qed.
Print Assumptions cell_offsets_point_at_cells.

(* the repetition that is written denotes the offsets of the repetition that was saved *)
Theorem view_rep_offsets : forall r, wrep_ok r -> has_rep r = true ->
  rep_offsets (view_rep_body r) = wrep_offsets_sorted r.
Proof. exact view_rep_offsets_lemma. Qed.
Print Assumptions view_rep_offsets.

(* whole-file round trip of the specification codec, for every choice of modal reuse *)
Theorem spec_oas_roundtrip : forall chs L, wf_layout L -> spec_oas_decode (spec_oas_encode chs L) = Some L.
Proof. exact spec_oas_roundtrip_lemma. Qed.
Print Assumptions spec_oas_roundtrip.

(* non-vacuity: a library with every element kind is well formed, its file is in the covered class, and it comes back *)
Example oas_models_roundtrip_nonvacuous :
  wlib_ok sample_wlib /\ (forall cfg, cov_oas_decode (write_oas_model cfg sample_wlib) <> None).
Proof.
  split; [exact sample_wlib_ok|]. intros [[]]; vm_compute; discriminate.
Qed.
