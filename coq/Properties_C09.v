(* C09 — Bounding boxes and convex hulls are exact for any hierarchy.
   Theorem-only file: every proof is `exact <lemma>`; Print Assumptions under each.
   Model: BBox.v (exact rationals), mirroring /repo AFTER the fixes cd7171e (collinear fallback of convex_hull)
   and d7329ad (Reference::convex_hull uses every offset of an Explicit repetition).
   Vocabulary (BBoxProofs.v): is_bbox S b = "b is the smallest axis-aligned box containing S" (Inverted iff S = []);
   hull_ok = the contract of qhull with explicit convex coefficient lists; qhull_ok hull = hull_ok on the inputs
   qhull is actually given (>= 4 points, not one vertical line, not collinear); hull_sem H S = "H ⊆ S and every
   half-plane containing H contains S"; family_ok U = cells closed under "child of", unique names, C11 facts
   (rep_ok) on every repetition, quarter flag => cos*sin == 0, and for reference repetitions that are NOT
   Explicit: extrema cover the offsets (ref_wf_other / parallelogram_cover); nothing more for Explicit ones. *)
From Coq Require Import QArith List.
Import ListNotations.
Require Import Base BBox BBoxProofs.
Local Open Scope Q_scope.

Theorem bbox_is_smallest : forall S, is_bbox S (bbox S).
Proof. exact bbox_is_bbox. Qed.
Print Assumptions bbox_is_smallest.

(* Polygon::bounding_box = smallest box of all copies (repetition enters as get_offsets / get_extrema with the
   C11 facts: extrema ⊆ offsets, same box, the origin is an offset) *)
Theorem polygon_bbox_exact : forall pts r, orep_ok r ->
  is_bbox (rep_points pts r) (polygon_bbox pts r) /\ box_eq (polygon_bbox pts r) (bbox (rep_points pts r)).
Proof. exact polygon_bbox_exact_lemma. Qed.
Print Assumptions polygon_bbox_exact.

Theorem label_bbox_exact : forall o r, orep_ok r ->
  is_bbox (rep_points [o] r) (label_bbox o r) /\ box_eq (label_bbox o r) (bbox (rep_points [o] r)).
Proof. exact label_bbox_exact_lemma. Qed.
Print Assumptions label_bbox_exact.

Theorem empty_inverted :
  (forall S, bbox S = Inverted <-> S = []) /\ (forall r, polygon_bbox [] r = Inverted) /\
  (forall S b, is_bbox S b -> (b = Inverted <-> S = [])).
Proof. exact empty_inverted_lemma. Qed.
Print Assumptions empty_inverted.

(* quarter-turn branch of Reference::bounding_box *)
Theorem ref_bbox_quarter_turn : forall pl off S B, pl_ca pl * pl_sa pl == 0 -> B = bbox S ->
  box_eq (bbox (map (xform pl off) (corners B))) (bbox (map (xform pl off) S)).
Proof. exact ref_bbox_quarter_turn_lemma. Qed.
Print Assumptions ref_bbox_quarter_turn.

Theorem quarter_turn_is_axis : forall pl, quarter_turn pl -> pl_ca pl * pl_sa pl == 0.
Proof. exact quarter_turn_prod. Qed.
Print Assumptions quarter_turn_is_axis.

(* for ANY cos / sin (cos(pi/2) is 6e-17 in the implementation) the quarter-turn branch never under-reports *)
Theorem ref_bbox_corners_safe : forall S B T, is_bbox S B -> affine T -> forall p, In p S ->
  exists X0 Y0 X1 Y1, bbox (map T (corners B)) = Box X0 Y0 X1 Y1 /\
    X0 <= fst (T p) /\ fst (T p) <= X1 /\ Y0 <= snd (T p) /\ snd (T p) <= Y1.
Proof. exact ref_bbox_corners_safe_lemma. Qed.
Print Assumptions ref_bbox_corners_safe.

(* two opposite corners would do in the quarter-turn branch (an equivalent variant of the code) *)
Theorem two_corners_suffice : forall pl off S x0 y0 x1 y1, pl_ca pl * pl_sa pl == 0 ->
  is_bbox S (Box x0 y0 x1 y1) ->
  box_eq (bbox (map (xform pl off) [(x0, y0); (x1, y1)])) (bbox (map (xform pl off) (corners (Box x0 y0 x1 y1)))).
Proof. exact two_corners_suffice_lemma. Qed.
Print Assumptions two_corners_suffice.

(* hull branch *)
Theorem ref_bbox_via_hull : forall H S, hull_ok H S -> forall T, affine T ->
  box_eq (bbox (map T H)) (bbox (map T S)).
Proof. exact ref_bbox_via_hull_lemma. Qed.
Print Assumptions ref_bbox_via_hull.

Theorem placement_is_affine : forall pl off, affine (xform pl off).
Proof. exact xform_affine. Qed.
Print Assumptions placement_is_affine.

Theorem hull_contract_gives_cover : forall H S, hull_ok H S -> hull_sem H S.
Proof. exact hull_ok_sem. Qed.
Print Assumptions hull_contract_gives_cover.

(* gdstk::convex_hull (fewer than 4 points / qhull / the "least we can do" branch / the collinear fallback with
   the two extreme input points) meets the contract on EVERY input, given qhull's own contract *)
Theorem convex_hull_w_sem : forall hull, qhull_ok hull -> forall S, hull_sem (convex_hull_w hull S) S.
Proof. exact convex_hull_w_sem_lemma. Qed.
Print Assumptions convex_hull_w_sem.

(* what family_ok asks of a reference repetition *)
Theorem ref_wf_explicit : forall pl r, pl_rep pl = Some r -> r_explicit r = true ->
  (ref_wf true pl <-> rep_ok r /\ (pl_quarter pl = true -> pl_ca pl * pl_sa pl == 0)).
Proof. exact ref_wf_explicit_lemma. Qed.
Print Assumptions ref_wf_explicit.

Theorem ref_wf_other : forall pl r, pl_rep pl = Some r -> r_explicit r = false ->
  (ref_wf true pl <-> rep_ok r /\ (incl (exts r) (offs r) /\ covers (exts r) (offs r)) /\
                      (pl_quarter pl = true -> pl_ca pl * pl_sa pl == 0)).
Proof. exact ref_wf_other_lemma. Qed.
Print Assumptions ref_wf_other.

Theorem parallelogram_cover : forall (p0 v1 v2 : pt) (m n : Q) (E O : list pt),
  (forall a b, (a == 0 \/ a == m) -> (b == 0 \/ b == n) ->
     exists e, In e E /\ fst e == fst p0 + a * fst v1 + b * fst v2 /\ snd e == snd p0 + a * snd v1 + b * snd v2) ->
  (forall o, In o O -> exists a b, 0 <= a /\ a <= m /\ 0 <= b /\ b <= n /\
     fst o == fst p0 + a * fst v1 + b * fst v2 /\ snd o == snd p0 + a * snd v1 + b * snd v2) ->
  covers E O.
Proof. exact parallelogram_cover_lemma. Qed.
Print Assumptions parallelogram_cover.

(* cells, any depth, any valid cache (in particular the empty one) *)
Theorem cell_bbox_exact : forall hull, qhull_ok hull ->
  forall U, family_ok U -> forall c, U c -> forall ch, cache_ok U ch ->
  is_bbox (flatten c) (g_box (fst (cell_query (convex_hull_w hull) false c ch))) /\
  box_eq (g_box (fst (cell_query (convex_hull_w hull) false c ch))) (bbox (flatten c)) /\
  cache_ok U (snd (cell_query (convex_hull_w hull) false c ch)).
Proof. exact cell_bbox_exact_lemma. Qed.
Print Assumptions cell_bbox_exact.

Theorem cell_hull_exact : forall hull, qhull_ok hull ->
  forall U, family_ok U -> forall c, U c -> forall ch, cache_ok U ch ->
  hull_sem (g_hull (fst (cell_query (convex_hull_w hull) true c ch))) (flatten c) /\
  cache_ok U (snd (cell_query (convex_hull_w hull) true c ch)).
Proof. exact cell_hull_exact_lemma. Qed.
Print Assumptions cell_hull_exact.

Theorem empty_cell_inverted : forall hull, qhull_ok hull ->
  forall U, family_ok U -> forall c, U c ->
  (g_box (fst (cell_query (convex_hull_w hull) false c [])) = Inverted <-> flatten c = []).
Proof. exact empty_cell_inverted_lemma. Qed.
Print Assumptions empty_cell_inverted.

Theorem cache_transparent : forall hull, qhull_ok hull ->
  forall U, family_ok U -> forall qs, Forall (query_ok U) qs -> forall ch, cache_ok U ch ->
  Forall2 (fun q a => answer_exact q a /\ answer_same a (fst (run1 (convex_hull_w hull) q [])))
          qs (run (convex_hull_w hull) qs ch).
Proof. exact cache_transparent_lemma. Qed.
Print Assumptions cache_transparent.

(* regression examples about the OLD functions (findings F10 and F9, fixed in /repo) *)
Theorem collinear_fallback_old_refuted : exists S : list pt,
  (forall hull, convex_hull_w_old hull S = [(qi 0, qi 6); (qi 4, qi 10)]) /\
  (forall hull, ~ incl (convex_hull_w_old hull S) S) /\
  (forall hull, ~ covers (convex_hull_w_old hull S) S) /\
  (forall hull, ~ box_eq (bbox (map (xform pyth zero_pt) (convex_hull_w_old hull S))) (bbox (map (xform pyth zero_pt) S))) /\
  (forall hull, convex_hull_w hull S = [(qi 0, qi 10); (qi 4, qi 6)]).
Proof. exact collinear_fallback_old_refuted_example. Qed.
Print Assumptions collinear_fallback_old_refuted.

Theorem reference_hull_explicit_rep_old_refuted :
  rep_ok f9_rep /\ ~ covers (exts f9_rep) (offs f9_rep) /\
  ~ box_eq (g_box (fst (cell_query_old chull_mc false f9_top []))) (bbox (flatten f9_top)) /\
  ~ covers (g_hull (fst (cell_query_old chull_mc true f9_mid []))) (flatten f9_mid) /\
  In (qi 10, qi 10) (flatten f9_mid) /\
  box_eq (g_box (fst (cell_query chull_mc false f9_top []))) (bbox (flatten f9_top)) /\
  In (qi 10, qi 10) (g_hull (fst (cell_query chull_mc true f9_mid []))).
Proof. exact reference_hull_explicit_rep_old_refuted_example. Qed.
Print Assumptions reference_hull_explicit_rep_old_refuted.

(* non-vacuity: a family with a quarter-turn lattice reference, a rotated magnified reflected reference and an
   Explicit repetition whose extrema do not cover its offsets; the identity meets qhull_ok *)
Theorem hypotheses_satisfiable : family_ok ex_U /\ qhull_ok (fun S => S) /\
  box_eq (g_box (fst (cell_query (convex_hull_w (fun S => S)) false ex_top []))) (bbox (flatten ex_top)).
Proof. exact family_ok_example. Qed.
Print Assumptions hypotheses_satisfiable.
