(* FractureCuts.v -- statement-level model of the cut choice of Polygon::fracture (src/polygon.cpp):
   the body of `for (uint64_t i = 0; i < result.count;)` from `num_points = subj->point_array.count`
   up to the call `slice(subj, cuts, x_axis, scaling, chopped)`.  Definitions only.

   Doubles are Flocq binary64 values; EVERY floating-point operation of the C++ is the Flocq
   operation with round-to-nearest-even (`max.x - min.x`, `max.y - min.y`, `coords[0] + coords[n-1]`,
   `* 0.5`, `(double)count`, `num_cuts + 1.0`, `/`, `j * frac`, the truncating cast to uint64_t),
   so the result is bit-exact: the axis test near a tie, the midpoint of two adjacent doubles and the
   index `(uint64_t)(j * frac)` for every count.  Comparisons `<`, `>`, `==` are IEEE comparisons
   (false on NaN, -0 == +0).

   The one place that needs care is sort(): SortProofs.v proves gdstk's sort an ordered permutation
   for every comparator that is a strict weak order ON ITS WHOLE TYPE, which IEEE `<` is not (NaN).
   The comparator handed to Sort.sort is therefore `dlt_fin` = IEEE `<` after replacing non-finite
   values by +0; on finite doubles it IS IEEE `<` (FractureCutsProofs.dlt_fin_finite), and the model
   answers ErrInvalid (= outside the model) as soon as one coordinate of the polygon is not finite.

   Undefined behaviour is Crash:
   * `interior_coords[(uint64_t)(j * frac)]` outside the allocation, or a cast of a value outside
     [0, 2^64), is Crash (FractureCutsProofs.fracture_cuts_no_crash: never reached on finite input);
   * the first scan is bounded since commit e912cb9 (`interior_coords.items < coords + num_points &&`).
     Before, `while (interior_coords.items[0] == coords[0]) ++interior_coords.items;` had no bound and
     read past the `coords` allocation when all chosen-axis coordinates were equal: that code is kept
     as scan_front_unrepaired / fracture_cuts_unrepaired (regression witness
     fracture_cuts_unrepaired_refuted).
   uint64_t arithmetic is N arithmetic modulo 2^64 (`num_points - (items - coords)`). *)
Require Import Base Generated Sort.
From Flocq Require Import Core BinarySingleNaN Binary Bits.
Local Open Scope Z_scope.

Definition dbl := binary64.

Definition d_max  : dbl := b64_of_bits 9218868437227405311.    (* 0x7FEFFFFFFFFFFFFF  DBL_MAX *)
Definition d_nmax : dbl := b64_of_bits 18442240474082181119.   (* 0xFFEFFFFFFFFFFFFF -DBL_MAX *)
Definition d_half : dbl := b64_of_bits 4602678819172646912.    (* 0x3FE0000000000000  0.5 *)
Definition d_one  : dbl := b64_of_bits 4607182418800017408.    (* 0x3FF0000000000000  1.0 *)

Definition d_finite (x : dbl) : bool := is_finite 53 1024 x.

(* IEEE comparisons *)
Definition dlt (a b : dbl) : bool := match b64_compare a b with Some Lt => true | _ => false end.  (* a < b *)
Definition dgt (a b : dbl) : bool := match b64_compare a b with Some Gt => true | _ => false end.  (* a > b *)
Definition deq (a b : dbl) : bool := match b64_compare a b with Some Eq => true | _ => false end.  (* a == b *)

(* the comparator given to Sort.sort: default_sorted<double>(a, b) = a < b, made total (see above) *)
Definition fin (x : dbl) : dbl := if d_finite x then x else B754_zero 53 1024 false.
Definition dlt_fin (a b : dbl) : bool := dlt (fin a) (fin b).

(* (double)u for a uint64_t u: round to nearest even *)
Definition d_of_uint (n : N) : dbl :=
  Binary.binary_normalize 53 1024 eq_refl eq_refl mode_NE (Z.of_N n) 0 false.

(* (uint64_t)x: truncation toward zero; undefined outside [0, 2^64) and for NaN / infinities *)
Definition d_to_uint64 (x : dbl) : outcome N :=
  if d_finite x then
    let t := Btrunc 53 1024 x in
    if (0 <=? t) && (t <? 2 ^ 64) then Ok (Z.to_N t) else Crash
  else Crash.

Definition dpoint := (dbl * dbl)%type.

(* ------------------------------------------------------------------ Polygon::bounding_box *)
(*  min.x = min.y = DBL_MAX; max.x = max.y = -DBL_MAX;
    for each p: if (p->x < min.x) min.x = p->x; if (p->x > max.x) max.x = p->x; (same for y)
    (the subject of fracture is a bare copy of the point array: repetition.type == None) *)
Record bbox := mk_bbox { bb_minx : dbl; bb_miny : dbl; bb_maxx : dbl; bb_maxy : dbl }.

Definition bb_init : bbox := mk_bbox d_max d_max d_nmax d_nmax.

Definition bb_step (b : bbox) (p : dpoint) : bbox :=
  mk_bbox (if dlt (fst p) (bb_minx b) then fst p else bb_minx b)
          (if dlt (snd p) (bb_miny b) then snd p else bb_miny b)
          (if dgt (fst p) (bb_maxx b) then fst p else bb_maxx b)
          (if dgt (snd p) (bb_maxy b) then snd p else bb_maxy b).

Definition bounding_box (pts : list dpoint) : bbox := fold_left bb_step pts bb_init.

(*  if (max.x - min.x > max.y - min.y) x_axis = true; else x_axis = false;  *)
Definition choose_x_axis (bb : bbox) : bool :=
  dgt (b64_minus mode_NE (bb_maxx bb) (bb_minx bb)) (b64_minus mode_NE (bb_maxy bb) (bb_miny bb)).

(* ------------------------------------------------------------------ the two scans *)
(*  Array<double> interior_coords = {0, 0, coords};
    while (interior_coords.items < coords + num_points && interior_coords.items[0] == coords[0])
        ++interior_coords.items;
    `l` is what is left of the allocation from interior_coords.items on, `k` = items - coords;
    `l = []` is `interior_coords.items == coords + num_points`: the loop stops there. *)
Fixpoint scan_front (c0 : dbl) (l : list dbl) (k : N) : outcome N :=
  match l with
  | [] => Ok k
  | x :: t => if deq x c0 then scan_front c0 t (k + 1)%N else Ok k
  end.

(* the loop before commit e912cb9: `while (interior_coords.items[0] == coords[0]) ++interior_coords.items;`
   No bound: the read past the last element is Crash. *)
Fixpoint scan_front_unrepaired (c0 : dbl) (l : list dbl) (k : N) : outcome N :=
  match l with
  | [] => Crash
  | x :: t => if deq x c0 then scan_front_unrepaired c0 t (k + 1)%N else Ok k
  end.

(*  while (interior_coords.count > 0 &&
           interior_coords.items[interior_coords.count - 1] == coords[num_points - 1])
        --interior_coords.count;
    `interior` is the allocation from interior_coords.items on (bounds-checked reads). *)
Fixpoint scan_back (fuel : nat) (interior : list dbl) (clast : dbl) (count : N) : outcome N :=
  match fuel with
  | O => Hang
  | S f =>
      if (0 <? count)%N then
        obind (get interior (Z.of_N count - 1)) (fun x =>
          if deq x clast then scan_back f interior clast (count - 1)%N else Ok count)
      else Ok count
  end.

(* ------------------------------------------------------------------ the three cut rules *)
(*  cuts.append((coords[0] + coords[num_points - 1]) * 0.5);  *)
Definition midpoint (c0 clast : dbl) : dbl := b64_mult mode_NE (b64_plus mode_NE c0 clast) d_half.

(*  const double frac = interior_coords.count / (num_cuts + 1.0);  *)
Definition cut_frac (count num_cuts : N) : dbl :=
  b64_div mode_NE (d_of_uint count) (b64_plus mode_NE (d_of_uint num_cuts) d_one).

(*  (uint64_t)(j * frac)  *)
Definition cut_index (frac : dbl) (j : N) : outcome N :=
  d_to_uint64 (b64_mult mode_NE (d_of_uint j) frac).

(*  for (uint64_t j = 1; j <= num_cuts; j++) cuts.append(interior_coords[(uint64_t)(j * frac)]);
    n = rounds left *)
Fixpoint cut_loop (interior : list dbl) (frac : dbl) (j : N) (n : nat) : outcome (list dbl) :=
  match n with
  | O => Ok []
  | S n' =>
      obind (cut_index frac j) (fun idx =>
      obind (get interior (Z.of_N idx)) (fun c =>
      obind (cut_loop interior frac (j + 1)%N n') (fun rest => Ok (c :: rest))))
  end.

(*  if (interior_coords.count == 0)              cuts = [midpoint]
    else if (interior_coords.count <= num_cuts)  cuts.extend(interior_coords)   (count items)
    else                                         the frac loop                                   *)
Definition choose_cuts (c0 clast : dbl) (interior : list dbl) (count num_cuts : N) : outcome (list dbl) :=
  if (count =? 0)%N then Ok [midpoint c0 clast]
  else if (count <=? num_cuts)%N then
    (if (count <=? N.of_nat (length interior))%N then Ok (firstn (N.to_nat count) interior) else Crash)
  else cut_loop interior (cut_frac count num_cuts) 1%N (N.to_nat num_cuts).

(* from the sorted coordinates to the cut list; `scan` is the first scan (repaired or not) *)
Definition cuts_of_sorted_with (scan : dbl -> list dbl -> N -> outcome N)
                               (sorted : list dbl) (num_points num_cuts : N) : outcome (list dbl) :=
  obind (get sorted 0) (fun c0 =>
  obind (get sorted (Z.of_N num_points - 1)) (fun clast =>
  obind (scan c0 sorted 0%N) (fun k =>
    let interior := skipn (N.to_nat k) sorted in
    (* interior_coords.count = num_points - (interior_coords.items - coords);   (uint64_t) *)
    let count0 := ((num_points + 2 ^ 64 - k) mod 2 ^ 64)%N in
    obind (scan_back (S (length interior)) interior clast count0) (fun count =>
      choose_cuts c0 clast interior count num_cuts)))).

Definition cuts_of_sorted := cuts_of_sorted_with scan_front.

(* ------------------------------------------------------------------ one round of the loop *)
Inductive cuts_result :=
| NoCut                                      (* no call of slice: limit <= 4, or num_points <= max_points *)
| Cuts (x_axis : bool) (cuts : list dbl).    (* slice(subj, cuts, x_axis, scaling, chopped) *)

Definition pt_finite (p : dpoint) : bool := d_finite (fst p) && d_finite (snd p).

Definition axis_coords (x_axis : bool) (pts : list dpoint) : list dbl :=
  map (fun p : dpoint => if x_axis then fst p else snd p) pts.

Definition fracture_cuts_with (scan : dbl -> list dbl -> N -> outcome N)
                              (max_points : N) (pts : list dpoint) : outcome cuts_result :=
  let num_points := N.of_nat (length pts) in
  if negb (forallb pt_finite pts) then ErrInvalid            (* outside the model *)
  else if (max_points <=? 4)%N then Ok NoCut                 (* if (max_points <= 4) return; *)
  else if (num_points <=? max_points)%N then Ok NoCut        (* if (num_points <= max_points) { i++; continue; } *)
  else
    let bb := bounding_box pts in
    let num_cuts := (num_points / max_points)%N in
    let x_axis := choose_x_axis bb in
    let coords := axis_coords x_axis pts in
    obind (Sort.sort dlt_fin coords) (fun sorted =>
    obind (cuts_of_sorted_with scan sorted num_points num_cuts) (fun cuts =>
      Ok (Cuts x_axis cuts))).

Definition fracture_cuts := fracture_cuts_with scan_front.
(* the code before commit e912cb9 *)
Definition fracture_cuts_unrepaired := fracture_cuts_with scan_front_unrepaired.

(* text <-> bits for the driver *)
Definition dbl_of_bits (b : N) : dbl := b64_of_bits (Z.of_N b).
Definition bits_of_dbl (x : dbl) : N := Z.to_N (bits_of_b64 x).

(* ------------------------------------------------------------------ vocabulary of the theorems *)
From Coq Require Import Reals Sorted.

Notation R64 := (B2R 53 1024).                 (* the real number a finite double stands for *)

(* finite and below 2^1023 in magnitude: sums and differences of two such doubles do not overflow *)
Definition d_small (x : dbl) : Prop := d_finite x = true /\ (Rabs (R64 x) < bpow radix2 1023)%R.
Definition pt_small (p : dpoint) : Prop := d_small (fst p) /\ d_small (snd p).

Definition all_fin (l : list dbl) : Prop := Forall (fun x => d_finite x = true) l.
Definition nondecr (l : list dbl) : Prop := StronglySorted (fun a b => (R64 a <= R64 b)%R) l.

(* what Polygon::fracture hands to slice, in terms of the chosen-axis coordinates `coords` of the subject:
   lo / hi are a smallest and a largest coordinate; between one and num_cuts cuts, finite, non-decreasing; either the single
   midpoint (when no coordinate lies strictly between lo and hi) or coordinates of the subject strictly between lo and hi *)
Definition cuts_spec (coords cs : list dbl) (num_cuts : N) : Prop :=
  exists lo hi, In lo coords /\ In hi coords /\
    (forall c, In c coords -> (R64 lo <= R64 c <= R64 hi)%R) /\ (R64 lo < R64 hi)%R /\
    (1 <= length cs)%nat /\ (N.of_nat (length cs) <= num_cuts)%N /\ all_fin cs /\ nondecr cs /\
    ((cs = [midpoint lo hi] /\ forall c, In c coords -> R64 c = R64 lo \/ R64 c = R64 hi)
     \/ Forall (fun c => In c coords /\ (R64 lo < R64 c < R64 hi)%R) cs).

(* all the vertices are one point *)
Definition one_point (pts : list dpoint) : Prop :=
  forall p q, In p pts -> In q pts -> R64 (fst p) = R64 (fst q) /\ R64 (snd p) = R64 (snd q).
Definition all_equal (coords : list dbl) : Prop :=
  forall c c', In c coords -> In c' coords -> R64 c = R64 c'.

(* ------------------------------------------------------------------ the integer grid slice works on (progress of the loop) *)
Require Import Winding ClipGlue.

Definition coordZ (x_axis : bool) (p : Winding.point) : Z := if x_axis then fst p else snd p.

Fixpoint zmin (a : Z) (l : list Z) : Z := match l with [] => a | x :: t => zmin (Z.min a x) t end.
Fixpoint zmax (a : Z) (l : list Z) : Z := match l with [] => a | x :: t => zmax (Z.max a x) t end.

(* smallest / largest coordinate of a grid polygon on an axis (0 for the empty vertex list), its extent *)
Definition axis_lo (x_axis : bool) (p : polygon) : Z :=
  match map (coordZ x_axis) p with [] => 0 | a :: t => zmin a t end.
Definition axis_hi (x_axis : bool) (p : polygon) : Z :=
  match map (coordZ x_axis) p with [] => 0 | a :: t => zmax a t end.
Definition extent (x_axis : bool) (p : polygon) : Z := axis_hi x_axis p - axis_lo x_axis p.

(* the termination measure: extent in x plus extent in y, in grid units *)
Definition extent_sum (p : polygon) : nat := Z.to_nat (extent true p + extent false p).

(* one round of fracture on the grid: slice at the chosen cuts, every strip through Clipper (`clip_strip`, an oracle),
   the pieces of all strips collected (`result.extend(chopped[j])`) *)
Definition grid_chop (clip_strip : polygon -> bool -> Z -> Z -> list polygon)
                     (cut_choice : polygon -> bool * list Z) (subj : polygon) : list polygon :=
  let ax := fst (cut_choice subj) in
  flat_map (fun s : option (Z * Z) => match s with None => [] | Some (lo, hi) => clip_strip subj ax lo hi end)
           (strips (axis_lo ax subj) (axis_hi ax subj) (snd (cut_choice subj))).

(* number of rounds the loop spends on p and everything cut from it, to depth d *)
Fixpoint frac_cost (chop : polygon -> list polygon) (max_points : nat) (d : nat) (p : polygon) : nat :=
  match d with
  | O => 1%nat
  | S d' => if Nat.leb (length p) max_points then 1%nat
            else S (list_sum (map (frac_cost chop max_points d') (chop p)))
  end.
