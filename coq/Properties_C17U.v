(* C17U (to be merged into C17) - the floating-point unit arithmetic of read_gds / gds_units (coq/GdsUnits.v, Flocq binary64):
   gdsii_real_to_double, UNITS record (factor / unit / precision / tolerance), coordinate map, gds_units; loading with a
   target unit versus loading natively and rescaling.  Theorem-only file: every proof is `exact <lemma>`;
   Print Assumptions under each. *)
Require Import Base OasisInt GdsReal GdsRealProofs OasisReal OasisRealProofs OasisReal2Proofs GdsUnits GdsUnitsProofs GdsUnitsRound.
From Coq Require Import Reals.
From Flocq Require Import Core BinarySingleNaN Binary Bits.
Local Open Scope Z_scope.

(* gdsii_real_to_double, every 64-bit pattern: finite, sign bit of the pattern, value +- round_NE(M) * 2^k for the
   fields (neg, M, k) of the exact GDSII value +- M * 2^k: no overflow, no underflow, one rounding (of the mantissa) *)
Theorem gds_real_to_b64_correct_thm : forall real, (real < 2 ^ 64)%N ->
  let '(neg, M, k) := gds_decode_dy real in
  let d := gds_real_to_b64 real in
  is_finite 53 1024 d = true
  /\ B2R 53 1024 d = ((if neg then -1 else 1)
                      * (round radix2 (FLT_exp (-1074) 53) ZnearestE (IZR (Z.of_N M)) * bpow radix2 k))%R
  /\ Bsign 53 1024 d = neg
  /\ (M < 2 ^ 56)%N /\ -312 <= k <= 196 /\ (k + 312) mod 4 = 0.
Proof. exact gds_real_to_b64_correct_lemma. Qed.
Print Assumptions gds_real_to_b64_correct_thm.

(* mantissas of at most 53 significant bits: the double IS the GDSII value *)
Theorem gds_real_to_b64_exact_thm : forall real, (real < 2 ^ 64)%N ->
  let '(neg, M, k) := gds_decode_dy real in
  (exists m s, (m < 2 ^ 53)%N /\ M = (m * 2 ^ s)%N) ->
  B2R 53 1024 (gds_real_to_b64 real) = ((if neg then -1 else 1) * (IZR (Z.of_N M) * bpow radix2 k))%R.
Proof. exact gds_real_to_b64_exact_lemma. Qed.
Print Assumptions gds_real_to_b64_exact_thm.

(* the bit-level rounding of C19's dyadic model is round-to-nearest-even of binary64 ... *)
Theorem rnd64_round53_thm : forall m,
  round radix2 (FLT_exp (-1074) 53) ZnearestE (IZR (Z.of_N m)) = IZR (Z.of_N (round53 m)).
Proof. exact rnd64_round53_lemma. Qed.
Print Assumptions rnd64_round53_thm.

(* ... so the Flocq model and the dyadic model of gdsii_real_to_double denote the same number for every pattern *)
Theorem gds_real_models_agree_thm : forall real, (real < 2 ^ 64)%N ->
  let '(neg, m, k) := gds_to_double_dy real in
  B2R 53 1024 (gds_real_to_b64 real) = ((if neg then -1 else 1) * (IZR (Z.of_N m) * bpow radix2 k))%R.
Proof. exact gds_real_models_agree_lemma. Qed.
Print Assumptions gds_real_models_agree_thm.

(* (b) gds_units against the full load: same precision always; same unit bit for bit on a native load (one division
   db_in_meters / db_in_user in both readers); with a target unit the library keeps the argument and
   factor = precision / unit; the default tolerance is precision / library.unit *)
Theorem gds_units_agrees_thm : forall unit tol r0 r1,
  let s := read_gds_units unit tol r0 r1 in
  let q := gds_units_model r0 r1 in
  us_precision s = snd q
  /\ (b64_gt0 unit = false -> us_unit s = fst q /\ us_factor s = gds_real_to_b64 r0)
  /\ (b64_gt0 unit = true -> us_unit s = unit /\ us_factor s = b64_div mode_NE (snd q) unit)
  /\ (b64_le0 tol = true -> us_tolerance s = b64_div mode_NE (us_precision s) (us_unit s))
  /\ (b64_le0 tol = false -> us_tolerance s = tol).
Proof. exact gds_units_agrees_lemma. Qed.
Print Assumptions gds_units_agrees_thm.

Theorem gds_units_value_thm : forall r0 r1,
  (r0 < 2 ^ 64)%N -> (r1 < 2 ^ 64)%N ->
  (let '(neg, M, _) := gds_decode_dy r0 in neg = false /\ M <> 0%N) ->
  (let '(neg, M, _) := gds_decode_dy r1 in neg = false /\ M <> 0%N) ->
  let '(unit, precision) := gds_units_model r0 r1 in
  precision = gds_real_to_b64 r1
  /\ is_finite 53 1024 unit = true /\ Bsign 53 1024 unit = false
  /\ B2R 53 1024 unit = round radix2 (FLT_exp (-1074) 53) ZnearestE
                          (B2R 53 1024 (gds_real_to_b64 r1) / B2R 53 1024 (gds_real_to_b64 r0)).
Proof. exact gds_units_value_lemma. Qed.
Print Assumptions gds_units_value_thm.

(* (c) the coordinate map is strictly monotone on int32 (factor a normal positive double up to 2^992) *)
Theorem gds_coord_monotone_thm : forall f z1 z2,
  is_finite 53 1024 f = true -> (bpow radix2 (-1022) <= B2R 53 1024 f <= bpow radix2 992)%R ->
  - 2 ^ 31 <= z1 -> z1 < z2 -> z2 <= 2 ^ 31 ->
  is_finite 53 1024 (gds_coord f z1) = true /\ is_finite 53 1024 (gds_coord f z2) = true
  /\ (B2R 53 1024 (gds_coord f z1) < B2R 53 1024 (gds_coord f z2))%R
  /\ b64_compare (gds_coord f z1) (gds_coord f z2) = Some Lt.
Proof. exact gds_coord_monotone_lemma. Qed.
Print Assumptions gds_coord_monotone_thm.

Theorem gds_coord_injective_thm : forall f z1 z2,
  is_finite 53 1024 f = true -> (bpow radix2 (-1022) <= B2R 53 1024 f <= bpow radix2 992)%R ->
  - 2 ^ 31 <= z1 <= 2 ^ 31 -> - 2 ^ 31 <= z2 <= 2 ^ 31 ->
  gds_coord f z1 = gds_coord f z2 -> z1 = z2.
Proof. exact gds_coord_injective_lemma. Qed.
Print Assumptions gds_coord_injective_thm.

(* (a) target unit versus native load + rescaling: both finite, sign of z, the real formulas of the two doubles, and
   relative difference at most 6 * 2^-53 + 8 * 2^-106 of the exact value dm * z / unit *)
Theorem rescale_close_thm : forall du dm unit z,
  is_finite 53 1024 du = true -> is_finite 53 1024 dm = true -> is_finite 53 1024 unit = true ->
  (bpow radix2 (-312) <= B2R 53 1024 du <= bpow radix2 252)%R ->
  (bpow radix2 (-312) <= B2R 53 1024 dm <= bpow radix2 252)%R ->
  (bpow radix2 (-200) <= B2R 53 1024 unit <= bpow radix2 200)%R ->
  - 2 ^ 31 <= z <= 2 ^ 31 ->
  let direct := gds_coord (b64_div mode_NE dm unit) z in
  let resc := rescale (rescale_factor (b64_div mode_NE dm du) unit) (gds_coord du z) in
  let x := (B2R 53 1024 dm * IZR z / B2R 53 1024 unit)%R in
  let rnd := round radix2 (FLT_exp (-1074) 53) ZnearestE in
  is_finite 53 1024 direct = true /\ is_finite 53 1024 resc = true
  /\ Bsign 53 1024 direct = (z <? 0) /\ Bsign 53 1024 resc = (z <? 0)
  /\ B2R 53 1024 direct = rnd (rnd (B2R 53 1024 dm / B2R 53 1024 unit) * IZR z)%R
  /\ B2R 53 1024 resc = rnd (rnd (B2R 53 1024 du * IZR z)
                             * rnd (rnd (B2R 53 1024 dm / B2R 53 1024 du) / B2R 53 1024 unit))%R
  /\ (Rabs (B2R 53 1024 resc - B2R 53 1024 direct)
      <= (6 * bpow radix2 (-53) + 8 * (bpow radix2 (-53) * bpow radix2 (-53))) * Rabs x)%R.
Proof. exact rescale_close_lemma. Qed.
Print Assumptions rescale_close_thm.

(* in units in the last place of the exact value: fewer than 7 *)
Theorem rescale_close_ulp_thm : forall du dm unit z,
  is_finite 53 1024 du = true -> is_finite 53 1024 dm = true -> is_finite 53 1024 unit = true ->
  (bpow radix2 (-312) <= B2R 53 1024 du <= bpow radix2 252)%R ->
  (bpow radix2 (-312) <= B2R 53 1024 dm <= bpow radix2 252)%R ->
  (bpow radix2 (-200) <= B2R 53 1024 unit <= bpow radix2 200)%R ->
  - 2 ^ 31 <= z <= 2 ^ 31 ->
  let direct := gds_coord (b64_div mode_NE dm unit) z in
  let resc := rescale (rescale_factor (b64_div mode_NE dm du) unit) (gds_coord du z) in
  (Rabs (B2R 53 1024 resc - B2R 53 1024 direct)
   < 7 * ulp radix2 (FLT_exp (-1074) 53) (B2R 53 1024 dm * IZR z / B2R 53 1024 unit))%R.
Proof. exact rescale_close_ulp_lemma. Qed.
Print Assumptions rescale_close_ulp_thm.

(* EQUAL when db_in_user is a power of two *)
Theorem rescale_equal_pow2_user_thm : forall du dm unit z,
  is_finite 53 1024 du = true -> is_finite 53 1024 dm = true -> is_finite 53 1024 unit = true ->
  (bpow radix2 (-312) <= B2R 53 1024 du <= bpow radix2 252)%R ->
  (bpow radix2 (-312) <= B2R 53 1024 dm <= bpow radix2 252)%R ->
  (bpow radix2 (-200) <= B2R 53 1024 unit <= bpow radix2 200)%R ->
  - 2 ^ 31 <= z <= 2 ^ 31 ->
  (exists a, B2R 53 1024 du = bpow radix2 a) ->
  rescale (rescale_factor (b64_div mode_NE dm du) unit) (gds_coord du z) = gds_coord (b64_div mode_NE dm unit) z.
Proof. exact rescale_equal_pow2_user_lemma. Qed.
Print Assumptions rescale_equal_pow2_user_thm.

(* EQUAL when both ratios (library.unit = dm / du, and library.unit / unit) are powers of two *)
Theorem rescale_equal_pow2_ratios_thm : forall du dm unit z,
  is_finite 53 1024 du = true -> is_finite 53 1024 dm = true -> is_finite 53 1024 unit = true ->
  (bpow radix2 (-312) <= B2R 53 1024 du <= bpow radix2 252)%R ->
  (bpow radix2 (-312) <= B2R 53 1024 dm <= bpow radix2 252)%R ->
  (bpow radix2 (-200) <= B2R 53 1024 unit <= bpow radix2 200)%R ->
  - 2 ^ 31 <= z <= 2 ^ 31 ->
  (exists a c, (B2R 53 1024 dm / B2R 53 1024 du = bpow radix2 a)%R /\ (bpow radix2 a / B2R 53 1024 unit = bpow radix2 c)%R) ->
  rescale (rescale_factor (b64_div mode_NE dm du) unit) (gds_coord du z) = gds_coord (b64_div mode_NE dm unit) z.
Proof. exact rescale_equal_pow2_ratios_lemma. Qed.
Print Assumptions rescale_equal_pow2_ratios_thm.

(* the same on read_gds's own state, for any UNITS record with two positive reals and any target unit in 2^-200 .. 2^200 *)
Theorem rescale_close_read_gds_thm : forall real0 real1 unit tol z,
  (real0 < 2 ^ 64)%N -> (real1 < 2 ^ 64)%N ->
  (let '(neg, M, _) := gds_decode_dy real0 in neg = false /\ M <> 0%N) ->
  (let '(neg, M, _) := gds_decode_dy real1 in neg = false /\ M <> 0%N) ->
  is_finite 53 1024 unit = true -> (bpow radix2 (-200) <= B2R 53 1024 unit <= bpow radix2 200)%R ->
  - 2 ^ 31 <= z <= 2 ^ 31 ->
  let sT := read_gds_units unit tol real0 real1 in
  let sN := read_gds_units b64_zero tol real0 real1 in
  let direct := gds_coord (us_factor sT) z in
  let resc := rescale (rescale_factor (us_unit sN) (us_unit sT)) (gds_coord (us_factor sN) z) in
  us_unit sT = unit /\ us_precision sT = us_precision sN
  /\ is_finite 53 1024 direct = true /\ is_finite 53 1024 resc = true
  /\ (Rabs (B2R 53 1024 resc - B2R 53 1024 direct)
      <= (6 * bpow radix2 (-53) + 8 * (bpow radix2 (-53) * bpow radix2 (-53)))
         * Rabs (B2R 53 1024 (us_precision sN) * IZR z / B2R 53 1024 unit))%R
  /\ ((exists a, B2R 53 1024 (us_factor sN) = bpow radix2 a) -> resc = direct).
Proof. exact rescale_close_read_gds_lemma. Qed.
Print Assumptions rescale_close_read_gds_thm.
