(* C04R (to be merged into C04 / C02) - the statement-level model of gdstk's OASIS reader `read_oas` accepts the
   specification.  Theorem-only file: every proof is `exact <lemma>`; Print Assumptions under each. *)
Require Import Base OasisInt OasisSpec OasisRead OasisReadProofs Generated.
From Coq Require Import Lia.
Local Open Scope N_scope.

(* tie (generated): the record, repetition, point-list and data-type codes of today's source are the literals the
   reader model switches on; the error codes it distinguishes exist *)
Theorem c04r_source_constants :
  (OasisRecord_PAD, OasisRecord_START, OasisRecord_END, OasisRecord_CELLNAME_IMPLICIT, OasisRecord_CELLNAME,
   OasisRecord_TEXTSTRING_IMPLICIT, OasisRecord_TEXTSTRING, OasisRecord_PROPNAME_IMPLICIT, OasisRecord_PROPNAME,
   OasisRecord_PROPSTRING_IMPLICIT, OasisRecord_PROPSTRING, OasisRecord_LAYERNAME_DATA, OasisRecord_LAYERNAME_TEXT,
   OasisRecord_CELL_REF_NUM, OasisRecord_CELL, OasisRecord_XYABSOLUTE, OasisRecord_XYRELATIVE, OasisRecord_PLACEMENT,
   OasisRecord_PLACEMENT_TRANSFORM, OasisRecord_TEXT, OasisRecord_RECTANGLE, OasisRecord_POLYGON, OasisRecord_PATH,
   OasisRecord_TRAPEZOID_AB, OasisRecord_TRAPEZOID_A, OasisRecord_TRAPEZOID_B, OasisRecord_CTRAPEZOID,
   OasisRecord_CIRCLE, OasisRecord_PROPERTY, OasisRecord_LAST_PROPERTY, OasisRecord_XNAME_IMPLICIT, OasisRecord_XNAME,
   OasisRecord_XELEMENT, OasisRecord_XGEOMETRY, OasisRecord_CBLOCK) =
  (0, 1, 2, 3, 4, 5, 6, 7, 8, 9, 10, 11, 12, 13, 14, 15, 16, 17, 18, 19, 20, 21, 22, 23, 24, 25, 26, 27, 28, 29,
   30, 31, 32, 33, 34)
  /\ (OasisRepetition_Previous, OasisRepetition_Rectangular, OasisRepetition_RectangularX, OasisRepetition_RectangularY,
      OasisRepetition_ExplicitX, OasisRepetition_ExplicitXGrid, OasisRepetition_ExplicitY, OasisRepetition_ExplicitYGrid,
      OasisRepetition_Regular, OasisRepetition_Linear, OasisRepetition_Explicit, OasisRepetition_ExplicitGrid) =
     (0, 1, 2, 3, 4, 5, 6, 7, 8, 9, 10, 11)
  /\ (OasisPointList_ManhattanHorizontalFirst, OasisPointList_ManhattanVerticalFirst, OasisPointList_Manhattan,
      OasisPointList_Octangular, OasisPointList_General, OasisPointList_Relative) = (0, 1, 2, 3, 4, 5)
  /\ (OasisDataType_RealPositiveInteger, OasisDataType_RealNegativeInteger, OasisDataType_RealPositiveReciprocal,
      OasisDataType_RealNegativeReciprocal, OasisDataType_RealPositiveRatio, OasisDataType_RealNegativeRatio,
      OasisDataType_RealFloat, OasisDataType_RealDouble, OasisDataType_UnsignedInteger, OasisDataType_SignedInteger,
      OasisDataType_AString, OasisDataType_BString, OasisDataType_NString, OasisDataType_ReferenceA,
      OasisDataType_ReferenceB, OasisDataType_ReferenceN) = (0, 1, 2, 3, 4, 5, 6, 7, 8, 9, 10, 11, 12, 13, 14, 15)
  /\ (ErrorCode_NoError, ErrorCode_MissingReference, ErrorCode_UnsupportedRecord, ErrorCode_Overflow,
      ErrorCode_InputFileError, ErrorCode_InvalidFile) = (0, 4, 5, 8, 12, 14).
Proof. repeat split; reflexivity. Qed.
Print Assumptions c04r_source_constants.

(* the vertex switch of the CTRAPEZOID case, regenerated from the source, is the specification table the reader model
   evaluates *)
Theorem c04r_ctrapezoid_table : Generated.ctrap_table = spec_ctrap_table.
Proof. exact ctrap_table_eq. Qed.
Print Assumptions c04r_ctrapezoid_table.

(* the covered decoder is a restriction of the strict decoder *)
Theorem cov_refines_spec : forall bs L, cov_oas_decode bs = Some L -> spec_oas_decode bs = Some L.
Proof. exact cov_refines_spec_lemma. Qed.
Print Assumptions cov_refines_spec.

(* MAIN: every stream of the strict decoder that is covered is loaded by the reader model to the layout the
   decoder assigns (for ALL byte streams) *)
Theorem oas_reader_accepts_spec_partial : forall bs L,
  spec_oas_decode bs = Some L -> covered bs -> read_oas_model bs = Ok (view L).
Proof. exact oas_reader_accepts_spec_partial_lemma. Qed.
Print Assumptions oas_reader_accepts_spec_partial.

Theorem cov_reader_ok : forall bs L, cov_oas_decode bs = Some L -> read_oas_model bs = Ok (view L).
Proof. exact cov_reader_ok_lemma. Qed.
Print Assumptions cov_reader_ok.

(* the unrestricted statement is false *)
Theorem oas_reader_accepts_spec_refuted :
  exists bs L, spec_oas_decode bs = Some L /\ read_oas_model bs <> Ok (view L).
Proof. exact oas_reader_accepts_spec_refuted_lemma. Qed.
Print Assumptions oas_reader_accepts_spec_refuted.

(* ---- per record: the covered strict decoder and the reader's branch give the same element and related modal
   variables (modal_rel) *)
Theorem reader_rectangle : forall m q info bs e m' bs',
  modal_rel m q -> cov_rectangle m (info :: bs) = Some (e, m', bs') ->
  exists q', m_rectangle q info (mkS bs None) = ROk (welem e, q') (mkS bs' None) /\ modal_rel m' q'.
Proof. exact rd_rectangle_ok. Qed.
Print Assumptions reader_rectangle.
Theorem reader_polygon : forall m q info bs e m' bs',
  modal_rel m q -> cov_polygon m (info :: bs) = Some (e, m', bs') ->
  exists q', m_polygon q info (mkS bs None) = ROk (welem e, q') (mkS bs' None) /\ modal_rel m' q'.
Proof. exact rd_polygon_ok. Qed.
Print Assumptions reader_polygon.
Theorem reader_path : forall m q info bs e m' bs',
  modal_rel m q -> cov_path m (info :: bs) = Some (e, m', bs') ->
  exists q', m_path q info (mkS bs None) = ROk (welem e, q') (mkS bs' None) /\ modal_rel m' q'.
Proof. exact rd_path_ok. Qed.
Print Assumptions reader_path.
Theorem reader_trapezoid : forall code m q info bs e m' bs',
  modal_rel m q -> cov_trapezoid code m (info :: bs) = Some (e, m', bs') ->
  exists q', m_trapezoid code q info (mkS bs None) = ROk (welem e, q') (mkS bs' None) /\ modal_rel m' q'.
Proof. exact rd_trapezoid_ok. Qed.
Print Assumptions reader_trapezoid.
Theorem reader_ctrapezoid : forall any25 m q info bs e m' bs',
  modal_rel m q -> cov_ctrapezoid_gen any25 m (info :: bs) = Some (e, m', bs') ->
  exists q', m_ctrapezoid q info (mkS bs None) = ROk (welem e, q') (mkS bs' None) /\ (any25 = false -> modal_rel m' q').
Proof. exact rd_ctrapezoid_ok. Qed.
Print Assumptions reader_ctrapezoid.
Theorem reader_circle : forall m q info bs e m' bs',
  modal_rel m q -> cov_circle m (info :: bs) = Some (e, m', bs') ->
  exists q', m_circle q info (mkS bs None) = ROk (welem e, q') (mkS bs' None) /\ modal_rel m' q'.
Proof. exact rd_circle_ok. Qed.
Print Assumptions reader_circle.
Theorem reader_text : forall m q info bs e m' bs',
  modal_rel m q -> cov_text m (info :: bs) = Some (e, m', bs') ->
  exists q', m_text q info (mkS bs None) = ROk (welem e, q') (mkS bs' None) /\ modal_rel m' q'.
Proof. exact rd_text_ok. Qed.
Print Assumptions reader_text.
Theorem reader_placement : forall code m q info bs e m' bs',
  modal_rel m q -> cov_placement code m (info :: bs) = Some (e, m', bs') ->
  exists q', m_placement code q info (mkS bs None) = ROk (welem e, q') (mkS bs' None) /\ modal_rel m' q'.
Proof. exact rd_placement_ok. Qed.
Print Assumptions reader_placement.
Theorem reader_property : forall m q info bs p m' bs',
  modal_rel m q -> cov_property 28 m (info :: bs) = Some (p, m', bs') ->
  exists q', m_property q info (mkS bs None) = ROk (wprop p, q') (mkS bs' None) /\ modal_rel m' q'.
Proof. exact rd_property_ok. Qed.
Print Assumptions reader_property.
Theorem reader_last_property : forall m q bs p m' bs',
  modal_rel m q -> cov_property 29 m bs = Some (p, m', bs') ->
  exists q', m_property q 8 (mkS bs None) = ROk (wprop p, q') (mkS bs' None) /\ modal_rel m' q'.
Proof. exact rd_last_property_ok. Qed.
Print Assumptions reader_last_property.

(* the helpers of the reader agree with the strict primitive decoders wherever these accept *)
Theorem reader_repetition : forall mr cur bs r rest,
  cov_rep mr bs = Some (r, rest) -> orep_rel mr cur -> s_rep cur (mkS bs None) = ROk (view_rep r) (mkS rest None).
Proof. exact s_rep_ok. Qed.
Print Assumptions reader_repetition.
Theorem reader_point_list : forall closed bs pts r,
  cov_plist closed bs = Some (pts, r) -> s_plist closed (mkS bs None) = ROk pts (mkS r None).
Proof. exact s_plist_ok. Qed.
Print Assumptions reader_point_list.

(* END: the strict decoder's resolution of reference numbers and the reader's three loops agree *)
Theorem reader_end : forall d st L, srel d st -> cov_finalize d = Some L -> finish st = Ok (view L).
Proof. exact finish_ok. Qed.
Print Assumptions reader_end.

(* tie (generated): the record switch of read_oas as it stands in library.cpp today - its case labels grouped by shared body -
   is the dispatch of the reader model: the same 35 record ids, nothing else handled (any other id is UnsupportedRecord) *)
Theorem read_oas_switch_as_modelled :
  read_oas_case_groups = [[0]; [1]; [2]; [3]; [4]; [5]; [6]; [7]; [8]; [9]; [10]; [11; 12]; [13; 14]; [15]; [16]; [17; 18]; [19]; [20];
                          [21]; [22]; [23; 24; 25]; [26]; [27]; [28; 29]; [30]; [31]; [32]; [33]; [34]].
Proof. reflexivity. Qed.
Print Assumptions read_oas_switch_as_modelled.

Theorem read_oas_model_dispatch_default : forall st s id,
  ~ In id (concat read_oas_case_groups) -> h_record st id s = H_stop C_unsupported st s.
Proof.
  intros st s id H. assert (Hgt : 34 < id).
  { destruct (N.ltb_spec 34 id) as [Hl|Hl]; [exact Hl|]. exfalso. apply H.
    assert (E : existsb (N.eqb id) (concat read_oas_case_groups) = true).
    { destruct id as [|p]; [reflexivity|]. do 6 (try (destruct p as [p|p|])); try reflexivity; lia. }
    apply existsb_exists in E. destruct E as (x & Hx & Ex). apply N.eqb_eq in Ex. subst x. exact Hx. }
  unfold h_record. destruct id as [|p]; [lia|].
  do 6 (try (destruct p as [p|p|])); try reflexivity; lia.
Qed.
Print Assumptions read_oas_model_dispatch_default.
