(* C18 — a truncated GDSII file is never read as complete.
   Theorem-only file.  The theorems hold for EVERY per-record semantics `step` of the common reader
   loop, hence for the full loader, the raw-cell loader, the summary, and the unit / timestamp queries. *)
Require Import Base GdsFrame GdsFrameProofs GdsModel GdsTrunc GdsRaw GdsRawProofs Generated.
Local Open Scope N_scope.

(* tie (generated): record codes at which the readers return, as in today's gdsii.hpp *)
Theorem c18_source_constants :
  (GdsiiRecord_BGNLIB, GdsiiRecord_UNITS, GdsiiRecord_ENDLIB) = (RT_BGNLIB, RT_UNITS, RT_ENDLIB).
Proof. reflexivity. Qed.
Print Assumptions c18_source_constants.

(* every cut before the end of the record at which the reader returns is a short-read error *)
Theorem reader_truncated_errors : forall (St Res : Type) (step : St -> grecord -> St + Res) st bs res rest n,
  reader St Res step st bs = Ok (res, rest) -> (n < length bs - length rest)%nat ->
  reader St Res step st (firstn n bs) = ErrEof.
Proof. exact reader_truncated_errors_lemma. Qed.
Print Assumptions reader_truncated_errors.

(* every cut at or after it gives exactly the complete file's result *)
Theorem reader_truncated_same : forall (St Res : Type) (step : St -> grecord -> St + Res) st bs res rest n,
  reader St Res step st bs = Ok (res, rest) -> (length bs - length rest <= n)%nat ->
  reader St Res step st (firstn n bs) = Ok (res, firstn (n - (length bs - length rest)) rest).
Proof. exact reader_truncated_same_lemma. Qed.
Print Assumptions reader_truncated_same.

(* so a prefix is never accepted with a different (shortened) result *)
Theorem reader_never_shortened : forall (St Res : Type) (step : St -> grecord -> St + Res) st bs res rest n res' rest',
  reader St Res step st bs = Ok (res, rest) -> reader St Res step st (firstn n bs) = Ok (res', rest') -> res' = res.
Proof. exact reader_never_shortened_lemma. Qed.
Print Assumptions reader_never_shortened.

(* the framing loop terminates on every byte string *)
Theorem reader_total : forall (St Res : Type) (step : St -> grecord -> St + Res) st bs,
  reader St Res step st bs <> Hang.
Proof. exact reader_total_lemma. Qed.
Print Assumptions reader_total.

(* instances named in the property *)
Theorem units_prefix : forall bs v rest n, gds_units_model bs = Ok (v, rest) ->
  gds_units_model (firstn n bs) = ErrEof \/ exists rest', gds_units_model (firstn n bs) = Ok (v, rest').
Proof.
  intros bs v rest n H. destruct (le_lt_dec (length bs - length rest) n) as [Hc|Hc].
  - right. eexists. exact (reader_truncated_same_lemma _ _ _ _ _ _ _ n H Hc).
  - left. exact (reader_truncated_errors_lemma _ _ _ _ _ _ _ n H Hc).
Qed.
Print Assumptions units_prefix.

Theorem timestamp_prefix : forall bs v rest n, gds_timestamp_model bs = Ok (v, rest) ->
  gds_timestamp_model (firstn n bs) = ErrEof \/ exists rest', gds_timestamp_model (firstn n bs) = Ok (v, rest').
Proof.
  intros bs v rest n H. destruct (le_lt_dec (length bs - length rest) n) as [Hc|Hc].
  - right. eexists. exact (reader_truncated_same_lemma _ _ _ _ _ _ _ n H Hc).
  - left. exact (reader_truncated_errors_lemma _ _ _ _ _ _ _ n H Hc).
Qed.
Print Assumptions timestamp_prefix.

(* what the writers emit is framed back record by record *)
Theorem frame_of_written_record : forall r rest,
  N.of_nat (length (payload r)) + 4 < 65536 -> rtype r < 256 -> dtype r < 256 ->
  next_record (rec_bytes r ++ rest) = Ok (r, rest).
Proof. exact next_record_rec_bytes. Qed.
Print Assumptions frame_of_written_record.

(* non-vacuity: a two-record file HEADER, ENDLIB *)
Example c18_nonvacuous :
  status_until RT_ENDLIB [0;6;0;2;2;88; 0;4;4;0] = Ok (tt, [])
  /\ status_until RT_ENDLIB (firstn 9 [0;6;0;2;2;88; 0;4;4;0]) = ErrEof.
Proof. split; vm_compute; reflexivity. Qed.

(* the same for the DATA-level models of the full loader, the summary scan and the raw-cell loader: a cut file gives a
   short-read error or exactly the complete file's library / summary / raw cells *)
Theorem read_gds_truncated_thm : forall (f : option (list (Z * Z))) (bs : bytes) (l : glib) (n : nat), read_gds_model f bs = Ok l -> read_gds_model f (firstn n bs) = ErrEof \/ read_gds_model f (firstn n bs) = Ok l.
Proof. exact (@read_gds_truncated_lemma). Qed.
Print Assumptions read_gds_truncated_thm.

Theorem read_gds_truncated_threshold_thm : forall (f : option (list (Z * Z))) (bs : bytes) (l : glib), read_gds_model f bs = Ok l -> exists k : nat, (k <= length bs)%nat /\ (forall n : nat, ((n < k)%nat -> read_gds_model f (firstn n bs) = ErrEof) /\ ((k <= n)%nat -> read_gds_model f (firstn n bs) = Ok l)).
Proof. exact (@read_gds_truncated_threshold_lemma). Qed.
Print Assumptions read_gds_truncated_threshold_thm.

Theorem gds_info_truncated_thm : forall (bs : bytes) (i : ginfo) (n : nat), gds_info_model bs = Ok i -> gds_info_model (firstn n bs) = ErrEof \/ gds_info_model (firstn n bs) = Ok i.
Proof. exact (@gds_info_truncated_lemma). Qed.
Print Assumptions gds_info_truncated_thm.

Theorem read_rawcells_truncated_thm : forall (bs : bytes) (res : rawres) (n : nat), read_rawcells_model bs = Ok res -> read_rawcells_model (firstn n bs) = ErrEof \/ read_rawcells_model (firstn n bs) = Ok res.
Proof. exact (@read_rawcells_truncated_lemma). Qed.
Print Assumptions read_rawcells_truncated_thm.

Theorem read_gds_total_thm : forall (f : option (list (Z * Z))) (bs : bytes), read_gds_model f bs <> Hang.
Proof. exact (@read_gds_total_lemma). Qed.
Print Assumptions read_gds_total_thm.

Theorem gds_info_total_thm : forall bs : bytes, gds_info_model bs <> Hang.
Proof. exact (@gds_info_total_lemma). Qed.
Print Assumptions gds_info_total_thm.

