(* extraction of the OASIS signature models (unit oas_sig) *)
Require Import Base Generated OasisInt GdsReal OasisReal OasisPlist Table PropList OasisSpec OasisWrite OasisSig.
Require Import Extraction ExtrOcamlBasic.
Extraction Blacklist List String Int.
Extraction "../ocaml/extracted/oas_sig.ml" crc32_update crc32_bitwise checksum32_update checksum32_spec
  oas_validate_model oas_validate_gen validate_spec write_end os_of_bytes write_oas_sig_model
  mkWCfg mkWLib mkWCell mkWPoly mkWPath mkWPel mkWLabel mkWRef
  Z.of_N. (* Z.of_N only so that the extracted module has the type z that ocaml/conv.ml mentions *)
