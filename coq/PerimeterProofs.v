(* Proofs about Perimeter.perimeter64, the bit-exact binary64 model of Polygon::perimeter.
   Main results (restated in Properties_C14P.v):
     perimeter_exact_input_lemma   integer coordinates |c| <= 2^24: the model equals the specification
                                   (every edge the correctly rounded sqrt of the exact integer, summed in order)
     edge_len_Z_correct_lemma, edge_len_Z_pythagorean_lemma
     perimeter_error_lemma         all finite inputs on the grid 2^-500 up to 2^500: finite, non-negative,
                                   |model - copies * exact sum| <= ((1+u)^(n+7) - 1) * copies * exact sum
     perimeter_short_lemma         +0 below three vertices
     exact_perimeter_rotate_lemma, exact_perimeter_rev_lemma   invariance of the exact sum
     perimeter_rotation_refuted, perimeter_reversal_refuted    the floating-point value is not invariant
     drift_refuted                 the running vertex of the loop leaves the stored vertices
   Axioms: the standard-library real-number axioms that Flocq / Reals bring in. *)
Require Import Base Perimeter.
From Coq Require Import Reals Lra Lia Psatz Rgeom.
From Flocq Require Import Core BinarySingleNaN Binary Bits Relative Plus_error.
Local Open Scope R_scope.

Notation B2R64 := (Binary.B2R 53 1024).
Notation fin64 := (Binary.is_finite 53 1024).
Definition fexp64 : Z -> Z := FLT_exp (-1074) 53.
Definition rnd (x : R) : R := round radix2 fexp64 ZnearestE x.
Notation fmt := (generic_format radix2 fexp64).
Definition u : R := bpow radix2 (-53).

Global Instance prec53_gt_0 : Prec_gt_0 53.
Proof. unfold Prec_gt_0. lia. Qed.
Global Instance fexp64_valid : Valid_exp fexp64.
Proof. unfold fexp64. apply FLT_exp_valid. unfold Prec_gt_0. lia. Qed.
Global Instance fexp64_monotone : Monotone_exp fexp64.
Proof. unfold fexp64. apply FLT_exp_monotone. Qed.

Lemma u_pos : 0 < u. Proof. apply bpow_gt_0. Qed.
Lemma u_small : u <= / 1024.
Proof. unfold u. apply Rle_trans with (bpow radix2 (-10)); [apply bpow_le; lia |].
  change (bpow radix2 (-10)) with (/ IZR (Z.pow_pos radix2 10)).
  replace (Z.pow_pos radix2 10) with 1024%Z by reflexivity. lra. Qed.

Lemma fmt_B2R : forall x : binary64, fmt (B2R64 x).
Proof. intros x. apply (Binary.generic_format_B2R 53 1024). Qed.

Lemma fmt_bpow : forall e, (-1074 <= e)%Z -> fmt (bpow radix2 e).
Proof. intros e He. unfold fexp64. apply generic_format_FLT_bpow; [unfold Prec_gt_0; lia | exact He]. Qed.

Lemma rnd_fmt : forall x, fmt (rnd x).
Proof. intros x. unfold rnd. apply generic_format_round; auto with typeclass_instances. Qed.
Lemma rnd_id : forall x, fmt x -> rnd x = x.
Proof. intros x H. unfold rnd. apply round_generic; auto with typeclass_instances. Qed.
Lemma rnd_0 : rnd 0 = 0.
Proof. unfold rnd. apply round_0. auto with typeclass_instances. Qed.
Lemma rnd_le : forall x y, x <= y -> rnd x <= rnd y.
Proof. intros x y H. unfold rnd. apply round_le; auto with typeclass_instances. Qed.
Lemma rnd_ge0 : forall x, 0 <= x -> 0 <= rnd x.
Proof. intros x H. rewrite <- rnd_0. now apply rnd_le. Qed.
Lemma rnd_abs_le : forall x y, fmt y -> Rabs x <= y -> Rabs (rnd x) <= y.
Proof. intros x y Fy H. unfold rnd. apply abs_round_le_generic; auto with typeclass_instances. Qed.
Lemma rnd_abs_le_bpow : forall x e, (-1074 <= e)%Z -> Rabs x <= bpow radix2 e -> Rabs (rnd x) <= bpow radix2 e.
Proof. intros x e He H. apply rnd_abs_le; [now apply fmt_bpow | exact H]. Qed.

(* ------------------------------------------------------------------ IEEE operations without overflow *)
Lemma rnd_unfold : forall x, round radix2 (SpecFloat.fexp 53 1024) (round_mode mode_NE) x = rnd x.
Proof. reflexivity. Qed.

Lemma no_overflow : forall x, Rabs x <= bpow radix2 1023 ->
  Rlt_bool (Rabs (rnd x)) (bpow radix2 1024) = true.
Proof.
  intros x H. apply Rlt_bool_true.
  apply Rle_lt_trans with (bpow radix2 1023); [| apply bpow_lt; lia].
  apply (rnd_abs_le_bpow x 1023); [lia | exact H].
Qed.

Lemma plus_ok : forall x y : binary64, fin64 x = true -> fin64 y = true ->
  Rabs (B2R64 x + B2R64 y) <= bpow radix2 1023 ->
  B2R64 (b64_plus mode_NE x y) = rnd (B2R64 x + B2R64 y) /\ fin64 (b64_plus mode_NE x y) = true.
Proof.
  intros x y Fx Fy H.
  generalize (Binary.Bplus_correct 53 1024 eq_refl eq_refl binop_nan_pl64 mode_NE x y Fx Fy).
  rewrite !rnd_unfold, (no_overflow _ H). intros [A [B _]]. split; [exact A | exact B].
Qed.

Lemma minus_ok : forall x y : binary64, fin64 x = true -> fin64 y = true ->
  Rabs (B2R64 x - B2R64 y) <= bpow radix2 1023 ->
  B2R64 (b64_minus mode_NE x y) = rnd (B2R64 x - B2R64 y) /\ fin64 (b64_minus mode_NE x y) = true.
Proof.
  intros x y Fx Fy H.
  generalize (Binary.Bminus_correct 53 1024 eq_refl eq_refl binop_nan_pl64 mode_NE x y Fx Fy).
  rewrite !rnd_unfold, (no_overflow _ H). intros [A [B _]]. split; [exact A | exact B].
Qed.

Lemma mult_ok : forall x y : binary64, fin64 x = true -> fin64 y = true ->
  Rabs (B2R64 x * B2R64 y) <= bpow radix2 1023 ->
  B2R64 (b64_mult mode_NE x y) = rnd (B2R64 x * B2R64 y) /\ fin64 (b64_mult mode_NE x y) = true.
Proof.
  intros x y Fx Fy H.
  generalize (Binary.Bmult_correct 53 1024 eq_refl eq_refl binop_nan_pl64 mode_NE x y).
  rewrite !rnd_unfold, (no_overflow _ H). intros [A [B _]]. split; [exact A | unfold b64_mult; rewrite B, Fx, Fy; reflexivity].
Qed.

Lemma sqrt_ok : forall x : binary64, fin64 x = true -> 0 <= B2R64 x ->
  B2R64 (b64_sqrt mode_NE x) = rnd (sqrt (B2R64 x)) /\ fin64 (b64_sqrt mode_NE x) = true.
Proof.
  intros x Fx H.
  destruct (Binary.Bsqrt_correct 53 1024 eq_refl eq_refl unop_nan_pl64 mode_NE x) as [A [B _]].
  rewrite rnd_unfold in A. split; [exact A |]. unfold b64_sqrt. rewrite B.
  destruct x as [s|s|s pl e|s m e Hb]; try reflexivity; try discriminate Fx.
  destruct s; [| reflexivity]. exfalso.
  cbn [Binary.B2R cond_Zopp] in H.
  assert (F2R (Float radix2 (Z.neg m) e) < 0) by (apply F2R_lt_0; reflexivity).
  unfold Z.opp in H. lra.
Qed.

Lemma of_int_ok : forall z : Z, (Z.abs z <= 2 ^ 64)%Z ->
  B2R64 (b64_of_Z z) = rnd (IZR z) /\ fin64 (b64_of_Z z) = true /\
  Binary.Bsign 53 1024 (b64_of_Z z) = (z <? 0)%Z.
Proof.
  intros z Hz. unfold b64_of_Z.
  generalize (Binary.binary_normalize_correct 53 1024 eq_refl eq_refl mode_NE z 0 false).
  assert (E : F2R (Float radix2 z 0) = IZR z) by (unfold F2R; cbn; ring).
  rewrite E. rewrite !rnd_unfold, no_overflow.
  - intros [A [B C]]. split; [exact A | split; [exact B |]]. rewrite C.
    destruct (Rcompare_spec (IZR z) 0) as [H|H|H].
    + apply lt_IZR in H. symmetry. apply Z.ltb_lt. exact H.
    + apply eq_IZR in H. subst z. reflexivity.
    + apply lt_IZR in H. symmetry. apply Z.ltb_ge. lia.
  - rewrite <- abs_IZR. apply Rle_trans with (IZR (2 ^ 64)); [apply IZR_le; exact Hz |].
    change (2 ^ 64)%Z with (Zpower radix2 64). rewrite IZR_Zpower by lia. apply bpow_le. lia.
Qed.

(* integers up to 2^53 are representable *)
Lemma fmt_IZR : forall z : Z, (Z.abs z <= 2 ^ 53)%Z -> fmt (IZR z).
Proof.
  intros z Hz. destruct (Z.eq_dec (Z.abs z) (2 ^ 53)) as [E|E].
  - assert (IZR z = bpow radix2 53 \/ IZR z = - bpow radix2 53) as [H|H].
    { change (bpow radix2 53) with (IZR (2 ^ 53)). rewrite <- opp_IZR.
      destruct (Z.abs_eq_or_opp z) as [A|A]; [left | right]; f_equal; lia. }
    + rewrite H. apply fmt_bpow. lia.
    + rewrite H. apply generic_format_opp. apply fmt_bpow. lia.
  - replace (IZR z) with (F2R (Float radix2 z 0)) by (unfold F2R; cbn; ring).
    unfold fexp64. apply generic_format_FLT. exists (Float radix2 z 0); [reflexivity | cbn; lia | cbn; lia].
Qed.

Lemma of_Z_exact : forall z : Z, (Z.abs z <= 2 ^ 53)%Z ->
  B2R64 (b64_of_Z z) = IZR z /\ fin64 (b64_of_Z z) = true /\ Binary.Bsign 53 1024 (b64_of_Z z) = (z <? 0)%Z.
Proof.
  intros z Hz. destruct (of_int_ok z) as [A [B C]]; [lia |].
  split; [| split; assumption]. rewrite A. apply rnd_id. now apply fmt_IZR.
Qed.

(* ================================================================== (a) integer inputs: everything exact *)
Lemma b64_eq : forall x y : binary64, fin64 x = true -> fin64 y = true ->
  B2R64 x = B2R64 y -> Binary.Bsign 53 1024 x = Binary.Bsign 53 1024 y -> x = y.
Proof. intros x y Fx Fy HR HS. now apply (Binary.B2R_Bsign_inj 53 1024). Qed.

Lemma Zabs_IZR_bound : forall z, (Z.abs z <= 2 ^ 53)%Z -> Rabs (IZR z) <= bpow radix2 1023.
Proof.
  intros z Hz. rewrite <- abs_IZR. apply Rle_trans with (IZR (2 ^ 53)); [now apply IZR_le |].
  change (2 ^ 53)%Z with (Zpower radix2 53). rewrite IZR_Zpower by lia. apply bpow_le. lia.
Qed.

Lemma minus_Z : forall a b, (Z.abs a <= 2 ^ 52)%Z -> (Z.abs b <= 2 ^ 52)%Z ->
  b64_minus mode_NE (b64_of_Z a) (b64_of_Z b) = b64_of_Z (a - b).
Proof.
  intros a b Ha Hb.
  destruct (of_Z_exact a) as [Ra [Fa Sa]]; [lia |].
  destruct (of_Z_exact b) as [Rb [Fb Sb]]; [lia |].
  destruct (of_Z_exact (a - b)) as [Rc [Fc Sc]]; [lia |].
  generalize (Binary.Bminus_correct 53 1024 eq_refl eq_refl binop_nan_pl64 mode_NE _ _ Fa Fb).
  rewrite !rnd_unfold, Ra, Rb, <- minus_IZR, no_overflow by (apply Zabs_IZR_bound; lia).
  intros [A [B C]]. apply b64_eq; [exact B | exact Fc | |].
  - unfold b64_minus. rewrite A, Rc. apply rnd_id, fmt_IZR. lia.
  - unfold b64_minus. rewrite C, Sa, Sb, Sc.
    destruct (Rcompare_spec (IZR (a - b)) 0) as [H|H|H].
    + apply lt_IZR in H. symmetry. apply Z.ltb_lt. exact H.
    + apply eq_IZR in H. assert (a = b) by lia. subst b.
      replace (a - a <? 0)%Z with false by (symmetry; apply Z.ltb_ge; lia).
      destruct (a <? 0)%Z; reflexivity.
    + apply lt_IZR in H. symmetry. apply Z.ltb_ge. lia.
Qed.

Lemma plus_Z : forall a b, (Z.abs a <= 2 ^ 52)%Z -> (Z.abs b <= 2 ^ 52)%Z ->
  b64_plus mode_NE (b64_of_Z a) (b64_of_Z b) = b64_of_Z (a + b).
Proof.
  intros a b Ha Hb.
  destruct (of_Z_exact a) as [Ra [Fa Sa]]; [lia |].
  destruct (of_Z_exact b) as [Rb [Fb Sb]]; [lia |].
  destruct (of_Z_exact (a + b)) as [Rc [Fc Sc]]; [lia |].
  generalize (Binary.Bplus_correct 53 1024 eq_refl eq_refl binop_nan_pl64 mode_NE _ _ Fa Fb).
  rewrite !rnd_unfold, Ra, Rb, <- plus_IZR, no_overflow by (apply Zabs_IZR_bound; lia).
  intros [A [B C]]. apply b64_eq; [exact B | exact Fc | |].
  - unfold b64_plus. rewrite A, Rc. apply rnd_id, fmt_IZR. lia.
  - unfold b64_plus. rewrite C, Sa, Sb, Sc.
    destruct (Rcompare_spec (IZR (a + b)) 0) as [H|H|H].
    + apply lt_IZR in H. symmetry. apply Z.ltb_lt. exact H.
    + apply eq_IZR in H.
      replace (a + b <? 0)%Z with false by (symmetry; apply Z.ltb_ge; lia).
      destruct (a <? 0)%Z eqn:E1; destruct (b <? 0)%Z eqn:E2; try reflexivity.
      apply Z.ltb_lt in E1. apply Z.ltb_lt in E2. lia.
    + apply lt_IZR in H. symmetry. apply Z.ltb_ge. lia.
Qed.

Lemma sq_Z : forall a, (Z.abs a <= 2 ^ 26)%Z ->
  b64_mult mode_NE (b64_of_Z a) (b64_of_Z a) = b64_of_Z (a * a).
Proof.
  intros a Ha.
  assert (Haa : (0 <= a * a <= 2 ^ 52)%Z) by nia.
  destruct (of_Z_exact a) as [Ra [Fa Sa]]; [lia |].
  destruct (of_Z_exact (a * a)) as [Rc [Fc Sc]]; [lia |].
  generalize (Binary.Bmult_correct 53 1024 eq_refl eq_refl binop_nan_pl64 mode_NE (b64_of_Z a) (b64_of_Z a)).
  rewrite !rnd_unfold, Ra, <- mult_IZR, no_overflow by (apply Zabs_IZR_bound; lia).
  intros [A [B C]]. rewrite Fa in B. cbn [andb] in B.
  apply b64_eq; [exact B | exact Fc | |].
  - unfold b64_mult. rewrite A, Rc. apply rnd_id, fmt_IZR. lia.
  - unfold b64_mult. rewrite C, Sc.
    + replace (a * a <? 0)%Z with false by (symmetry; apply Z.ltb_ge; lia).
      destruct (Binary.Bsign 53 1024 (b64_of_Z a)); reflexivity.
    + destruct (Bmult 53 1024 eq_refl eq_refl binop_nan_pl64 mode_NE (b64_of_Z a) (b64_of_Z a));
        try reflexivity; discriminate B.
Qed.

Definition zin (k : Z) (p : Z * Z) : Prop := (Z.abs (fst p) <= 2 ^ k /\ Z.abs (snd p) <= 2 ^ k)%Z.

Lemma length64_Z : forall dx dy, (Z.abs dx <= 2 ^ 25)%Z -> (Z.abs dy <= 2 ^ 25)%Z ->
  length64 (vec_of_Z (dx, dy)) = b64_sqrt mode_NE (b64_of_Z (dx * dx + dy * dy)).
Proof.
  intros dx dy Hx Hy. unfold length64, length_sq64, vec_of_Z. cbn [fst snd].
  rewrite !sq_Z by lia. rewrite plus_Z by nia. reflexivity.
Qed.

(* consecutive pairs of the open chain v0, q1, q2, ... *)
Definition chain {A : Type} (v0 : A) (rest : list A) : list (A * A) := combine (v0 :: rest) rest.

Lemma perim_loop64_Z : forall rest v0 acc, zin 24 v0 -> Forall (zin 24) rest ->
  perim_loop64 (vec_of_Z v0) (map vec_of_Z rest) acc
  = fold_left (fun acc e => b64_plus mode_NE acc (edge_len_Z e)) (chain v0 rest) acc.
Proof.
  induction rest as [|q tl IH]; intros v0 acc H0 Hr; [reflexivity |].
  inversion Hr as [|q' tl' Hq Htl]; subst.
  destruct H0 as [H0x H0y]. destruct Hq as [Hqx Hqy].
  assert (P24 : (2 ^ 24 = 16777216)%Z) by reflexivity.
  assert (P52 : (2 ^ 52 = 4503599627370496)%Z) by reflexivity.
  assert (P25 : (2 ^ 25 = 33554432)%Z) by reflexivity.
  cbn [map perim_loop64]. unfold chain. cbn [combine fold_left]. fold (chain q tl).
  assert (E1 : vsub64 (vec_of_Z q) (vec_of_Z v0) = vec_of_Z (fst q - fst v0, snd q - snd v0)%Z).
  { unfold vsub64, vec_of_Z. cbn [fst snd]. rewrite !minus_Z by lia. reflexivity. }
  rewrite E1.
  assert (E2 : vadd64 (vec_of_Z v0) (vec_of_Z (fst q - fst v0, snd q - snd v0)%Z) = vec_of_Z q).
  { unfold vadd64, vec_of_Z. cbn [fst snd]. rewrite !plus_Z by lia.
    replace (fst v0 + (fst q - fst v0))%Z with (fst q) by ring.
    replace (snd v0 + (snd q - snd v0))%Z with (snd q) by ring. reflexivity. }
  rewrite E2, length64_Z by lia. rewrite IH by (try split; assumption).
  reflexivity.
Qed.

Lemma combine_closing : forall (A : Type) (l : list A) (a b : A),
  combine (a :: l) (l ++ [b]) = combine (a :: l) l ++ [(last (a :: l) a, b)].
Proof.
  induction l as [|x t IH]; intros a b; [reflexivity |].
  change (combine (a :: x :: t) ((x :: t) ++ [b])) with ((a, x) :: combine (x :: t) (t ++ [b])).
  rewrite (IH x b).
  change (combine (a :: x :: t) (x :: t)) with ((a, x) :: combine (x :: t) t).
  replace (last (a :: x :: t) a) with (last (x :: t) x); [reflexivity |].
  clear. revert x. induction t as [|y t' IHt]; intros x; [reflexivity |].
  change (last (x :: y :: t') x) with (last (y :: t') x).
  change (last (a :: x :: y :: t') a) with (last (y :: t') a).
  clear. revert y. induction t' as [|z t'' IHt]; intros y; [reflexivity |].
  change (last (y :: z :: t'') x) with (last (z :: t'') x).
  change (last (y :: z :: t'') a) with (last (z :: t'') a). apply IHt.
Qed.

Lemma last_map : forall (A B : Type) (f : A -> B) (l : list A) (d : A),
  last (map f l) (f d) = f (last l d).
Proof.
  induction l as [|x t IH]; intros d; [reflexivity |].
  destruct t as [|y t']; [reflexivity |].
  change (last (map f (x :: y :: t')) (f d)) with (last (map f (y :: t')) (f d)).
  change (last (x :: y :: t') d) with (last (y :: t') d). apply IH.
Qed.

Lemma last_in_Forall : forall (A : Type) (P : A -> Prop) (l : list A) (d : A),
  P d -> Forall P l -> P (last l d).
Proof.
  induction l as [|x t IH]; intros d Hd Hl; [exact Hd |].
  inversion Hl; subst. destruct t as [|y t']; [assumption |].
  change (last (x :: y :: t') d) with (last (y :: t') d). now apply IH.
Qed.

(* (a) for integer coordinates |c| <= 2^24 the model IS the specification: every difference, every
   square and every sum of two squares is exact, the running vertex is the stored vertex, each edge
   term is the correctly rounded square root of the exact integer dx^2 + dy^2 *)
Theorem perimeter_exact_input_lemma : forall (poly : list (Z * Z)) (copies : option N),
  Forall (zin 24) poly ->
  perimeter64 (map vec_of_Z poly) copies = spec_perimeter_Z poly copies.
Proof.
  intros poly copies Hp. unfold perimeter64, spec_perimeter_Z. rewrite map_length.
  destruct (length poly <? 3)%nat eqn:EL; [reflexivity |].
  destruct poly as [|v0 rest]; [discriminate EL |].
  inversion Hp as [|v0' r' H0 Hr]; subst.
  cbn [map]. rewrite perim_loop64_Z by assumption.
  unfold closed_pairs. rewrite combine_closing, fold_left_app. cbn [fold_left]. fold (chain v0 rest).
  change (vec_of_Z v0 :: map vec_of_Z rest) with (map vec_of_Z (v0 :: rest)).
  rewrite last_map.
  assert (HL : zin 24 (last (v0 :: rest) v0)) by (apply last_in_Forall; assumption).
  set (lp := last (v0 :: rest) v0) in *.
  destruct H0 as [H0x H0y]. destruct HL as [HLx HLy].
  assert (P24 : (2 ^ 24 = 16777216)%Z) by reflexivity.
  assert (P52 : (2 ^ 52 = 4503599627370496)%Z) by reflexivity.
  assert (P25 : (2 ^ 25 = 33554432)%Z) by reflexivity.
  assert (E1 : vsub64 (vec_of_Z v0) (vec_of_Z lp) = vec_of_Z (fst v0 - fst lp, snd v0 - snd lp)%Z).
  { unfold vsub64, vec_of_Z. cbn [fst snd]. rewrite !minus_Z by lia. reflexivity. }
  rewrite E1, length64_Z by lia. reflexivity.
Qed.

(* each edge term of the specification is the correctly rounded square root of the exact integer *)
Theorem edge_len_Z_correct_lemma : forall e : (Z * Z) * (Z * Z),
  let n := ((fst (snd e) - fst (fst e)) * (fst (snd e) - fst (fst e))
            + (snd (snd e) - snd (fst e)) * (snd (snd e) - snd (fst e)))%Z in
  (n <= 2 ^ 53)%Z ->
  B2R64 (edge_len_Z e) = rnd (sqrt (IZR n)) /\ fin64 (edge_len_Z e) = true.
Proof.
  intros e n Hn. unfold edge_len_Z. fold n.
  assert (0 <= n)%Z.
  { unfold n. generalize (fst (snd e) - fst (fst e))%Z (snd (snd e) - snd (fst e))%Z. intros a b.
    pose proof (Z.square_nonneg a). pose proof (Z.square_nonneg b). lia. }
  destruct (of_Z_exact n) as [Rn [Fn _]]; [lia |].
  destruct (sqrt_ok (b64_of_Z n) Fn) as [A B]; [rewrite Rn; now apply IZR_le |].
  rewrite Rn in A. split; assumption.
Qed.

(* Pythagorean edges are exact *)
Theorem edge_len_Z_pythagorean_lemma : forall (e : (Z * Z) * (Z * Z)) (k : Z),
  (0 <= k)%Z -> (k * k <= 2 ^ 53)%Z ->
  ((fst (snd e) - fst (fst e)) * (fst (snd e) - fst (fst e))
   + (snd (snd e) - snd (fst e)) * (snd (snd e) - snd (fst e)) = k * k)%Z ->
  B2R64 (edge_len_Z e) = IZR k.
Proof.
  intros e k Hk Hkk E.
  destruct (edge_len_Z_correct_lemma e) as [A _]; [rewrite E; exact Hkk |].
  cbv zeta in A. rewrite E in A. rewrite A, mult_IZR, sqrt_square by (now apply IZR_le).
  apply rnd_id, fmt_IZR. nia.
Qed.

Example perimeter_exact_input_example :
  Forall (zin 24) [(0, 0); (16777216, 0); (16777216, -16777216); (5, 12)]%Z /\
  perimeter64 (map vec_of_Z [(0, 0); (16777216, 0); (16777216, -16777216); (5, 12)]%Z) (Some 7%N)
  = spec_perimeter_Z [(0, 0); (16777216, 0); (16777216, -16777216); (5, 12)]%Z (Some 7%N) /\
  B2R64 (edge_len_Z ((5, 12), (0, 0))%Z) = 13.
Proof.
  split; [repeat constructor; cbn; lia |]. split.
  - apply perimeter_exact_input_lemma. repeat constructor; cbn; lia.
  - apply (edge_len_Z_pythagorean_lemma _ 13); cbn; lia.
Qed.

(* ================================================================== (b) error analysis: relative-error intervals *)
(* W k a x : the non-negative exact quantity a is approximated by x within k roundings *)
Definition W (k : nat) (a x : R) : Prop := 0 <= a /\ a * (1 - u) ^ k <= x <= a * (1 + u) ^ k.

Lemma one_m_u : 0 < 1 - u < 1.
Proof. pose proof u_pos. pose proof u_small. lra. Qed.
Lemma pow_1mu_pos : forall k, 0 < (1 - u) ^ k.
Proof. intros k. apply pow_lt. apply one_m_u. Qed.
Lemma pow_1pu_pos : forall k, 0 < (1 + u) ^ k.
Proof. intros k. apply pow_lt. pose proof u_pos. lra. Qed.
Lemma pow_1pu_ge1 : forall k, 1 <= (1 + u) ^ k.
Proof. intros k. apply pow_R1_Rle. pose proof u_pos. lra. Qed.
Lemma pow_1mu_le1 : forall k, (1 - u) ^ k <= 1.
Proof. induction k as [|k IH]; [cbn; lra |]. cbn [pow]. pose proof one_m_u. pose proof (pow_1mu_pos k). nra. Qed.

Lemma W_nonneg : forall k a x, W k a x -> 0 <= x.
Proof. intros k a x [Ha [H1 _]]. pose proof (pow_1mu_pos k). apply Rle_trans with (a * (1 - u) ^ k); [nra | exact H1]. Qed.
Lemma W_upper : forall k a x, W k a x -> x <= a * (1 + u) ^ k.
Proof. intros k a x [_ [_ H]]. exact H. Qed.
Lemma W_refl : forall a, 0 <= a -> W 0 a a.
Proof. intros a Ha. split; [exact Ha |]. cbn [pow]. lra. Qed.
Lemma W_S : forall k a x, W k a x -> W (S k) a x.
Proof.
  intros k a x [Ha [H1 H2]]. split; [exact Ha |]. cbn [pow].
  pose proof one_m_u. pose proof u_pos. pose proof (pow_1mu_pos k). pose proof (pow_1pu_pos k).
  split.
  - apply Rle_trans with (a * (1 - u) ^ k); [| exact H1].
    apply Rmult_le_compat_l; [exact Ha | nra].
  - apply Rle_trans with (a * (1 + u) ^ k); [exact H2 |].
    apply Rmult_le_compat_l; [exact Ha | nra].
Qed.
Lemma W_weaken : forall j k a x, (j <= k)%nat -> W j a x -> W k a x.
Proof. intros j k a x Hjk H. induction Hjk; [exact H | now apply W_S]. Qed.
Lemma W_plus : forall k a x b y, W k a x -> W k b y -> W k (a + b) (x + y).
Proof. intros k a x b y [Ha [A1 A2]] [Hb [B1 B2]]. split; [lra |]. rewrite !Rmult_plus_distr_r. lra. Qed.
Lemma W_mult : forall j k a x b y, W j a x -> W k b y -> W (j + k) (a * b) (x * y).
Proof.
  intros j k a x b y HA HB.
  pose proof (W_nonneg _ _ _ HA) as Hx. pose proof (W_nonneg _ _ _ HB) as Hy.
  destruct HA as [Ha [A1 A2]]. destruct HB as [Hb [B1 B2]].
  pose proof (pow_1mu_pos j). pose proof (pow_1mu_pos k). pose proof (pow_1pu_pos j). pose proof (pow_1pu_pos k).
  split; [now apply Rmult_le_pos |]. rewrite !pow_add. split.
  - replace (a * b * ((1 - u) ^ j * (1 - u) ^ k)) with ((a * (1 - u) ^ j) * (b * (1 - u) ^ k)) by ring.
    apply Rmult_le_compat; try assumption; apply Rmult_le_pos; lra.
  - replace (a * b * ((1 + u) ^ j * (1 + u) ^ k)) with ((a * (1 + u) ^ j) * (b * (1 + u) ^ k)) by ring.
    apply Rmult_le_compat; assumption.
Qed.
Lemma W_sqrt : forall k a x, W (2 * k) a x -> W k (sqrt a) (sqrt x).
Proof.
  intros k a x [Ha [H1 H2]]. split; [apply sqrt_pos |].
  replace (2 * k)%nat with (k + k)%nat in H1, H2 by lia. rewrite !pow_add in H1, H2.
  pose proof (pow_1mu_pos k). pose proof (pow_1pu_pos k).
  assert (E : forall c, 0 < c -> sqrt (a * (c * c)) = sqrt a * c).
  { intros c Hc. rewrite sqrt_mult_alt by exact Ha. f_equal. apply sqrt_square. lra. }
  rewrite <- !E by assumption. split; apply sqrt_le_1_alt; assumption.
Qed.

(* rounding errors *)
Lemma u_ro_eq : u_ro radix2 53 = u.
Proof. unfold u_ro, u. change (-53)%Z with (-1 + (-53 + 1))%Z. rewrite (bpow_plus radix2 (-1)). reflexivity. Qed.

Lemma rnd_err : forall x, bpow radix2 (-1022) <= Rabs x -> Rabs (rnd x - x) <= u * Rabs x.
Proof.
  intros x Hx. unfold rnd, fexp64.
  pose proof (relative_error_N_FLT radix2 (-1074) 53 ltac:(unfold Prec_gt_0; lia) (fun z => negb (Z.even z)) x Hx) as H.
  fold (u_ro radix2 53) in H. rewrite u_ro_eq in H. exact H.
Qed.
Lemma rnd_err_plus : forall x y, fmt x -> fmt y -> Rabs (rnd (x + y) - (x + y)) <= u * Rabs (x + y).
Proof.
  intros x y Fx Fy. unfold rnd, fexp64 in *.
  destruct (FLT_plus_error_N_ex radix2 (-1074) 53 (fun z => negb (Z.even z)) x y Fx Fy) as [eps [He E]].
  rewrite E. replace ((x + y) * (1 + eps) - (x + y)) with (eps * (x + y)) by ring.
  rewrite Rabs_mult. apply Rmult_le_compat_r; [apply Rabs_pos |].
  apply Rle_trans with (1 := He). rewrite <- u_ro_eq. apply u_rod1pu_ro_le_u_ro.
Qed.

Lemma W_of_err : forall k a x y, W k a x -> Rabs (y - x) <= u * x -> W (S k) a y.
Proof.
  intros k a x y HW He. pose proof (W_nonneg _ _ _ HW) as Hx. destruct HW as [Ha [H1 H2]].
  apply Rabs_le_inv in He. pose proof one_m_u. pose proof u_pos.
  pose proof (pow_1mu_pos k). pose proof (pow_1pu_pos k).
  split; [exact Ha |]. cbn [pow]. split.
  - apply Rle_trans with (x * (1 - u)); [| lra].
    replace (a * ((1 - u) * (1 - u) ^ k)) with (a * (1 - u) ^ k * (1 - u)) by ring.
    apply Rmult_le_compat_r; lra.
  - apply Rle_trans with (x * (1 + u)); [lra |].
    replace (a * ((1 + u) * (1 + u) ^ k)) with (a * (1 + u) ^ k * (1 + u)) by ring.
    apply Rmult_le_compat_r; lra.
Qed.
Lemma W_rnd : forall k a x, W k a x -> x = 0 \/ bpow radix2 (-1022) <= x -> W (S k) a (rnd x).
Proof.
  intros k a x HW Hx. pose proof (W_nonneg _ _ _ HW) as Hx0. apply W_of_err with (1 := HW).
  destruct Hx as [Hx|Hx].
  - subst x. rewrite rnd_0. rewrite Rminus_0_r, Rabs_R0. lra.
  - rewrite <- (Rabs_pos_eq x) at 3 by exact Hx0. apply rnd_err. rewrite Rabs_pos_eq; assumption.
Qed.
Lemma W_rnd_plus : forall k a x y, fmt x -> fmt y -> W k a (x + y) -> W (S k) a (rnd (x + y)).
Proof.
  intros k a x y Fx Fy HW. pose proof (W_nonneg _ _ _ HW) as Hx0. apply W_of_err with (1 := HW).
  rewrite <- (Rabs_pos_eq (x + y)) at 3 by exact Hx0. now apply rnd_err_plus.
Qed.

(* the interval form gives the usual absolute-value form *)
Lemma bernoulli_p : forall k, 1 + INR k * u <= (1 + u) ^ k.
Proof.
  induction k as [|k IH]; [cbn; lra |]. rewrite S_INR. cbn [pow].
  pose proof u_pos. pose proof (pos_INR k). nra.
Qed.
Lemma bernoulli_m : forall k, 1 - INR k * u <= (1 - u) ^ k.
Proof.
  induction k as [|k IH]; [cbn; lra |]. rewrite S_INR. cbn [pow].
  pose proof one_m_u. pose proof (pos_INR k). pose proof (pow_1mu_pos k). nra.
Qed.
Lemma W_abs : forall k a x, W k a x -> Rabs (x - a) <= ((1 + u) ^ k - 1) * a.
Proof.
  intros k a x [Ha [H1 H2]]. pose proof (bernoulli_p k). pose proof (bernoulli_m k).
  apply Rabs_le. split; nra.
Qed.

(* ------------------------------------------------------------------ the input class: no overflow, no underflow *)
(* coordinates are multiples of 2^-500 of magnitude at most 2^500: then no difference, product, sum
   or square root overflows, and no product falls into the subnormal range (a non-zero difference
   is at least 2^-500 in magnitude, its square at least 2^-1000) *)
Definition grid (x : R) : Prop := exists k : Z, x = IZR k * bpow radix2 (-500).
Definition okc (e : Z) (x : binary64) : Prop :=
  fin64 x = true /\ grid (B2R64 x) /\ Rabs (B2R64 x) <= bpow radix2 e.
Definition okv (e : Z) (v : vec64) : Prop := okc e (fst v) /\ okc e (snd v).

Lemma grid_0 : grid 0.
Proof. exists 0%Z. ring. Qed.
Lemma grid_plus : forall x y, grid x -> grid y -> grid (x + y).
Proof. intros x y [k ->] [j ->]. exists (k + j)%Z. rewrite plus_IZR. ring. Qed.
Lemma grid_minus : forall x y, grid x -> grid y -> grid (x - y).
Proof. intros x y [k ->] [j ->]. exists (k - j)%Z. rewrite minus_IZR. ring. Qed.
Lemma grid_FIX : forall x, grid x <-> generic_format radix2 (FIX_exp (-500)) x.
Proof.
  intros x. split.
  - intros [k ->]. apply generic_format_FIX. exists (Float radix2 k (-500)); reflexivity.
  - intros H. apply FIX_format_generic in H. destruct H as [[m e] Hx He]. cbn in He. subst e.
    exists m. exact Hx.
Qed.
Lemma grid_rnd : forall x, grid x -> grid (rnd x).
Proof.
  intros x H. apply grid_FIX. apply grid_FIX in H. unfold rnd.
  apply generic_round_generic; auto with typeclass_instances.
Qed.
Lemma grid_ge : forall x, grid x -> x <> 0 -> bpow radix2 (-500) <= Rabs x.
Proof.
  intros x [k ->] Hx. rewrite Rabs_mult, (Rabs_pos_eq (bpow radix2 (-500))) by apply bpow_ge_0.
  assert (k <> 0)%Z by (intros ->; apply Hx; ring).
  assert (1 <= Rabs (IZR k)). { rewrite <- abs_IZR. apply IZR_le. lia. }
  pose proof (bpow_gt_0 radix2 (-500)). nra.
Qed.
Lemma rnd_ge_bpow : forall x e, (-1074 <= e)%Z -> bpow radix2 e <= x -> bpow radix2 e <= rnd x.
Proof. intros x e He H. unfold rnd. apply round_ge_generic; auto with typeclass_instances. now apply fmt_bpow. Qed.
Lemma rnd_abs_ge_bpow : forall x e, (-1074 <= e)%Z -> bpow radix2 e <= Rabs x -> bpow radix2 e <= Rabs (rnd x).
Proof. intros x e He H. unfold rnd. apply abs_round_ge_generic; auto with typeclass_instances. now apply fmt_bpow. Qed.

Lemma okc_weaken : forall e e' x, (e <= e')%Z -> okc e x -> okc e' x.
Proof. intros e e' x H [A [B C]]. repeat split; try assumption. apply Rle_trans with (1 := C). now apply bpow_le. Qed.

Lemma bp_501 : bpow radix2 501 = 2 * bpow radix2 500.
Proof. change 501%Z with (500 + 1)%Z. now rewrite bpow_plus_1. Qed.
Lemma bp_502 : bpow radix2 502 = 4 * bpow radix2 500.
Proof. change 502%Z with (501 + 1)%Z. rewrite bpow_plus_1, bp_501. change (IZR radix2) with 2. ring. Qed.

(* one coordinate of one loop iteration: a = running vertex, b = next stored vertex *)
Lemma scalar_step : forall a b : binary64, okc 501 a -> okc 500 b ->
  let d := b64_minus mode_NE b a in
  let a' := b64_plus mode_NE a d in
  let sq := b64_mult mode_NE d d in
  let de := B2R64 b - B2R64 a in
  fin64 sq = true /\ W 3 (de * de) (B2R64 sq) /\ B2R64 sq <= bpow radix2 1004 /\
  (B2R64 sq = 0 \/ bpow radix2 (-1000) <= B2R64 sq) /\
  okc 501 a' /\ Rabs (B2R64 a' - B2R64 b) <= 2 * u * Rabs de.
Proof.
  intros a b [Fa [Ga Ba]] [Fb [Gb Bb]] d a' sq de.
  pose proof u_pos as Hu. pose proof u_small as Hus.
  pose proof (bpow_gt_0 radix2 500) as HM.
  assert (Bde : Rabs de <= 3 * bpow radix2 500).
  { unfold de. apply Rle_trans with (Rabs (B2R64 b) + Rabs (B2R64 a)).
    - replace (B2R64 b - B2R64 a) with (B2R64 b + - B2R64 a) by ring.
      apply Rle_trans with (1 := Rabs_triang _ _). rewrite Rabs_Ropp. lra.
    - rewrite bp_501 in Ba. lra. }
  assert (Bde2 : Rabs de <= bpow radix2 502) by (rewrite bp_502; lra).
  (* the difference *)
  destruct (minus_ok b a Fb Fa) as [Rd Fd].
  { apply Rle_trans with (1 := Bde2). apply bpow_le. lia. }
  fold d in Rd, Fd. fold de in Rd.
  assert (Gde : grid de) by (now apply grid_minus).
  assert (Gd : grid (B2R64 d)) by (rewrite Rd; now apply grid_rnd).
  assert (Bd : Rabs (B2R64 d) <= bpow radix2 502) by (rewrite Rd; apply rnd_abs_le_bpow; [lia | exact Bde2]).
  assert (Ed : Rabs (B2R64 d - de) <= u * Rabs de).
  { destruct (Req_dec de 0) as [Z|NZ].
    - rewrite Rd, Z, rnd_0, Rminus_0_r, Rabs_R0. lra.
    - rewrite Rd. apply rnd_err. apply Rle_trans with (bpow radix2 (-500)); [apply bpow_le; lia |].
      now apply grid_ge. }
  (* the new running vertex *)
  destruct (plus_ok a d Fa Fd) as [Ra' Fa'].
  { apply Rle_trans with (1 := Rabs_triang _ _).
    apply Rle_trans with (bpow radix2 501 + bpow radix2 502); [lra |].
    rewrite bp_501, bp_502. apply Rle_trans with (bpow radix2 503).
    - change 503%Z with (502 + 1)%Z. rewrite bpow_plus_1, bp_502. change (IZR radix2) with 2. lra.
    - apply bpow_le. lia. }
  fold a' in Ra', Fa'.
  assert (Ea' : Rabs (B2R64 a' - B2R64 b) <= 2 * u * Rabs de).
  { set (x := B2R64 a + B2R64 d) in *.
    assert (N : Rabs (rnd x - x) <= Rabs (B2R64 b - x)).
    { pose proof (round_N_pt radix2 fexp64 (fun z => negb (Z.even z)) x) as [_ HN].
      apply HN. apply fmt_B2R. }
    assert (Exb : x - B2R64 b = B2R64 d - de) by (unfold x, de; ring).
    replace (B2R64 a' - B2R64 b) with ((rnd x - x) + (x - B2R64 b)) by (rewrite Ra'; ring).
    apply Rle_trans with (1 := Rabs_triang _ _).
    rewrite (Rabs_minus_sym (B2R64 b) x), Exb in N. rewrite Exb. lra. }
  assert (Ba' : Rabs (B2R64 a') <= bpow radix2 501).
  { replace (B2R64 a') with (B2R64 b + (B2R64 a' - B2R64 b)) by ring.
    apply Rle_trans with (1 := Rabs_triang _ _). rewrite bp_501.
    assert (2 * u * Rabs de <= bpow radix2 500) by nra. lra. }
  assert (Ga' : grid (B2R64 a')) by (rewrite Ra'; apply grid_rnd; now apply grid_plus).
  (* the square *)
  assert (Bdd : Rabs (B2R64 d * B2R64 d) <= bpow radix2 1004).
  { rewrite Rabs_mult. change 1004%Z with (502 + 502)%Z. rewrite bpow_plus.
    apply Rmult_le_compat; try apply Rabs_pos; assumption. }
  destruct (mult_ok d d Fd Fd) as [Rsq Fsq].
  { apply Rle_trans with (1 := Bdd). apply bpow_le. lia. }
  fold sq in Rsq, Fsq.
  assert (Wdd : W 2 (de * de) (B2R64 d * B2R64 d)).
  { assert (W 1 (Rabs de) (Rabs (B2R64 d))) as W1.
    { split; [apply Rabs_pos |]. cbn [pow]. rewrite !Rmult_1_r.
      pose proof (Rabs_triang_inv (B2R64 d) de). pose proof (Rabs_triang_inv de (B2R64 d)).
      rewrite (Rabs_minus_sym de) in H0. split; lra. }
    pose proof (W_mult 1 1 _ _ _ _ W1 W1) as W2. cbn [Nat.add] in W2.
    rewrite <- !Rabs_mult in W2. rewrite !Rabs_pos_eq in W2; [exact W2 | |];
      [apply Rle_0_sqr | apply Rle_0_sqr]. }
  assert (Zdd : B2R64 d * B2R64 d = 0 \/ bpow radix2 (-1000) <= B2R64 d * B2R64 d).
  { destruct (Req_dec (B2R64 d) 0) as [Z|NZ]; [left; rewrite Z; ring | right].
    pose proof (grid_ge _ Gd NZ) as G. change (-1000)%Z with (-500 + -500)%Z. rewrite bpow_plus.
    replace (B2R64 d * B2R64 d) with (Rabs (B2R64 d) * Rabs (B2R64 d)).
    - apply Rmult_le_compat; try apply bpow_ge_0; assumption.
    - rewrite <- Rabs_mult. apply Rabs_pos_eq. apply Rle_0_sqr. }
  split; [exact Fsq |]. split; [| split; [| split; [| split]]].
  - rewrite Rsq. apply (W_rnd 2); [exact Wdd |].
    destruct Zdd as [Z|NZ]; [left; exact Z | right].
    apply Rle_trans with (2 := NZ). apply bpow_le. lia.
  - rewrite Rsq. apply Rle_trans with (1 := Rle_abs _). apply rnd_abs_le_bpow; [lia | exact Bdd].
  - rewrite Rsq. destruct Zdd as [Z|NZ]; [left; rewrite Z; apply rnd_0 | right].
    apply rnd_ge_bpow; [lia | exact NZ].
  - repeat split; assumption.
  - exact Ea'.
Qed.

(* ------------------------------------------------------------------ one edge *)
Definition R2 (v : vec64) : R * R := (B2R64 (fst v), B2R64 (snd v)).
Definition dist (a b : R * R) : R := dist_euc (fst a) (snd a) (fst b) (snd b).

Lemma dist_alt : forall a b,
  dist a b = sqrt ((fst b - fst a) * (fst b - fst a) + (snd b - snd a) * (snd b - snd a)).
Proof. intros a b. unfold dist, dist_euc, Rsqr. f_equal. ring. Qed.
Lemma dist_pos : forall a b, 0 <= dist a b.
Proof. intros a b. rewrite dist_alt. apply sqrt_pos. Qed.
Lemma dist_sym : forall a b, dist a b = dist b a.
Proof. intros a b. unfold dist. apply distance_symm. Qed.
Lemma dist_triangle : forall a b c, dist a b <= dist a c + dist c b.
Proof. intros a b c. unfold dist. apply triangle. Qed.

Lemma sq_abs_le : forall x y c, 0 <= c -> Rabs x <= c * Rabs y -> x * x <= c * c * (y * y).
Proof.
  intros x y c Hc H.
  replace (x * x) with (Rabs x * Rabs x) by (rewrite <- Rabs_mult; apply Rabs_pos_eq, Rle_0_sqr).
  replace (y * y) with (Rabs y * Rabs y) by (rewrite <- Rabs_mult; apply Rabs_pos_eq, Rle_0_sqr).
  replace (c * c * (Rabs y * Rabs y)) with ((c * Rabs y) * (c * Rabs y)) by ring.
  apply Rmult_le_compat; try apply Rabs_pos; assumption.
Qed.

(* one iteration of the loop (also the closing edge): v0 = running vertex, q = next stored vertex *)
Lemma vstep : forall v0 q : vec64, okv 501 v0 -> okv 500 q ->
  let v1 := vsub64 q v0 in
  let t := length64 v1 in
  let v0' := vadd64 v0 v1 in
  fin64 t = true /\ W 3 (dist (R2 v0) (R2 q)) (B2R64 t) /\ B2R64 t <= bpow radix2 503 /\
  (B2R64 t = 0 \/ bpow radix2 (-500) <= B2R64 t) /\
  okv 501 v0' /\ dist (R2 v0') (R2 q) <= 2 * u * dist (R2 v0) (R2 q).
Proof.
  intros [ax ay] [bx by_] [Hax Hay] [Hbx Hby]. cbn [fst snd] in *.
  unfold vsub64, vadd64. cbn [fst snd].
  destruct (scalar_step ax bx Hax Hbx) as [Fx [Wx [Bx [Zx [Okx Ex]]]]].
  destruct (scalar_step ay by_ Hay Hby) as [Fy [Wy [By [Zy [Oky Ey]]]]].
  cbv zeta in *.
  set (dx := b64_minus mode_NE bx ax) in *. set (dy := b64_minus mode_NE by_ ay) in *.
  set (sqx := b64_mult mode_NE dx dx) in *. set (sqy := b64_mult mode_NE dy dy) in *.
  set (dex := B2R64 bx - B2R64 ax) in *. set (dey := B2R64 by_ - B2R64 ay) in *.
  pose proof (W_nonneg _ _ _ Wx) as Px. pose proof (W_nonneg _ _ _ Wy) as Py.
  pose proof u_pos as Hu.
  (* the sum of the squares *)
  assert (Bs : Rabs (B2R64 sqx + B2R64 sqy) <= bpow radix2 1005).
  { rewrite Rabs_pos_eq by lra. change 1005%Z with (1004 + 1)%Z. rewrite bpow_plus_1.
    change (IZR radix2) with 2. lra. }
  destruct (plus_ok sqx sqy Fx Fy) as [Rs Fs].
  { apply Rle_trans with (1 := Bs). apply bpow_le. lia. }
  set (s := b64_plus mode_NE sqx sqy) in *.
  assert (Ws : W 4 (dex * dex + dey * dey) (B2R64 s)).
  { rewrite Rs. apply (W_rnd_plus 3); try apply fmt_B2R. now apply W_plus. }
  pose proof (W_nonneg _ _ _ Ws) as Ps.
  assert (Bs' : B2R64 s <= bpow radix2 (2 * 503)).
  { rewrite Rs. apply Rle_trans with (1 := Rle_abs _).
    apply Rle_trans with (bpow radix2 1005); [apply rnd_abs_le_bpow; [lia | exact Bs] | apply bpow_le; lia]. }
  assert (Zs : B2R64 s = 0 \/ bpow radix2 (2 * -500) <= B2R64 s).
  { rewrite Rs. destruct Zx as [Zx|Zx]; [destruct Zy as [Zy|Zy] |].
    - left. rewrite Zx, Zy, Rplus_0_r. apply rnd_0.
    - right. apply rnd_ge_bpow; [lia |]. change (2 * -500)%Z with (-1000)%Z. lra.
    - right. apply rnd_ge_bpow; [lia |]. change (2 * -500)%Z with (-1000)%Z. lra. }
  (* the square root *)
  destruct (sqrt_ok s Fs Ps) as [Rt Ft].
  assert (Et : length64 (dx, dy) = b64_sqrt mode_NE s) by reflexivity.
  assert (Zq : sqrt (B2R64 s) = 0 \/ bpow radix2 (-500) <= sqrt (B2R64 s)).
  { destruct Zs as [Z|NZ]; [left; rewrite Z; apply sqrt_0 | right].
    rewrite <- (sqrt_bpow radix2 (-500)). now apply sqrt_le_1_alt. }
  assert (Bq : sqrt (B2R64 s) <= bpow radix2 503).
  { rewrite <- (sqrt_bpow radix2 503). now apply sqrt_le_1_alt. }
  assert (HD : dist (R2 (ax, ay)) (R2 (bx, by_)) = sqrt (dex * dex + dey * dey)).
  { rewrite dist_alt. reflexivity. }
  split; [| split; [| split; [| split; [| split]]]].
  - rewrite Et. exact Ft.
  - rewrite Et, Rt, HD.
    apply (W_rnd 2); [apply (W_sqrt 2); exact Ws |].
    destruct Zq as [Z|NZ]; [left; exact Z | right]. apply Rle_trans with (2 := NZ). apply bpow_le. lia.
  - rewrite Et, Rt.
    apply Rle_trans with (1 := Rle_abs _). apply rnd_abs_le_bpow; [lia |].
    rewrite Rabs_pos_eq by apply sqrt_pos. exact Bq.
  - rewrite Et, Rt.
    destruct Zq as [Z|NZ]; [left; rewrite Z; apply rnd_0 | right]. apply rnd_ge_bpow; [lia | exact NZ].
  - split; assumption.
  - rewrite HD, dist_alt.
    unfold R2. cbn [fst snd].
    set (ax' := B2R64 (b64_plus mode_NE ax dx)) in *. set (ay' := B2R64 (b64_plus mode_NE ay dy)) in *.
    assert (Hx2 : (B2R64 bx - ax') * (B2R64 bx - ax') <= (2 * u) * (2 * u) * (dex * dex)).
    { apply sq_abs_le; [lra |]. rewrite Rabs_minus_sym. exact Ex. }
    assert (Hy2 : (B2R64 by_ - ay') * (B2R64 by_ - ay') <= (2 * u) * (2 * u) * (dey * dey)).
    { apply sq_abs_le; [lra |]. rewrite Rabs_minus_sym. exact Ey. }
    replace (2 * u * sqrt (dex * dex + dey * dey)) with (sqrt ((2 * u) * (2 * u) * (dex * dex + dey * dey))).
    + apply sqrt_le_1_alt. lra.
    + rewrite sqrt_mult_alt by (apply Rle_0_sqr). f_equal. apply sqrt_square. lra.
Qed.

(* ------------------------------------------------------------------ the exact sums *)
Fixpoint sumd (l : list ((R * R) * (R * R))) : R :=
  match l with [] => 0 | e :: t => dist (fst e) (snd e) + sumd t end.
(* the closed edge-length sum of a vertex list over the reals: sum over i of |p_(i+1 mod n) - p_i| *)
Definition exact_perimeter (l : list (R * R)) : R := sumd (closed_pairs l).
Definition pathlen (a : R * R) (l : list (R * R)) : R := sumd (chain a l).

Lemma sumd_app : forall l1 l2, sumd (l1 ++ l2) = sumd l1 + sumd l2.
Proof. induction l1 as [|e t IH]; intros l2; cbn [app sumd]; [lra |]. rewrite IH. lra. Qed.
Lemma sumd_pos : forall l, 0 <= sumd l.
Proof. induction l as [|e t IH]; cbn [sumd]; [lra |]. pose proof (dist_pos (fst e) (snd e)). lra. Qed.
Lemma pathlen_cons : forall a q tl, pathlen a (q :: tl) = dist a q + pathlen q tl.
Proof. reflexivity. Qed.
Lemma exact_perimeter_cons : forall h t,
  exact_perimeter (h :: t) = pathlen h t + dist (last (h :: t) h) h.
Proof.
  intros h t. unfold exact_perimeter, closed_pairs, pathlen, chain.
  rewrite combine_closing, sumd_app. cbn [sumd fst snd]. lra.
Qed.

(* ------------------------------------------------------------------ the loop *)
Lemma u_bpow555 : u * bpow radix2 555 = bpow radix2 502.
Proof. unfold u. rewrite <- bpow_plus. reflexivity. Qed.

Lemma loop_lemma : forall (rest : list vec64) (v0 : vec64) (acc : binary64) (pprev : R * R)
    (m : nat) (SD SL Bk : R),
  okv 501 v0 -> Forall (okv 500) rest -> fin64 acc = true ->
  (3 <= m)%nat -> W m SD (B2R64 acc) ->
  (B2R64 acc = 0 \/ bpow radix2 (-500) <= B2R64 acc) ->
  B2R64 acc <= Bk -> Bk + INR (length rest) * bpow radix2 504 <= bpow radix2 555 ->
  (1 - 2 * u) * SD + dist (R2 v0) pprev <= SL ->
  SL + dist (R2 v0) pprev <= (1 + 2 * u) * SD ->
  exists SD' : R,
    fin64 (perim_loop64 v0 rest acc) = true /\
    W (m + length rest) SD' (B2R64 (perim_loop64 v0 rest acc)) /\
    (B2R64 (perim_loop64 v0 rest acc) = 0 \/ bpow radix2 (-500) <= B2R64 (perim_loop64 v0 rest acc)) /\
    B2R64 (perim_loop64 v0 rest acc) <= bpow radix2 555 /\
    (1 - 2 * u) * SD' <= SL + pathlen pprev (map R2 rest) /\
    SL + pathlen pprev (map R2 rest) <= (1 + 2 * u) * SD'.
Proof.
  induction rest as [|q tl IH]; intros v0 acc pprev m SD SL Bk Hv0 Hrest Facc Hm Wacc Zacc Bacc HBk D1 D2.
  - exists SD. cbn [perim_loop64 length map]. rewrite Nat.add_0_r.
    pose proof (dist_pos (R2 v0) pprev). cbn [length INR] in HBk.
    unfold pathlen, chain. cbn [combine sumd].
    split; [exact Facc | split; [exact Wacc | split; [exact Zacc | split; [lra | split; lra]]]].
  - inversion Hrest as [|q' tl' Hq Htl]; subst.
    destruct (vstep v0 q Hv0 Hq) as [Ft [Wt [Bt [Zt [Hv0' Ed]]]]]. cbv zeta in *.
    cbn [perim_loop64].
    set (v1 := vsub64 q v0) in *. set (t := length64 v1) in *. set (v0' := vadd64 v0 v1) in *.
    set (D := dist (R2 v0) (R2 q)) in *. set (E := dist (R2 v0) pprev) in *.
    set (E' := dist (R2 v0') (R2 q)) in *. set (L := dist pprev (R2 q)).
    pose proof (W_nonneg _ _ _ Wacc) as Pacc. pose proof (W_nonneg _ _ _ Wt) as Pt.
    pose proof u_pos as Hu. pose proof u_small as Hus.
    assert (PD : 0 <= D) by apply dist_pos. assert (PE : 0 <= E) by apply dist_pos.
    assert (PE' : 0 <= E') by apply dist_pos. assert (PL : 0 <= L) by apply dist_pos.
    assert (PSD : 0 <= SD) by apply Wacc.
    assert (Hlen : Bk + bpow radix2 504 + INR (length tl) * bpow radix2 504 <= bpow radix2 555).
    { cbn [length] in HBk. rewrite S_INR in HBk. lra. }
    pose proof (pos_INR (length tl)) as Plen. pose proof (bpow_gt_0 radix2 504) as P504.
    assert (E504 : bpow radix2 504 = 2 * bpow radix2 503).
    { change 504%Z with (503 + 1)%Z. now rewrite bpow_plus_1. }
    assert (Bsum : B2R64 acc + B2R64 t <= Bk + bpow radix2 503) by lra.
    assert (Bk555 : Bk + bpow radix2 503 <= bpow radix2 555) by nra.
    destruct (plus_ok acc t Facc Ft) as [Ra Fa].
    { rewrite Rabs_pos_eq by lra. apply Rle_trans with (bpow radix2 555); [lra | apply bpow_le; lia]. }
    set (acc' := b64_plus mode_NE acc t) in *.
    assert (Wa : W (S m) (SD + D) (B2R64 acc')).
    { rewrite Ra. apply W_rnd_plus; try apply fmt_B2R. apply W_plus; [exact Wacc |].
      apply W_weaken with (2 := Wt). exact Hm. }
    assert (Za : B2R64 acc' = 0 \/ bpow radix2 (-500) <= B2R64 acc').
    { rewrite Ra. destruct Zacc as [Z1|N1]; [destruct Zt as [Z2|N2] |].
      - left. rewrite Z1, Z2, Rplus_0_r. apply rnd_0.
      - right. apply rnd_ge_bpow; [lia | lra].
      - right. apply rnd_ge_bpow; [lia | lra]. }
    assert (Ba : B2R64 acc' <= Bk + bpow radix2 504).
    { rewrite Ra. pose proof (rnd_err_plus _ _ (fmt_B2R acc) (fmt_B2R t)) as He.
      rewrite (Rabs_pos_eq (B2R64 acc + B2R64 t)) in He by lra. apply Rabs_le_inv in He.
      pose proof u_bpow555. pose proof (bpow_gt_0 radix2 502).
      assert (bpow radix2 503 = 2 * bpow radix2 502).
      { change 503%Z with (502 + 1)%Z. now rewrite bpow_plus_1. }
      assert (u * (B2R64 acc + B2R64 t) <= u * bpow radix2 555) by (apply Rmult_le_compat_l; lra).
      lra. }
    assert (T1 : D <= E + L).
    { unfold D, E, L. apply dist_triangle. }
    assert (T2 : L <= E + D).
    { unfold D, E, L. rewrite (dist_sym (R2 v0) pprev). apply dist_triangle. }
    destruct (IH v0' acc' (R2 q) (S m) (SD + D) (SL + L) (Bk + bpow radix2 504))
      as [SD' [F' [W' [Z' [B' [X1 X2]]]]]]; try assumption.
    + lia.
    + fold E'. nra.
    + fold E'. nra.
    + exists SD'. cbn [map length]. rewrite pathlen_cons. fold L.
      replace (m + S (length tl))%nat with (S m + length tl)%nat by lia.
      split; [exact F' | split; [exact W' | split; [exact Z' | split; [exact B' | split; lra]]]].
Qed.

(* ------------------------------------------------------------------ the whole function *)
Definition copies_R (copies : option N) : R :=
  match copies with None => 1 | Some c => IZR (Z.of_N c) end.
Definition copies_ok (copies : option N) : Prop :=
  match copies with None => True | Some c => (c < 2 ^ 64)%N end.

(* the sum over the drifting running vertex against the sum over the stored vertices *)
Lemma W_drift : forall k T S x, W k T x -> 0 <= S ->
  (1 - 2 * u) * T <= S -> S <= (1 + 2 * u) * T -> W (k + 3) S x.
Proof.
  intros k T S x [HT [H1 H2]] HS D1 D2.
  pose proof u_pos as Hu. pose proof u_small as Hus.
  pose proof (pow_1mu_pos k). pose proof (pow_1pu_pos k).
  assert (P1 : 1 <= (1 - 2 * u) * (1 + u) ^ 3) by (cbn [pow]; nra).
  assert (P2 : (1 + 2 * u) * (1 - u) ^ 3 <= 1) by (cbn [pow]; nra).
  assert (P3 : 0 < (1 + u) ^ 3) by apply pow_1pu_pos.
  assert (P4 : 0 < (1 - u) ^ 3) by apply pow_1mu_pos.
  assert (U : T <= S * (1 + u) ^ 3).
  { apply Rle_trans with (T * ((1 - 2 * u) * (1 + u) ^ 3)); [nra |].
    replace (T * ((1 - 2 * u) * (1 + u) ^ 3)) with ((1 - 2 * u) * T * (1 + u) ^ 3) by ring.
    apply Rmult_le_compat_r; lra. }
  assert (Lw : S * (1 - u) ^ 3 <= T).
  { apply Rle_trans with ((1 + 2 * u) * T * (1 - u) ^ 3); [apply Rmult_le_compat_r; lra |].
    replace ((1 + 2 * u) * T * (1 - u) ^ 3) with (T * ((1 + 2 * u) * (1 - u) ^ 3)) by ring. nra. }
  split; [exact HS |]. rewrite !pow_add. split.
  - apply Rle_trans with (2 := H1).
    replace (S * ((1 - u) ^ k * (1 - u) ^ 3)) with (S * (1 - u) ^ 3 * (1 - u) ^ k) by ring.
    apply Rmult_le_compat_r; lra.
  - apply Rle_trans with (1 := H2).
    replace (S * ((1 + u) ^ k * (1 + u) ^ 3)) with (S * (1 + u) ^ 3 * (1 + u) ^ k) by ring.
    apply Rmult_le_compat_r; lra.
Qed.

Lemma okv_weaken : forall e e' v, (e <= e')%Z -> okv e v -> okv e' v.
Proof. intros e e' v H [A B]. split; now apply okc_weaken with e. Qed.

Lemma B2R_pzero : B2R64 b64_pzero = 0.
Proof. reflexivity. Qed.

Theorem perimeter_core : forall (poly : list vec64) (copies : option N),
  Forall (okv 500) poly -> (3 <= length poly)%nat -> (Z.of_nat (length poly) <= 2 ^ 40)%Z ->
  copies_ok copies ->
  fin64 (perimeter64 poly copies) = true /\
  W (length poly + 7) (copies_R copies * exact_perimeter (map R2 poly)) (B2R64 (perimeter64 poly copies)).
Proof.
  intros poly copies Hok Hn3 Hn40 Hc. unfold perimeter64.
  destruct (length poly <? 3)%nat eqn:EL; [apply Nat.ltb_lt in EL; lia |].
  destruct poly as [|p0 [|p1 rest]]; [cbn in Hn3; lia | cbn in Hn3; lia |].
  set (poly := p0 :: p1 :: rest) in *.
  inversion Hok as [|x l H0 Hok']; subst x l. inversion Hok' as [|x l H1 Hrest]; subst x l.
  pose proof u_pos as Hu. pose proof u_small as Hus.
  (* first iteration *)
  cbn [perim_loop64].
  destruct (vstep p0 p1 (okv_weaken 500 501 _ ltac:(lia) H0) H1) as [Ft [Wt [Bt [Zt [Hv0' Ed]]]]].
  cbv zeta in *.
  set (v1 := vsub64 p1 p0) in *. set (t1 := length64 v1) in *. set (v0' := vadd64 p0 v1) in *.
  set (D1 := dist (R2 p0) (R2 p1)) in *.
  pose proof (W_nonneg _ _ _ Wt) as Pt.
  assert (PD1 : 0 <= D1) by apply dist_pos.
  destruct (plus_ok b64_pzero t1 eq_refl Ft) as [Ra Fa].
  { rewrite B2R_pzero, Rplus_0_l, Rabs_pos_eq by exact Pt.
    apply Rle_trans with (1 := Bt). apply bpow_le. lia. }
  rewrite B2R_pzero, Rplus_0_l, rnd_id in Ra by apply fmt_B2R.
  set (acc1 := b64_plus mode_NE b64_pzero t1) in *.
  assert (Hlen : INR (length rest) <= bpow radix2 40).
  { rewrite INR_IZR_INZ. change (bpow radix2 40) with (IZR (2 ^ 40)). apply IZR_le.
    unfold poly in Hn40. cbn [length] in Hn40. lia. }
  destruct (loop_lemma rest v0' acc1 (R2 p1) 3 D1 D1 (bpow radix2 503))
    as [SD' [Fr [Wr [Zr [Br [X1 X2]]]]]]; try assumption.
  - lia.
  - rewrite Ra. exact Wt.
  - rewrite Ra. exact Zt.
  - rewrite Ra. exact Bt.
  - apply Rle_trans with (bpow radix2 503 + bpow radix2 40 * bpow radix2 504).
    + pose proof (bpow_gt_0 radix2 504). nra.
    + rewrite <- bpow_plus. change (40 + 504)%Z with 544%Z.
      apply Rle_trans with (bpow radix2 544 + bpow radix2 544).
      * pose proof (bpow_le radix2 503 544 ltac:(lia)). lra.
      * replace (bpow radix2 544 + bpow radix2 544) with (bpow radix2 (544 + 1)).
        -- apply bpow_le. lia.
        -- rewrite bpow_plus_1. change (IZR radix2) with 2. ring.
  - nra.
  - nra.
  - set (r := perim_loop64 v0' rest acc1) in *.
    (* the closing edge *)
    assert (Hlp : okv 500 (last poly p0)) by (apply last_in_Forall; assumption).
    set (lp := last poly p0) in *.
    destruct (vstep lp p0 (okv_weaken 500 501 _ ltac:(lia) Hlp) H0) as [Fc [Wc [Bc [Zc _]]]].
    cbv zeta in *.
    set (tc := length64 (vsub64 p0 lp)) in *. set (Lc := dist (R2 lp) (R2 p0)) in *.
    pose proof (W_nonneg _ _ _ Wr) as Pr. pose proof (W_nonneg _ _ _ Wc) as Pc.
    assert (PLc : 0 <= Lc) by apply dist_pos.
    assert (B556 : B2R64 r + B2R64 tc <= bpow radix2 556).
    { change 556%Z with (555 + 1)%Z. rewrite bpow_plus_1. change (IZR radix2) with 2.
      pose proof (bpow_le radix2 503 555 ltac:(lia)). lra. }
    destruct (plus_ok r tc Fr Fc) as [R2' F2].
    { rewrite Rabs_pos_eq by lra. apply Rle_trans with (1 := B556). apply bpow_le. lia. }
    set (r2 := b64_plus mode_NE r tc) in *.
    set (n := length poly) in *.
    assert (En : (S (3 + length rest) = n + 2)%nat) by (unfold n, poly; cbn [length]; lia).
    assert (W2 : W (n + 2) (SD' + Lc) (B2R64 r2)).
    { rewrite <- En, R2'. apply W_rnd_plus; try apply fmt_B2R. apply W_plus; [exact Wr |].
      apply W_weaken with (2 := Wc). lia. }
    assert (Z2 : B2R64 r2 = 0 \/ bpow radix2 (-500) <= B2R64 r2).
    { rewrite R2'. destruct Zr as [Z1|N1]; [destruct Zc as [Z2|N2] |].
      - left. rewrite Z1, Z2, Rplus_0_r. apply rnd_0.
      - right. apply rnd_ge_bpow; [lia | lra].
      - right. apply rnd_ge_bpow; [lia | lra]. }
    assert (B2 : Rabs (B2R64 r2) <= bpow radix2 556).
    { rewrite R2'. apply rnd_abs_le_bpow; [lia |]. rewrite Rabs_pos_eq by lra. exact B556. }
    pose proof (W_nonneg _ _ _ W2) as P2.
    (* the exact sum over the stored vertices *)
    set (Sp := exact_perimeter (map R2 poly)).
    assert (ES : Sp = D1 + pathlen (R2 p1) (map R2 rest) + Lc).
    { unfold Sp, poly. cbn [map]. rewrite exact_perimeter_cons, pathlen_cons.
      change (R2 p0 :: R2 p1 :: map R2 rest) with (map R2 (p0 :: p1 :: rest)).
      rewrite last_map. reflexivity. }
    assert (PS : 0 <= Sp) by (unfold Sp, exact_perimeter; apply sumd_pos).
    assert (PSD : 0 <= SD') by apply Wr.
    assert (Y1 : (1 - 2 * u) * (SD' + Lc) <= Sp) by (rewrite ES; nra).
    assert (Y2 : Sp <= (1 + 2 * u) * (SD' + Lc)) by (rewrite ES; nra).
    destruct copies as [c|]; cbn [copies_R].
    + (* times (double)get_count() *)
      cbn [copies_ok] in Hc.
      assert (Hc' : (Z.abs (Z.of_N c) <= 2 ^ 64)%Z) by lia.
      destruct (of_int_ok (Z.of_N c) Hc') as [Rc [Fcd _]].
      change (b64_of_Z (Z.of_N c)) with (b64_of_u64 c) in Rc, Fcd.
      set (cd := b64_of_u64 c) in *. set (cz := IZR (Z.of_N c)) in *.
      assert (Pcz : 0 <= cz) by (apply IZR_le; lia).
      assert (Zcz : cz = 0 \/ 1 <= cz).
      { destruct (Z.eq_dec (Z.of_N c) 0) as [E|E]; [left; unfold cz; rewrite E; reflexivity | right].
        apply IZR_le. lia. }
      assert (Wcd : W 1 cz (B2R64 cd)).
      { rewrite Rc. apply (W_rnd 0); [now apply W_refl |].
        destruct Zcz as [Z|NZ]; [left; exact Z | right].
        apply Rle_trans with (2 := NZ). change 1 with (bpow radix2 0). apply bpow_le. lia. }
      assert (Bcd : Rabs (B2R64 cd) <= bpow radix2 64).
      { rewrite Rc. apply rnd_abs_le_bpow; [lia |]. rewrite Rabs_pos_eq by exact Pcz.
        change (bpow radix2 64) with (IZR (2 ^ 64)). apply IZR_le. lia. }
      destruct (mult_ok r2 cd F2 Fcd) as [Rm Fm].
      { rewrite Rabs_mult. apply Rle_trans with (bpow radix2 556 * bpow radix2 64).
        - apply Rmult_le_compat; try apply Rabs_pos; assumption.
        - rewrite <- bpow_plus. apply bpow_le. lia. }
      split; [exact Fm |]. rewrite Rm.
      replace (n + 7)%nat with (S (n + 2 + 1) + 3)%nat by lia.
      apply W_drift with ((SD' + Lc) * cz).
      * apply W_rnd; [apply W_mult; assumption |].
        destruct Z2 as [Z|NZ]; [left; rewrite Z; ring |].
        destruct Zcz as [Zc'|NZc]; [left | right].
        -- rewrite Rc, Zc', rnd_0. ring.
        -- assert (1 <= B2R64 cd).
           { rewrite Rc. change 1 with (bpow radix2 0). apply rnd_ge_bpow; [lia |]. exact NZc. }
           apply Rle_trans with (bpow radix2 (-500)); [apply bpow_le; lia |].
           pose proof (bpow_gt_0 radix2 (-500)). nra.
      * now apply Rmult_le_pos.
      * replace ((1 - 2 * u) * ((SD' + Lc) * cz)) with (cz * ((1 - 2 * u) * (SD' + Lc))) by ring.
        now apply Rmult_le_compat_l.
      * replace ((1 + 2 * u) * ((SD' + Lc) * cz)) with (cz * ((1 + 2 * u) * (SD' + Lc))) by ring.
        now apply Rmult_le_compat_l.
    + split; [exact F2 |]. rewrite Rmult_1_l.
      replace (n + 7)%nat with (n + 4 + 3)%nat by lia.
      apply W_drift with (SD' + Lc); try assumption.
      apply W_weaken with (2 := W2). lia.
Qed.

(* ================================================================== the theorems *)
(* (b) error bound for every input of the class, any number of vertices up to 2^40, any count below 2^64 *)
Theorem perimeter_error_lemma : forall (poly : list vec64) (copies : option N),
  Forall (okv 500) poly -> (3 <= length poly)%nat -> (Z.of_nat (length poly) <= 2 ^ 40)%Z ->
  copies_ok copies ->
  Rabs (B2R64 (perimeter64 poly copies) - copies_R copies * exact_perimeter (map R2 poly))
  <= ((1 + u) ^ (length poly + 7) - 1) * (copies_R copies * exact_perimeter (map R2 poly)).
Proof.
  intros poly copies H1 H2 H3 H4. destruct (perimeter_core poly copies H1 H2 H3 H4) as [_ HW].
  now apply W_abs.
Qed.

(* (d) finite and non-negative *)
Theorem perimeter_finite_nonneg_lemma : forall (poly : list vec64) (copies : option N),
  Forall (okv 500) poly -> (Z.of_nat (length poly) <= 2 ^ 40)%Z -> copies_ok copies ->
  fin64 (perimeter64 poly copies) = true /\ 0 <= B2R64 (perimeter64 poly copies).
Proof.
  intros poly copies H1 H3 H4. destruct (le_lt_dec 3 (length poly)) as [H2|H2].
  - destruct (perimeter_core poly copies H1 H2 H3 H4) as [F HW]. split; [exact F |].
    now apply W_nonneg in HW.
  - unfold perimeter64. replace (length poly <? 3)%nat with true by (symmetry; apply Nat.ltb_lt; exact H2).
    split; [reflexivity | rewrite B2R_pzero; lra].
Qed.

(* (c) +0 below three vertices, whatever the vertices (NaN and infinities included) and the count *)
Theorem perimeter_short_lemma : forall (poly : list vec64) (copies : option N),
  (length poly < 3)%nat -> perimeter64 poly copies = b64_pzero.
Proof.
  intros poly copies H. unfold perimeter64.
  replace (length poly <? 3)%nat with true by (symmetry; apply Nat.ltb_lt; exact H). reflexivity.
Qed.

(* a decidable sufficient condition for the input class *)
Definition okc_b (x : binary64) : bool :=
  match x with
  | B754_zero _ _ _ => true
  | B754_finite _ _ _ m e _ => ((-500 <=? e) && (Z.pos m * 2 ^ (e + 500) <=? 2 ^ 1000))%Z
  | _ => false
  end.
Definition okv_b (v : vec64) : bool := okc_b (fst v) && okc_b (snd v).

Lemma okc_b_sound : forall x, okc_b x = true -> okc 500 x.
Proof.
  intros [s|s|s pl Hpl|s m e Hb] H; try discriminate H.
  - split; [reflexivity |]. split; [exact grid_0 |]. cbn [Binary.B2R]. rewrite Rabs_R0. apply bpow_ge_0.
  - cbn [okc_b] in H. apply andb_prop in H. destruct H as [He Hm].
    apply Z.leb_le in He. apply Z.leb_le in Hm.
    split; [reflexivity |]. cbn [Binary.B2R]. unfold F2R. cbn [Fnum Fexp].
    assert (Eb : bpow radix2 e = IZR (2 ^ (e + 500)) * bpow radix2 (-500)).
    { change 2%Z with (radix_val radix2). rewrite IZR_Zpower by lia. rewrite <- bpow_plus. f_equal. lia. }
    split.
    + exists (cond_Zopp s (Z.pos m) * 2 ^ (e + 500))%Z. rewrite mult_IZR, Eb. ring.
    + rewrite Rabs_mult, <- abs_IZR, abs_cond_Zopp, (Rabs_pos_eq (bpow radix2 e)) by apply bpow_ge_0.
      rewrite Eb, <- Rmult_assoc, <- mult_IZR.
      apply Rle_trans with (IZR (2 ^ 1000) * bpow radix2 (-500)).
      * apply Rmult_le_compat_r; [apply bpow_ge_0 |]. apply IZR_le. exact Hm.
      * change (2 ^ 1000)%Z with (Zpower radix2 1000). rewrite IZR_Zpower by lia.
        rewrite <- bpow_plus. apply bpow_le. lia.
Qed.
Lemma okv_b_sound : forall l, forallb okv_b l = true -> Forall (okv 500) l.
Proof.
  induction l as [|v t IH]; intros H; [constructor |]. cbn [forallb] in H.
  apply andb_prop in H. destruct H as [Hv Ht]. constructor; [| now apply IH].
  unfold okv_b in Hv. apply andb_prop in Hv. destruct Hv. split; now apply okc_b_sound.
Qed.

(* the hypotheses are satisfiable on a non-trivial input: non-integer dyadic coordinates of very
   different magnitudes (0.75, 2^40 + 2^-12, -3 * 2^-20, 1e6 + 1/3 rounded, ...), count above 2^53 *)
Definition example_poly : list vec64 := map vec_of_bits
  [(4604930618986332160, 4787326403894837249); (13747237862548439040, 4696837149547997867);
   (4696837148402673254, 13827176755934265344); (4607182418800017408, 4611686018427387904)]%N.
Example perimeter_error_example :
  Forall (okv 500) example_poly /\ (3 <= length example_poly)%nat /\
  copies_ok (Some 18446744073709551615%N) /\
  Rabs (B2R64 (perimeter64 example_poly (Some 18446744073709551615%N))
        - IZR 18446744073709551615 * exact_perimeter (map R2 example_poly))
  <= ((1 + u) ^ 11 - 1) * (IZR 18446744073709551615 * exact_perimeter (map R2 example_poly)).
Proof.
  assert (H : Forall (okv 500) example_poly) by (apply okv_b_sound; vm_compute; reflexivity).
  split; [exact H |]. split; [cbn; lia |]. split; [reflexivity |].
  apply (perimeter_error_lemma example_poly (Some 18446744073709551615%N)); [exact H | cbn; lia | cbn; lia | reflexivity].
Qed.

(* ------------------------------------------------------------------ (c) the exact sum does not depend on
   the starting vertex or on the orientation *)
Lemma last_default : forall (A : Type) (t : list A) (x d d' : A), last (x :: t) d = last (x :: t) d'.
Proof.
  induction t as [|y t IH]; intros x d d'; [reflexivity |].
  change (last (x :: y :: t) d) with (last (y :: t) d).
  change (last (x :: y :: t) d') with (last (y :: t) d'). apply IH.
Qed.

Lemma chain_snoc : forall (A : Type) (t : list A) (x h : A),
  chain x (t ++ [h]) = chain x t ++ [(last (x :: t) x, h)].
Proof.
  induction t as [|y t IH]; intros x h; [reflexivity |].
  change (chain x ((y :: t) ++ [h])) with ((x, y) :: chain y (t ++ [h])).
  rewrite IH. change (chain x (y :: t)) with ((x, y) :: chain y t).
  change (last (x :: y :: t) x) with (last (y :: t) x).
  rewrite (last_default _ t y x y). reflexivity.
Qed.

Lemma exact_perimeter_rotate1 : forall (h : R * R) (t : list (R * R)),
  exact_perimeter (t ++ [h]) = exact_perimeter (h :: t).
Proof.
  intros h [|x t]; [reflexivity |].
  change ((x :: t) ++ [h]) with (x :: (t ++ [h])).
  rewrite !exact_perimeter_cons. unfold pathlen at 1. rewrite chain_snoc, sumd_app.
  change (x :: t ++ [h]) with ((x :: t) ++ [h]). rewrite last_last.
  rewrite pathlen_cons. change (last (h :: x :: t) h) with (last (x :: t) h).
  rewrite (last_default _ t x h x). cbn [sumd fst snd]. unfold pathlen. lra.
Qed.

Theorem exact_perimeter_rotate_lemma : forall a b : list (R * R),
  exact_perimeter (b ++ a) = exact_perimeter (a ++ b).
Proof.
  induction a as [|h a IH]; intros b; [now rewrite app_nil_r |].
  replace (b ++ h :: a) with ((b ++ [h]) ++ a) by (rewrite <- app_assoc; reflexivity).
  rewrite IH, app_assoc, exact_perimeter_rotate1. reflexivity.
Qed.

Definition pairs {A : Type} (l : list A) : list (A * A) :=
  match l with [] => [] | a :: t => chain a t end.
Definition swap {A : Type} (e : A * A) : A * A := (snd e, fst e).

Lemma pairs_snoc : forall (A : Type) (l : list A) (x : A),
  pairs (l ++ [x]) = pairs l ++ match l with [] => [] | _ => [(last l x, x)] end.
Proof.
  intros A [|a t] x; [reflexivity |]. cbn [app pairs]. rewrite chain_snoc.
  rewrite (last_default _ t a a x). reflexivity.
Qed.

Lemma pairs_rev : forall (A : Type) (l : list A), pairs (rev l) = rev (map swap (pairs l)).
Proof.
  induction l as [|a t IH]; [reflexivity |]. cbn [rev]. rewrite pairs_snoc, IH.
  destruct t as [|b t']; [reflexivity |].
  change (pairs (a :: b :: t')) with ((a, b) :: pairs (b :: t')).
  cbn [map rev]. f_equal.
  destruct (rev t' ++ [b]) as [|y l'] eqn:E; [destruct (rev t'); discriminate E |].
  rewrite <- E, last_last. reflexivity.
Qed.

Lemma sumd_rev : forall l, sumd (rev l) = sumd l.
Proof. induction l as [|e t IH]; [reflexivity |]. cbn [rev]. rewrite sumd_app, IH. cbn [sumd]. lra. Qed.
Lemma sumd_swap : forall l, sumd (map swap l) = sumd l.
Proof.
  induction l as [|e t IH]; [reflexivity |]. cbn [map sumd]. rewrite IH. unfold swap. cbn [fst snd].
  rewrite (dist_sym (snd e) (fst e)). reflexivity.
Qed.

Lemma closed_pairs_pairs : forall (A : Type) (h : A) (t : list A),
  closed_pairs (h :: t) = pairs ((h :: t) ++ [h]).
Proof.
  intros A h t. unfold closed_pairs. rewrite combine_closing. cbn [app pairs]. rewrite chain_snoc. reflexivity.
Qed.

Theorem exact_perimeter_rev_lemma : forall l : list (R * R),
  exact_perimeter (rev l) = exact_perimeter l.
Proof.
  intros [|h t]; [reflexivity |]. cbn [rev]. rewrite exact_perimeter_rotate1.
  unfold exact_perimeter. rewrite !closed_pairs_pairs.
  replace ((h :: rev t) ++ [h]) with (rev ((h :: t) ++ [h])).
  - rewrite pairs_rev, sumd_rev, sumd_swap. reflexivity.
  - rewrite rev_app_distr. reflexivity.
Qed.

(* ... but the floating-point value does depend on both (the additions are not associative):
   the triangle (0,0) (0,1) (3,2) started at its second vertex, the quadrilateral
   (0,0) (0,1) (1,0) (3,3) traversed backwards; replayed on the real Polygon::perimeter *)
Theorem perimeter_rotation_refuted : exists (h : Z * Z) (t : list (Z * Z)),
  perimeter_Z (t ++ [h]) None <> perimeter_Z (h :: t) None.
Proof. exists (0, 0)%Z, [(0, 1); (3, 2)]%Z. vm_compute. discriminate. Qed.
Theorem perimeter_reversal_refuted : exists l : list (Z * Z),
  perimeter_Z (rev l) None <> perimeter_Z l None.
Proof. exists [(0, 0); (0, 1); (1, 0); (3, 3)]%Z. vm_compute. discriminate. Qed.
Example perimeter_rotation_values :
  perimeter_Z [(0, 0); (0, 1); (3, 2)]%Z None = 4620431816302385828%N       (* 0x401f1241bf9ddaa4 *)
  /\ perimeter_Z [(0, 1); (3, 2); (0, 0)]%Z None = 4620431816302385827%N    (* 0x401f1241bf9ddaa3 *)
  /\ perimeter_Z [(0, 0); (0, 1); (1, 0); (3, 3)]%Z None = 4621966838767023202%N   (* 0x4024865a0457f462 *)
  /\ perimeter_Z [(3, 3); (1, 0); (0, 1); (0, 0)]%Z None = 4621966838767023203%N.
Proof. vm_compute. repeat split; reflexivity. Qed.

(* the running vertex of the loop is not the stored vertex: from 2^40 to 3 * 2^-20 it lands on 0 *)
Theorem drift_refuted : exists v0 q : vec64,
  okv 500 v0 /\ okv 500 q /\ vadd64 v0 (vsub64 q v0) <> q.
Proof.
  exists (vec_of_bits (4787326403894837248, 0)%N), (vec_of_bits (4523865825693663232, 0)%N).
  split; [| split].
  - split; apply okc_b_sound; vm_compute; reflexivity.
  - split; apply okc_b_sound; vm_compute; reflexivity.
  - intros E. apply (f_equal (fun v => bits_of_b64 (fst v))) in E. vm_compute in E. discriminate E.
Qed.
