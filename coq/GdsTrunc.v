(* C18 for the data-level models: the prefix theorems of GdsFrameProofs.v instantiated with the full
   per-record semantics of read_gds (GdsModel.step_gds) and of gds_info (GdsModel.step_info): a cut file is
   either reported as a short read or gives exactly the library / the summary of the complete file. *)
Require Import Base GdsFrame GdsFrameProofs GdsModel.
Local Open Scope N_scope.

Lemma read_gds_as_reader f bs l :
  read_gds_model f bs = Ok l ->
  exists rest, reader rstate (option glib) (step_for_loop f) init_state bs = Ok (Some l, rest).
Proof.
  unfold read_gds_model.
  destruct (reader rstate (option glib) (step_for_loop f) init_state bs) as [[[l'|] rest]| | | | |]; try discriminate.
  intros [= ->]. exists rest. reflexivity.
Qed.

Theorem read_gds_truncated_lemma f bs l n :
  read_gds_model f bs = Ok l ->
  read_gds_model f (firstn n bs) = ErrEof \/ read_gds_model f (firstn n bs) = Ok l.
Proof.
  intros H. destruct (read_gds_as_reader _ _ _ H) as [rest Hr].
  destruct (le_lt_dec (length bs - length rest) n) as [Hc|Hc].
  - right. unfold read_gds_model. rewrite (reader_truncated_same_lemma _ _ _ _ _ _ _ n Hr Hc). reflexivity.
  - left. unfold read_gds_model. rewrite (reader_truncated_errors_lemma _ _ _ _ _ _ _ n Hr Hc). reflexivity.
Qed.

(* the cut at which the answer switches is exactly the end of the ENDLIB record *)
Theorem read_gds_truncated_threshold_lemma f bs l :
  read_gds_model f bs = Ok l ->
  exists k, (k <= length bs)%nat /\
    forall n, ((n < k)%nat -> read_gds_model f (firstn n bs) = ErrEof) /\
              ((k <= n)%nat -> read_gds_model f (firstn n bs) = Ok l).
Proof.
  intros H. destruct (read_gds_as_reader _ _ _ H) as [rest Hr].
  exists (length bs - length rest)%nat. split; [lia|]. intros n. split; intros Hn.
  - unfold read_gds_model. rewrite (reader_truncated_errors_lemma _ _ _ _ _ _ _ n Hr Hn). reflexivity.
  - unfold read_gds_model. rewrite (reader_truncated_same_lemma _ _ _ _ _ _ _ n Hr Hn). reflexivity.
Qed.

Lemma gds_info_as_reader bs i :
  gds_info_model bs = Ok i -> exists rest, reader ginfo ginfo step_info init_info bs = Ok (i, rest).
Proof.
  unfold gds_info_model.
  destruct (reader ginfo ginfo step_info init_info bs) as [[i' rest]| | | | |]; try discriminate.
  intros [= ->]. exists rest. reflexivity.
Qed.

Theorem gds_info_truncated_lemma bs i n :
  gds_info_model bs = Ok i ->
  gds_info_model (firstn n bs) = ErrEof \/ gds_info_model (firstn n bs) = Ok i.
Proof.
  intros H. destruct (gds_info_as_reader _ _ H) as [rest Hr].
  destruct (le_lt_dec (length bs - length rest) n) as [Hc|Hc].
  - right. unfold gds_info_model. rewrite (reader_truncated_same_lemma _ _ _ _ _ _ _ n Hr Hc). reflexivity.
  - left. unfold gds_info_model. rewrite (reader_truncated_errors_lemma _ _ _ _ _ _ _ n Hr Hc). reflexivity.
Qed.

(* neither model can hang, whatever the bytes *)
Theorem read_gds_total_lemma f bs : read_gds_model f bs <> Hang.
Proof.
  unfold read_gds_model. pose proof (reader_total_lemma rstate (option glib) (step_for_loop f) init_state bs) as Ht.
  destruct (reader rstate (option glib) (step_for_loop f) init_state bs) as [[[l'|] rest]| | | | |]; congruence.
Qed.
Theorem gds_info_total_lemma bs : gds_info_model bs <> Hang.
Proof.
  unfold gds_info_model. pose proof (reader_total_lemma ginfo ginfo step_info init_info bs) as Ht.
  destruct (reader ginfo ginfo step_info init_info bs) as [[i' rest]| | | | |]; congruence.
Qed.
