(* Model of gdstk's open-addressing hash tables (linear probing, deletion by re-insertion of the
   following cluster):
     include/gdstk/map.hpp     Map<T>     (NUL-terminated string keys)
     include/gdstk/set.hpp     Set<T>     (keys = values, hashed over their bytes)
     include/gdstk/tagmap.hpp  TagMap     (Tag -> Tag, empty slot <=> key == value)
     src/style.cpp             StyleMap   (Tag -> string, empty slot <=> value == NULL)
     include/gdstk/utils.hpp   hash()     (FNV-1a, 64 bit)
   The four C++ tables are the same code up to the representation of an empty slot; the generic
   [table] below mirrors Map<T> statement by statement, the instances add what differs.
   Definitions only (no proofs) so the model still runs when a proof breaks.

   Modelling notes
   * [cap], [count] and slot indices are [nat] (lengths / indices); uint64 wrap-around of
     [count * 10] or [capacity * GROWTH] (capacities >= 2^60) is outside the model.
   * allocation failure is outside the model.
   * Fuel.  [get_slot] walks at most [cap] slots, the [while (true)] loop of [del] runs at most
     [cap] times, [set] -> [resize] -> [set] nests at most [resize_depth] deep; running out of
     fuel is [Hang].  TableProofs.v shows that under the table invariant none of them runs out
     (and that one level of nesting is all that happens).
   * An index outside [slots] is [Crash] (never a default value).                            *)
Require Import Base Generated.
From Coq Require Import Arith PeanoNat.

(* l[i] := x *)
Fixpoint upd {A : Type} (l : list A) (i : nat) (x : A) : list A :=
  match l, i with
  | [], _ => []
  | _ :: tl, O => x :: tl
  | h :: tl, S j => h :: upd tl j x
  end.

Section Table.
Variables K V : Type.
Variable keqb : K -> K -> bool.         (* strcmp(a, b) == 0   /   a == b *)
Variable hash : K -> N.                 (* hash(key), a uint64 *)
Variables initial growth thr : nat.     (* GDSTK_INITIAL_MAP_CAPACITY, _GROWTH_FACTOR, _CAPACITY_THRESHOLD *)

Definition slot : Type := option (K * V).      (* None <=> item->key == NULL *)

(* struct Map { uint64_t capacity; uint64_t count; MapItem<T>* items; } *)
Record table : Type := mkTable { cap : nat; count : nat; slots : list slot }.

(* allocate_clear(capacity * sizeof(MapItem<T>)), count = 0 *)
Definition empty_table (c : nat) : table := mkTable c 0 (repeat None c).

(* a zero-initialised Map *)
Definition table0 : table := empty_table 0.

(* clear(): frees everything; capacity = 0; count = 0 *)
Definition tclear (t : table) : table := table0.

(* items[i] = s (count untouched) *)
Definition put (t : table) (i : nat) (s : slot) : table :=
  mkTable (cap t) (count t) (upd (slots t) i s).

(* hash(key) % capacity *)
Definition home (c : nat) (k : K) : nat := N.to_nat (N.modulo (hash k) (N.of_nat c)).

(* item++; if (item == items + capacity) item = items; *)
Definition next_idx (c i : nat) : nat := if Nat.eqb (S i) c then 0 else S i.

(* while (item->key != NULL && strcmp(item->key, key) != 0) { item++; wrap } *)
Fixpoint probe (fuel : nat) (t : table) (k : K) (i : nat) : outcome nat :=
  match fuel with
  | O => Hang
  | S f =>
      match nth_error (slots t) i with
      | None => Crash
      | Some None => Ok i
      | Some (Some (k', _)) => if keqb k' k then Ok i else probe f t k (next_idx (cap t) i)
      end
  end.

(* get_slot(key): [hash(key) % capacity] divides by zero when capacity == 0 *)
Definition get_slot (t : table) (k : K) : outcome nat :=
  if Nat.eqb (cap t) 0 then Crash else probe (cap t) t k (home (cap t) k).

(* the part of set() after the resize test:
     item = get_slot(key); if (item->key == NULL) { item->key = copy(key); count++; } item->value = value; *)
Definition tset_core (t : table) (k : K) (v : V) : outcome table :=
  obind (get_slot t k) (fun i =>
    match nth_error (slots t) i with
    | None => Crash
    | Some None => Ok (mkTable (cap t) (S (count t)) (upd (slots t) i (Some (k, v))))
    | Some (Some (k', _)) => Ok (mkTable (cap t) (count t) (upd (slots t) i (Some (k', v))))
    end).

(* new capacity requested by set() *)
Definition grow_cap (c : nat) : nat := if Nat.leb initial c then c * growth else initial.

(* the loop body of resize() / copy_from(): if (it->key) new_map.set(it->key, it->value) *)
Definition reinsert (setf : table -> K -> V -> outcome table) (acc : outcome table) (s : slot)
  : outcome table :=
  match s with
  | None => acc
  | Some (k, v) => obind acc (fun nt => setf nt k v)
  end.

(* set(key, value), with the set -> resize -> new_map.set recursion bounded by [depth]:
     if (count * 10 >= capacity * THRESHOLD) resize(capacity >= INITIAL ? capacity * GROWTH : INITIAL);
   the test comes BEFORE the probe, hence also fires when the key is already present.          *)
Fixpoint tset_f (depth : nat) (t : table) (k : K) (v : V) : outcome table :=
  match depth with
  | O => Hang
  | S d =>
      obind (if Nat.leb (cap t * thr) (count t * 10)
             then fold_left (reinsert (tset_f d)) (slots t) (Ok (empty_table (grow_cap (cap t))))
             else Ok t)
            (fun t1 => tset_core t1 k v)
  end.

Definition resize_depth : nat := 64.
Definition tset (t : table) (k : K) (v : V) : outcome table := tset_f resize_depth t k v.

(* resize(new_capacity): every occupied slot, in slot order, is set() into a zeroed table *)
Definition tresize (t : table) (c : nat) : outcome table :=
  fold_left (reinsert tset) (slots t) (Ok (empty_table c)).

(* next()/to_array(): iteration order is slot order *)
Fixpoint somes (l : list slot) : list (K * V) :=
  match l with
  | [] => []
  | None :: tl => somes tl
  | Some kv :: tl => kv :: somes tl
  end.
Definition titems (t : table) : list (K * V) := somes (slots t).

(* copy_from(map): zeroed table of the SAME capacity, then set() of every item in slot order *)
Definition tcopy (t : table) : outcome table :=
  fold_left (reinsert tset) (slots t) (Ok (empty_table (cap t))).

(* get(key): if (count == 0) return T{}; item = get_slot(key); return item->key ? item->value : T{} *)
Definition tget (t : table) (k : K) : outcome (option V) :=
  if Nat.eqb (count t) 0 then Ok None
  else obind (get_slot t k) (fun i =>
    match nth_error (slots t) i with
    | None => Crash
    | Some None => Ok None
    | Some (Some (_, v)) => Ok (Some v)
    end).

(* has_key(key) *)
Definition thas (t : table) (k : K) : outcome bool :=
  if Nat.eqb (count t) 0 then Ok false
  else obind (get_slot t k) (fun i =>
    match nth_error (slots t) i with
    | None => Crash
    | Some None => Ok false
    | Some (Some _) => Ok true
    end).

(* the while (true) loop of del(); [j] is the index of [item] on entry to an iteration:
     item++ (wrap); if (item->key == NULL) return true;
     temp_key = item->key; item->key = NULL; new_item = get_slot(temp_key);
     new_item->key = temp_key; new_item->value = item->value;                                 *)
Fixpoint del_loop (fuel : nat) (t : table) (j : nat) : outcome table :=
  match fuel with
  | O => Hang
  | S f =>
      let j' := next_idx (cap t) j in
      match nth_error (slots t) j' with
      | None => Crash
      | Some None => Ok t
      | Some (Some (k, v)) =>
          let t1 := put t j' None in
          obind (get_slot t1 k) (fun q => del_loop f (put t1 q (Some (k, v))) j')
      end
  end.

(* del(key): if (count == 0) return false; item = get_slot(key); if (item->key == NULL) return false;
   item->key = NULL; count--; then the loop above *)
Definition tdel (t : table) (k : K) : outcome (bool * table) :=
  if Nat.eqb (count t) 0 then Ok (false, t)
  else obind (get_slot t k) (fun i =>
    match nth_error (slots t) i with
    | None => Crash
    | Some None => Ok (false, t)
    | Some (Some _) =>
        obind (del_loop (cap t) (mkTable (cap t) (Nat.pred (count t)) (upd (slots t) i None)) i)
              (fun t' => Ok (true, t'))
    end).

(* ---- histories ---- *)
Inductive op : Type :=
| OpSet (k : K) (v : V)
| OpGet (k : K)
| OpHas (k : K)
| OpDel (k : K)
| OpClear
| OpCopy            (* other.copy_from(this); this.clear(); continue with other *)
| OpIter            (* for (item = next(NULL); item; item = next(item)) *)
| OpResize (c : nat). (* the public resize(c) *)

Inductive obs : Type :=
| ObsUnit
| ObsVal (o : option V)
| ObsBool (b : bool)
| ObsItems (l : list (K * V))
| ObsCrash
| ObsHang.

Definition obs_fail {A} (o : outcome A) : obs :=
  match o with Hang => ObsHang | _ => ObsCrash end.

Definition step (t : table) (o : op) : outcome (obs * table) :=
  match o with
  | OpSet k v => obind (tset t k v) (fun t' => Ok (ObsUnit, t'))
  | OpGet k => obind (tget t k) (fun r => Ok (ObsVal r, t))
  | OpHas k => obind (thas t k) (fun r => Ok (ObsBool r, t))
  | OpDel k => obind (tdel t k) (fun r => Ok (ObsBool (fst r), snd r))
  | OpClear => Ok (ObsUnit, tclear t)
  | OpCopy => obind (tcopy t) (fun t' => Ok (ObsUnit, t'))
  | OpIter => Ok (ObsItems (titems t), t)
  | OpResize c => obind (tresize t c) (fun t' => Ok (ObsUnit, t'))
  end.

(* outputs of a history and the final table; the run stops at the first Crash / Hang *)
Fixpoint run_from (t : table) (ops : list op) : list obs * table :=
  match ops with
  | [] => ([], t)
  | o :: rest =>
      match step t o with
      | Ok (r, t') => let (rs, tf) := run_from t' rest in (r :: rs, tf)
      | f => ([obs_fail f], t)
      end
  end.

Definition run_table (ops : list op) : list obs := fst (run_from table0 ops).

(* ---- the abstract map the histories are compared with (specification level) ----
   an association list, newest binding first, at most one binding per key *)
Definition amap : Type := list (K * V).
Fixpoint alookup (m : amap) (k : K) : option V :=
  match m with
  | [] => None
  | (k', v) :: tl => if keqb k' k then Some v else alookup tl k
  end.
Fixpoint aremove (m : amap) (k : K) : amap :=
  match m with
  | [] => []
  | (k', v) :: tl => if keqb k' k then aremove tl k else (k', v) :: aremove tl k
  end.
Definition ahas (m : amap) (k : K) : bool :=
  match alookup m k with Some _ => true | None => false end.

Definition spec_step (m : amap) (o : op) : obs * amap :=
  match o with
  | OpSet k v => (ObsUnit, (k, v) :: aremove m k)
  | OpGet k => (ObsVal (alookup m k), m)
  | OpHas k => (ObsBool (ahas m k), m)
  | OpDel k => (ObsBool (ahas m k), aremove m k)
  | OpClear => (ObsUnit, [])
  | OpCopy => (ObsUnit, m)
  | OpIter => (ObsItems m, m)
  | OpResize _ => (ObsUnit, m)
  end.

Fixpoint spec_from (m : amap) (ops : list op) : list obs :=
  match ops with
  | [] => []
  | o :: rest => fst (spec_step m o) :: spec_from (snd (spec_step m o)) rest
  end.

Definition run_spec (ops : list op) : list obs := spec_from [] ops.

(* raw layout: (index, key) of the occupied slots *)
Fixpoint layout_from (i : nat) (l : list slot) : list (nat * K) :=
  match l with
  | [] => []
  | None :: tl => layout_from (S i) tl
  | Some (k, _) :: tl => (i, k) :: layout_from (S i) tl
  end.
Definition layout (t : table) : list (nat * K) := layout_from 0 (slots t).

End Table.

Arguments mkTable {K V}.
Arguments cap {K V}.
Arguments count {K V}.
Arguments slots {K V}.
Arguments OpSet {K V}.
Arguments OpGet {K V}.
Arguments OpHas {K V}.
Arguments OpDel {K V}.
Arguments OpClear {K V}.
Arguments OpCopy {K V}.
Arguments OpIter {K V}.
Arguments OpResize {K V}.
Arguments ObsUnit {K V}.
Arguments ObsVal {K V}.
Arguments ObsBool {K V}.
Arguments ObsItems {K V}.
Arguments ObsCrash {K V}.
Arguments ObsHang {K V}.

(* ================= instances ================= *)
Local Open Scope N_scope.

Definition tbl_two64 : N := 18446744073709551616.

(* result ^= byte; result *= HASH_FNV_PRIME;   (uint64 arithmetic) *)
Definition fnv_step (r b : N) : N := (N.lxor r b * HASH_FNV_PRIME) mod tbl_two64.

(* hash of a C string: [result ^= (uint64_t) c[i]] with [char] SIGNED on the platform under test
   (x86-64 Linux): bytes >= 0x80 are sign-extended to 64 bits before the xor. *)
Definition sext8 (c : N) : N := if c <? 128 then c else c + (tbl_two64 - 256).
Definition hash_str (s : list N) : N :=
  fold_left (fun r c => fnv_step r (sext8 c)) s HASH_FNV_OFFSET.

(* template hash(T key) for an 8-byte T: the bytes in memory order (little endian) *)
Definition le_bytes8 (x : N) : list N :=
  map (fun i => N.land (N.shiftr x (8 * i)) 255) [0; 1; 2; 3; 4; 5; 6; 7].
Definition hash_u64 (x : N) : N := fold_left fnv_step (le_bytes8 x) HASH_FNV_OFFSET.

Fixpoint bytes_eqb (a b : list N) : bool :=
  match a, b with
  | [], [] => true
  | x :: a', y :: b' => (x =? y) && bytes_eqb a' b'
  | _, _ => false
  end.

Definition P_INITIAL : nat := N.to_nat GDSTK_INITIAL_MAP_CAPACITY.
Definition P_GROWTH : nat := N.to_nat GDSTK_MAP_GROWTH_FACTOR.
Definition P_THRESHOLD : nat := N.to_nat GDSTK_MAP_CAPACITY_THRESHOLD.

(* --- Map<uint64_t>: string keys (bytes without NUL), uint64 values --- *)
Definition smap : Type := table (list N) N.
Definition smap_op : Type := op (list N) N.
Definition smap_step (t : smap) (o : smap_op) :=
  step (list N) N bytes_eqb hash_str P_INITIAL P_GROWTH P_THRESHOLD t o.
Definition smap_run (ops : list smap_op) : list (obs (list N) N) * smap :=
  run_from (list N) N bytes_eqb hash_str P_INITIAL P_GROWTH P_THRESHOLD (table0 (list N) N) ops.
(* get() returns T{} when the key is absent *)
Definition smap_get_default (o : option N) : N := match o with Some v => v | None => 0 end.

(* --- Set<uint64_t>: same code with [valid] instead of [key != NULL]; add(v) = set(v, ()) --- *)
Definition uset : Type := table N unit.
Definition uset_op : Type := op N unit.
Definition uset_run (ops : list uset_op) : list (obs N unit) * uset :=
  run_from N unit N.eqb hash_u64 P_INITIAL P_GROWTH P_THRESHOLD (table0 N unit) ops.

(* --- StyleMap: Tag keys, string values; empty slot <=> value == NULL; get() returns NULL --- *)
Definition stylemap : Type := table N (list N).
Definition stylemap_op : Type := op N (list N).
Definition stylemap_run (ops : list stylemap_op) : list (obs N (list N)) * stylemap :=
  run_from N (list N) N.eqb hash_u64 P_INITIAL P_GROWTH P_THRESHOLD (table0 N (list N)) ops.

(* --- TagMap: Tag -> Tag; a slot is empty iff key == value (a vacated slot keeps key = value =
   old value, which no operation can tell from a zeroed one); differences with Map:
     set(k, v): if (k == v) { del(k); return; }
     get(k):    returns k itself when absent                                                  *)
Definition tagmap : Type := table N N.
Definition tagmap_op : Type := op N N.
Definition tm_set (t : tagmap) (k v : N) : outcome tagmap :=
  if k =? v
  then obind (tdel N N N.eqb hash_u64 t k) (fun r => Ok (snd r))
  else tset N N N.eqb hash_u64 P_INITIAL P_GROWTH P_THRESHOLD t k v.
Definition tm_get (t : tagmap) (k : N) : outcome N :=
  obind (tget N N N.eqb hash_u64 t k) (fun r => Ok (match r with Some v => v | None => k end)).
Definition tagmap_step (t : tagmap) (o : tagmap_op) : outcome (obs N N * tagmap) :=
  match o with
  | OpSet k v => obind (tm_set t k v) (fun t' => Ok (ObsUnit, t'))
  | OpGet k => obind (tm_get t k) (fun r => Ok (ObsVal (Some r), t))
  | _ => step N N N.eqb hash_u64 P_INITIAL P_GROWTH P_THRESHOLD t o
  end.
Fixpoint tagmap_run_from (t : tagmap) (ops : list tagmap_op) : list (obs N N) * tagmap :=
  match ops with
  | [] => ([], t)
  | o :: rest =>
      match tagmap_step t o with
      | Ok (r, t') => let (rs, tf) := tagmap_run_from t' rest in (r :: rs, tf)
      | f => ([obs_fail N N f], t)
      end
  end.
Definition tagmap_run (ops : list tagmap_op) : list (obs N N) * tagmap :=
  tagmap_run_from (table0 N N) ops.

(* specification level for TagMap: a map with the identity as default; set(k, k) removes k *)
Definition tm_spec_step (m : amap N N) (o : tagmap_op) : obs N N * amap N N :=
  match o with
  | OpSet k v => if k =? v then (ObsUnit, aremove N N N.eqb m k)
                 else (ObsUnit, (k, v) :: aremove N N N.eqb m k)
  | OpGet k => (ObsVal (Some (match alookup N N N.eqb m k with Some v => v | None => k end)), m)
  | _ => spec_step N N N.eqb m o
  end.
Fixpoint tm_spec_from (m : amap N N) (ops : list tagmap_op) : list (obs N N) :=
  match ops with
  | [] => []
  | o :: rest => fst (tm_spec_step m o) :: tm_spec_from (snd (tm_spec_step m o)) rest
  end.
Definition tagmap_run_spec (ops : list tagmap_op) : list (obs N N) := tm_spec_from [] ops.

(* specification-level runs of the other three instances *)
Definition smap_run_spec (ops : list smap_op) : list (obs (list N) N) := run_spec (list N) N bytes_eqb ops.
Definition uset_run_spec (ops : list uset_op) : list (obs N unit) := run_spec N unit N.eqb ops.
Definition stylemap_run_spec (ops : list stylemap_op) : list (obs N (list N)) := run_spec N (list N) N.eqb ops.

(* boolean form of the side condition of the refinement theorem (TableProofs.params_ok) *)
Definition params_okb (initial growth thr : nat) : bool :=
  Nat.leb 1 thr && Nat.leb thr 5 && Nat.leb 2 growth && Nat.leb 2 initial &&
  (Nat.leb 10 (growth * thr) || Nat.leb 10 (initial * thr)).
