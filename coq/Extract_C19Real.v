Require Import Base OasisInt GdsReal OasisReal.
Require Import Extraction ExtrOcamlBasic.
Extraction Blacklist List String Int.
Extraction "../ocaml/extracted/c19_real.ml" gds_decode_dy gds_to_double_dy round53 gds_encode_with gds_encode_zero
  ideal_exponent gds_encode gds_in_range dbl_decompose swap16 swap32 swap64 bytes_le of_bytes_le N.size N.ltb N.leb
  enc_real dec_real dec_real_by_type dbl_finite.
