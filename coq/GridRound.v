(* Unit grid_round (C01, C02): the floating-point step between the doubles a user holds and the integer database grid
   on which the round-trip theorems (gds_roundtrip, lower_roundtrip, oas_models_roundtrip_full) live.  Flocq binary64,
   one operation per C++ statement.  Definitions only.

   WRITE (src/library.cpp, polygon.cpp, flexpath.cpp, label.cpp, reference.cpp, utils.cpp)
     Library::write_gds   uint64_t units[] = {gdsii_real_from_double(precision / unit), gdsii_real_from_double(precision)};
                          double scaling = unit / precision;
     Polygon::to_gds      (int32_t)lround((offset_x + p->x) * scaling)         (offset = {0, 0} without repetition)
     FlexPath::to_gds     (int32_t)lround(( *p++ + offset_x) * scaling)
                          (scale_width ? 1 : -1) * (int32_t)lround(2 * el->half_width_and_offset[0].u * scaling)
                          (int32_t)lround(el->end_extensions.u * scaling)
     Label::to_gds        (int32_t)(lround((origin.x + offset_p->x) * scaling))
     Reference::to_gds    (int32_t)(lround((origin.x + offset_p->x) * scaling))
     Library::write_oas   state.scaling = unit / precision;  oasis_write_real(out, 1e-6 / precision);
     scale_and_round_array / Label / Reference / FlexPath::to_oas
                          (int64_t)llround(x * state.scaling),  (uint64_t)llround(half_width * state.scaling)
   READ
     read_gds             GdsUnits.read_gds_units (factor = db_in_user, unit = db_in_meters / db_in_user,
                          precision = db_in_meters, tolerance = precision / unit), GdsUnits.gds_coord = factor * (double)int32
     read_oas             double factor = 1 / oasis_read_real(in);  library.precision = 1e-6 * factor;
                          if (unit > 0) { library.unit = unit; factor *= 1e-6 / unit; } else library.unit = 1e-6;
                          if (tolerance <= 0) tolerance = library.precision / library.unit;
                          x = factor * oasis_read_integer(in)                   (positions, extensions)
                          factor * oasis_read_unsigned_integer(in)             (half width)
                          oasis_read_point_list: cur = Vec2{scaling * x, scaling * y} + *ref   (2-, 3-, g-delta lists)
                                                 cur->x = ref->x + oasis_read_1delta(in) * scaling, cur->y = ref->y (1-delta lists)
                                                 closing vertex of a 1-delta polygon list: cur->x = initial.x / cur->y = initial.y
                          polygon: *v++ += modal_geom_pos;   path: Curve::segment(points, relative): ref + *src
   FlexPath::remove_overlapping_points (called by to_gds / to_oas / to_polygons):
                          (( *array)[i] - ( *array)[i - 1]).length_sq() < spine.tolerance * spine.tolerance  -> point i removed *)
Require Import Base OasisInt GdsReal OasisReal GdsUnits.
From Flocq Require Import Core BinarySingleNaN Binary Bits.
Local Open Scope Z_scope.

(* ================================================================== lround / llround
   Round to the nearest integer, halves AWAY from zero (C99 7.12.9.7).  `long` and `long long` are both 64 bits on the
   target; a result outside their range, an infinity or a NaN is unspecified behaviour (None). *)
Definition b64_round_away (x : binary64) : option Z :=
  match x with
  | B754_zero _ _ _ => Some 0
  | B754_finite _ _ s m e _ =>
      let mag :=
        if 0 <=? e then Z.pos m * 2 ^ e
        else
          let d := 2 ^ (- e) in
          let q := Z.pos m / d in
          let r := Z.pos m mod d in
          if d <=? 2 * r then q + 1 else q in
      Some (cond_Zopp s mag)
  | _ => None
  end.

Definition in_int64 (z : Z) : bool := (- 2 ^ 63 <=? z) && (z <? 2 ^ 63).

(* (int64_t)llround(x) *)
Definition llround_i64 (x : binary64) : option Z :=
  match b64_round_away x with
  | Some z => if in_int64 z then Some z else None
  | None => None
  end.

(* (int32_t)lround(x): the conversion long -> int32_t keeps the low 32 bits *)
Definition lround_i32 (x : binary64) : option Z :=
  match llround_i64 x with
  | Some z => Some (wrap_int32 z)
  | None => None
  end.

(* (uint64_t)llround(x): conversion int64 -> uint64 is modulo 2^64 *)
Definition llround_u64 (x : binary64) : option Z :=
  match llround_i64 x with
  | Some z => Some (z mod 2 ^ 64)
  | None => None
  end.

(* ================================================================== gdsii_real_from_double on a binary64
   `if (value == 0) return 0;` then GdsReal.gds_encode on the sign, the integer significand and the exponent (frexp
   normalises denormals: gds_encode takes the exponent from the bit length of m).  Infinities / NaN: frexp leaves the
   exponent unspecified; never reached from finite positive unit / precision (the model returns 0). *)
Definition gds_real_from_b64 (d : binary64) : N :=
  match d with
  | B754_finite _ _ s m e _ => gds_encode s (Z.pos m) e
  | _ => gds_encode_zero
  end.

(* ================================================================== GDSII: write side *)
(* double scaling = unit / precision; *)
Definition gw_scaling (unit precision : binary64) : binary64 := b64_div mode_NE unit precision.

(* the two reals of the UNITS record *)
Definition gw_units (unit precision : binary64) : N * N :=
  (gds_real_from_b64 (b64_div mode_NE precision unit), gds_real_from_b64 precision).

(* (int32_t)lround((offset + x) * scaling) *)
Definition gw_coord (scaling off x : binary64) : option Z :=
  lround_i32 (b64_mult mode_NE (b64_plus mode_NE off x) scaling).

(* (scale_width ? 1 : -1) * (int32_t)lround(2 * hw * scaling): `2 * hw` first, then `* scaling`; the product with -1 is an
   int operation converted back to int32_t *)
Definition gw_width (scale_width : bool) (scaling hw : binary64) : option Z :=
  match lround_i32 (b64_mult mode_NE (b64_mult mode_NE b64_two hw) scaling) with
  | Some z => Some (if scale_width then z else wrap_int32 (- z))
  | None => None
  end.

(* (int32_t)lround(ext * scaling) *)
Definition gw_ext (scaling ext : binary64) : option Z := lround_i32 (b64_mult mode_NE ext scaling).

(* ================================================================== GDSII: what a native load reports for a written record *)
Definition gds_reload (unit precision : binary64) : gds_units_state :=
  let '(r0, r1) := gw_units unit precision in read_gds_units b64_zero b64_zero r0 r1.

(* the second save of a loaded library: scaling' from the library's own unit / precision *)
Definition gds_scaling_of (st : gds_units_state) : binary64 := gw_scaling (us_unit st) (us_precision st).

(* load k, save again *)
Definition gds_cycle_coord (st : gds_units_state) (k : Z) : option Z :=
  gw_coord (gds_scaling_of st) b64_zero (gds_coord (us_factor st) k).
Definition gds_cycle_width (st : gds_units_state) (w : Z) : option Z :=
  gw_width (negb (w <? 0)) (gds_scaling_of st) (gds_half_width (us_factor st) w).
Definition gds_cycle_ext (st : gds_units_state) (k : Z) : option Z :=
  gw_ext (gds_scaling_of st) (gds_coord (us_factor st) k).

(* ================================================================== OASIS: write side *)
Definition gr_1em6 : binary64 := b64_of_bits 4517329193108106637.          (* 1e-6 = 0x3EB0C6F7A0B5ED8D *)

(* oasis_write_real(out, 1e-6 / precision): the double handed to the real codec (OasisReal.enc_real on its bits) *)
Definition ow_unit_real (precision : binary64) : binary64 := b64_div mode_NE gr_1em6 precision.

(* the bytes of the START record's unit and what oasis_read_real returns for them *)
Definition ow_unit_bytes (precision : binary64) : list N := enc_real (bits64 (ow_unit_real precision)).
Definition or_unit_real (bs : list N) : binary64 :=
  match dec_real bs with
  | Ok (b, _) => b64_of_bits (Z.of_N b)
  | _ => b64_of_bits (Z.of_N b64_qnan_bits)
  end.

(* (int64_t)llround(x * state.scaling) *)
Definition ow_coord (scaling x : binary64) : option Z := llround_i64 (b64_mult mode_NE x scaling).
(* (uint64_t)llround(half_width * state.scaling) *)
Definition ow_halfwidth (scaling hw : binary64) : option Z := llround_u64 (b64_mult mode_NE hw scaling).

(* ================================================================== OASIS: read side *)
Record oas_units_state : Type := mk_ounits {
  os_factor : binary64;
  os_unit : binary64;
  os_precision : binary64;
  os_tolerance : binary64
}.

Definition read_oas_units (unit tolerance real : binary64) : oas_units_state :=
  let factor := b64_div mode_NE b64_one real in
  let precision := b64_mult mode_NE gr_1em6 factor in
  let '(factor', lunit) :=
    if b64_gt0 unit then (b64_mult mode_NE factor (b64_div mode_NE gr_1em6 unit), unit)
    else (factor, gr_1em6) in
  let tol := if b64_le0 tolerance then b64_div mode_NE precision lunit else tolerance in
  mk_ounits factor' lunit precision tol.

(* factor * oasis_read_integer(in): int64 -> double (rounds beyond 2^53), one product *)
Definition oas_coord (factor : binary64) (k : Z) : binary64 := gds_coord factor k.
(* factor * oasis_read_unsigned_integer(in) *)
Definition oas_ucoord (factor : binary64) (k : N) : binary64 := b64_mult mode_NE factor (b64_of_uint k).

(* one axis of a point list.  PStep d: `scaling * d + ref` (also `ref + d * scaling` of the 1-delta lists: + and * commute);
   PKeep: `cur->y = ref->y` (the other axis of a 1-delta list); PInit: `cur->x = initial.x` (implied closing vertex) *)
Inductive pstep : Type := PStep (d : Z) | PKeep | PInit.

Fixpoint oas_chain (f a : binary64) (steps : list pstep) : list binary64 :=
  match steps with
  | [] => []
  | s :: t =>
      let a' := match s with
                | PStep d => b64_plus mode_NE (b64_mult mode_NE f (b64_of_int d)) a
                | PKeep => a
                | PInit => b64_zero
                end in
      a' :: oas_chain f a' t
  end.

(* polygon->point_array after `*v++ += modal_geom_pos` (path spine: `ref + *src`), one axis; the list starts at {0, 0} *)
Definition oas_points (f : binary64) (k0 : Z) (steps : list pstep) : list binary64 :=
  map (fun a => b64_plus mode_NE a (oas_coord f k0)) (b64_zero :: oas_chain f b64_zero steps).

(* the integers the same steps denote *)
Fixpoint int_chain (a : Z) (steps : list pstep) : list Z :=
  match steps with
  | [] => []
  | s :: t =>
      let a' := match s with PStep d => a + d | PKeep => a | PInit => 0 end in
      a' :: int_chain a' t
  end.
Definition int_points (k0 : Z) (steps : list pstep) : list Z := map (fun a => a + k0) (0 :: int_chain 0 steps).

(* what a native load reports for a written START record *)
Definition oas_reload (precision : binary64) : oas_units_state :=
  read_oas_units b64_zero b64_zero (or_unit_real (ow_unit_bytes precision)).

Definition oas_scaling_of (st : oas_units_state) : binary64 := gw_scaling (os_unit st) (os_precision st).

Definition oas_cycle_coord (st : oas_units_state) (k : Z) : option Z :=
  ow_coord (oas_scaling_of st) (oas_coord (os_factor st) k).
Definition oas_cycle_halfwidth (st : oas_units_state) (k : N) : option Z :=
  ow_halfwidth (oas_scaling_of st) (oas_ucoord (os_factor st) k).
Definition oas_cycle_points (st : oas_units_state) (k0 : Z) (steps : list pstep) : list (option Z) :=
  map (ow_coord (oas_scaling_of st)) (oas_points (os_factor st) k0 steps).

(* ================================================================== FlexPath::remove_overlapping_points, the test
     (( *array)[i] - ( *array)[i - 1]).length_sq() < tol_sq          with tol_sq = spine.tolerance * spine.tolerance
   Vec2 operator- subtracts componentwise, length_sq = x * x + y * y. *)
Definition b64_lt (a b : binary64) : bool := match b64_compare a b with Some Lt => true | _ => false end.

Definition overlap_test (tol p0x p0y p1x p1y : binary64) : bool :=
  let dx := b64_minus mode_NE p1x p0x in
  let dy := b64_minus mode_NE p1y p0y in
  let lsq := b64_plus mode_NE (b64_mult mode_NE dx dx) (b64_mult mode_NE dy dy) in
  b64_lt lsq (b64_mult mode_NE tol tol).

(* two loaded spine points one grid step apart along x, at the same y: is the second one dropped at the next save? *)
Definition step_merged (f tol : binary64) (k ky : Z) : bool :=
  overlap_test tol (gds_coord f k) (gds_coord f ky) (gds_coord f (k + 1)) (gds_coord f ky).
