Require Import Base Graph.
Require Import Extraction ExtrOcamlBasic.
Extraction Blacklist List String Int.
Extraction "../ocaml/extracted/c16.ml" step run top_level get_dependencies get_raw_dependencies
  raw_get_dependencies get_shape_tags get_label_tags resolve get_cell get_rawcell cell_at raw_at
  cname rname mkLib mkCell mkRaw Z.of_N.
