(* Bit-exact IEEE binary64 model of Polygon::perimeter (src/polygon.cpp) with Vec2::length of
   include/gdstk/vec.hpp, over Flocq's IEEE operations in round-to-nearest-even.  Definitions only.

     double Polygon::perimeter() const {
         if (point_array.count < 3) return 0;
         double result = 0;
         Vec2* p = point_array.items;
         Vec2 v0 = *p++;
         for (uint64_t num = point_array.count - 1; num > 0; num--) {
             Vec2 v1 = *p++ - v0;              // two subtractions
             result += v1.length();            // sqrt(x*x + y*y): two products, a sum, a square root
             v0 += v1;                         // two additions: NOT a copy of the vertex
         }
         result += (point_array.items[0] - point_array.items[point_array.count-1]).length();
         if (repetition.type != RepetitionType::None) result *= repetition.get_count();   // (double)uint64_t
         return result;
     }

   The running vertex v0 is advanced by `v0 += v1` with v1 = fl(p - v0): when that difference is
   not representable, v0 is NOT the next vertex afterwards (it is within 2u|p - v0| of it,
   PerimeterProofs.drift_bound); the closing edge is taken from the stored vertices themselves.
   gcc on x86-64 (SSE2, no -mfma, no -ffast-math) evaluates every operation in binary64 without
   contraction or reassociation, `sqrt` is the correctly rounded sqrtsd / libm sqrt. *)
Require Import Base.
From Flocq Require Import Core BinarySingleNaN Binary Bits.
Local Open Scope Z_scope.

Definition vec64 := (binary64 * binary64)%type.

Definition b64_pzero : binary64 := B754_zero 53 1024 false.

(* (double)uint64_t, round to nearest even *)
Definition b64_of_u64 (n : N) : binary64 :=
  Binary.binary_normalize 53 1024 eq_refl eq_refl mode_NE (Z.of_N n) 0 false.
(* an integer-valued coordinate as a double (exact below 2^53 in magnitude) *)
Definition b64_of_Z (z : Z) : binary64 :=
  Binary.binary_normalize 53 1024 eq_refl eq_refl mode_NE z 0 false.

(* Vec2 operator-, operator+= : component by component *)
Definition vsub64 (a b : vec64) : vec64 :=
  (b64_minus mode_NE (fst a) (fst b), b64_minus mode_NE (snd a) (snd b)).
Definition vadd64 (a b : vec64) : vec64 :=
  (b64_plus mode_NE (fst a) (fst b), b64_plus mode_NE (snd a) (snd b)).

(* Vec2::length_sq = inner of the vector with itself = e[0] * e[0] + e[1] * e[1];  length() = sqrt(length_sq()) *)
Definition length_sq64 (v : vec64) : binary64 :=
  b64_plus mode_NE (b64_mult mode_NE (fst v) (fst v)) (b64_mult mode_NE (snd v) (snd v)).
Definition length64 (v : vec64) : binary64 := b64_sqrt mode_NE (length_sq64 v).

(* the loop: [rest] = the vertices not yet read through p *)
Fixpoint perim_loop64 (v0 : vec64) (rest : list vec64) (result : binary64) : binary64 :=
  match rest with
  | [] => result
  | q :: tl =>
      let v1 := vsub64 q v0 in
      let result := b64_plus mode_NE result (length64 v1) in
      perim_loop64 (vadd64 v0 v1) tl result
  end.

(* [copies] = None when repetition.type == None, else Some (get_count()) *)
Definition perimeter64 (poly : list vec64) (copies : option N) : binary64 :=
  if (length poly <? 3)%nat then b64_pzero
  else match poly with
       | v0 :: rest =>
           let result := perim_loop64 v0 rest b64_pzero in
           let result := b64_plus mode_NE result (length64 (vsub64 v0 (last poly v0))) in
           match copies with
           | None => result
           | Some c => b64_mult mode_NE result (b64_of_u64 c)
           end
       | [] => b64_pzero                                              (* not reached: count >= 3 *)
       end.

(* on bit patterns: what the harness exchanges *)
Definition vec_of_bits (p : N * N) : vec64 := (b64_of_bits (Z.of_N (fst p)), b64_of_bits (Z.of_N (snd p))).
Definition perimeter_bits (poly : list (N * N)) (copies : option N) : N :=
  Z.to_N (bits_of_b64 (perimeter64 (map vec_of_bits poly) copies)).

(* integer-valued vertices (the class of the other C14 cases) *)
Definition vec_of_Z (p : Z * Z) : vec64 := (b64_of_Z (fst p), b64_of_Z (snd p)).
Definition perimeter_Z (poly : list (Z * Z)) (copies : option N) : N :=
  Z.to_N (bits_of_b64 (perimeter64 (map vec_of_Z poly) copies)).

(* ------------------------------------------------------------------ specification level *)
(* closed edge list of any vertex type: edge i runs from vertex i to vertex i+1 (mod n) *)
Definition closed_pairs {A : Type} (poly : list A) : list (A * A) :=
  match poly with
  | [] => []
  | h :: t => combine poly (t ++ [h])
  end.

(* the correctly rounded length of an integer vector: RN(sqrt(dx^2 + dy^2)), the integer taken exactly *)
Definition edge_len_Z (e : (Z * Z) * (Z * Z)) : binary64 :=
  let dx := fst (snd e) - fst (fst e) in
  let dy := snd (snd e) - snd (fst e) in
  b64_sqrt mode_NE (b64_of_Z (dx * dx + dy * dy)).

(* "the closed edge-length sum of the vertex list (zero below three vertices) multiplied by the
   number of repetition copies", every edge length correctly rounded from the exact integer, the
   sum accumulated in vertex order *)
Definition spec_perimeter_Z (poly : list (Z * Z)) (copies : option N) : binary64 :=
  if (length poly <? 3)%nat then b64_pzero
  else
    let s := fold_left (fun acc e => b64_plus mode_NE acc (edge_len_Z e)) (closed_pairs poly) b64_pzero in
    match copies with
    | None => s
    | Some c => b64_mult mode_NE s (b64_of_u64 c)
    end.
Definition spec_perimeter_Z_bits (poly : list (Z * Z)) (copies : option N) : N :=
  Z.to_N (bits_of_b64 (spec_perimeter_Z poly copies)).

(* ------------------------------------------------------------------ sanity examples *)
(* 3-4-5 triangle scaled by 1/4: perimeter 3.0 = 0x4008000000000000 *)
Example ex_perimeter_345 :
  perimeter_bits [(0, 0); (4604930618986332160, 0); (4604930618986332160, 4607182418800017408)]%N None
  = 4613937818241073152%N.
Proof. vm_compute. reflexivity. Qed.
Example ex_perimeter_Z : perimeter_Z [(0, 0); (3, 0); (3, 4)] (Some 3%N) = 4630263366890291200%N   (* 36.0 *)
  /\ spec_perimeter_Z_bits [(0, 0); (3, 0); (3, 4)] (Some 3%N) = 4630263366890291200%N
  /\ perimeter_Z [(0, 0); (3, 0)] (Some 3%N) = 0%N.
Proof. vm_compute. repeat split; reflexivity. Qed.
