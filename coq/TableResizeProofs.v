(* Proofs about the public resize(new_capacity) of the hash tables for ANY new capacity
   (model: Table.tresize; discussion: TableResize.v).  Main results:
     tresize_any_lemma            for every table in the weak invariant and every new capacity but 1 the
                                  resized table is in the weak invariant and holds the same entries
     tresize_any_strong_lemma     new capacity 0 or >= INITIAL (smaller than count or capacity included):
                                  the invariant of TableProofs.v itself is preserved (generalises tresize_grow)
     tresize_fits_lemma           when the entries fit below the load bound the new capacity is exactly c
     table_refines_map_resize_lemma, table_no_failure_resize_lemma
                                  the refinement theorem for histories WITH resize(c), c <> 1, interleaved
                                  with every other operation; instances for Map, Set, StyleMap, TagMap
     resize_one_*_refuted         capacity 1: full table, the next look-up of an absent key never returns
     tresize_small_strong_refuted capacities 2..INITIAL-1 leave the invariant of TableProofs.v (harmlessly)
   All closed under the global context. *)
Require Import Base Generated Table TableProofs TableResize.
From Coq Require Import Arith PeanoNat Lia Permutation.

Section ResizeProofs.
Variables K V : Type.
Variable keqb : K -> K -> bool.
Hypothesis keqb_spec : forall a b, keqb a b = true <-> a = b.
Variable hash : K -> N.
Variables initial growth thr : nat.

Notation table := (table K V).
Notation slot := (slot K V).
Notation empty_table := (empty_table K V).
Notation stored := (stored K V).
Notation SInv := (SInv K V hash).
Notation count_some := (count_some K V).
Notation somes := (somes K V).
Notation titems := (titems K V).
Notation reinsert := (reinsert K V).
Notation tset_f := (tset_f K V keqb hash initial growth thr).
Notation tset := (tset K V keqb hash initial growth thr).
Notation tset_core := (tset_core K V keqb hash).
Notation tresize := (tresize K V keqb hash initial growth thr).
Notation tcopy := (tcopy K V keqb hash initial growth thr).
Notation grow_cap := (grow_cap initial growth).
Notation Inv := (Inv K V hash initial thr).
Notation R := (R K V hash initial thr).
Notation params_ok := (params_ok initial growth thr).

(* "at least two slots and one of them empty" is the invariant of TableProofs.v for the parameters
   INITIAL = 2, THRESHOLD = 10: the look-up and deletion lemmas apply to it as they are *)
Notation HInv := (TableProofs.Inv K V hash 2 10).

(* the weak invariant *)
Definition WInv (t : table) : Prop := HInv t /\ load_ok initial thr t.
Definition RW (t : table) (m : amap K V) : Prop :=
  WInv t /\ NoDup (map fst m) /\ forall k v, stored t k v <-> In (k, v) m.

Lemma hinv_parts t : HInv t ->
  SInv t /\ count t = count_some (slots t) /\ (cap t = 0 \/ (2 <= cap t /\ count t < cap t)).
Proof. intros (HS & Hc & Hr & _). auto. Qed.

Lemma hinv_make t : SInv t -> count t = count_some (slots t) ->
  (cap t = 0 \/ (2 <= cap t /\ count t < cap t)) -> HInv t.
Proof.
  intros HS Hc Hr. split; [exact HS|]. split; [exact Hc|]. split; [exact Hr|].
  destruct Hr as [H0|(H2 & Hlt)]; [|lia].
  destruct HS as (Hl & _). rewrite H0 in Hl. destruct (slots t); simpl in *; [lia|lia].
Qed.

Lemma inv_winv t : params_ok -> Inv t -> WInv t.
Proof.
  intros (Hthr1 & Hthr5 & Hgr & Hini & Hprod) (HS & Hc & Hr & Hl). split.
  - apply hinv_make; auto. destruct Hr as [H0|(Hi & Hlt)]; [left; auto|right; lia].
  - unfold load_ok. destruct (Nat.leb initial (cap t)); lia.
Qed.

Lemma winv_empty c : c <> 1 -> 2 <= initial -> WInv (empty_table c).
Proof.
  intros Hc Hini. split.
  - apply hinv_make; [apply sinv_empty| |].
    + simpl. rewrite count_some_repeat. reflexivity.
    + simpl. destruct c as [|[|c]]; [left; auto|contradiction|right; lia].
  - unfold load_ok. simpl. destruct (Nat.leb initial c); lia.
Qed.

Lemma stored_empty_iff c k v : stored (empty_table c) k v <-> False.
Proof. split; [apply stored_empty|tauto]. Qed.

(* ---- set() keeps the weak invariant ---- *)
Lemma tset_ok_W d t k v :
  params_ok -> WInv t ->
  exists t', tset_f (S (S d)) t k v = Ok t' /\ WInv t' /\
    (forall k' v', stored t' k' v' <-> (k' = k /\ v' = v) \/ (k' <> k /\ stored t k' v')).
Proof.
  intros (Hthr1 & Hthr5 & Hgr & Hini & Hprod) (HH & Hload).
  destruct (hinv_parts t HH) as (HS & Hcnt & Hroom).
  pose proof HS as (Hl & Hd & Hch).
  unfold load_ok in Hload.
  rewrite (tset_f_S K V keqb hash initial growth thr (S d) t k v).
  destruct (Nat.leb_spec (cap t * thr) (count t * 10)) as [Htrig|Hno].
  - (* the load test fires: refill a table of capacity grow_cap, then insert *)
    set (c' := grow_cap (cap t)).
    assert (Hc' : initial <= c' /\ count t + 1 < c' /\ count t * 10 < c' * thr + 10 /\
                  (count t + 1) * 10 < c' * thr + 20).
    { unfold c', Table.grow_cap. destruct Hroom as [H0|(H2 & Hlt)].
      - assert (Hz : count t = 0).
        { rewrite H0 in Hl. rewrite Hcnt. destruct (slots t); simpl in *; [reflexivity|lia]. }
        rewrite H0, Hz. destruct (Nat.leb_spec initial 0); [lia|]. repeat split; try lia; nia.
      - destruct (Nat.leb_spec initial (cap t)) as [Hge|Hsm].
        + assert (Hx : cap t * thr + 10 <= cap t * growth * thr).
          { destruct Hprod as [Hp|Hp].
            - assert (10 * cap t <= cap t * growth * thr) by nia. nia.
            - assert (10 <= cap t * thr) by nia.
              assert (2 * (cap t * thr) <= cap t * growth * thr) by nia. lia. }
          assert (2 * cap t <= cap t * growth) by nia.
          repeat split; try lia; nia.
        + assert (cap t * thr <= initial * thr) by nia.
          repeat split; try lia. }
    destruct Hc' as (Hile & Hlt & Hld & Hld2).
    destruct (reinsert_fold K V keqb keqb_spec hash initial growth thr d (slots t) (empty_table c'))
      as (t1 & Hrun & HS1 & Hcap1 & Hcnt1 & Hc1 & Hst1).
    + apply sinv_empty.
    + simpl. rewrite count_some_repeat. reflexivity.
    + apply (items_nodup K V hash t Hl Hd).
    + intros k0 v0 _ v'. apply stored_empty.
    + simpl. lia.
    + simpl. lia.
    + rewrite Hrun. cbn [obind]. simpl in Hc1, Hcap1.
      destruct (tset_core_ok K V keqb keqb_spec hash t1 k v HS1 Hcnt1 ltac:(lia)) as
        (t2 & Hrun2 & HS2 & Hcap2 & Hcnt2 & _ & Hle2 & _ & Hst2).
      exists t2. split; [exact Hrun2|]. split.
      * split.
        -- apply hinv_make; auto. right. lia.
        -- unfold load_ok. rewrite Hcap2, Hcap1.
           destruct (Nat.leb_spec initial c'); [|lia]. lia.
      * intros k' v'. rewrite Hst2, Hst1, (stored_items K V hash t k' v' Hl), stored_empty_iff. tauto.
  - (* no growth *)
    cbn [obind].
    assert (Hc2 : 2 <= cap t /\ count t < cap t).
    { destruct Hroom as [H0|H]; [rewrite H0 in Hno; lia|exact H]. }
    assert (Hc : count t + 1 < cap t).
    { assert (cap t * thr <= cap t * 5) by (apply Nat.mul_le_mono_l; auto). lia. }
    destruct (tset_core_ok K V keqb keqb_spec hash t k v HS Hcnt Hc) as
      (t2 & Hrun2 & HS2 & Hcap2 & Hcnt2 & _ & Hle2 & _ & Hst2).
    exists t2. split; [exact Hrun2|]. split; [|exact Hst2]. split.
    + apply hinv_make; auto. right. lia.
    + unfold load_ok. rewrite Hcap2. destruct (Nat.leb initial (cap t)); lia.
Qed.

(* ---- refilling any table of the weak invariant through set() ---- *)
Lemma refill_W (l : list slot) :
  params_ok ->
  forall t, WInv t -> NoDup (map fst (somes l)) ->
    (forall k v, In (k, v) (somes l) -> forall v', ~ stored t k v') ->
    exists t', fold_left (reinsert tset) l (Ok t) = Ok t' /\ WInv t' /\
      (forall k v, stored t' k v <-> stored t k v \/ In (k, v) (somes l)).
Proof.
  intros Hpar. induction l as [|[[k v]|] l IH]; intros t HW Hnd Hfresh.
  - exists t. split; [reflexivity|]. split; [exact HW|]. intros k v. simpl. tauto.
  - simpl in Hnd. inversion Hnd as [|? ? Hnotin Hnd']; subst.
    cbn [fold_left Table.reinsert obind]. unfold Table.tset at 2, Table.resize_depth.
    destruct (tset_ok_W 62 t k v Hpar HW) as (t1 & Hrun & HW1 & Hst1).
    rewrite Hrun.
    destruct (IH t1 HW1 Hnd') as (t' & Hrun' & HW' & Hst').
    + intros k2 v2 Hin v' Hs. apply Hst1 in Hs. destruct Hs as [(-> & _)|(_ & Hs)].
      * apply Hnotin. apply in_map_iff. exists (k, v2). auto.
      * eapply (Hfresh k2 v2); simpl; eauto.
    + exists t'. split; [exact Hrun'|]. split; [exact HW'|].
      intros k' v'. rewrite Hst', Hst1. simpl. split.
      * intros [[(-> & ->)|(_ & H)]|H]; auto.
      * intros [H|[E|H]]; auto.
        -- destruct (key_dec K keqb keqb_spec k' k) as [->|Hn]; auto.
           exfalso. eapply (Hfresh k v); simpl; eauto.
        -- inversion E; subst. auto.
  - simpl in *. cbn [fold_left Table.reinsert]. apply IH; auto.
Qed.

(* the public resize(c), any table of the weak invariant, any c but 1 *)
Lemma tresize_ok_W t c :
  params_ok -> WInv t -> c <> 1 ->
  exists t', tresize t c = Ok t' /\ WInv t' /\ (forall k v, stored t' k v <-> stored t k v).
Proof.
  intros Hpar HW Hc. pose proof Hpar as (_ & _ & _ & Hini & _).
  destruct HW as (HH & Hload). destruct (hinv_parts t HH) as ((Hl & Hd & Hch) & Hcnt & Hroom).
  unfold Table.tresize.
  destruct (refill_W (slots t) Hpar (empty_table c) (winv_empty c Hc Hini)) as (t' & Hrun & HW' & Hst').
  - apply (items_nodup K V hash t Hl Hd).
  - intros k v _ v'. apply stored_empty.
  - exists t'. split; [exact Hrun|]. split; [exact HW'|].
    intros k v. rewrite Hst', (stored_items K V hash t k v Hl), stored_empty_iff. tauto.
Qed.

(* copy_from *)
Lemma tcopy_ok_W t :
  params_ok -> WInv t ->
  exists t', tcopy t = Ok t' /\ WInv t' /\ (forall k v, stored t' k v <-> stored t k v).
Proof.
  intros Hpar HW. destruct HW as (HH & Hload).
  destruct (hinv_parts t HH) as (_ & _ & Hroom).
  assert (Hc : cap t <> 1) by (destruct Hroom as [H|(H & _)]; lia).
  exact (tresize_ok_W t (cap t) Hpar (conj HH Hload) Hc).
Qed.

(* del keeps the weak invariant: the count does not grow, the capacity stays *)
Lemma count_le_of_incl t t' :
  HInv t -> HInv t' -> (forall k v, stored t' k v -> stored t k v) -> count t' <= count t.
Proof.
  intros HH HH' Hsub.
  destruct (hinv_parts t HH) as ((Hl & Hd & _) & Hcnt & _).
  destruct (hinv_parts t' HH') as ((Hl' & Hd' & _) & Hcnt' & _).
  rewrite Hcnt, Hcnt', !count_some_somes. fold (titems t') (titems t).
  apply NoDup_incl_length.
  - apply (NoDup_map_inv fst). apply (items_nodup K V hash t' Hl' Hd').
  - intros [k v] Hin. apply (stored_items K V hash t k v Hl). apply Hsub.
    apply (stored_items K V hash t' k v Hl'). exact Hin.
Qed.

Lemma tdel_ok_W t k :
  WInv t ->
  exists b t', tdel K V keqb hash t k = Ok (b, t') /\ WInv t' /\
    (b = true <-> exists v, stored t k v) /\
    (forall k' v', stored t' k' v' <-> k' <> k /\ stored t k' v').
Proof.
  intros (HH & Hload).
  destruct (tdel_ok K V keqb keqb_spec hash 2 10 t k HH) as (b & t' & Hrun & HH' & Hcap & Hb & Hst).
  exists b, t'. split; [exact Hrun|]. split; [|split; assumption].
  split; [exact HH'|].
  assert (Hle : count t' <= count t).
  { apply count_le_of_incl; auto. intros k' v' H. apply Hst in H. tauto. }
  unfold load_ok in *. rewrite Hcap. destruct (Nat.leb initial (cap t)); lia.
Qed.

(* ---- the refinement theorem with resize ---- *)
Notation step := (step K V keqb hash initial growth thr).
Notation spec_step := (spec_step K V keqb).
Notation run_from := (run_from K V keqb hash initial growth thr).
Notation spec_from := (spec_from K V keqb).
Notation run_table := (run_table K V keqb hash initial growth thr).
Notation run_spec := (run_spec K V keqb).
Notation table0 := (table0 K V).
Notation obs_equiv := (obs_equiv K V).

Lemma RW_table0 : 2 <= initial -> RW table0 [].
Proof.
  intros Hini. split; [exact (winv_empty 0 ltac:(lia) Hini)|]. split; [constructor|].
  intros k v. split; [intros H; exfalso; eapply stored_empty; eauto|intros []].
Qed.

Lemma R_RW t m : params_ok -> R t m -> RW t m.
Proof. intros Hpar (HI & Hnd & Hst). split; [now apply inv_winv|]. split; assumption. Qed.

Lemma step_sim_W t m o :
  params_ok -> RW t m -> op_ok o = true ->
  exists r t', step t o = Ok (r, t') /\ obs_equiv r (fst (spec_step m o)) /\ RW t' (snd (spec_step m o)).
Proof.
  intros Hpar (HW & Hnd & Hst) Hok. pose proof HW as (HH & Hload).
  destruct o as [k v|k|k|k| | | |c].
  - (* set *)
    unfold Table.step, Table.tset, Table.resize_depth.
    destruct (tset_ok_W 62 t k v Hpar HW) as (t' & Hrun & HW' & Hst').
    rewrite Hrun. cbn [obind]. exists ObsUnit, t'. split; auto. split; [reflexivity|].
    simpl. split; auto. split.
    + constructor; [|apply (aremove_nodup K V keqb keqb_spec hash); auto].
      intros Hin. apply in_map_iff in Hin. destruct Hin as ([k1 v1] & E & Hin). simpl in E; subst k1.
      apply (in_aremove K V keqb keqb_spec hash) in Hin. destruct Hin as (Hn & _). contradiction.
    + intros k' v'. rewrite Hst'. simpl. rewrite (in_aremove K V keqb keqb_spec hash). rewrite Hst. split.
      * intros [(-> & ->)|H]; auto.
      * intros [E|H]; auto. inversion E; auto.
  - (* get *)
    unfold Table.step. destruct (tget_ok K V keqb keqb_spec hash 2 10 t k HH) as (o & Hrun & Ho).
    rewrite Hrun. cbn [obind]. exists (ObsVal o), t. split; auto. split.
    + simpl. f_equal. apply option_ext. intros v. rewrite Ho, Hst. symmetry.
      apply (alookup_in K V keqb keqb_spec hash); auto.
    + simpl. split; auto.
  - (* has *)
    unfold Table.step. destruct (thas_ok K V keqb keqb_spec hash 2 10 t k HH) as (b & Hrun & Hb).
    rewrite Hrun. cbn [obind]. exists (ObsBool b), t. split; auto. split.
    + simpl. f_equal. apply bool_ext. rewrite Hb, (ahas_spec K V keqb keqb_spec hash m k Hnd).
      split; intros (v & H); exists v; apply Hst; auto.
    + simpl. split; auto.
  - (* del *)
    unfold Table.step. destruct (tdel_ok_W t k HW) as (b & t' & Hrun & HW' & Hb & Hst').
    rewrite Hrun. cbn [obind fst snd]. exists (ObsBool b), t'. split; auto. split.
    + simpl. f_equal. apply bool_ext. rewrite Hb, (ahas_spec K V keqb keqb_spec hash m k Hnd).
      split; intros (v & H); exists v; apply Hst; auto.
    + simpl. split; auto. split; [apply (aremove_nodup K V keqb keqb_spec hash); auto|].
      intros k' v'. rewrite Hst', (in_aremove K V keqb keqb_spec hash), Hst. tauto.
  - (* clear *)
    exists ObsUnit, table0. split; auto. split; [reflexivity|].
    apply RW_table0. destruct Hpar as (_ & _ & _ & H & _). exact H.
  - (* copy *)
    unfold Table.step. destruct (tcopy_ok_W t Hpar HW) as (t' & Hrun & HW' & Hst').
    rewrite Hrun. cbn [obind]. exists ObsUnit, t'. split; auto. split; [reflexivity|].
    simpl. split; auto. split; auto. intros k v. rewrite Hst'. apply Hst.
  - (* iterate *)
    exists (ObsItems (titems t)), t. split; auto. split.
    + simpl. destruct (hinv_parts t HH) as ((Hl & Hd & _) & _).
      apply NoDup_Permutation.
      * apply (NoDup_map_inv fst). apply (items_nodup K V hash t Hl Hd).
      * apply (NoDup_map_inv fst). auto.
      * intros [k v]. rewrite <- (stored_items K V hash t k v Hl). apply Hst.
    + simpl. split; auto.
  - (* the public resize(c), c <> 1 *)
    unfold op_ok, resize_cap_ok in Hok. destruct (Nat.eqb_spec c 1) as [E|Hc]; [discriminate|].
    unfold Table.step. destruct (tresize_ok_W t c Hpar HW Hc) as (t' & Hrun & HW' & Hst').
    rewrite Hrun. cbn [obind]. exists ObsUnit, t'. split; auto. split; [reflexivity|].
    simpl. split; auto. split; auto. intros k v. rewrite Hst'. apply Hst.
Qed.

Lemma run_sim_W ops :
  params_ok -> Forall (fun o => op_ok o = true) ops ->
  forall t m, RW t m ->
    Forall2 obs_equiv (fst (run_from t ops)) (spec_from m ops) /\ exists m', RW (snd (run_from t ops)) m'.
Proof.
  intros Hpar. induction ops as [|o ops IH]; intros Hok t m HR.
  - simpl. split; [constructor|eauto].
  - inversion Hok as [|? ? Ho Hrest]; subst.
    destruct (step_sim_W t m o Hpar HR Ho) as (r & t' & Hstep & Heq & HR').
    cbn [Table.run_from Table.spec_from]. rewrite Hstep.
    destruct (IH Hrest t' _ HR') as (IH1 & IH2).
    destruct (run_from t' ops) as [rs tf]. simpl in *. split; [constructor; auto|exact IH2].
Qed.

(* ================== main results (generic table) ================== *)

(* the public resize(c) on any table of the weak invariant, any c but 1: same entries, weak invariant *)
Theorem tresize_any_lemma t m c :
  params_ok -> RW t m -> c <> 1 ->
  exists t', tresize t c = Ok t' /\ RW t' m.
Proof.
  intros Hpar (HW & Hnd & Hst) Hc.
  destruct (tresize_ok_W t c Hpar HW Hc) as (t' & Hrun & HW' & Hst').
  exists t'. split; [exact Hrun|]. split; [exact HW'|]. split; [exact Hnd|].
  intros k v. rewrite Hst'. apply Hst.
Qed.

(* new capacity 0 or at least INITIAL - smaller than the count or the old capacity included -: the
   invariant of TableProofs.v itself survives; generalises tresize_grow_lemma (no `cap t <= c`) *)
Lemma refill_strong (l : list slot) :
  params_ok ->
  forall t, Inv t -> NoDup (map fst (somes l)) ->
    (forall k v, In (k, v) (somes l) -> forall v', ~ stored t k v') ->
    exists t', fold_left (reinsert tset) l (Ok t) = Ok t' /\ Inv t' /\
      (forall k v, stored t' k v <-> stored t k v \/ In (k, v) (somes l)).
Proof.
  intros Hpar. induction l as [|[[k v]|] l IH]; intros t HI Hnd Hfresh.
  - exists t. split; [reflexivity|]. split; [exact HI|]. intros k v. simpl. tauto.
  - simpl in Hnd. inversion Hnd as [|? ? Hnotin Hnd']; subst.
    cbn [fold_left Table.reinsert obind]. unfold Table.tset at 2, Table.resize_depth.
    destruct (tset_ok K V keqb keqb_spec hash initial growth thr 62 t k v Hpar HI) as (t1 & Hrun & HI1 & Hst1).
    rewrite Hrun.
    destruct (IH t1 HI1 Hnd') as (t' & Hrun' & HI' & Hst').
    + intros k2 v2 Hin v' Hs. apply Hst1 in Hs. destruct Hs as [(-> & _)|(_ & Hs)].
      * apply Hnotin. apply in_map_iff. exists (k, v2). auto.
      * eapply (Hfresh k2 v2); simpl; eauto.
    + exists t'. split; [exact Hrun'|]. split; [exact HI'|].
      intros k' v'. rewrite Hst', Hst1. simpl. split.
      * intros [[(-> & ->)|(_ & H)]|H]; auto.
      * intros [H|[E|H]]; auto.
        -- destruct (key_dec K keqb keqb_spec k' k) as [->|Hn]; auto.
           exfalso. eapply (Hfresh k v); simpl; eauto.
        -- inversion E; subst. auto.
  - simpl in *. cbn [fold_left Table.reinsert]. apply IH; auto.
Qed.

Lemma inv_empty c : c = 0 \/ initial <= c -> 1 <= initial -> Inv (empty_table c).
Proof.
  intros Hc Hini. split; [apply sinv_empty|]. simpl. rewrite count_some_repeat.
  split; [reflexivity|]. split; [destruct Hc; [left; auto|right; lia]|lia].
Qed.

Theorem tresize_any_strong_lemma t m c :
  params_ok -> R t m -> c = 0 \/ initial <= c ->
  exists t', tresize t c = Ok t' /\ R t' m.
Proof.
  intros Hpar (HI & Hnd & Hst) Hc. pose proof Hpar as (_ & _ & _ & Hini & _).
  pose proof HI as ((Hl & Hd & Hch) & _).
  unfold Table.tresize.
  destruct (refill_strong (slots t) Hpar (empty_table c) (inv_empty c Hc ltac:(lia))) as (t' & Hrun & HI' & Hst').
  - apply (items_nodup K V hash t Hl Hd).
  - intros k v _ v'. apply stored_empty.
  - exists t'. split; [exact Hrun|]. split; [exact HI'|]. split; [exact Hnd|].
    intros k v. rewrite Hst', stored_empty_iff, <- (stored_items K V hash t k v Hl), <- Hst. tauto.
Qed.

(* when the entries fit below the load bound of the requested capacity, that is the capacity obtained *)
Theorem tresize_fits_lemma t m c :
  params_ok -> RW t m -> c <> 1 -> count t < c -> count t * 10 < c * thr + 10 ->
  exists t', tresize t c = Ok t' /\ cap t' = c /\ count t' = count t /\ RW t' m.
Proof.
  intros Hpar (HW & Hnd & Hst) Hc Hlt Hld. pose proof Hpar as (_ & _ & _ & Hini & _).
  destruct HW as (HH & Hload). destruct (hinv_parts t HH) as ((Hl & Hd & Hch) & Hcnt & Hroom).
  unfold Table.tresize, Table.tset, Table.resize_depth.
  destruct (reinsert_fold K V keqb keqb_spec hash initial growth thr 63 (slots t) (empty_table c))
    as (t1 & Hrun & HS1 & Hcap1 & Hcnt1 & Hc1 & Hst1).
  - apply sinv_empty.
  - simpl. rewrite count_some_repeat. reflexivity.
  - apply (items_nodup K V hash t Hl Hd).
  - intros k v _ v'. apply stored_empty.
  - simpl. lia.
  - simpl. lia.
  - simpl in Hc1, Hcap1. exists t1. split; [exact Hrun|]. split; [exact Hcap1|]. split; [lia|].
    split; [|split; [exact Hnd|]].
    + split.
      * apply hinv_make; auto. destruct c as [|[|c]]; [lia|contradiction|right; lia].
      * unfold load_ok. rewrite Hcap1. destruct (Nat.leb initial c); lia.
    + intros k v. rewrite Hst1, stored_empty_iff, <- (stored_items K V hash t k v Hl), <- Hst. tauto.
Qed.

(* every observable output of every history - the public resize(c), c <> 1, included anywhere in it -
   equals that of the abstract map (iteration: up to the order of the items), for every hash function *)
Theorem table_refines_map_resize_lemma :
  params_ok -> forall ops, Forall (fun o => op_ok o = true) ops ->
  Forall2 obs_equiv (run_table ops) (run_spec ops).
Proof.
  intros Hpar ops Hok. unfold Table.run_table, Table.run_spec.
  apply run_sim_W; auto. apply RW_table0. destruct Hpar as (_ & _ & _ & H & _). exact H.
Qed.

(* ... and no Crash / Hang is reachable *)
Theorem table_no_failure_resize_lemma :
  params_ok -> forall ops, Forall (fun o => op_ok o = true) ops ->
  Forall (fun r => r <> ObsCrash /\ r <> ObsHang) (run_table ops).
Proof.
  intros Hpar ops Hok. pose proof (table_refines_map_resize_lemma Hpar ops Hok) as H.
  unfold Table.run_spec in H. revert H. generalize (run_table ops). generalize (@nil (K * V)).
  induction ops as [|o ops IH]; intros m l H; simpl in H; inversion H; subst; constructor.
  - pose proof (spec_step_not_fail K V keqb m o) as (H1 & H2).
    destruct x; simpl in *; try (split; discriminate);
      destruct (fst (spec_step m o)); try discriminate; try contradiction; split; auto; discriminate.
  - inversion Hok; subst. eapply IH; eauto.
Qed.

(* every table reached by such a history is in the weak invariant *)
Theorem reachable_winv_lemma :
  params_ok -> forall ops, Forall (fun o => op_ok o = true) ops ->
  exists m, RW (snd (run_from table0 ops)) m.
Proof.
  intros Hpar ops Hok.
  destruct (run_sim_W ops Hpar Hok table0 [] (RW_table0 ltac:(destruct Hpar as (_ & _ & _ & H & _); exact H))) as (_ & H).
  exact H.
Qed.

End ResizeProofs.

(* ================== instances ================== *)
Notation okops K V := (Forall (fun o : op K V => op_ok o = true)).

Theorem smap_refines_map_resize_lemma (ops : list smap_op) :
  okops (list N) N ops ->
  Forall2 (obs_equiv _ _) (fst (smap_run ops)) (run_spec (list N) N bytes_eqb ops).
Proof.
  exact (table_refines_map_resize_lemma _ _ bytes_eqb bytes_eqb_spec hash_str _ _ _ current_constants_ok ops).
Qed.

Theorem uset_refines_set_resize_lemma (ops : list uset_op) :
  okops N unit ops ->
  Forall2 (obs_equiv _ _) (fst (uset_run ops)) (run_spec N unit N.eqb ops).
Proof.
  exact (table_refines_map_resize_lemma _ _ N.eqb Neqb_spec hash_u64 _ _ _ current_constants_ok ops).
Qed.

Theorem stylemap_refines_map_resize_lemma (ops : list stylemap_op) :
  okops N (list N) ops ->
  Forall2 (obs_equiv _ _) (fst (stylemap_run ops)) (run_spec N (list N) N.eqb ops).
Proof.
  exact (table_refines_map_resize_lemma _ _ N.eqb Neqb_spec hash_u64 _ _ _ current_constants_ok ops).
Qed.

(* TagMap: set(k, k) deletes, get defaults to the key; resize() refills through the generic set
   (stored entries never have key == value) *)
Definition RWT := RW N N hash_u64 P_INITIAL P_THRESHOLD.

Lemma tm_step_sim_W (t : tagmap) (m : amap N N) (o : tagmap_op) :
  RWT t m -> op_ok o = true ->
  exists r t', tagmap_step t o = Ok (r, t') /\ obs_equiv _ _ r (fst (tm_spec_step m o)) /\
               RWT t' (snd (tm_spec_step m o)).
Proof.
  intros HR Hok.
  pose proof (fun o => step_sim_W N N N.eqb Neqb_spec hash_u64 P_INITIAL P_GROWTH P_THRESHOLD t m o
                          current_constants_ok HR) as Hsim.
  destruct o as [k v|k|k|k| | | |c]; try (exact (Hsim _ Hok)).
  - (* set *)
    unfold tagmap_step, tm_set, tm_spec_step. destruct (N.eqb_spec k v) as [->|Hne].
    + destruct (Hsim (OpDel v) eq_refl) as (r & t' & Hstep & _ & HR').
      unfold step in Hstep. destruct (tdel N N N.eqb hash_u64 t v) as [[b t'']| | | | |]; try discriminate.
      cbn [obind fst snd] in *. inversion Hstep; subst.
      exists ObsUnit, t'. split; auto. split; [reflexivity|exact HR'].
    + exact (Hsim (OpSet k v) eq_refl).
  - (* get *)
    destruct (Hsim (OpGet k) eq_refl) as (r & t' & Hstep & Heq & HR').
    unfold step in Hstep. unfold tagmap_step, tm_get.
    destruct (tget N N N.eqb hash_u64 t k) as [o| | | | |]; try discriminate.
    cbn [obind] in *. inversion Hstep; subst.
    apply obs_equiv_not_items in Heq; [|simpl; intros; discriminate].
    simpl in Heq. inversion Heq; subst.
    exists (ObsVal (Some (match alookup N N N.eqb m k with Some v => v | None => k end))), t'.
    split; auto. split; [reflexivity|exact HR'].
Qed.

Theorem tagmap_refines_resize_lemma (ops : list tagmap_op) :
  okops N N ops ->
  Forall2 (obs_equiv _ _) (fst (tagmap_run ops)) (tagmap_run_spec ops).
Proof.
  unfold tagmap_run, tagmap_run_spec.
  assert (H0 : RWT (table0 N N) []).
  { apply RW_table0. destruct current_constants_ok as (_ & _ & _ & H & _). exact H. }
  revert H0. generalize (table0 N N). generalize (@nil (N * N)).
  induction ops as [|o ops IH]; intros m t HR Hok.
  - simpl. constructor.
  - inversion Hok as [|? ? Ho Hrest]; subst.
    destruct (tm_step_sim_W t m o HR Ho) as (r & t' & Hstep & Heq & HR').
    cbn [tagmap_run_from tm_spec_from]. rewrite Hstep.
    specialize (IH _ _ HR' Hrest).
    destruct (tagmap_run_from t' ops) as [rs tf]. simpl in *. constructor; auto.
Qed.

(* ================== the threshold is sharp: capacity 1 ================== *)
(* all four tables: a one-entry table resized to 1 (= resize(count)), or an empty table resized to 1
   and given one entry, is full; the next look-up / deletion of another key never returns.
   Replayed on the real Map / Set / TagMap / StyleMap by harness/c20_table.cpp (kind-specific payloads
   "s:6b30:1 r:1 g:7a7a" etc.). *)
Theorem resize_one_hangs_refuted :
  last (fst (smap_run smap_hang_history)) ObsUnit = ObsHang /\
  last (fst (smap_run smap_hang_history2)) ObsUnit = ObsHang /\
  last (fst (uset_run uset_hang_history)) ObsUnit = ObsHang /\
  last (fst (tagmap_run tagmap_hang_history)) ObsUnit = ObsHang /\
  last (fst (stylemap_run stylemap_hang_history)) ObsUnit = ObsHang.
Proof. vm_compute. repeat split; reflexivity. Qed.

(* so "for every history" fails as soon as resize(1) is allowed *)
Theorem table_no_failure_resize_one_refuted :
  exists ops : list smap_op, In ObsHang (fst (smap_run ops)).
Proof. exists smap_hang_history. vm_compute. tauto. Qed.

(* at the level of tresize_any: a table in the (strong) invariant with one entry, resized to 1, is full
   and look-ups of absent keys run out of fuel *)
Theorem tresize_one_full_refuted :
  exists (t : smap) (m : amap (list N) N),
    R (list N) N hash_str P_INITIAL P_THRESHOLD t m /\ count t = 1 /\
    exists t', tresize (list N) N bytes_eqb hash_str P_INITIAL P_GROWTH P_THRESHOLD t 1 = Ok t' /\
      tfull t' = true /\ tget (list N) N bytes_eqb hash_str t' [122; 122]%N = Hang /\
      ~ WInv (list N) N hash_str P_INITIAL P_THRESHOLD t'.
Proof.
  destruct (step_sim (list N) N bytes_eqb bytes_eqb_spec hash_str P_INITIAL P_GROWTH P_THRESHOLD
              (table0 (list N) N) [] (OpSet [107; 48]%N 1%N) current_constants_ok
              (R_table0 (list N) N hash_str P_INITIAL P_THRESHOLD) I) as (r & t & Hstep & _ & HR).
  vm_compute in Hstep. inversion Hstep; subst. clear Hstep.
  eexists. exists [([107; 48]%N, 1%N)]. split; [exact HR|]. split; [reflexivity|].
  eexists. split; [vm_compute; reflexivity|]. split; [reflexivity|]. split; [vm_compute; reflexivity|].
  intros ((_ & _ & Hroom & _) & _). cbn [cap count] in Hroom. lia.
Qed.

(* capacities 2 .. INITIAL-1: the resized table is fine (tresize_any) but NOT in the invariant of
   TableProofs.v - which is why the weak invariant is needed -, and after the growth step that brings
   such a table to INITIAL the load is one entry above that invariant's bound (8 slots, 5 entries) *)
Theorem tresize_small_strong_refuted :
  (exists t', tresize (list N) N bytes_eqb hash_str P_INITIAL P_GROWTH P_THRESHOLD (table0 (list N) N) 2 = Ok t' /\
     ~ Inv (list N) N hash_str P_INITIAL P_THRESHOLD t') /\
  (let t := snd (smap_run smap_small_history) in
     cap t = 8 /\ count t = 5 /\ ~ Inv (list N) N hash_str P_INITIAL P_THRESHOLD t /\
     exists m, RW (list N) N hash_str P_INITIAL P_THRESHOLD t m).
Proof.
  split.
  - eexists. split; [vm_compute; reflexivity|].
    intros (_ & _ & Hroom & _). cbn [cap count] in Hroom.
    change P_INITIAL with 8 in Hroom. lia.
  - cbv zeta. split; [vm_compute; reflexivity|]. split; [vm_compute; reflexivity|]. split.
    + intros (_ & _ & _ & Hload).
      assert (E1 : cap (snd (smap_run smap_small_history)) = 8) by (vm_compute; reflexivity).
      assert (E2 : count (snd (smap_run smap_small_history)) = 5) by (vm_compute; reflexivity).
      rewrite E1, E2 in Hload. change P_THRESHOLD with 5 in Hload. lia.
    + apply (reachable_winv_lemma (list N) N bytes_eqb bytes_eqb_spec hash_str P_INITIAL P_GROWTH P_THRESHOLD
               current_constants_ok smap_small_history).
      repeat constructor.
Qed.

(* the hypotheses of tresize_any are satisfiable on a non-trivial input: six entries, resized to a
   capacity below their number (3), to their number (6), to 0; the entries survive, the capacity is
   what set() grew the temporary table to *)
Definition six_sets : list smap_op :=
  [OpSet [97] 1; OpSet [98] 2; OpSet [99] 3; OpSet [100] 4; OpSet [101] 5; OpSet [102] 6]%N.
Example tresize_any_example :
  let t := snd (smap_run six_sets) in
  count t = 6 /\ cap t = 16 /\
  exists m, RW (list N) N hash_str P_INITIAL P_THRESHOLD t m /\
    (exists t3, tresize (list N) N bytes_eqb hash_str P_INITIAL P_GROWTH P_THRESHOLD t 3 = Ok t3 /\
                RW (list N) N hash_str P_INITIAL P_THRESHOLD t3 m /\ cap t3 = 16) /\
    (exists t6, tresize (list N) N bytes_eqb hash_str P_INITIAL P_GROWTH P_THRESHOLD t 6 = Ok t6 /\
                RW (list N) N hash_str P_INITIAL P_THRESHOLD t6 m /\ cap t6 = 16) /\
    (exists t0, tresize (list N) N bytes_eqb hash_str P_INITIAL P_GROWTH P_THRESHOLD t 0 = Ok t0 /\
                RW (list N) N hash_str P_INITIAL P_THRESHOLD t0 m /\ cap t0 = 16).
Proof.
  cbv zeta. split; [vm_compute; reflexivity|]. split; [vm_compute; reflexivity|].
  destruct (reachable_winv_lemma (list N) N bytes_eqb bytes_eqb_spec hash_str P_INITIAL P_GROWTH P_THRESHOLD
              current_constants_ok six_sets ltac:(repeat constructor)) as (m & HR).
  exists m. split; [exact HR|].
  assert (Hany := fun c Hc => tresize_any_lemma (list N) N bytes_eqb bytes_eqb_spec hash_str P_INITIAL P_GROWTH
                                P_THRESHOLD (snd (smap_run six_sets)) m c current_constants_ok HR Hc).
  split; [|split].
  - destruct (Hany 3 ltac:(lia)) as (t' & Hrun & HR'). exists t'. split; [exact Hrun|]. split; [exact HR'|].
    vm_compute in Hrun. inversion Hrun. reflexivity.
  - destruct (Hany 6 ltac:(lia)) as (t' & Hrun & HR'). exists t'. split; [exact Hrun|]. split; [exact HR'|].
    vm_compute in Hrun. inversion Hrun. reflexivity.
  - destruct (Hany 0 ltac:(lia)) as (t' & Hrun & HR'). exists t'. split; [exact Hrun|]. split; [exact HR'|].
    vm_compute in Hrun. inversion Hrun. reflexivity.
Qed.
