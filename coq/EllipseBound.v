(* C15 — elliptical arcs: the sagitta bound of ArcBound.v carried over by an affine contraction.

   Curve::arc (src/curve.cpp), after the two angles are transformed to the PARAMETER of the ellipse:

       const double max_radius = radius_x > radius_y ? radius_x : radius_y;
       initial_angle = elliptical_angle_transform(initial_angle - rotation, radius_x, radius_y);
       final_angle   = elliptical_angle_transform(final_angle - rotation, radius_x, radius_y);
       const double full_angle = fabs(final_angle - initial_angle);
       uint64_t num_points = 1 + arc_num_points(full_angle, max_radius, tolerance);
       if (num_points < GDSTK_MIN_POINTS) num_points = GDSTK_MIN_POINTS;
       const double cr = cos(rotation);  const double sr = sin(rotation);
       ...
       for (uint64_t i = 1; i < num_points; i++) {
           double t = i / (num_points - 1.0);
           double angle = LERP(initial_angle, final_angle, t);
           x = radius_x * cos(angle);  y = radius_y * sin(angle);
           Vec2 point = {x * cr - y * sr, x * sr + y * cr};
           *dst++ = point + delta;
       }

   i.e. num_points - 1 = arc_segments full_angle max_radius tolerance chords, uniform in the parameter.
   ellipse() (src/polygon.cpp) sizes every outline the same way (span in the parameter, larger
   radius; num_points - 1 chords for slices and rings, num_points chords for the full ellipse), with
   cr = 1, sr = 0.

   The ellipse is the image of the circle of radius max(rx, ry) under
       (x, y) |-> centre + Rot (rx/R x, ry/R y),        R = max(rx, ry),
   an affine map whose linear part has singular values rx/R, ry/R <= 1: it maps chords to chords
   (same parameter l), uniform parameter sampling to uniform parameter sampling and does not
   increase distances, so `arc_sagitta_bound_lemma` for radius R gives the same bound 4 tol. *)
From Coq Require Import Reals Lra Lia ZArith Psatz.
Require Import ArcBound.
Local Open Scope R_scope.

(* ------------------------------------------------------------------ the vertices of Curve::arc *)
(* LERP(a, b, u) of utils.hpp *)
Definition lerpR (a b u : R) : R := a * (1 - u) + b * u.

(* the point the loop of Curve::arc computes at t = u (delta = (cx, cy) minus nothing: the constant
   translation that puts the first point on the current end point) *)
Definition ell_pt (cx cy rx ry cr sr ai af u : R) : pt2 :=
  let angle := lerpR ai af u in
  let x := rx * cos angle in
  let y := ry * sin angle in
  (x * cr - y * sr + cx, x * sr + y * cr + cy).

(* number of chords: num_points - 1 with the C++ expression for num_points *)
Definition ell_segments (rx ry ai af tol : R) : Z :=
  let max_radius := if Rgt_dec rx ry then rx else ry in
  let full_angle := Rabs (af - ai) in
  arc_segments full_angle max_radius tol.

(* ------------------------------------------------------------------ affine maps *)
(* p |-> (a x + b y + e, c x + d y + f) *)
Definition aff (a b c d e f : R) (p : pt2) : pt2 :=
  (a * fst p + b * snd p + e, c * fst p + d * snd p + f).

Lemma aff_seg_pt a b c d e f p q l :
  aff a b c d e f (seg_pt p q l) = seg_pt (aff a b c d e f p) (aff a b c d e f q) l.
Proof. unfold aff, seg_pt. cbn [fst snd]. f_equal; ring. Qed.

(* linear part = Rot(cr, sr) . diag(sx, sy) with 0 <= sx, sy <= 1 and cr^2 + sr^2 = 1 *)
Lemma aff_contracts sx sy cr sr e f p q :
  0 <= sx <= 1 -> 0 <= sy <= 1 -> cr * cr + sr * sr = 1 ->
  dist2 (aff (sx * cr) (- (sy * sr)) (sx * sr) (sy * cr) e f p)
        (aff (sx * cr) (- (sy * sr)) (sx * sr) (sy * cr) e f q) <= dist2 p q.
Proof.
  intros Hx Hy Hrot. unfold dist2, aff. cbn [fst snd].
  destruct p as [px py], q as [qx qy]. cbn [fst snd].
  set (dx := px - qx). set (dy := py - qy).
  replace ((sx * cr * px + - (sy * sr) * py + e - (sx * cr * qx + - (sy * sr) * qy + e)) *
           (sx * cr * px + - (sy * sr) * py + e - (sx * cr * qx + - (sy * sr) * qy + e)) +
           (sx * sr * px + sy * cr * py + f - (sx * sr * qx + sy * cr * qy + f)) *
           (sx * sr * px + sy * cr * py + f - (sx * sr * qx + sy * cr * qy + f)))
    with ((cr * cr + sr * sr) * ((sx * dx) * (sx * dx) + (sy * dy) * (sy * dy)))
    by (unfold dx, dy; ring).
  rewrite Hrot, Rmult_1_l.
  assert (Hsx : sx * sx <= 1) by nra.
  assert (Hsy : sy * sy <= 1) by nra.
  pose proof (Rle_0_sqr dx) as Hdx. pose proof (Rle_0_sqr dy) as Hdy. unfold Rsqr in *.
  replace (sx * dx * (sx * dx)) with (sx * sx * (dx * dx)) by ring.
  replace (sy * dy * (sy * dy)) with (sy * sy * (dy * dy)) by ring.
  nra.
Qed.

(* the ellipse point is the image of the point of the circle of radius R at the same parameter *)
Lemma ell_pt_is_image cx cy rx ry cr sr ai af u Rm : Rm <> 0 ->
  ell_pt cx cy rx ry cr sr ai af u
  = aff (rx / Rm * cr) (- (ry / Rm * sr)) (rx / Rm * sr) (ry / Rm * cr) cx cy
        (arc_pt 0 0 Rm ai (af - ai) u).
Proof.
  intros HR. unfold ell_pt, aff, arc_pt, lerpR. cbv zeta. cbn [fst snd].
  replace (ai * (1 - u) + af * u) with (ai + u * (af - ai)) by ring.
  f_equal; field; assumption.
Qed.

Lemma arc_segments_Rabs theta r tol : arc_segments (Rabs theta) r tol = arc_segments theta r tol.
Proof. unfold arc_segments, arc_num_points. now rewrite Rabs_Rabsolu. Qed.

(* ------------------------------------------------------------------ main theorem *)
(* every point of the elliptical arc is within 4 tol of the chord of its own parameter step, for
   the chord count of the C++ (or any larger one), any radii, span, rotation, tolerance *)
Theorem ellipse_sagitta_bound_lemma : forall (rx ry tol cx cy cr sr ai af u : R) (n : Z),
  0 < rx -> 0 < ry -> 0 < tol -> cr * cr + sr * sr = 1 -> 0 <= u <= 1 ->
  (ell_segments rx ry ai af tol <= n)%Z ->
  exists k : Z, (0 <= k < n)%Z /\ exists l : R, 0 <= l <= 1 /\
    dist2 (ell_pt cx cy rx ry cr sr ai af u)
          (seg_pt (ell_pt cx cy rx ry cr sr ai af (IZR k / IZR n))
                  (ell_pt cx cy rx ry cr sr ai af (IZR (k + 1) / IZR n)) l)
    <= (4 * tol) * (4 * tol).
Proof.
  intros rx ry tol cx cy cr sr ai af u n Hrx Hry Ht Hrot Hu Hn.
  unfold ell_segments in Hn. cbv zeta in Hn.
  set (Rm := if Rgt_dec rx ry then rx else ry) in *.
  assert (HR : 0 < Rm /\ rx <= Rm /\ ry <= Rm).
  { unfold Rm. destruct (Rgt_dec rx ry); lra. }
  destruct HR as (HR0 & HRx & HRy).
  rewrite arc_segments_Rabs in Hn.
  destruct (arc_sagitta_bound_lemma Rm tol (af - ai) 0 0 ai u n HR0 Ht Hu Hn)
    as (k & Hk & l & Hl & Hd).
  exists k. split; [exact Hk|]. exists l. split; [exact Hl|].
  rewrite !(ell_pt_is_image cx cy rx ry cr sr ai af _ Rm) by lra.
  rewrite <- aff_seg_pt.
  eapply Rle_trans; [|exact Hd].
  assert (Hi : 0 < / Rm) by (apply Rinv_0_lt_compat; assumption).
  apply aff_contracts; [| |exact Hrot].
  - split.
    + unfold Rdiv. apply Rmult_le_pos; lra.
    + apply Rmult_le_reg_r with (r := Rm); [assumption|].
      unfold Rdiv. rewrite Rmult_assoc, Rinv_l by lra. lra.
  - split.
    + unfold Rdiv. apply Rmult_le_pos; lra.
    + apply Rmult_le_reg_r with (r := Rm); [assumption|].
      unfold Rdiv. rewrite Rmult_assoc, Rinv_l by lra. lra.
Qed.

(* with the rotation given as an angle, as Curve::arc has it (cr = cos rotation, sr = sin rotation),
   and exactly the number of chords the C++ uses *)
Corollary ellipse_sagitta_bound_curve_arc : forall (rx ry tol cx cy rot ai af u : R),
  0 < rx -> 0 < ry -> 0 < tol -> 0 <= u <= 1 ->
  let n := ell_segments rx ry ai af tol in
  exists k : Z, (0 <= k < n)%Z /\ exists l : R, 0 <= l <= 1 /\
    dist2 (ell_pt cx cy rx ry (cos rot) (sin rot) ai af u)
          (seg_pt (ell_pt cx cy rx ry (cos rot) (sin rot) ai af (IZR k / IZR n))
                  (ell_pt cx cy rx ry (cos rot) (sin rot) ai af (IZR (k + 1) / IZR n)) l)
    <= (4 * tol) * (4 * tol).
Proof.
  intros. apply ellipse_sagitta_bound_lemma; try assumption.
  - pose proof (sin2_cos2 rot) as S. unfold Rsqr in S. lra.
  - unfold n. lia.
Qed.

(* ellipse() of src/polygon.cpp, full outline:  angle = i * 2 * M_PI / num_points  for
   i = 0 .. num_points - 1 and the closing edge: num_points = 1 + arc_segments chords of the full
   turn (one more than the bound needs), axes not rotated *)
Corollary ellipse_full_bound : forall (rx ry tol cx cy u : R),
  0 < rx -> 0 < ry -> 0 < tol -> 0 <= u <= 1 ->
  let n := (1 + ell_segments rx ry 0 (2 * PI) tol)%Z in
  exists k : Z, (0 <= k < n)%Z /\ exists l : R, 0 <= l <= 1 /\
    dist2 (ell_pt cx cy rx ry 1 0 0 (2 * PI) u)
          (seg_pt (ell_pt cx cy rx ry 1 0 0 (2 * PI) (IZR k / IZR n))
                  (ell_pt cx cy rx ry 1 0 0 (2 * PI) (IZR (k + 1) / IZR n)) l)
    <= (4 * tol) * (4 * tol).
Proof.
  intros. apply ellipse_sagitta_bound_lemma; try assumption; [lra|unfold n; lia].
Qed.

(* the vertices of the full ellipse are the points of parameter i / num_points *)
Lemma ellipse_full_vertex cx cy rx ry i np : np <> 0 ->
  ell_pt cx cy rx ry 1 0 0 (2 * PI) (i / np)
  = (cx + rx * cos (i * 2 * PI / np), cy + ry * sin (i * 2 * PI / np)).
Proof.
  intros Hn. unfold ell_pt, lerpR. cbv zeta.
  replace (0 * (1 - i / np) + 2 * PI * (i / np)) with (i * 2 * PI / np) by (field; assumption).
  f_equal; ring.
Qed.

(* the hypotheses are satisfiable, and the count on a simple input: radii 2 and 1, half a turn in the
   parameter, tolerance 2: c = 1 - 2/2 = 0, a = pi/2, floor(1/2 + 1) = 1, so 3 chords *)
Example ell_segments_example : ell_segments 2 1 0 PI 2 = 3%Z.
Proof.
  unfold ell_segments. cbv zeta.
  destruct (Rgt_dec 2 1) as [_|H]; [|lra].
  replace (PI - 0) with PI by ring.
  rewrite arc_segments_Rabs.
  unfold arc_segments, arc_num_points, arc_half_angle. cbv zeta.
  replace (1 - 2 / 2) with 0 by field.
  destruct (Rlt_dec 0 (-1)) as [H|H]; [lra|].
  rewrite acos_0. pose proof PI_RGT_0 as Hpi.
  rewrite (Rabs_pos_eq PI) by lra.
  replace (/ 2 + / 2 * PI / (PI / 2)) with (3 / 2) by (field; lra).
  assert (E : Int_part (3 / 2) = 1%Z).
  { unfold Int_part. replace (3 / 2) with (IZR 1 + / 2) by (simpl; lra).
    assert (up (IZR 1 + / 2) = 2%Z); [|lia].
    symmetry. apply (up_tech (IZR 1 + / 2) 1); simpl; lra. }
  rewrite E. reflexivity.
Qed.

Example ellipse_bound_example : exists k : Z, (0 <= k < 3)%Z /\ exists l : R, 0 <= l <= 1 /\
  dist2 (ell_pt 0 0 2 1 1 0 0 PI (/ 2))
        (seg_pt (ell_pt 0 0 2 1 1 0 0 PI (IZR k / 3)) (ell_pt 0 0 2 1 1 0 0 PI (IZR (k + 1) / 3)) l)
  <= (4 * 2) * (4 * 2).
Proof.
  apply (ellipse_sagitta_bound_lemma 2 1 2 0 0 1 0 0 PI (/ 2) 3); try lra.
  rewrite ell_segments_example. lia.
Qed.
