(* Model of include/gdstk/sort.hpp:
     insertion_sort, swap_values, leaf_search, sift_down, heap_sort, partition, intro_sort, sort.
   Definitions only (no proofs) so the model still runs when a proof breaks.

   Arrays are lists with bounds-checked access: reading or writing an index outside
   [0, count) is `Crash` (the C++ reads / writes out of bounds there).  Indices are `Z` and follow
   the int64_t arithmetic of the C++ statement by statement (`j >= 0`, `(n-1) >> 1`, `hi >> 2`, ...;
   counts are far below 2^62 so int64_t never wraps).  Every C++ loop is a recursion on a fuel that
   is at least the number of iterations the loop can make before it leaves the array; running out
   of fuel is `Hang` (SortProofs.v: with an irreflexive comparator the result is always `Ok`).
   `lt` is the C++ comparator `sorted(a, b)`. *)
Require Import Base Generated.
Local Open Scope Z_scope.

Section Sort.
Context {A : Type}.
Variable lt : A -> A -> bool.

Definition len (items : list A) : Z := Z.of_nat (length items).

(* items[i] as an rvalue: walk down to position i *)
Fixpoint get_at (items : list A) (n : N) : outcome A :=
  match items with
  | [] => Crash
  | x :: t => match n with N0 => Ok x | Npos p => get_at t (Pos.pred_N p) end
  end.
Definition get (items : list A) (i : Z) : outcome A :=
  if i <? 0 then Crash else get_at items (Z.to_N i).

(* items[i] = x *)
Fixpoint set_at (items : list A) (n : N) (x : A) : outcome (list A) :=
  match items with
  | [] => Crash
  | a :: t =>
      match n with
      | N0 => Ok (x :: t)
      | Npos p => obind (set_at t (Pos.pred_N p) x) (fun t' => Ok (a :: t'))
      end
  end.
Definition set (items : list A) (i : Z) (x : A) : outcome (list A) :=
  if i <? 0 then Crash else set_at items (Z.to_N i) x.

(* swap_values(items[i], items[j]):  T temp = a; a = b; b = temp; *)
Definition swap (items : list A) (i j : Z) : outcome (list A) :=
  obind (get items i) (fun a =>
  obind (get items j) (fun b =>
  obind (set items i b) (fun items' => set items' j a))).

(* ---------------------------------------------------------------- insertion_sort *)
(*  while (j >= 0 && sorted(store, items[j])) { items[j + 1] = items[j]; j--; }
    items[j + 1] = store;                                                                *)
Fixpoint ins_inner (fuel : nat) (items : list A) (store : A) (j : Z) : outcome (list A) :=
  match fuel with
  | O => Hang
  | S f =>
      if 0 <=? j then
        obind (get items j) (fun x =>
          if lt store x then
            obind (set items (j + 1) x) (fun items' => ins_inner f items' store (j - 1))
          else set items (j + 1) store)
      else set items (j + 1) store
  end.

(*  for (int64_t i = 1; i < count; i++) { T store = items[i]; int64_t j = i - 1; ... }  *)
Fixpoint ins_outer (fuel : nat) (items : list A) (i count : Z) : outcome (list A) :=
  match fuel with
  | O => Hang
  | S f =>
      if i <? count then
        obind (get items i) (fun store =>
        obind (ins_inner (S (Z.to_nat i)) items store (i - 1)) (fun items' =>
          ins_outer f items' (i + 1) count))
      else Ok items
  end.

Definition insertion_sort (items : list A) : outcome (list A) :=
  let count := len items in ins_outer (S (Z.to_nat count)) items 1 count.

(* ---------------------------------------------------------------- heap_sort *)
Definition heap_parent (n : Z) : Z := Z.shiftr (n - 1) 1.   (* GDSTK_HEAP_PARENT *)
Definition heap_left (n : Z) : Z := n * 2 + 1.              (* GDSTK_HEAP_LEFT *)
Definition heap_right (n : Z) : Z := n * 2 + 2.             (* GDSTK_HEAP_RIGHT *)

(*  int64_t jr = RIGHT(j);
    while (jr <= end) { jl = LEFT(j); if (sorted(items[jl], items[jr])) j = jr; else j = jl; jr = RIGHT(j); }
    jl = LEFT(j); if (jl <= end) j = jl; return j;                                        *)
Fixpoint leaf_search (fuel : nat) (items : list A) (j end_ : Z) : outcome Z :=
  match fuel with
  | O => Hang
  | S f =>
      let jr := heap_right j in
      if jr <=? end_ then
        let jl := heap_left j in
        obind (get items jl) (fun xl =>
        obind (get items jr) (fun xr =>
          leaf_search f items (if lt xl xr then jr else jl) end_))
      else
        let jl := heap_left j in
        Ok (if jl <=? end_ then jl else j)
  end.

(*  while (sorted(items[j], items[start])) j = PARENT(j);  *)
Fixpoint climb (fuel : nat) (items : list A) (start j : Z) : outcome Z :=
  match fuel with
  | O => Hang
  | S f =>
      obind (get items j) (fun xj =>
      obind (get items start) (fun xs =>
        if lt xj xs then climb f items start (heap_parent j) else Ok j))
  end.

(*  while (j > start) { parent = PARENT(j); swap_values(store, items[parent]); j = parent; }  *)
Fixpoint rotate (fuel : nat) (items : list A) (store : A) (start j : Z) : outcome (list A) :=
  match fuel with
  | O => Hang
  | S f =>
      if start <? j then
        let parent := heap_parent j in
        obind (get items parent) (fun xp =>
        obind (set items parent store) (fun items' =>
          rotate f items' xp start parent))
      else Ok items
  end.

Definition sift_down (items : list A) (start end_ : Z) : outcome (list A) :=
  obind (leaf_search (S (Z.to_nat end_)) items start end_) (fun j0 =>
  obind (climb (S (S (Z.to_nat j0))) items start j0) (fun j =>
  obind (get items j) (fun store =>            (* T store = items[j]; *)
  obind (get items start) (fun xs =>
  obind (set items j xs) (fun items' =>        (* items[j] = items[start]; *)
    rotate (S (Z.to_nat j)) items' store start j))))).

(*  for (start = PARENT(count - 1); start >= 0; start--) sift_down(items, start, count - 1, sorted);  *)
Fixpoint heap_build (fuel : nat) (items : list A) (start count : Z) : outcome (list A) :=
  match fuel with
  | O => Hang
  | S f =>
      if 0 <=? start then
        obind (sift_down items start (count - 1)) (fun items' => heap_build f items' (start - 1) count)
      else Ok items
  end.

(*  while (end > 0) { swap_values(items[0], items[end]); end--; sift_down(items, 0, end, sorted); }  *)
Fixpoint heap_drain (fuel : nat) (items : list A) (end_ : Z) : outcome (list A) :=
  match fuel with
  | O => Hang
  | S f =>
      if 0 <? end_ then
        obind (swap items 0 end_) (fun items' =>
        let end' := end_ - 1 in
        obind (sift_down items' 0 end') (fun items'' => heap_drain f items'' end'))
      else Ok items
  end.

Definition heap_sort (items : list A) : outcome (list A) :=
  let count := len items in
  obind (heap_build (S (Z.to_nat count)) items (heap_parent (count - 1)) count) (fun items' =>
    heap_drain (S (Z.to_nat count)) items' (count - 1)).

(* ---------------------------------------------------------------- partition *)
(*  do { i++; } while (sorted(items[i], pivot));  *)
Fixpoint scan_up (fuel : nat) (items : list A) (pivot : A) (i : Z) : outcome Z :=
  match fuel with
  | O => Hang
  | S f =>
      let i := i + 1 in
      obind (get items i) (fun x => if lt x pivot then scan_up f items pivot i else Ok i)
  end.

(*  do { j--; } while (sorted(pivot, items[j]));  *)
Fixpoint scan_down (fuel : nat) (items : list A) (pivot : A) (j : Z) : outcome Z :=
  match fuel with
  | O => Hang
  | S f =>
      let j := j - 1 in
      obind (get items j) (fun x => if lt pivot x then scan_down f items pivot j else Ok j)
  end.

(*  while (true) { scan i; scan j; if (i >= j) return j + 1; swap_values(items[i], items[j]); }  *)
Fixpoint part_loop (fuel n : nat) (items : list A) (pivot : A) (i j : Z) : outcome (list A * Z) :=
  match fuel with
  | O => Hang
  | S f =>
      obind (scan_up n items pivot i) (fun i' =>
      obind (scan_down n items pivot j) (fun j' =>
        if j' <=? i' then Ok (items, j' + 1)
        else obind (swap items i' j') (fun items' => part_loop f n items' pivot i' j')))
  end.

(*  if (sorted(items[a], items[b])) swap_values(items[b], items[a]);  *)
Definition order2 (items : list A) (a b : Z) : outcome (list A) :=
  obind (get items a) (fun xa =>
  obind (get items b) (fun xb =>
    if lt xa xb then swap items b a else Ok items)).

Definition partition (items : list A) : outcome (list A * Z) :=
  let count := len items in
  let hi := count - 1 in
  let mid := Z.shiftr hi 2 in
  obind (order2 items hi 0) (fun items1 =>        (* if (sorted(items[hi], items[0])) swap(items[0], items[hi]) *)
  obind (order2 items1 mid 0) (fun items2 =>      (* if (sorted(items[mid], items[0])) swap(items[0], items[mid]) *)
  obind (order2 items2 hi mid) (fun items3 =>     (* if (sorted(items[hi], items[mid])) swap(items[mid], items[hi]) *)
  obind (get items3 mid) (fun pivot =>
    part_loop (S (length items)) (S (length items)) items3 pivot (-1) count)))).

(* ---------------------------------------------------------------- intro_sort *)
(* `thr` is the small-array threshold (16 in the source; generated).  max_depth is a `nat`: the
   C++ only tests `max_depth == 0` and decrements, and `sort` passes a non-negative value whenever
   count > 1.  The recursive calls on `items` / `items + p` are calls on the two parts of the list. *)
Fixpoint intro_sort_thr (thr : Z) (max_depth : nat) (items : list A) : outcome (list A) :=
  let count := len items in
  if count <=? 1 then Ok items
  else if count =? 2 then order2 items 1 0
  else if count <=? thr then insertion_sort items
  else
    match max_depth with
    | O => heap_sort items
    | S d =>
        obind (partition items) (fun '(items', p) =>
          if (p <? 0) || (count <? p) then Crash
          else
            let n := Z.to_nat p in
            obind (intro_sort_thr thr d (firstn n items')) (fun left =>
            obind (intro_sort_thr thr d (skipn n items')) (fun right =>
              Ok (left ++ right))))
    end.

Definition intro_sort : nat -> list A -> outcome (list A) :=
  intro_sort_thr (Z.of_N sort_insertion_threshold).

(*  for (int64_t i = count; i > 0; i >>= 1) max_depth++;   (at most 63 rounds for an int64_t)  *)
Fixpoint depth_loop (fuel : nat) (i acc : Z) : Z :=
  match fuel with
  | O => acc
  | S f => if 0 <? i then depth_loop f (Z.shiftr i 1) (acc + 1) else acc
  end.

Definition sort_max_depth (count : Z) : Z := 2 * (depth_loop 64 count 0 - 1).

Definition sort_thr (thr : Z) (items : list A) : outcome (list A) :=
  intro_sort_thr thr (Z.to_nat (sort_max_depth (len items))) items.

Definition sort (items : list A) : outcome (list A) :=
  sort_thr (Z.of_N sort_insertion_threshold) items.

End Sort.

(* the comparators used by the correspondence harness (harness/c20_sort.cpp) *)
Definition cmp_lt (a b : Z) : bool := a <? b.
Definition cmp_gt (a b : Z) : bool := b <? a.
Definition cmp_key (a b : Z) : bool := Z.shiftr a 3 <? Z.shiftr b 3.   (* (a >> 3) < (b >> 3): ties *)
