(* Proofs about GridRound.v: the floating-point step between user doubles and the integer database grid.
   1. lround / llround model = Flocq's round-half-away ZnearestA of the value; monotone.
   2. save_is_grid_rounding: the integer written for x is a nearest integer of the REAL x * unit / precision up to
      1/2 + |x unit / precision| (2 u + u^2); exact when unit / precision is a power of two; the slack is real (witness).
   3. monotonicity of x |-> written integer.
   4. gds_load_save_stable: EVERY positive UNITS record, EVERY int32 k: load then save writes k again (coordinates,
      extensions, widths).  What a load reports for a written record: the precision exactly, the unit within 2 u
      (and not always equal: witness).
   5. oas_load_save_stable: every positive START real in 2^-100 .. 2^100, |k| < 2^50: same; refuted beyond.
      Point lists (accumulated in floating point by oasis_read_point_list): stable under an explicit bound on
      (number of steps) x (total variation).
   6. FlexPath::remove_overlapping_points after a load: a one-grid-step segment is merged iff the rounded step is
      shorter than the tolerance; concrete witnesses for the default units.
   Axioms: the standard-library real-number axioms that Flocq / Reals bring in. *)
Require Import Base OasisInt GdsReal GdsRealProofs OasisReal OasisRealProofs OasisReal2Proofs GdsUnits GdsUnitsProofs GdsUnitsRound GridRound.
From Coq Require Import Reals Lia Lra Psatz.
From Flocq Require Import Core BinarySingleNaN Binary Bits Relative Plus_error.
Local Open Scope Z_scope.

Local Instance prec53g : Prec_gt_0 53 := eq_refl.
Local Instance valid64g : Valid_exp (FLT_exp (-1074) 53) := FLT_exp_valid (-1074) 53.

(* ================================================================== 1. lround *)
Lemma ZnearestA_opp y : ZnearestA (- y) = - ZnearestA y.
Proof.
  rewrite Znearest_opp. f_equal. unfold Znearest.
  replace (negb (0 <=? - (Zfloor y + 1))) with (0 <=? Zfloor y); [reflexivity|].
  destruct (Z.leb_spec 0 (Zfloor y)); destruct (Z.leb_spec 0 (- (Zfloor y + 1))); try reflexivity; lia.
Qed.

Lemma ZnearestA_IZR n : ZnearestA (IZR n) = n.
Proof. apply Znearest_imp. rewrite Rminus_diag_eq by reflexivity. rewrite Rabs_R0. lra. Qed.

(* non-negative rationals q + r / d *)
Lemma ZnearestA_frac q r d :
  0 <= q -> 0 <= r < d ->
  ZnearestA (IZR q + IZR r / IZR d) = if d <=? 2 * r then q + 1 else q.
Proof.
  intros Hq Hr.
  assert (Hd : (0 < IZR d)%R) by (apply IZR_lt; lia).
  assert (Hfr : (0 <= IZR r / IZR d < 1)%R).
  { split.
    - apply Rmult_le_pos; [apply IZR_le; lia|apply Rlt_le, Rinv_0_lt_compat; exact Hd].
    - apply (Rmult_lt_reg_r (IZR d)); [exact Hd|]. unfold Rdiv. rewrite Rmult_assoc, Rinv_l, Rmult_1_r, Rmult_1_l by lra.
      apply IZR_lt. lia. }
  assert (H2 : forall c, (IZR r / IZR d - / 2 = c)%R -> (2 * IZR r - IZR d = 2 * IZR d * c)%R).
  { intros c <-. field. lra. }
  destruct (Z.leb_spec d (2 * r)) as [Hge|Hlt].
  - destruct (Z.eq_dec d (2 * r)) as [Heq|Hne].
    + (* tie *)
      assert (Hh : (IZR r / IZR d = / 2)%R).
      { rewrite Heq, mult_IZR. field. apply Rgt_not_eq. apply IZR_lt. lia. }
      rewrite Hh. unfold Znearest.
      assert (Hfl : Zfloor (IZR q + / 2) = q) by (apply Zfloor_imp; rewrite plus_IZR; lra).
      rewrite Hfl. replace (IZR q + / 2 - IZR q)%R with (/ 2)%R by ring.
      rewrite Rcompare_Eq by reflexivity.
      assert (Hc : (0 <=? q) = true) by (apply Z.leb_le; exact Hq). rewrite Hc.
      apply Zceil_imp. replace (q + 1 - 1) with q by ring. rewrite plus_IZR. lra.
    + apply Znearest_imp. rewrite plus_IZR.
      replace (IZR q + IZR r / IZR d - (IZR q + 1))%R with (- (1 - IZR r / IZR d))%R by ring.
      rewrite Rabs_Ropp, Rabs_pos_eq by lra.
      assert (Hs : (IZR d < 2 * IZR r)%R) by (rewrite <- mult_IZR; apply IZR_lt; lia).
      apply (Rmult_lt_reg_r (IZR d)); [exact Hd|].
      replace ((1 - IZR r / IZR d) * IZR d)%R with (IZR d - IZR r)%R by (field; lra). lra.
  - apply Znearest_imp.
    replace (IZR q + IZR r / IZR d - IZR q)%R with (IZR r / IZR d)%R by ring.
    rewrite Rabs_pos_eq by lra.
    assert (Hs : (2 * IZR r < IZR d)%R) by (rewrite <- mult_IZR; apply IZR_lt; lia).
    apply (Rmult_lt_reg_r (IZR d)); [exact Hd|].
    replace (IZR r / IZR d * IZR d)%R with (IZR r) by (field; lra). lra.
Qed.

Theorem round_away_spec_lemma (x : binary64) :
  fin64 x = true -> b64_round_away x = Some (ZnearestA (B2R64 x)).
Proof.
  destruct x as [s|s|s pl H|s m e H]; cbn [is_finite]; try discriminate; intros _.
  - cbn [b64_round_away B2R]. rewrite (ZnearestA_IZR 0). reflexivity.
  - cbn [b64_round_away B2R]. f_equal.
    assert (Hpos : ZnearestA (IZR (Z.pos m) * bpow radix2 e)
                   = if 0 <=? e then Z.pos m * 2 ^ e
                     else if 2 ^ (- e) <=? 2 * (Z.pos m mod 2 ^ (- e)) then Z.pos m / 2 ^ (- e) + 1 else Z.pos m / 2 ^ (- e)).
    { destruct (Z.leb_spec 0 e) as [He|He].
      - rewrite <- (IZR_Zpower radix2) by exact He. rewrite <- mult_IZR. apply ZnearestA_IZR.
      - set (d := 2 ^ (- e)). assert (Pd : 0 < d) by (apply Z.pow_pos_nonneg; lia).
        pose proof (Z.div_mod (Z.pos m) d ltac:(lia)) as Hdm.
        pose proof (Z.mod_pos_bound (Z.pos m) d Pd) as Hr.
        assert (Hq : 0 <= Z.pos m / d) by (apply Z.div_pos; lia).
        rewrite <- (ZnearestA_frac (Z.pos m / d) (Z.pos m mod d) d Hq Hr). f_equal.
        assert (Hbp : bpow radix2 e = (/ IZR d)%R).
        { replace e with (- (- e)) at 1 by ring. rewrite bpow_opp. f_equal. unfold d. rewrite <- (IZR_Zpower radix2) by lia. reflexivity. }
        rewrite Hbp. rewrite Hdm at 1. rewrite plus_IZR, mult_IZR. field. apply Rgt_not_eq. apply IZR_lt. exact Pd. }
    unfold F2R. cbn [Fnum Fexp]. destruct s; cbn [cond_Zopp].
    + rewrite opp_IZR, Ropp_mult_distr_l_reverse, ZnearestA_opp, Hpos. reflexivity.
    + rewrite Hpos. reflexivity.
Qed.

Lemma ZnearestA_half y : (Rabs (IZR (ZnearestA y) - y) <= / 2)%R.
Proof. rewrite Rabs_minus_sym. apply Znearest_half. Qed.

Lemma ZnearestA_monotone a b : (a <= b)%R -> ZnearestA a <= ZnearestA b.
Proof. intros H. apply Zrnd_le; [apply valid_rnd_N|exact H]. Qed.

(* ================================================================== error bookkeeping: E n x  <->  |x - 1| <= (1 + u)^n - 1 *)
Definition E (n : nat) (x : R) : Prop := (Rabs (x - 1) <= (1 + u53) ^ n - 1)%R.

Lemma u53_val : u53 = (/ 9007199254740992)%R.
Proof. unfold u53. change (bpow radix2 (-53)) with (/ IZR (Z.pow_pos radix2 53))%R. reflexivity. Qed.

Lemma u53_pos : (0 < u53)%R.
Proof. apply bpow_gt_0. Qed.

Lemma pow1u_ge1 n : (1 <= (1 + u53) ^ n)%R.
Proof. apply pow_R1_Rle. pose proof u53_pos. lra. Qed.

Lemma E_rnd e : (Rabs e <= u53)%R -> E 1 (1 + e).
Proof. intros H. unfold E. replace (1 + e - 1)%R with e by ring. simpl. lra. Qed.

Lemma E_one n : E n 1.
Proof. unfold E. rewrite Rminus_diag_eq, Rabs_R0 by reflexivity. pose proof (pow1u_ge1 n). lra. Qed.

Lemma E_mult m n a b : E m a -> E n b -> E (m + n) (a * b).
Proof.
  unfold E. intros Ha Hb. pose proof (prod_err a b _ _ Ha Hb) as H.
  rewrite pow_add. replace ((1 + u53) ^ m * (1 + u53) ^ n - 1)%R
    with ((1 + ((1 + u53) ^ m - 1)) * (1 + ((1 + u53) ^ n - 1)) - 1)%R by ring. exact H.
Qed.

Lemma E_le m n x : (m <= n)%nat -> E m x -> E n x.
Proof.
  unfold E. intros Hmn H. apply Rle_trans with (1 := H).
  apply Rplus_le_compat_r. apply Rle_pow; [pose proof u53_pos; lra|exact Hmn].
Qed.

Lemma E_inv e : (Rabs e <= u53)%R -> E 2 (/ (1 + e)).
Proof.
  intros H. unfold E. pose proof u53_pos as U. pose proof u53_bounds as (_ & U8).
  apply Rabs_le_inv in H.
  assert (Hp : (0 < 1 + e)%R) by lra.
  replace (/ (1 + e) - 1)%R with (- e * / (1 + e))%R by (field; lra).
  rewrite Rabs_mult, Rabs_Ropp, (Rabs_pos_eq (/ (1 + e))) by (apply Rlt_le, Rinv_0_lt_compat; exact Hp).
  assert (Hi : (/ (1 + e) <= / (1 - u53))%R) by (apply Rinv_le_contravar; lra).
  assert (Ha : (Rabs e <= u53)%R) by (apply Rabs_le; lra).
  apply Rle_trans with (u53 * / (1 - u53))%R.
  - apply Rmult_le_compat; [apply Rabs_pos|apply Rlt_le, Rinv_0_lt_compat; exact Hp|exact Ha|exact Hi].
  - simpl. apply (Rmult_le_reg_r (1 - u53)); [lra|].
    rewrite Rmult_assoc, Rinv_l by lra. nra.
Qed.

(* (1 + u)^n - 1 <= n u / (1 - n u) *)
Lemma gamma_bound n : (INR n * u53 < 1)%R -> ((1 + u53) ^ n - 1 <= INR n * u53 / (1 - INR n * u53))%R.
Proof.
  pose proof u53_pos as U.
  induction n as [|n IH]; intros Hn.
  - simpl. unfold Rdiv. rewrite !Rmult_0_l. lra.
  - rewrite S_INR in *.
    assert (Hn' : (INR n * u53 < 1)%R) by nra.
    specialize (IH Hn').
    assert (P1 : (0 < 1 - INR n * u53)%R) by lra.
    assert (P2 : (0 < 1 - (INR n + 1) * u53)%R) by lra.
    assert (H1 : ((1 + u53) ^ n <= / (1 - INR n * u53))%R).
    { replace (/ (1 - INR n * u53))%R with (1 + INR n * u53 / (1 - INR n * u53))%R by (field; lra). lra. }
    assert (H2 : ((1 + u53) * / (1 - INR n * u53) <= / (1 - (INR n + 1) * u53))%R).
    { replace ((1 + u53) * / (1 - INR n * u53))%R
        with ((1 + u53) * (1 - (INR n + 1) * u53) * / ((1 - INR n * u53) * (1 - (INR n + 1) * u53)))%R by (field; lra).
      replace (/ (1 - (INR n + 1) * u53))%R
        with ((1 - INR n * u53) * / ((1 - INR n * u53) * (1 - (INR n + 1) * u53)))%R by (field; lra).
      apply Rmult_le_compat_r.
      - apply Rlt_le, Rinv_0_lt_compat. apply Rmult_lt_0_compat; assumption.
      - pose proof (pos_INR n). nra. }
    simpl pow.
    replace ((INR n + 1) * u53 / (1 - (INR n + 1) * u53))%R with (/ (1 - (INR n + 1) * u53) - 1)%R by (field; lra).
    apply Rplus_le_compat_r. apply Rle_trans with (2 := H2).
    apply Rmult_le_compat_l; [lra|exact H1].
Qed.

Lemma E_scale n x k : E n x -> (Rabs (k * x - k) <= Rabs k * ((1 + u53) ^ n - 1))%R.
Proof.
  intros H. replace (k * x - k)%R with (k * (x - 1))%R by ring. rewrite Rabs_mult.
  apply Rmult_le_compat_l; [apply Rabs_pos|exact H].
Qed.

(* a small n: the accumulated factor stays within [1/2, 2] *)
Lemma E_half n x : (INR n * u53 <= / 4)%R -> E n x -> (/ 2 <= x <= 2)%R.
Proof.
  intros Hn H. unfold E in H. pose proof u53_pos as U.
  assert (Hl : (INR n * u53 < 1)%R) by lra.
  pose proof (gamma_bound n Hl) as G.
  assert (Hg : (INR n * u53 / (1 - INR n * u53) <= / 3)%R).
  { apply (Rmult_le_reg_r (1 - INR n * u53)); [lra|]. unfold Rdiv. rewrite Rmult_assoc, Rinv_l by lra. lra. }
  apply Rabs_le_inv in H. lra.
Qed.

(* ================================================================== IEEE operations *)
Lemma b64_plus_ok x y :
  fin64 x = true -> fin64 y = true -> (Rabs (B2R64 x + B2R64 y) <= bpow radix2 1023)%R ->
  fin64 (b64_plus mode_NE x y) = true /\ B2R64 (b64_plus mode_NE x y) = rnd64 (B2R64 x + B2R64 y).
Proof.
  intros Fx Fy Hb. unfold b64_plus.
  pose proof (Bplus_correct 53 1024 eq_refl eq_refl binop_nan_pl64 mode_NE x y Fx Fy) as H.
  rewrite fexp64_eq in H. change (round_mode mode_NE) with ZnearestE in H.
  rewrite Rlt_bool_true in H by (apply no_overflow; exact Hb).
  destruct H as (H1 & H2 & _). split; assumption.
Qed.

Lemma b64_minus_ok x y :
  fin64 x = true -> fin64 y = true -> (Rabs (B2R64 x - B2R64 y) <= bpow radix2 1023)%R ->
  fin64 (b64_minus mode_NE x y) = true /\ B2R64 (b64_minus mode_NE x y) = rnd64 (B2R64 x - B2R64 y).
Proof.
  intros Fx Fy Hb. unfold b64_minus.
  pose proof (Bminus_correct 53 1024 eq_refl eq_refl binop_nan_pl64 mode_NE x y Fx Fy) as H.
  rewrite fexp64_eq in H. change (round_mode mode_NE) with ZnearestE in H.
  rewrite Rlt_bool_true in H by (apply no_overflow; exact Hb).
  destruct H as (H1 & H2 & _). split; assumption.
Qed.

Lemma fin_abs_lt (x : binary64) : fin64 x = true -> (Rabs (B2R64 x) < bpow radix2 1024)%R.
Proof. intros _. apply abs_B2R_lt_emax. Qed.

(* `0.0 + x` is x *)
Lemma zero_plus_ok x :
  fin64 x = true -> fin64 (b64_plus mode_NE b64_zero x) = true /\ B2R64 (b64_plus mode_NE b64_zero x) = B2R64 x.
Proof.
  intros Fx. unfold b64_plus.
  pose proof (Bplus_correct 53 1024 eq_refl eq_refl binop_nan_pl64 mode_NE b64_zero x eq_refl Fx) as H.
  rewrite fexp64_eq in H. change (round_mode mode_NE) with ZnearestE in H.
  change (B2R 53 1024 b64_zero) with 0%R in H. rewrite Rplus_0_l in H.
  rewrite (rnd64_id _ (fmt64_B2R x)) in H.
  rewrite Rlt_bool_true in H by (apply fin_abs_lt; exact Fx).
  destruct H as (H1 & H2 & _). split; assumption.
Qed.

Lemma wrap_int32_id z : - 2 ^ 31 <= z < 2 ^ 31 -> wrap_int32 z = z.
Proof.
  intros H. unfold wrap_int32. change (2 ^ 31) with 2147483648 in H.
  rewrite Z.mod_small by lia. lia.
Qed.

Lemma llround_val p z :
  fin64 p = true -> ZnearestA (B2R64 p) = z -> - 2 ^ 63 <= z < 2 ^ 63 -> llround_i64 p = Some z.
Proof.
  intros Fp Hz Hr. unfold llround_i64. rewrite (round_away_spec_lemma p Fp), Hz.
  unfold in_int64. destruct (Z.leb_spec (- 2 ^ 63) z); destruct (Z.ltb_spec z (2 ^ 63)); try lia. reflexivity.
Qed.

Lemma lround_val p z :
  fin64 p = true -> ZnearestA (B2R64 p) = z -> - 2 ^ 63 <= z < 2 ^ 63 -> lround_i32 p = Some (wrap_int32 z).
Proof. intros Fp Hz Hr. unfold lround_i32. rewrite (llround_val p z Fp Hz Hr). reflexivity. Qed.

(* ================================================================== the core of every "load, then save" step
   xd = k F a (a loaded value: the integer k times the factor F, relative error a), s = t / F (the scaling computed from
   what the loaded library reports): the product rounds to k as long as |k| ((1+u)^(n+m+1) - 1) < 1/2. *)
Lemma mult_back (xd s : binary64) (k : Z) (F a t : R) (n m : nat) :
  fin64 xd = true -> fin64 s = true -> F <> 0%R ->
  B2R64 xd = (IZR k * F * a)%R -> B2R64 s = (/ F * t)%R ->
  E n a -> E m t -> (INR (n + m + 1) * u53 <= / 4)%R ->
  Z.abs k <= 2 ^ 62 ->
  (Rabs (IZR k) * ((1 + u53) ^ (n + m + 1) - 1) < / 2)%R ->
  fin64 (b64_mult mode_NE xd s) = true /\ ZnearestA (B2R64 (b64_mult mode_NE xd s)) = k.
Proof.
  intros Fx Fs HF Hx Hs Ea Et Hn Hk Hb.
  assert (Hprod : (B2R64 xd * B2R64 s = IZR k * (a * t))%R) by (rewrite Hx, Hs; field; exact HF).
  pose proof (E_mult n m a t Ea Et) as Eat.
  assert (Hn' : (INR (n + m) * u53 <= / 4)%R).
  { apply Rle_trans with (2 := Hn). apply Rmult_le_compat_r; [apply Rlt_le, u53_pos|]. apply le_INR. lia. }
  pose proof (E_half _ _ Hn' Eat) as (Hlo & Hhi).
  destruct (Z.eq_dec k 0) as [->|Hk0].
  - destruct (b64_mult_ok xd s Fx Fs) as (Fp & Rp & _).
    { rewrite Hprod, Rmult_0_l, Rabs_R0. apply bpow_ge_0. }
    split; [exact Fp|]. rewrite Rp, Hprod, Rmult_0_l, round_0 by apply valid_rnd_N. apply (ZnearestA_IZR 0).
  - assert (Hk1 : (1 <= Rabs (IZR k))%R) by (rewrite <- abs_IZR; apply IZR_le; lia).
    assert (Hk62 : (Rabs (IZR k) <= bpow radix2 62)%R).
    { rewrite <- abs_IZR. rewrite <- (IZR_Zpower radix2) by lia. apply IZR_le. exact Hk. }
    assert (Ip : inb (-1) 63 (B2R64 xd * B2R64 s)).
    { rewrite Hprod. unfold inb. rewrite Rabs_mult, (Rabs_pos_eq (a * t)) by lra.
      change (bpow radix2 (-1)) with (/ 2)%R. change (bpow radix2 63) with (bpow radix2 (62 + 1)). rewrite bpow_plus.
      change (bpow radix2 1) with 2%R. split; nra. }
    destruct (b64_mult_step xd s (-1) 63 Fx Fs ltac:(lia) ltac:(lia) ltac:(lia) Ip) as (Fp & _ & _ & _ & e & He & Rp).
    split; [exact Fp|]. apply Znearest_imp.
    rewrite Rp, Hprod.
    pose proof (E_mult _ 1 _ _ Eat (E_rnd e He)) as Ef.
    replace (IZR k * (a * t) * (1 + e))%R with (IZR k * (a * t * (1 + e)))%R by ring.
    apply Rle_lt_trans with (2 := Hb). apply E_scale. exact Ef.
Qed.

Lemma small_k_bound (k : Z) (K : R) (n : nat) :
  (Rabs (IZR k) <= K)%R -> (INR n * u53 < 1)%R ->
  (K * (INR n * u53 / (1 - INR n * u53)) < / 2)%R ->
  (Rabs (IZR k) * ((1 + u53) ^ n - 1) < / 2)%R.
Proof.
  intros Hk Hn Hb. apply Rle_lt_trans with (2 := Hb).
  pose proof (gamma_bound n Hn) as G. pose proof (pow1u_ge1 n) as P.
  apply Rmult_le_compat; [apply Rabs_pos|lra|exact Hk|exact G].
Qed.

Lemma abs_int32_le k : - 2 ^ 31 <= k <= 2 ^ 31 -> (Rabs (IZR k) <= 2147483648)%R.
Proof. intros H. rewrite <- abs_IZR. apply IZR_le. change (2 ^ 31) with 2147483648 in H. lia. Qed.

(* ================================================================== 4. GDSII: load, then save *)
(* what a native load keeps of a UNITS record with two positive reals *)
Lemma gds_native_state r0 r1 :
  (r0 < 2 ^ 64)%N -> (r1 < 2 ^ 64)%N -> gds_positive r0 -> gds_positive r1 ->
  let st := read_gds_units b64_zero b64_zero r0 r1 in
  let DU := B2R64 (gds_real_to_b64 r0) in
  us_factor st = gds_real_to_b64 r0 /\ us_precision st = gds_real_to_b64 r1
  /\ us_unit st = b64_div mode_NE (gds_real_to_b64 r1) (gds_real_to_b64 r0)
  /\ us_tolerance st = b64_div mode_NE (us_precision st) (us_unit st)
  /\ fin64 (us_factor st) = true /\ sign64 (us_factor st) = false
  /\ (bpow radix2 (-312) <= DU <= bpow radix2 252)%R
  /\ fin64 (gds_scaling_of st) = true
  /\ exists t, E 2 t /\ B2R64 (gds_scaling_of st) = (/ DU * t)%R.
Proof.
  intros H0 H1 P0 P1.
  pose proof (gds_real_to_b64_positive r0 H0) as A0. pose proof (gds_real_to_b64_positive r1 H1) as A1.
  unfold gds_positive in P0, P1.
  destruct (gds_decode_dy r0) as ((n0 & M0) & k0). destruct (gds_decode_dy r1) as ((n1 & M1) & k1).
  destruct P0 as (N0 & Z0). destruct P1 as (N1 & Z1).
  destruct (A0 N0 Z0) as (F0 & S0 & B0). destruct (A1 N1 Z1) as (F1 & S1 & B1).
  unfold read_gds_units. change (b64_gt0 b64_zero) with false. change (b64_le0 b64_zero) with true. cbv zeta.
  unfold gds_scaling_of, gw_scaling. cbn [us_factor us_unit us_precision us_tolerance].
  set (du := gds_real_to_b64 r0) in *. set (dm := gds_real_to_b64 r1) in *.
  set (DU := B2R64 du) in *. set (DM := B2R64 dm) in *.
  pose proof (bpow_gt_0 radix2 (-312)) as P312.
  assert (Idu : inb (-312) 252 DU) by (apply inb_pos; exact B0).
  assert (Idm : inb (-312) 252 DM) by (apply inb_pos; exact B1).
  assert (Ndu : DU <> 0%R) by lra. assert (Ndm : DM <> 0%R) by lra.
  destruct (b64_div_step dm du (-564) 564 F1 F0 Ndu ltac:(lia) ltac:(lia) ltac:(lia)) as (Fn & Sn & In & _ & e1 & E1 & Rn).
  { apply (inb_div (-312) 252 (-312) 252); assumption. }
  fold DM DU in Rn, In. set (un := b64_div mode_NE dm du) in *.
  destruct (b64_div_step un dm (-816) 876 Fn F1 Ndm ltac:(lia) ltac:(lia) ltac:(lia)) as (Fs & _ & _ & _ & e2 & E2 & Rs).
  { apply (inb_div (-564) 564 (-312) 252); assumption. }
  fold DM in Rs.
  repeat split; try reflexivity; try assumption; try apply B0.
  exists ((1 + e1) * (1 + e2))%R. split.
  - apply (E_mult 1 1); apply E_rnd; assumption.
  - rewrite Rs, Rn. field. split; assumption.
Qed.

Lemma four_u_quarter : (INR (1 + 2 + 1) * u53 <= / 4)%R.
Proof. simpl INR. rewrite u53_val. lra. Qed.

Lemma int32_gamma4 k : - 2 ^ 31 <= k <= 2 ^ 31 -> (Rabs (IZR k) * ((1 + u53) ^ (1 + 2 + 1) - 1) < / 2)%R.
Proof.
  intros Hk. apply (small_k_bound k 2147483648 (1 + 2 + 1)); [apply abs_int32_le; exact Hk| |]; simpl INR; rewrite u53_val; lra.
Qed.

(* the loaded coordinate as k F a *)
Lemma gds_coord_E f k :
  fin64 f = true -> (bpow radix2 (-312) <= B2R64 f <= bpow radix2 252)%R -> - 2 ^ 31 <= k <= 2 ^ 31 ->
  fin64 (gds_coord f k) = true /\ exists a, E 1 a /\ B2R64 (gds_coord f k) = (IZR k * B2R64 f * a)%R.
Proof.
  intros Ff Bf Hk. pose proof (bpow_gt_0 radix2 (-312)) as P312.
  assert (Habs : (Rabs (B2R64 f) <= bpow radix2 992)%R).
  { rewrite Rabs_pos_eq by lra. apply Rle_trans with (1 := proj2 Bf). apply bpow_le. lia. }
  destruct (gds_coord_value f k Ff Habs Hk) as (Fc & Rc & _). split; [exact Fc|].
  destruct (Z.eq_dec k 0) as [->|Hk0].
  - exists 1%R. split; [apply E_one|]. rewrite Rc, Rmult_0_r, round_0 by apply valid_rnd_N. ring.
  - assert (If : inb (-312) 252 (B2R64 f)) by (apply inb_pos; exact Bf).
    pose proof (inb_mult _ _ _ _ _ _ If (inb_int k Hk0 Hk)) as Ip.
    destruct (rnd64_step (-312) 283 _ ltac:(lia) ltac:(lia) Ip) as (_ & e & He & Hr).
    exists (1 + e)%R. split; [apply E_rnd; exact He|]. rewrite Rc, Hr. ring.
Qed.

Theorem gds_load_save_stable_lemma r0 r1 k :
  (r0 < 2 ^ 64)%N -> (r1 < 2 ^ 64)%N -> gds_positive r0 -> gds_positive r1 ->
  - 2 ^ 31 <= k < 2 ^ 31 ->
  let st := read_gds_units b64_zero b64_zero r0 r1 in
  gds_cycle_coord st k = Some k /\ gds_cycle_ext st k = Some k.
Proof.
  intros H0 H1 P0 P1 Hk st.
  destruct (gds_native_state r0 r1 H0 H1 P0 P1) as (Ef & _ & _ & _ & Ff & _ & Bf & Fs & t & Et & Rs).
  fold st in Ef, Ff, Fs, Rs. cbv zeta in Bf, Rs. rewrite <- Ef in Bf, Rs.
  destruct (gds_coord_E (us_factor st) k Ff Bf ltac:(lia)) as (Fc & a & Ea & Rc).
  pose proof (bpow_gt_0 radix2 (-312)) as P312.
  assert (NF : B2R64 (us_factor st) <> 0%R) by lra.
  assert (Hk62 : Z.abs k <= 2 ^ 62) by (change (2 ^ 31) with 2147483648 in Hk; change (2 ^ 62) with 4611686018427387904; lia).
  assert (Hr63 : - 2 ^ 63 <= k < 2 ^ 63) by (change (2 ^ 31) with 2147483648 in Hk; change (2 ^ 63) with 9223372036854775808; lia).
  split.
  - unfold gds_cycle_coord, gw_coord.
    destruct (zero_plus_ok _ Fc) as (Fz & Rz).
    destruct (mult_back _ (gds_scaling_of st) k _ a t 1 2 Fz Fs NF (eq_trans Rz Rc) Rs Ea Et four_u_quarter Hk62 (int32_gamma4 k ltac:(lia)))
      as (Fp & Hn).
    rewrite (lround_val _ k Fp Hn Hr63), wrap_int32_id by exact Hk. reflexivity.
  - unfold gds_cycle_ext, gw_ext.
    destruct (mult_back _ (gds_scaling_of st) k _ a t 1 2 Fc Fs NF Rc Rs Ea Et four_u_quarter Hk62 (int32_gamma4 k ltac:(lia)))
      as (Fp & Hn).
    rewrite (lround_val _ k Fp Hn Hr63), wrap_int32_id by exact Hk. reflexivity.
Qed.

(* halving a double that is zero or at least 2^-1000 is exact *)
Lemma b64_half_exact (c : binary64) :
  fin64 c = true -> (B2R64 c = 0%R \/ (bpow radix2 (-1000) <= Rabs (B2R64 c))%R) ->
  fin64 (b64_div mode_NE c b64_two) = true /\ B2R64 (b64_div mode_NE c b64_two) = (B2R64 c * / 2)%R.
Proof.
  intros Fc Hc. destruct b64_two_correct as (F2 & R2 & _).
  assert (Hfmt : fmt64 (B2R64 c * bpow radix2 (-1))).
  { apply fmt64_mult_bpow; [apply fmt64_B2R|]. destruct Hc as [Hz|Hb]; [left; exact Hz|right].
    rewrite Rabs_mult, (Rabs_pos_eq (bpow radix2 (-1))) by apply bpow_ge_0.
    apply Rle_trans with (bpow radix2 (-1000) * bpow radix2 (-1))%R.
    - rewrite <- bpow_plus. apply bpow_le. lia.
    - apply Rmult_le_compat_r; [apply bpow_ge_0|exact Hb]. }
  destruct (b64_div_ok c b64_two Fc F2) as (Fh & Rh & _).
  - rewrite R2. lra.
  - rewrite R2. unfold Rdiv. rewrite Rabs_mult, (Rabs_pos_eq (/ 2)) by lra.
    pose proof (fin_abs_lt c Fc) as Hl. change (bpow radix2 1024) with (bpow radix2 (1023 + 1)) in Hl.
    rewrite bpow_plus in Hl. change (bpow radix2 1) with 2%R in Hl. lra.
  - split; [exact Fh|]. rewrite Rh, R2. unfold Rdiv. change (/ 2)%R with (bpow radix2 (-1)). apply rnd64_id. exact Hfmt.
Qed.

Lemma b64_double_exact (h : binary64) :
  fin64 h = true -> (Rabs (B2R64 h) <= bpow radix2 1000)%R ->
  (B2R64 h = 0%R \/ (bpow radix2 (-1001) <= Rabs (B2R64 h))%R) ->
  fin64 (b64_mult mode_NE b64_two h) = true /\ B2R64 (b64_mult mode_NE b64_two h) = (2 * B2R64 h)%R.
Proof.
  intros Fh Hb Hlo. destruct b64_two_correct as (F2 & R2 & _).
  destruct (b64_mult_ok b64_two h F2 Fh) as (Fp & Rp & _).
  - rewrite R2, Rabs_mult, (Rabs_pos_eq 2) by lra.
    apply Rle_trans with (bpow radix2 1 * bpow radix2 1000)%R.
    + change (bpow radix2 1) with 2%R. lra.
    + rewrite <- bpow_plus. apply bpow_le. lia.
  - split; [exact Fp|]. rewrite Rp, R2. apply rnd64_id. rewrite Rmult_comm. change 2%R with (bpow radix2 1).
    apply fmt64_mult_bpow; [apply fmt64_B2R|]. destruct Hlo as [Hz|Hl]; [left; exact Hz|right].
    rewrite Rabs_mult, (Rabs_pos_eq (bpow radix2 1)) by apply bpow_ge_0.
    apply Rle_trans with (bpow radix2 (-1001) * bpow radix2 1)%R.
    + rewrite <- bpow_plus. apply bpow_le. lia.
    + apply Rmult_le_compat_r; [apply bpow_ge_0|exact Hl].
Qed.

(* WIDTH: loaded as half_width = (factor * |w|) / 2, saved as lround(2 * half_width * scaling) with the sign convention *)
Theorem gds_width_stable_lemma r0 r1 w :
  (r0 < 2 ^ 64)%N -> (r1 < 2 ^ 64)%N -> gds_positive r0 -> gds_positive r1 ->
  - 2 ^ 31 < w < 2 ^ 31 ->
  gds_cycle_width (read_gds_units b64_zero b64_zero r0 r1) w = Some w.
Proof.
  intros H0 H1 P0 P1 Hw. set (st := read_gds_units b64_zero b64_zero r0 r1).
  destruct (gds_native_state r0 r1 H0 H1 P0 P1) as (Ef & _ & _ & _ & Ff & _ & Bf & Fs & t & Et & Rs).
  fold st in Ef, Ff, Fs, Rs. cbv zeta in Bf, Rs. rewrite <- Ef in Bf, Rs.
  pose proof (bpow_gt_0 radix2 (-312)) as P312.
  assert (NF : B2R64 (us_factor st) <> 0%R) by lra.
  set (a := Z.abs w).
  assert (Ha : 0 <= a < 2 ^ 31) by (unfold a; lia).
  assert (Hgw : gds_width (us_factor st) w = gds_coord (us_factor st) a).
  { unfold gds_width. destruct (Z.ltb_spec w 0) as [Hn|Hp].
    - rewrite wrap_int32_id by lia. f_equal. unfold a. lia.
    - f_equal. unfold a. lia. }
  destruct (gds_coord_E (us_factor st) a Ff Bf ltac:(lia)) as (Fc & e & Ee & Rc).
  set (c := gds_coord (us_factor st) a) in *.
  pose proof (E_half 1 e ltac:(simpl INR; rewrite u53_val; lra) Ee) as (El & Eh).
  assert (Ia : (Rabs (IZR a) <= bpow radix2 31)%R).
  { rewrite <- abs_IZR, <- (IZR_Zpower radix2) by lia. apply IZR_le. change (Zpower radix2 31) with (2 ^ 31). lia. }
  assert (Hcabs : Rabs (B2R64 c) = (Rabs (IZR a) * B2R64 (us_factor st) * e)%R).
  { rewrite Rc, !Rabs_mult, (Rabs_pos_eq (B2R64 (us_factor st))), (Rabs_pos_eq e) by lra. reflexivity. }
  assert (Hc : B2R64 c = 0%R \/ (bpow radix2 (-1000) <= Rabs (B2R64 c))%R).
  { destruct (Z.eq_dec a 0) as [Ha0|Ha0]; [left; rewrite Rc, Ha0; ring|right].
    assert (A1 : (1 <= Rabs (IZR a))%R) by (rewrite <- abs_IZR; apply IZR_le; lia).
    rewrite Hcabs. apply Rle_trans with (bpow radix2 (-312) * / 2)%R.
    - change (/ 2)%R with (bpow radix2 (-1)). rewrite <- bpow_plus. apply bpow_le. lia.
    - assert (Q : (bpow radix2 (-312) <= Rabs (IZR a) * B2R64 (us_factor st))%R) by nra. nra. }
  destruct (b64_half_exact c Fc Hc) as (Fh & Rh).
  assert (Hcle : (Rabs (B2R64 c) <= bpow radix2 1000)%R).
  { rewrite Hcabs. apply Rle_trans with (bpow radix2 31 * bpow radix2 252 * 2)%R.
    - apply Rmult_le_compat; try lra.
      + apply Rmult_le_pos; [apply Rabs_pos|lra].
      + apply Rmult_le_compat; try lra. apply Rabs_pos.
    - change 2%R with (bpow radix2 1). rewrite <- !bpow_plus. apply bpow_le. lia. }
  destruct (b64_double_exact _ Fh) as (Fd & Rd).
  { rewrite Rh, Rabs_mult, (Rabs_pos_eq (/ 2)) by lra. pose proof (Rabs_pos (B2R64 c)). lra. }
  { rewrite Rh. destruct Hc as [Hz|Hl]; [left; rewrite Hz; ring|right].
    rewrite Rabs_mult, (Rabs_pos_eq (/ 2)) by lra. change (/ 2)%R with (bpow radix2 (-1)).
    apply Rle_trans with (bpow radix2 (-1000) * bpow radix2 (-1))%R.
    - rewrite <- bpow_plus. apply bpow_le. lia.
    - apply Rmult_le_compat_r; [apply bpow_ge_0|exact Hl]. }
  assert (Rd' : B2R64 (b64_mult mode_NE b64_two (b64_div mode_NE c b64_two)) = (IZR a * B2R64 (us_factor st) * e)%R).
  { rewrite Rd, Rh, Rc. field. }
  assert (Hk62 : Z.abs a <= 2 ^ 62) by (change (2 ^ 31) with 2147483648 in Ha; change (2 ^ 62) with 4611686018427387904; lia).
  assert (Hr63 : - 2 ^ 63 <= a < 2 ^ 63) by (change (2 ^ 31) with 2147483648 in Ha; change (2 ^ 63) with 9223372036854775808; lia).
  destruct (mult_back _ (gds_scaling_of st) a _ e t 1 2 Fd Fs NF Rd' Rs Ee Et four_u_quarter Hk62 (int32_gamma4 a ltac:(lia)))
    as (Fp & Hn).
  unfold gds_cycle_width, gw_width, gds_half_width. rewrite Hgw. fold c.
  rewrite (lround_val _ a Fp Hn Hr63), wrap_int32_id by lia.
  f_equal. destruct (Z.ltb_spec w 0) as [Hn0|Hp0]; cbn [negb].
  - rewrite wrap_int32_id by lia. unfold a. lia.
  - unfold a. lia.
Qed.

(* ================================================================== 2. saving IS rounding to the grid, up to two roundings *)
Definition g2 : R := (2 * u53 + u53 * u53)%R.

Lemma g2_pow : ((1 + u53) ^ 2 - 1 = g2)%R.
Proof. unfold g2. simpl. ring. Qed.

(* the product x * (unit / precision) as the C++ computes it: X (1 + e1) (1 + e2) *)
Lemma scaled_value U P x :
  fin64 U = true -> fin64 P = true -> fin64 x = true ->
  (bpow radix2 (-200) <= B2R64 U <= bpow radix2 200)%R ->
  (bpow radix2 (-200) <= B2R64 P <= bpow radix2 200)%R ->
  (B2R64 x = 0%R \/ (bpow radix2 (-500) <= Rabs (B2R64 x) <= bpow radix2 500)%R) ->
  let s := gw_scaling U P in
  fin64 s = true /\ (0 < B2R64 s)%R /\ B2R64 s = rnd64 (B2R64 U / B2R64 P)
  /\ fin64 (b64_mult mode_NE x s) = true
  /\ B2R64 (b64_mult mode_NE x s) = rnd64 (B2R64 x * B2R64 s)
  /\ exists w, E 2 w /\ B2R64 (b64_mult mode_NE x s) = (B2R64 x * (B2R64 U / B2R64 P) * w)%R.
Proof.
  intros FU FP Fx BU BP Bx s.
  pose proof (bpow_gt_0 radix2 (-200)) as P200.
  assert (IU : inb (-200) 200 (B2R64 U)) by (apply inb_pos; exact BU).
  assert (IP : inb (-200) 200 (B2R64 P)) by (apply inb_pos; exact BP).
  assert (NP : B2R64 P <> 0%R) by lra.
  destruct (b64_div_step U P (-400) 400 FU FP NP ltac:(lia) ltac:(lia) ltac:(lia)) as (Fs & _ & Is & Rs0 & e1 & E1 & Rs).
  { apply (inb_div (-200) 200 (-200) 200); assumption. }
  fold (gw_scaling U P) in Fs, Is, Rs0, Rs. fold s in Fs, Is, Rs0, Rs.
  assert (Hq : (0 < B2R64 U / B2R64 P)%R) by (apply Rdiv_lt_0_compat; lra).
  assert (Hspos : (0 < B2R64 s)%R).
  { rewrite Rs. apply Rabs_le_inv in E1. pose proof u53_bounds. apply Rmult_lt_0_compat; lra. }
  split; [exact Fs|]. split; [exact Hspos|]. split; [exact Rs0|].
  destruct Bx as [Hz|Bx].
  - destruct (b64_mult_ok x s Fx Fs) as (Fp & Rp & _).
    { rewrite Hz, Rmult_0_l, Rabs_R0. apply bpow_ge_0. }
    split; [exact Fp|]. split; [exact Rp|]. exists 1%R. split; [apply E_one|].
    rewrite Rp, Hz, !Rmult_0_l. apply round_0. apply valid_rnd_N.
  - assert (Ix : inb (-500) 500 (B2R64 x)) by exact Bx.
    pose proof (inb_mult _ _ _ _ _ _ Ix Is) as Ip.
    destruct (b64_mult_step x s (-500 + -400) (500 + 400) Fx Fs ltac:(lia) ltac:(lia) ltac:(lia) Ip) as (Fp & _ & _ & Rp0 & e2 & E2 & Rp).
    split; [exact Fp|]. split; [exact Rp0|]. exists ((1 + e1) * (1 + e2))%R. split.
    + apply (E_mult 1 1); apply E_rnd; assumption.
    + rewrite Rp, Rs. ring.
Qed.

Lemma nearest_of_scaled (X w : R) :
  E 2 w -> (Rabs (IZR (ZnearestA (X * w)) - X) <= / 2 + Rabs X * g2)%R.
Proof.
  intros Ew. pose proof (ZnearestA_half (X * w)) as H1.
  pose proof (E_scale 2 w X Ew) as H2. rewrite g2_pow in H2.
  replace (IZR (ZnearestA (X * w)) - X)%R with ((IZR (ZnearestA (X * w)) - X * w) + (X * w - X))%R by ring.
  apply Rle_trans with (1 := Rabs_triang _ _). lra.
Qed.

(* GDSII: (int32_t)lround((0 + x) * scaling) *)
Theorem save_is_grid_rounding_gds_lemma U P x :
  fin64 U = true -> fin64 P = true -> fin64 x = true ->
  (bpow radix2 (-200) <= B2R64 U <= bpow radix2 200)%R ->
  (bpow radix2 (-200) <= B2R64 P <= bpow radix2 200)%R ->
  (B2R64 x = 0%R \/ (bpow radix2 (-500) <= Rabs (B2R64 x) <= bpow radix2 500)%R) ->
  let X := (B2R64 x * (B2R64 U / B2R64 P))%R in
  (Rabs X <= 2147483647)%R ->
  exists k, gw_coord (gw_scaling U P) b64_zero x = Some k
            /\ - 2 ^ 31 < k < 2 ^ 31
            /\ (Rabs (IZR k - X) <= / 2 + Rabs X * g2)%R.
Proof.
  intros FU FP Fx BU BP Bx X HX.
  destruct (zero_plus_ok x Fx) as (Fz & Rz).
  assert (Bz : B2R64 (b64_plus mode_NE b64_zero x) = 0%R \/ (bpow radix2 (-500) <= Rabs (B2R64 (b64_plus mode_NE b64_zero x)) <= bpow radix2 500)%R)
    by (rewrite Rz; exact Bx).
  destruct (scaled_value U P _ FU FP Fz BU BP Bz) as (_ & _ & _ & Fp & _ & w & Ew & Rp).
  rewrite Rz in Rp. fold X in Rp.
  set (p := b64_mult mode_NE (b64_plus mode_NE b64_zero x) (gw_scaling U P)) in *.
  set (k := ZnearestA (B2R64 p)).
  pose proof (nearest_of_scaled X w Ew) as Hb. rewrite <- Rp in Hb. fold k in Hb.
  assert (Hg : (g2 <= / 1000000000000)%R) by (unfold g2; rewrite u53_val; lra).
  assert (Hk : (Rabs (IZR k) < 2147483648)%R).
  { pose proof (Rabs_pos X). assert (Q : (Rabs X * g2 <= 2147483647 * / 1000000000000)%R) by (apply Rmult_le_compat; try lra; unfold g2; pose proof u53_pos; nra).
    replace (IZR k) with ((IZR k - X) + X)%R by ring. apply Rle_lt_trans with (1 := Rabs_triang _ _). lra. }
  apply Rabs_lt_inv in Hk.
  assert (Hk' : - 2 ^ 31 < k < 2 ^ 31).
  { change (2 ^ 31) with 2147483648. split; apply lt_IZR; [rewrite opp_IZR|]; lra. }
  exists k. split; [|split; [exact Hk'|exact Hb]].
  unfold gw_coord. fold p. rewrite (lround_val p k Fp eq_refl), wrap_int32_id; [reflexivity|lia|].
  change (2 ^ 31) with 2147483648 in Hk'. change (2 ^ 63) with 9223372036854775808. lia.
Qed.

(* OASIS: (int64_t)llround(x * scaling) *)
Theorem save_is_grid_rounding_oas_lemma U P x :
  fin64 U = true -> fin64 P = true -> fin64 x = true ->
  (bpow radix2 (-200) <= B2R64 U <= bpow radix2 200)%R ->
  (bpow radix2 (-200) <= B2R64 P <= bpow radix2 200)%R ->
  (B2R64 x = 0%R \/ (bpow radix2 (-500) <= Rabs (B2R64 x) <= bpow radix2 500)%R) ->
  let X := (B2R64 x * (B2R64 U / B2R64 P))%R in
  (Rabs X <= 4611686018427387904)%R ->
  exists k, ow_coord (gw_scaling U P) x = Some k /\ (Rabs (IZR k - X) <= / 2 + Rabs X * g2)%R.
Proof.
  intros FU FP Fx BU BP Bx X HX.
  destruct (scaled_value U P x FU FP Fx BU BP Bx) as (_ & _ & _ & Fp & _ & w & Ew & Rp). fold X in Rp.
  set (p := b64_mult mode_NE x (gw_scaling U P)) in *.
  set (k := ZnearestA (B2R64 p)).
  pose proof (nearest_of_scaled X w Ew) as Hb. rewrite <- Rp in Hb. fold k in Hb.
  assert (Hg : (g2 <= / 1000000000000)%R) by (unfold g2; rewrite u53_val; lra).
  assert (Hk : (Rabs (IZR k) < 9223372036854775808)%R).
  { pose proof (Rabs_pos X). assert (Q : (Rabs X * g2 <= 4611686018427387904 * / 1000000000000)%R) by (apply Rmult_le_compat; try lra; unfold g2; pose proof u53_pos; nra).
    replace (IZR k) with ((IZR k - X) + X)%R by ring. apply Rle_lt_trans with (1 := Rabs_triang _ _). lra. }
  apply Rabs_lt_inv in Hk.
  exists k. split; [|exact Hb].
  unfold ow_coord. fold p. apply llround_val; [exact Fp|reflexivity|].
  change (2 ^ 63) with 9223372036854775808. split; [apply le_IZR|apply lt_IZR]; [rewrite opp_IZR|]; lra.
Qed.

(* exact when unit / precision is a power of two: the written integer IS the half-away rounding of x * unit / precision *)
Theorem save_exact_pow2_lemma U P x a :
  fin64 U = true -> fin64 P = true -> fin64 x = true ->
  (bpow radix2 (-200) <= B2R64 U <= bpow radix2 200)%R ->
  (bpow radix2 (-200) <= B2R64 P <= bpow radix2 200)%R ->
  (B2R64 x = 0%R \/ (bpow radix2 (-500) <= Rabs (B2R64 x) <= bpow radix2 500)%R) ->
  (B2R64 U / B2R64 P = bpow radix2 a)%R ->
  let X := (B2R64 x * (B2R64 U / B2R64 P))%R in
  b64_round_away (b64_mult mode_NE x (gw_scaling U P)) = Some (ZnearestA X)
  /\ b64_round_away (b64_mult mode_NE (b64_plus mode_NE b64_zero x) (gw_scaling U P)) = Some (ZnearestA X).
Proof.
  intros FU FP Fx BU BP Bx Ha X.
  assert (Hal : -400 <= a <= 400).
  { pose proof (bpow_gt_0 radix2 (-200)) as P200.
    assert (IU : inb (-200) 200 (B2R64 U)) by (apply inb_pos; exact BU).
    assert (IP : inb (-200) 200 (B2R64 P)) by (apply inb_pos; exact BP).
    pose proof (inb_div _ _ _ _ _ _ IU IP) as (L & R). rewrite Ha, Rabs_pos_eq in L, R by apply bpow_ge_0.
    split; apply (le_bpow radix2); assumption. }
  assert (core : forall y, fin64 y = true -> B2R64 y = B2R64 x ->
            b64_round_away (b64_mult mode_NE y (gw_scaling U P)) = Some (ZnearestA X)).
  { intros y Fy Ry.
    assert (By : B2R64 y = 0%R \/ (bpow radix2 (-500) <= Rabs (B2R64 y) <= bpow radix2 500)%R) by (rewrite Ry; exact Bx).
    destruct (scaled_value U P y FU FP Fy BU BP By) as (_ & _ & Rs & Fp & Rp & _).
    rewrite (round_away_spec_lemma _ Fp). f_equal. f_equal.
    rewrite Rp, Rs, Ha, (rnd64_id _ (fmt64_bpow a ltac:(lia))). unfold X. rewrite Ha, Ry.
    apply rnd64_id. apply fmt64_mult_bpow; [apply fmt64_B2R|].
    destruct Bx as [Hz|Bx']; [left; exact Hz|right].
    rewrite Rabs_mult, (Rabs_pos_eq (bpow radix2 a)) by apply bpow_ge_0.
    apply Rle_trans with (bpow radix2 (-500) * bpow radix2 a)%R.
    - rewrite <- bpow_plus. apply bpow_le. lia.
    - apply Rmult_le_compat_r; [apply bpow_ge_0|apply Bx']. }
  split; [apply core; [exact Fx|reflexivity]|].
  destruct (zero_plus_ok x Fx) as (Fz & Rz). apply core; assumption.
Qed.

(* ================================================================== 3. rounding to the grid never reorders coordinates *)
Theorem save_monotone_lemma (s x y : binary64) :
  fin64 s = true -> fin64 x = true -> fin64 y = true ->
  (0 <= B2R64 s <= bpow radix2 500)%R ->
  (Rabs (B2R64 x) <= bpow radix2 500)%R -> (Rabs (B2R64 y) <= bpow radix2 500)%R ->
  (B2R64 x <= B2R64 y)%R ->
  exists kx ky,
    b64_round_away (b64_mult mode_NE x s) = Some kx /\ b64_round_away (b64_mult mode_NE y s) = Some ky
    /\ b64_round_away (b64_mult mode_NE (b64_plus mode_NE b64_zero x) s) = Some kx
    /\ b64_round_away (b64_mult mode_NE (b64_plus mode_NE b64_zero y) s) = Some ky
    /\ kx <= ky.
Proof.
  intros Fs Fx Fy Bs Bx By Hxy.
  assert (core : forall z, fin64 z = true -> (Rabs (B2R64 z) <= bpow radix2 500)%R ->
            fin64 (b64_mult mode_NE z s) = true /\ B2R64 (b64_mult mode_NE z s) = rnd64 (B2R64 z * B2R64 s)).
  { intros z Fz Bz. destruct (b64_mult_ok z s Fz Fs) as (Fp & Rp & _); [|split; assumption].
    rewrite Rabs_mult, (Rabs_pos_eq (B2R64 s)) by lra.
    apply Rle_trans with (bpow radix2 500 * bpow radix2 500)%R.
    - apply Rmult_le_compat; try lra. apply Rabs_pos.
    - rewrite <- bpow_plus. apply bpow_le. lia. }
  destruct (core x Fx Bx) as (Fpx & Rpx). destruct (core y Fy By) as (Fpy & Rpy).
  destruct (zero_plus_ok x Fx) as (Fzx & Rzx). destruct (zero_plus_ok y Fy) as (Fzy & Rzy).
  destruct (core _ Fzx ltac:(rewrite Rzx; exact Bx)) as (Fqx & Rqx).
  destruct (core _ Fzy ltac:(rewrite Rzy; exact By)) as (Fqy & Rqy).
  exists (ZnearestA (B2R64 (b64_mult mode_NE x s))), (ZnearestA (B2R64 (b64_mult mode_NE y s))).
  split; [apply round_away_spec_lemma; exact Fpx|]. split; [apply round_away_spec_lemma; exact Fpy|].
  split; [rewrite (round_away_spec_lemma _ Fqx), Rqx, Rzx, <- Rpx; reflexivity|].
  split; [rewrite (round_away_spec_lemma _ Fqy), Rqy, Rzy, <- Rpy; reflexivity|].
  apply ZnearestA_monotone. rewrite Rpx, Rpy. apply round_le; [exact valid64g|apply valid_rnd_N|].
  apply Rmult_le_compat_r; lra.
Qed.

(* ================================================================== the slack is real
   unit = 1e-6, precision = 1e-9 (the doubles), x = 0x3F76872B020C49BB (about 0.0055): the exact value x * unit / precision
   lies BELOW 5.5 (by 4e-17), yet the integer written is 6: unit / precision rounds to 999.99999999999989, the product
   rounds to exactly 5.5, lround rounds the tie away from zero. *)
Definition slack_U : binary64 := b64_of_bits 4517329193108106637.   (* 1e-6 *)
Definition slack_P : binary64 := b64_of_bits 4472406533629990549.   (* 1e-9 *)
Definition slack_x : binary64 := b64_of_bits 4572991090429020603.   (* 0x3F76872B020C49BB *)

Lemma bpow_neg_val n : (0 < n) -> bpow radix2 (- n) = (/ IZR (2 ^ n))%R.
Proof. intros Hn. rewrite bpow_opp. f_equal. rewrite <- (IZR_Zpower radix2) by lia. reflexivity. Qed.

Theorem save_slack_refuted :
  exists U P x k,
    fin64 U = true /\ fin64 P = true /\ fin64 x = true
    /\ gw_coord (gw_scaling U P) b64_zero x = Some (k + 1)
    /\ ow_coord (gw_scaling U P) x = Some (k + 1)
    /\ (B2R64 x * (B2R64 U / B2R64 P) < IZR k + / 2)%R.
Proof.
  exists slack_U, slack_P, slack_x, 5.
  split; [reflexivity|]. split; [reflexivity|]. split; [reflexivity|].
  split; [vm_compute; reflexivity|]. split; [vm_compute; reflexivity|].
  assert (EU : exists H, slack_U = B754_finite 53 1024 false 4722366482869645 (-72) H) by (vm_compute; eexists; reflexivity).
  assert (EP : exists H, slack_P = B754_finite 53 1024 false 4835703278458517 (-82) H) by (vm_compute; eexists; reflexivity).
  assert (EX : exists H, slack_x = B754_finite 53 1024 false 6341068275337659 (-60) H) by (vm_compute; eexists; reflexivity).
  destruct EU as (HU & ->). destruct EP as (HP & ->). destruct EX as (HX & ->).
  cbn [B2R cond_Zopp]. unfold F2R. cbn [Fnum Fexp].
  rewrite (bpow_neg_val 72 eq_refl : bpow radix2 (-72) = (/ 4722366482869645213696)%R).
  rewrite (bpow_neg_val 82 eq_refl : bpow radix2 (-82) = (/ 4835703278458516698824704)%R).
  rewrite (bpow_neg_val 60 eq_refl : bpow radix2 (-60) = (/ 1152921504606846976)%R).
  lra.
Qed.

(* ================================================================== the UNITS record written for (unit, precision) and what a load reports *)
(* a finite double of magnitude at least 2^-1000 has a full 53-bit significand *)
Lemma normal_mantissa s m e H :
  (bpow radix2 (-1000) <= Rabs (B2R64 (B754_finite 53 1024 s m e H)))%R -> 2 ^ 52 <= Z.pos m < 2 ^ 53 /\ -1074 < e.
Proof.
  intros Hb. pose proof H as Hbd. unfold SpecFloat.bounded in Hbd. apply andb_prop in Hbd. destruct Hbd as (Hc & _).
  unfold SpecFloat.canonical_mantissa in Hc. apply Zeq_bool_eq in Hc. unfold SpecFloat.fexp, SpecFloat.emin in Hc.
  rewrite Zpos_digits2_pos in Hc.
  pose proof (Zdigits_correct radix2 (Z.pos m)) as Hd. rewrite Z.abs_eq in Hd by lia.
  change (radix_val radix2) with 2 in Hd.
  set (dg := Zdigits radix2 (Z.pos m)) in *.
  assert (Hdg : 0 < dg) by (apply Zdigits_gt_0; discriminate).
  cbn [B2R] in Hb. rewrite <- F2R_Zabs, abs_cond_Zopp in Hb. unfold F2R in Hb. cbn [Fnum Fexp] in Hb.
  rewrite Z.abs_eq in Hb by lia.
  assert (He : -1074 < e).
  { destruct (Z_lt_le_dec (-1074) e) as [Hl|Hl]; [exact Hl|exfalso].
    assert (e = -1074) by lia. subst e.
    assert (Hm : (IZR (Z.pos m) < bpow radix2 53)%R).
    { rewrite <- (IZR_Zpower radix2) by lia. apply IZR_lt. apply Z.lt_le_trans with (1 := proj2 Hd).
      change (Zpower radix2 53) with (2 ^ 53). apply Z.pow_le_mono_r; lia. }
    assert (Hlt : (IZR (Z.pos m) * bpow radix2 (-1074) < bpow radix2 (-1000))%R).
    { apply Rlt_le_trans with (bpow radix2 53 * bpow radix2 (-1074))%R.
      - apply Rmult_lt_compat_r; [apply bpow_gt_0|exact Hm].
      - rewrite <- bpow_plus. apply bpow_le. lia. }
    lra. }
  assert (dg = 53) by lia. rewrite H0 in Hd. change (53 - 1) with 52 in Hd.
  split; [exact Hd|exact He].
Qed.

Lemma N_lt_of_shiftr a q : (N.shiftr a 56 = q)%N -> (q < 256)%N -> (a < 2 ^ 64)%N.
Proof.
  intros Hs Hq. rewrite N.shiftr_div_pow2 in Hs.
  pose proof (N.div_mod' a (2 ^ 56)) as Hdm. pose proof (N.mod_lt a (2 ^ 56) ltac:(discriminate)) as Hm.
  change (2 ^ 64)%N with (256 * 2 ^ 56)%N. nia.
Qed.

(* gdsii_real_from_double then gdsii_real_to_double gives the double back, for every double in the format's range *)
Theorem gds_real_reload_lemma (d : binary64) :
  fin64 d = true -> (bpow radix2 (-259) <= B2R64 d < bpow radix2 252)%R ->
  (gds_real_from_b64 d < 2 ^ 64)%N /\ gds_positive (gds_real_from_b64 d)
  /\ gds_real_to_b64 (gds_real_from_b64 d) = d.
Proof.
  intros Fd Bd. pose proof (bpow_gt_0 radix2 (-259)) as P259.
  destruct d as [s|s|s pl H|s m e H]; cbn [is_finite] in Fd; try discriminate.
  { cbn [B2R] in Bd. lra. }
  assert (Hs : s = false).
  { destruct s; [|reflexivity]. exfalso. cbn [B2R] in Bd.
    assert (@F2R radix2 {| Fnum := cond_Zopp true (Z.pos m); Fexp := e |} < 0)%R by (apply F2R_lt_0; reflexivity). lra. }
  subst s.
  assert (Hn : (bpow radix2 (-1000) <= Rabs (B2R64 (B754_finite 53 1024 false m e H)))%R).
  { rewrite Rabs_pos_eq by lra. apply Rle_trans with (2 := proj1 Bd). apply bpow_le. lia. }
  destruct (normal_mantissa false m e H Hn) as (Hm & He).
  cbn [B2R cond_Zopp] in Bd. unfold F2R in Bd. cbn [Fnum Fexp] in Bd.
  (* the binade *)
  assert (Hbin : -259 <= e + 53 <= 252).
  { assert (L : (IZR (Z.pos m) < bpow radix2 53)%R).
    { rewrite <- (IZR_Zpower radix2) by lia. apply IZR_lt. apply Hm. }
    assert (G : (bpow radix2 52 <= IZR (Z.pos m))%R).
    { rewrite <- (IZR_Zpower radix2) by lia. apply IZR_le. apply Hm. }
    split.
    - assert (Q : (bpow radix2 (-259) < bpow radix2 (53 + e))%R).
      { apply Rle_lt_trans with (1 := proj1 Bd). rewrite bpow_plus. apply Rmult_lt_compat_r; [apply bpow_gt_0|exact L]. }
      apply lt_bpow in Q. lia.
    - assert (Q : (bpow radix2 (52 + e) < bpow radix2 252)%R).
      { apply Rle_lt_trans with (2 := proj2 Bd). rewrite bpow_plus. apply Rmult_le_compat_r; [apply bpow_ge_0|exact G]. }
      apply lt_bpow in Q. lia. }
  cbn [gds_real_from_b64].
  pose proof (proj1 (gds_in_range_binades (Z.pos m) e Hm) Hbin) as HE.
  pose proof (log2_53 (Z.pos m) Hm) as Hl.
  set (Ex := ideal_exponent (Z.pos m) e) in *.
  assert (Hsr : 0 <= e + 4 * (14 - Ex) < 4) by (unfold Ex, ideal_exponent, frexp_exponent; rewrite Hl; lia).
  set (sh := e + 4 * (14 - Ex)) in *.
  assert (Hsh : Z.shiftl (Z.pos m) sh = Z.pos m * 2 ^ sh) by (apply Z.shiftl_mul_pow2; lia).
  assert (Hp : 0 < 2 ^ sh <= 2 ^ 3) by (split; [apply Z.pow_pos_nonneg; lia|apply Z.pow_le_mono_r; lia]).
  assert (HM : 0 <= Z.shiftl (Z.pos m) (e + 4 * (14 - Ex)) < 2 ^ 56).
  { fold sh. rewrite Hsh. change (2 ^ 56) with (2 ^ 53 * 2 ^ 3). nia. }
  pose proof (decode_encode_dy Ex false (Z.pos m) e HE HM) as Hdec. fold sh in Hdec. rewrite Hsh in Hdec.
  pose proof (gds_encode_with_first_byte Ex false (Z.pos m) e HE HM) as Hfb.
  unfold gds_encode. fold Ex.
  set (real := gds_encode_with Ex false (Z.pos m) e) in *.
  assert (Hr64 : (real < 2 ^ 64)%N) by (apply (N_lt_of_shiftr _ _ Hfb); lia).
  split; [exact Hr64|]. split.
  - unfold gds_positive. rewrite Hdec. split; [reflexivity|]. lia.
  - pose proof (gds_real_models_agree_lemma real Hr64) as Hv.
    pose proof (gds_real_roundtrip_double_lemma false (Z.pos m) e Hm Hbin) as Hrt.
    unfold gds_encode in Hrt. fold Ex in Hrt. fold real in Hrt. rewrite Hrt, Hdec in Hv.
    pose proof (gds_real_to_b64_correct_lemma real Hr64) as Hc. rewrite Hdec in Hc.
    destruct Hc as (Fr & _ & Sr & _).
    apply B2R_Bsign_inj; [exact Fr|reflexivity| |exact Sr].
    rewrite Hv. cbn [B2R cond_Zopp]. unfold F2R. cbn [Fnum Fexp].
    rewrite Z2N.id by lia. rewrite mult_IZR, (IZR_Zpower radix2) by lia.
    rewrite Rmult_1_l, Rmult_assoc, <- bpow_plus. f_equal. f_equal. unfold sh. lia.
Qed.

(* what a native load reports for the record written for (unit, precision), 2^-100 <= unit, precision <= 2^100:
   the precision itself; factor = precision / unit (one division, as a double); unit' = precision / factor, within
   2 u / (1 - u) of the saved unit - and not always equal to it (gds_unit_reload_refuted) *)
Theorem gds_units_reload_lemma U P :
  fin64 U = true -> fin64 P = true ->
  (bpow radix2 (-100) <= B2R64 U <= bpow radix2 100)%R ->
  (bpow radix2 (-100) <= B2R64 P <= bpow radix2 100)%R ->
  let st := gds_reload U P in
  let '(r0, r1) := gw_units U P in
  (r0 < 2 ^ 64)%N /\ (r1 < 2 ^ 64)%N /\ gds_positive r0 /\ gds_positive r1
  /\ us_precision st = P
  /\ us_factor st = b64_div mode_NE P U
  /\ us_unit st = b64_div mode_NE P (b64_div mode_NE P U)
  /\ us_tolerance st = b64_div mode_NE P (us_unit st)
  /\ fin64 (us_unit st) = true
  /\ (Rabs (B2R64 (us_unit st) - B2R64 U) <= 2 * u53 / (1 - u53) * B2R64 U)%R.
Proof.
  intros FU FP BU BP st. unfold gw_units.
  pose proof (bpow_gt_0 radix2 (-100)) as P100.
  assert (IU : inb (-100) 100 (B2R64 U)) by (apply inb_pos; exact BU).
  assert (IP : inb (-100) 100 (B2R64 P)) by (apply inb_pos; exact BP).
  assert (NU : B2R64 U <> 0%R) by lra. assert (NP : B2R64 P <> 0%R) by lra.
  destruct (b64_div_step P U (-200) 200 FP FU NU ltac:(lia) ltac:(lia) ltac:(lia)) as (Fq & Sq & Iq & _ & e1 & E1 & Rq).
  { apply (inb_div (-100) 100 (-100) 100); assumption. }
  set (q := b64_div mode_NE P U) in *.
  assert (SU : sign64 U = false) by (apply pos_sign; [exact FU|lra]).
  assert (SP : sign64 P = false) by (apply pos_sign; [exact FP|lra]).
  rewrite SP, SU in Sq. cbn [xorb] in Sq.
  assert (Hqpos : (0 < B2R64 q)%R).
  { destruct Iq as (L & _). pose proof (bpow_gt_0 radix2 (-200)).
    destruct q as [s|s|s pl Hq|s m e Hq]; cbn [is_finite] in Fq; try discriminate.
    - cbn [B2R] in L. rewrite Rabs_R0 in L. lra.
    - cbn [Bsign] in Sq. subst s. cbn [B2R cond_Zopp]. apply F2R_gt_0. reflexivity. }
  assert (Bq : (bpow radix2 (-259) <= B2R64 q < bpow radix2 252)%R).
  { destruct Iq as (L & R). rewrite Rabs_pos_eq in L, R by lra. split.
    - apply Rle_trans with (2 := L). apply bpow_le. lia.
    - apply Rle_lt_trans with (1 := R). apply bpow_lt. lia. }
  assert (BP' : (bpow radix2 (-259) <= B2R64 P < bpow radix2 252)%R).
  { split; [apply Rle_trans with (2 := proj1 BP); apply bpow_le; lia|apply Rle_lt_trans with (1 := proj2 BP); apply bpow_lt; lia]. }
  destruct (gds_real_reload_lemma q Fq Bq) as (L0 & G0 & R0).
  destruct (gds_real_reload_lemma P FP BP') as (L1 & G1 & R1).
  split; [exact L0|]. split; [exact L1|]. split; [exact G0|]. split; [exact G1|].
  unfold st, gds_reload, gw_units. fold q.
  unfold read_gds_units. change (b64_gt0 b64_zero) with false. change (b64_le0 b64_zero) with true. cbv zeta.
  cbn [us_factor us_unit us_precision us_tolerance]. rewrite R0, R1.
  split; [reflexivity|]. split; [reflexivity|]. split; [reflexivity|]. split; [reflexivity|].
  assert (Nq : B2R64 q <> 0%R) by lra.
  destruct (b64_div_step P q (-300) 300 FP Fq Nq ltac:(lia) ltac:(lia) ltac:(lia)) as (Fu & _ & _ & _ & e2 & E2 & Ru).
  { apply (inb_div (-100) 100 (-200) 200); assumption. }
  split; [exact Fu|].
  rewrite Ru, Rq.
  pose proof u53_pos as Up. pose proof u53_bounds as (_ & U8).
  apply Rabs_le_inv in E1. apply Rabs_le_inv in E2.
  replace (B2R64 P / (B2R64 P / B2R64 U * (1 + e1)) * (1 + e2) - B2R64 U)%R
    with (B2R64 U * ((e2 - e1) / (1 + e1)))%R by (field; repeat split; lra).
  rewrite Rabs_mult, (Rabs_pos_eq (B2R64 U)) by lra. rewrite Rmult_comm. apply Rmult_le_compat_r; [lra|].
  unfold Rdiv. rewrite Rabs_mult, (Rabs_pos_eq (/ (1 + e1))) by (apply Rlt_le, Rinv_0_lt_compat; lra).
  apply Rmult_le_compat; [apply Rabs_pos|apply Rlt_le, Rinv_0_lt_compat; lra|apply Rabs_le; lra|apply Rinv_le_contravar; lra].
Qed.

(* hence: for every unit / precision in 2^-100 .. 2^100 the file written by write_gds re-loads and re-saves to the same integers *)
Corollary gds_save_load_save_lemma U P k :
  fin64 U = true -> fin64 P = true ->
  (bpow radix2 (-100) <= B2R64 U <= bpow radix2 100)%R ->
  (bpow radix2 (-100) <= B2R64 P <= bpow radix2 100)%R ->
  - 2 ^ 31 <= k < 2 ^ 31 ->
  gds_cycle_coord (gds_reload U P) k = Some k /\ gds_cycle_ext (gds_reload U P) k = Some k
  /\ (- 2 ^ 31 < k -> gds_cycle_width (gds_reload U P) k = Some k).
Proof.
  intros FU FP BU BP Hk. pose proof (gds_units_reload_lemma U P FU FP BU BP) as H. cbv zeta in H.
  unfold gds_reload. destruct (gw_units U P) as (r0 & r1). destruct H as (L0 & L1 & G0 & G1 & _).
  destruct (gds_load_save_stable_lemma r0 r1 k L0 L1 G0 G1 Hk) as (A & B). split; [exact A|]. split; [exact B|].
  intros Hk'. apply gds_width_stable_lemma; try assumption. lia.
Qed.

(* "the same unit" does not hold bit for bit: unit = 1e-4, precision = 1e-12 re-loads with the unit one ulp above;
   unit = 0.1, precision = 1e-10 one ulp below.  The UNITS record and the factor are then stable: a second cycle
   reports the same unit again. *)
Definition b64_1em4 : binary64 := b64_of_bits 4547007122018943789.    (* 0x3F1A36E2EB1C432D *)
Definition b64_1em12 : binary64 := b64_of_bits 4427486594234968593.   (* 0x3D719799812DEA11 *)
Definition b64_0p1 : binary64 := b64_of_bits 4591870180066957722.     (* 0x3FB999999999999A *)
Definition b64_1em10 : binary64 := b64_of_bits 4457293557087583675.   (* 0x3DDB7CDFD9D7BDBB *)

Theorem gds_unit_reload_refuted :
  exists U P, fin64 U = true /\ fin64 P = true
    /\ us_unit (gds_reload U P) <> U
    /\ us_precision (gds_reload U P) = P
    /\ (let st := gds_reload U P in gds_reload (us_unit st) (us_precision st) = st).
Proof.
  exists b64_1em4, b64_1em12. split; [reflexivity|]. split; [reflexivity|]. split.
  - intros Heq. apply (f_equal bits64) in Heq. vm_compute in Heq. discriminate.
  - split.
    + assert (E : bits64 (us_precision (gds_reload b64_1em4 b64_1em12)) = bits64 b64_1em12) by (vm_compute; reflexivity).
      rewrite <- (b64_of_bits64 (us_precision (gds_reload b64_1em4 b64_1em12))), E. apply b64_of_bits64.
    + cbv zeta.
      assert (E : forall a b : gds_units_state,
                bits64 (us_factor a) = bits64 (us_factor b) -> bits64 (us_unit a) = bits64 (us_unit b) ->
                bits64 (us_precision a) = bits64 (us_precision b) -> bits64 (us_tolerance a) = bits64 (us_tolerance b) -> a = b).
      { intros [a1 a2 a3 a4] [b1 b2 b3 b4]. cbn [us_factor us_unit us_precision us_tolerance]. intros H1 H2 H3 H4.
        rewrite <- (b64_of_bits64 a1), <- (b64_of_bits64 a2), <- (b64_of_bits64 a3), <- (b64_of_bits64 a4), H1, H2, H3, H4,
          !b64_of_bits64. reflexivity. }
      apply E; vm_compute; reflexivity.
Qed.

Example gds_unit_reload_refuted_decimal :
  bits64 (us_unit (gds_reload b64_0p1 b64_1em10)) = 4591870180066957721%N /\ bits64 b64_0p1 = 4591870180066957722%N.
Proof. split; vm_compute; reflexivity. Qed.

(* ================================================================== 5. OASIS: load, then save *)
Lemma gr_1em6_facts :
  fin64 gr_1em6 = true /\ sign64 gr_1em6 = false /\ (bpow radix2 (-20) <= B2R64 gr_1em6 <= bpow radix2 (-19))%R.
Proof.
  assert (Ex : exists H, gr_1em6 = B754_finite 53 1024 false 4722366482869645 (-72) H) by (vm_compute; eexists; reflexivity).
  destruct Ex as (H & ->). split; [reflexivity|]. split; [reflexivity|].
  cbn [B2R cond_Zopp]. unfold F2R. cbn [Fnum Fexp]. split.
  - apply Rle_trans with (bpow radix2 52 * bpow radix2 (-72))%R; [rewrite <- bpow_plus; apply bpow_le; lia|].
    apply Rmult_le_compat_r; [apply bpow_ge_0|]. rewrite <- (IZR_Zpower radix2) by lia. apply IZR_le. vm_compute. discriminate.
  - apply Rle_trans with (bpow radix2 53 * bpow radix2 (-72))%R; [|rewrite <- bpow_plus; apply bpow_le; lia].
    apply Rmult_le_compat_r; [apply bpow_ge_0|]. rewrite <- (IZR_Zpower radix2) by lia. apply IZR_le. vm_compute. discriminate.
Qed.

(* the START record's unit survives oasis_write_real ; oasis_read_real *)
Theorem oas_unit_real_reload_lemma (P : binary64) :
  fin64 (ow_unit_real P) = true -> B2R64 (ow_unit_real P) <> 0%R ->
  or_unit_real (ow_unit_bytes P) = ow_unit_real P.
Proof.
  intros Fr Nr. unfold or_unit_real, ow_unit_bytes. set (d := ow_unit_real P) in *.
  pose proof (oas_real_roundtrip_lemma (bits64 d) [] (bits64_range d)) as H.
  rewrite b64_of_bits64 in H. rewrite app_nil_r in H. rewrite H.
  - apply b64_of_bits64.
  - exact Fr.
  - intros Hb. apply Nr. rewrite <- (b64_of_bits64 d), Hb. vm_compute. reflexivity.
Qed.

(* the loaded value k F a for |k| < 2^53 (the conversion int64 -> double is exact there) *)
Lemma coord_E53 f k :
  fin64 f = true -> (bpow radix2 (-320) <= B2R64 f <= bpow radix2 260)%R -> Z.abs k < 2 ^ 53 ->
  fin64 (gds_coord f k) = true /\ exists a, E 1 a /\ B2R64 (gds_coord f k) = (IZR k * B2R64 f * a)%R.
Proof.
  intros Ff Bf Hk. pose proof (bpow_gt_0 radix2 (-320)) as P320. unfold gds_coord.
  destruct (b64_of_int_correct k Hk) as (Fk & Rk & _).
  destruct (Z.eq_dec k 0) as [->|Hk0].
  - destruct (b64_mult_ok f (b64_of_int 0) Ff Fk) as (Fp & Rp & _).
    { rewrite Rk, Rmult_0_r, Rabs_R0. apply bpow_ge_0. }
    split; [exact Fp|]. exists 1%R. split; [apply E_one|]. rewrite Rp, Rk, Rmult_0_r, round_0 by apply valid_rnd_N. ring.
  - assert (If : inb (-320) 260 (B2R64 f)) by (apply inb_pos; exact Bf).
    assert (Ik : inb 0 53 (IZR k)).
    { unfold inb. rewrite <- abs_IZR. split.
      - change (bpow radix2 0) with (IZR 1). apply IZR_le. lia.
      - rewrite <- (IZR_Zpower radix2) by lia. apply IZR_le. change (Zpower radix2 53) with (2 ^ 53). lia. }
    pose proof (inb_mult _ _ _ _ _ _ If Ik) as Ip. rewrite <- Rk in Ip.
    destruct (b64_mult_step f (b64_of_int k) (-320 + 0) (260 + 53) Ff Fk ltac:(lia) ltac:(lia) ltac:(lia) Ip) as (Fp & _ & _ & _ & e & He & Rp).
    split; [exact Fp|]. exists (1 + e)%R. split; [apply E_rnd; exact He|]. rewrite Rp, Rk. ring.
Qed.

(* what a native read_oas keeps of a START real in 2^-100 .. 2^100 *)
Lemma oas_native_state (real : binary64) :
  fin64 real = true -> (bpow radix2 (-100) <= B2R64 real <= bpow radix2 100)%R ->
  let st := read_oas_units b64_zero b64_zero real in
  let F := B2R64 (os_factor st) in
  os_factor st = b64_div mode_NE b64_one real
  /\ os_unit st = gr_1em6
  /\ os_precision st = b64_mult mode_NE gr_1em6 (os_factor st)
  /\ os_tolerance st = b64_div mode_NE (os_precision st) gr_1em6
  /\ fin64 (os_factor st) = true /\ (bpow radix2 (-100) <= F <= bpow radix2 100)%R
  /\ fin64 (os_precision st) = true /\ (bpow radix2 (-120) <= B2R64 (os_precision st) <= bpow radix2 81)%R
  /\ fin64 (oas_scaling_of st) = true
  /\ exists t, E 3 t /\ B2R64 (oas_scaling_of st) = (/ F * t)%R.
Proof.
  intros Fr Br.
  unfold read_oas_units. change (b64_gt0 b64_zero) with false. change (b64_le0 b64_zero) with true. cbv zeta.
  unfold oas_scaling_of, gw_scaling. cbn [os_factor os_unit os_precision os_tolerance].
  pose proof (bpow_gt_0 radix2 (-100)) as P100. pose proof (bpow_gt_0 radix2 (-20)) as P20.
  destruct gr_1em6_facts as (F6 & S6 & B6). destruct b64_one_facts as (F1 & S1).
  assert (Ir : inb (-100) 100 (B2R64 real)) by (apply inb_pos; exact Br).
  assert (I1 : inb 0 0 (B2R64 b64_one)).
  { rewrite B2R_one. unfold inb. rewrite Rabs_R1. cbn [bpow]. lra. }
  assert (I6 : inb (-20) (-19) (B2R64 gr_1em6)) by (apply inb_pos; exact B6).
  assert (Nr : B2R64 real <> 0%R) by lra. assert (N6 : B2R64 gr_1em6 <> 0%R) by lra.
  destruct (b64_div_step b64_one real (0 - 100) (0 - -100) F1 Fr Nr ltac:(lia) ltac:(lia) ltac:(lia)) as (Ff & Sf & If & _ & e0 & E0 & Rf).
  { apply (inb_div 0 0 (-100) 100); assumption. }
  set (f := b64_div mode_NE b64_one real) in *.
  assert (Sr : sign64 real = false) by (apply pos_sign; [exact Fr|lra]).
  rewrite S1, Sr in Sf. cbn [xorb] in Sf.
  assert (Hfpos : (0 < B2R64 f)%R).
  { rewrite Rf, B2R_one. apply Rabs_le_inv in E0. pose proof u53_bounds.
    apply Rmult_lt_0_compat; [apply Rdiv_lt_0_compat; lra|lra]. }
  assert (Bf : (bpow radix2 (-100) <= B2R64 f <= bpow radix2 100)%R).
  { destruct If as (L & R). rewrite Rabs_pos_eq in L, R by lra. split; [exact L|exact R]. }
  destruct (b64_mult_step gr_1em6 f (-20 + -100) (-19 + 100) F6 Ff ltac:(lia) ltac:(lia) ltac:(lia)) as (Fp & _ & Ip & _ & e1 & E1 & Rp).
  { apply (inb_mult (-20) (-19) (-100) 100); assumption. }
  set (p := b64_mult mode_NE gr_1em6 f) in *.
  assert (Hppos : (0 < B2R64 p)%R).
  { rewrite Rp. apply Rabs_le_inv in E1. pose proof u53_bounds. apply Rmult_lt_0_compat; [apply Rmult_lt_0_compat; lra|lra]. }
  assert (Np : B2R64 p <> 0%R) by lra.
  destruct (b64_div_step gr_1em6 p (-20 - 81) (-19 - -120) F6 Fp Np ltac:(lia) ltac:(lia) ltac:(lia)) as (Fs & _ & _ & _ & e2 & E2 & Rs).
  { apply (inb_div (-20) (-19) (-120) 81); assumption. }
  split; [reflexivity|]. split; [reflexivity|]. split; [reflexivity|]. split; [reflexivity|].
  split; [exact Ff|]. split; [exact Bf|]. split; [exact Fp|]. split.
  { destruct Ip as (L & R). rewrite Rabs_pos_eq in L, R by lra. split; assumption. }
  split; [exact Fs|].
  exists (/ (1 + e1) * (1 + e2))%R. split.
  - apply (E_mult 2 1); [apply E_inv; exact E1|apply E_rnd; exact E2].
  - rewrite Rs, Rp. apply Rabs_le_inv in E1. pose proof u53_bounds. field. repeat split; lra.
Qed.

Lemma five_u_quarter : (INR (1 + 3 + 1) * u53 <= / 4)%R.
Proof. simpl INR. rewrite u53_val. lra. Qed.

Lemma k49_gamma5 k : Z.abs k <= 2 ^ 49 -> (Rabs (IZR k) * ((1 + u53) ^ (1 + 3 + 1) - 1) < / 2)%R.
Proof.
  intros Hk. apply (small_k_bound k 562949953421312 (1 + 3 + 1)).
  - rewrite <- abs_IZR. apply IZR_le. change (2 ^ 49) with 562949953421312 in Hk. exact Hk.
  - simpl INR. rewrite u53_val. lra.
  - simpl INR. rewrite u53_val. lra.
Qed.

(* positions, extensions: factor * (double)k, saved again as llround(x * scaling') *)
Theorem oas_load_save_stable_lemma (real : binary64) k :
  fin64 real = true -> (bpow radix2 (-100) <= B2R64 real <= bpow radix2 100)%R ->
  Z.abs k <= 2 ^ 49 ->
  oas_cycle_coord (read_oas_units b64_zero b64_zero real) k = Some k.
Proof.
  intros Fr Br Hk. set (st := read_oas_units b64_zero b64_zero real).
  destruct (oas_native_state real Fr Br) as (_ & _ & _ & _ & Ff & Bf & _ & _ & Fs & t & Et & Rs).
  fold st in Ff, Bf, Fs, Rs. cbv zeta in Bf, Rs.
  pose proof (bpow_gt_0 radix2 (-100)) as P100.
  assert (Bf' : (bpow radix2 (-320) <= B2R64 (os_factor st) <= bpow radix2 260)%R).
  { split; [apply Rle_trans with (2 := proj1 Bf); apply bpow_le; lia|apply Rle_trans with (1 := proj2 Bf); apply bpow_le; lia]. }
  assert (Hk53 : Z.abs k < 2 ^ 53) by (change (2 ^ 49) with 562949953421312 in Hk; change (2 ^ 53) with 9007199254740992; lia).
  destruct (coord_E53 (os_factor st) k Ff Bf' Hk53) as (Fc & a & Ea & Rc).
  assert (NF : B2R64 (os_factor st) <> 0%R) by lra.
  assert (Hk62 : Z.abs k <= 2 ^ 62) by (change (2 ^ 49) with 562949953421312 in Hk; change (2 ^ 62) with 4611686018427387904; lia).
  destruct (mult_back _ (oas_scaling_of st) k _ a t 1 3 Fc Fs NF Rc Rs Ea Et five_u_quarter Hk62 (k49_gamma5 k Hk)) as (Fp & Hn).
  unfold oas_cycle_coord, ow_coord, oas_coord. apply llround_val; [exact Fp|exact Hn|].
  change (2 ^ 49) with 562949953421312 in Hk. change (2 ^ 63) with 9223372036854775808. lia.
Qed.

(* beyond: precision 1e-9 (START real 1e-6 / 1e-9), k = 4503599627370474 < 2^52 comes back as another integer *)
Theorem oas_load_save_large_refuted :
  exists P k, fin64 P = true /\ 0 < k < 2 ^ 52
    /\ oas_cycle_coord (oas_reload P) k <> Some k.
Proof.
  exists slack_P, 4503599627370474. split; [reflexivity|]. split; [vm_compute; split; reflexivity|].
  assert (E : oas_cycle_coord (oas_reload slack_P) 4503599627370474 = Some 4503599627370473) by (vm_compute; reflexivity).
  rewrite E. discriminate.
Qed.

(* ================================================================== point lists: oasis_read_point_list accumulates in floating point *)
Definition step_ok (s : pstep) : Prop := match s with PStep d => Z.abs d < 2 ^ 53 | _ => True end.
Fixpoint steps_var (l : list pstep) : Z :=
  match l with
  | [] => 0
  | PStep d :: t => Z.abs d + steps_var t
  | _ :: t => steps_var t
  end.
Definition G (n : nat) : R := ((1 + u53) ^ n - 1)%R.

Lemma steps_var_nonneg l : 0 <= steps_var l.
Proof. induction l as [|[d| |] t IH]; cbn [steps_var]; lia. Qed.

Lemma G_nonneg n : (0 <= G n)%R.
Proof. unfold G. pose proof (pow1u_ge1 n). lra. Qed.

Lemma G_mono m n : (m <= n)%nat -> (G m <= G n)%R.
Proof. intros H. unfold G. apply Rplus_le_compat_r. apply Rle_pow; [pose proof u53_pos; lra|exact H]. Qed.

Lemma G_SS n : (G (S (S n)) = (1 + G n) * (1 + u53) * (1 + u53) - 1)%R.
Proof. unfold G. simpl. ring. Qed.

Lemma G_third n : (INR n * u53 <= / 4)%R -> (G n <= / 3)%R.
Proof.
  intros Hn. pose proof u53_pos as U. assert (Hl : (INR n * u53 < 1)%R) by lra.
  apply Rle_trans with (1 := gamma_bound n Hl).
  apply (Rmult_le_reg_r (1 - INR n * u53)); [lra|]. unfold Rdiv. rewrite Rmult_assoc, Rinv_l by lra. lra.
Qed.

Lemma u_rnd_plus (x y : R) : fmt64 x -> fmt64 y -> exists dl, (Rabs dl <= u53)%R /\ rnd64 (x + y) = ((x + y) * (1 + dl))%R.
Proof.
  intros Fx Fy.
  destruct (FLT_plus_error_N_ex radix2 (-1074) 53 (fun t => negb (Z.even t)) x y Fx Fy) as (eps & He & Hr).
  exists eps. split; [|exact Hr].
  apply Rle_trans with (1 := He). apply Rle_trans with (1 := u_rod1pu_ro_le_u_ro radix2 53).
  unfold u_ro, u53. change (/ 2)%R with (bpow radix2 (-1)). rewrite <- bpow_plus. apply bpow_le. lia.
Qed.

(* one accumulation step on the reals *)
Lemma acc_step (F T0 T1 dabs eps d A' eta delta g : R) :
  (0 <= F)%R -> (0 <= T0)%R -> (0 <= dabs)%R -> T1 = (T0 + dabs)%R -> (0 <= g)%R ->
  (Rabs eps <= F * T0 * g)%R -> (Rabs d <= dabs)%R -> (Rabs A' <= T1)%R ->
  (Rabs eta <= u53)%R -> (Rabs delta <= u53)%R ->
  (Rabs ((eps + F * d * eta) * (1 + delta) + F * A' * delta) <= F * T1 * ((1 + g) * (1 + u53) * (1 + u53) - 1))%R.
Proof.
  intros HF HT0 Hd HT1 Hg He Hdd HA Heta Hdl. pose proof u53_pos as U.
  assert (H1 : (Rabs ((eps + F * d * eta) * (1 + delta) + F * A' * delta)
                <= (Rabs eps + F * dabs * u53) * (1 + u53) + F * T1 * u53)%R).
  { apply Rle_trans with (1 := Rabs_triang _ _). apply Rplus_le_compat.
    - rewrite Rabs_mult. apply Rmult_le_compat; try apply Rabs_pos.
      + apply Rle_trans with (1 := Rabs_triang _ _). apply Rplus_le_compat_l.
        rewrite !Rabs_mult, (Rabs_pos_eq F) by exact HF.
        apply Rmult_le_compat; [apply Rmult_le_pos; [exact HF|apply Rabs_pos]|apply Rabs_pos| |exact Heta].
        apply Rmult_le_compat_l; assumption.
      + apply Rle_trans with (1 := Rabs_triang _ _). rewrite Rabs_R1. lra.
    - rewrite !Rabs_mult, (Rabs_pos_eq F) by exact HF.
      apply Rmult_le_compat; [apply Rmult_le_pos; [exact HF|apply Rabs_pos]|apply Rabs_pos| |exact Hdl].
      apply Rmult_le_compat_l; assumption. }
  apply Rle_trans with (1 := H1).
  assert (HT01 : (T0 <= T1)%R) by lra. assert (Hd1 : (dabs <= T1)%R) by lra.
  assert (H2 : ((Rabs eps + F * dabs * u53) * (1 + u53) + F * T1 * u53 <= F * T1 * ((g + u53) * (1 + u53) + u53))%R).
  { assert (A1 : (Rabs eps <= F * T1 * g)%R).
    { apply Rle_trans with (1 := He). apply Rmult_le_compat_r; [exact Hg|]. apply Rmult_le_compat_l; assumption. }
    assert (A2 : (F * dabs * u53 <= F * T1 * u53)%R).
    { apply Rmult_le_compat_r; [lra|]. apply Rmult_le_compat_l; assumption. }
    replace (F * T1 * ((g + u53) * (1 + u53) + u53))%R with ((F * T1 * g + F * T1 * u53) * (1 + u53) + F * T1 * u53)%R by ring.
    apply Rplus_le_compat_r. apply Rmult_le_compat_r; lra. }
  apply Rle_trans with (1 := H2). apply Rmult_le_compat_l.
  - apply Rmult_le_pos; lra.
  - nra.
Qed.

(* the invariant along oas_chain *)
Lemma chain_close (f : binary64) :
  fin64 f = true -> (bpow radix2 (-100) <= B2R64 f <= bpow radix2 100)%R ->
  forall steps (a : binary64) (A : Z) (T0 : R) (i : nat),
    Forall step_ok steps -> fin64 a = true ->
    (Rabs (B2R64 a - B2R64 f * IZR A) <= B2R64 f * T0 * G (2 * i))%R ->
    (Rabs (IZR A) <= T0)%R ->
    (T0 + IZR (steps_var steps) <= bpow radix2 70)%R ->
    (INR (2 * (i + length steps)) * u53 <= / 4)%R ->
    Forall2 (fun v K => fin64 v = true
                        /\ (Rabs (B2R64 v - B2R64 f * IZR K) <= B2R64 f * (T0 + IZR (steps_var steps)) * G (2 * (i + length steps)))%R
                        /\ (Rabs (IZR K) <= T0 + IZR (steps_var steps))%R)
            (oas_chain f a steps) (int_chain A steps).
Proof.
  intros Ff Bf. set (F := B2R64 f) in *.
  pose proof (bpow_gt_0 radix2 (-100)) as P100. pose proof u53_pos as U.
  assert (HF : (0 < F)%R) by lra.
  induction steps as [|s t IH]; intros a A T0 i Hok Fa Herr HA HT Hn.
  { constructor. }
  inversion Hok as [|? ? Hs Ht]; subst.
  assert (HT0 : (0 <= T0)%R) by (pose proof (Rabs_pos (IZR A)); lra).
  pose proof (steps_var_nonneg t) as Vt. apply IZR_le in Vt.
  assert (Hlen : forall j, (j <= i + length (s :: t))%nat -> (G (2 * j) <= / 3)%R).
  { intros j Hj. apply G_third. apply Rle_trans with (2 := Hn). apply Rmult_le_compat_r; [lra|]. apply le_INR. lia. }
  cbn [oas_chain int_chain].
  (* the new accumulator a', its integer A', the variation T1 and the facts needed to continue *)
  assert (Hnext : exists a' A' T1,
             (match s with PStep d => b64_plus mode_NE (b64_mult mode_NE f (b64_of_int d)) a | PKeep => a | PInit => b64_zero end) = a'
             /\ (match s with PStep d => A + d | PKeep => A | PInit => 0 end) = A'
             /\ fin64 a' = true
             /\ (T0 + IZR (steps_var (s :: t)) = T1 + IZR (steps_var t))%R /\ (T0 <= T1)%R
             /\ (Rabs (B2R64 a' - F * IZR A') <= F * T1 * G (2 * S i))%R
             /\ (Rabs (IZR A') <= T1)%R).
  { destruct s as [d| |].
    - (* PStep *)
      cbn [step_ok] in Hs. cbn [steps_var] in HT |- *. rewrite plus_IZR, abs_IZR in HT. rewrite plus_IZR, abs_IZR.
      exists (b64_plus mode_NE (b64_mult mode_NE f (b64_of_int d)) a), (A + d), (T0 + Rabs (IZR d))%R.
      pose proof (Rabs_pos (IZR d)) as Pd.
      split; [reflexivity|]. split; [reflexivity|].
      assert (Bf' : (bpow radix2 (-320) <= B2R64 f <= bpow radix2 260)%R).
      { fold F. split; [apply Rle_trans with (2 := proj1 Bf); apply bpow_le; lia|apply Rle_trans with (1 := proj2 Bf); apply bpow_le; lia]. }
      destruct (coord_E53 f d Ff Bf' Hs) as (Fc & w & Ew & Rc). fold (gds_coord f d). fold F in Rc.
      set (c := gds_coord f d) in *.
      assert (Hd70 : (Rabs (IZR d) <= bpow radix2 70)%R) by lra.
      assert (HT70 : (T0 <= bpow radix2 70)%R) by lra.
      pose proof (E_half 1 w ltac:(simpl INR; rewrite u53_val; lra) Ew) as (Wl & Wh).
      assert (Hcabs : (Rabs (B2R64 c) <= bpow radix2 171)%R).
      { rewrite Rc, !Rabs_mult, (Rabs_pos_eq F), (Rabs_pos_eq w) by lra.
        apply Rle_trans with (bpow radix2 70 * bpow radix2 100 * bpow radix2 1)%R.
        - change (bpow radix2 1) with 2%R. apply Rmult_le_compat; try lra.
          + apply Rmult_le_pos; lra.
          + apply Rmult_le_compat; lra.
        - rewrite <- !bpow_plus. apply bpow_le. lia. }
      pose proof (Hlen i ltac:(cbn [length]; lia)) as Gi. pose proof (G_nonneg (2 * i)) as Gi0.
      assert (Haabs : (Rabs (B2R64 a) <= bpow radix2 171)%R).
      { replace (B2R64 a) with ((B2R64 a - F * IZR A) + F * IZR A)%R by ring.
        apply Rle_trans with (1 := Rabs_triang _ _). rewrite (Rabs_mult F), (Rabs_pos_eq F) by lra.
        apply Rle_trans with (F * T0 * / 3 + F * T0)%R.
        - apply Rplus_le_compat.
          + apply Rle_trans with (1 := Herr). apply Rmult_le_compat_l; [apply Rmult_le_pos; lra|exact Gi].
          + apply Rmult_le_compat_l; lra.
        - apply Rle_trans with (bpow radix2 100 * bpow radix2 70 * 2)%R.
          + assert (Q : (F * T0 <= bpow radix2 100 * bpow radix2 70)%R) by (apply Rmult_le_compat; lra). nra.
          + change 2%R with (bpow radix2 1). rewrite <- !bpow_plus. apply bpow_le. lia. }
      destruct (b64_plus_ok c a Fc Fa) as (Fp & Rp).
      { apply Rle_trans with (1 := Rabs_triang _ _). apply Rle_trans with (bpow radix2 171 + bpow radix2 171)%R; [lra|].
        apply Rle_trans with (bpow radix2 172); [|apply bpow_le; lia].
        change (bpow radix2 172) with (bpow radix2 (171 + 1)). rewrite bpow_plus. change (bpow radix2 1) with 2%R. lra. }
      split; [exact Fp|]. split; [ring|]. split; [lra|].
      destruct (u_rnd_plus (B2R64 c) (B2R64 a) (fmt64_B2R c) (fmt64_B2R a)) as (dl & Hdl & Hr).
      split.
      + rewrite Rp, Hr, Rc, plus_IZR.
        set (eps := (B2R64 a - F * IZR A)%R) in *.
        replace ((IZR d * F * w + B2R64 a) * (1 + dl) - F * (IZR A + IZR d))%R
          with ((eps + F * IZR d * (w - 1)) * (1 + dl) + F * (IZR A + IZR d) * dl)%R by (unfold eps; ring).
        replace (2 * S i)%nat with (S (S (2 * i))) by lia. rewrite G_SS.
        apply (acc_step F T0 (T0 + Rabs (IZR d)) (Rabs (IZR d)) eps (IZR d) (IZR A + IZR d) (w - 1) dl (G (2 * i))); try lra.
        * apply Rle_trans with (1 := Rabs_triang _ _). lra.
        * unfold E in Ew. simpl in Ew. lra.
      + rewrite plus_IZR. apply Rle_trans with (1 := Rabs_triang _ _). lra.
    - (* PKeep *)
      exists a, A, T0. cbn [steps_var]. split; [reflexivity|]. split; [reflexivity|]. split; [exact Fa|].
      split; [reflexivity|]. split; [lra|]. split; [|exact HA].
      apply Rle_trans with (1 := Herr). apply Rmult_le_compat_l; [apply Rmult_le_pos; lra|]. apply G_mono. lia.
    - (* PInit *)
      exists b64_zero, 0, T0. cbn [steps_var]. split; [reflexivity|]. split; [reflexivity|]. split; [reflexivity|].
      split; [reflexivity|]. split; [lra|]. split.
      + change (B2R64 b64_zero) with 0%R. rewrite Rmult_0_r, Rminus_diag_eq, Rabs_R0 by reflexivity.
        apply Rmult_le_pos; [apply Rmult_le_pos; lra|apply G_nonneg].
      + rewrite Rabs_R0. exact HT0. }
  destruct Hnext as (a' & A' & T1 & -> & -> & Fa' & HTeq & HT01 & Herr' & HA').
  rewrite HTeq.
  assert (Hcnt : (i + length (s :: t) = S i + length t)%nat) by (cbn [length]; lia).
  rewrite Hcnt.
  constructor.
  - split; [exact Fa'|]. split.
    + apply Rle_trans with (1 := Herr'). apply Rmult_le_compat.
      * apply Rmult_le_pos; lra.
      * apply G_nonneg.
      * apply Rmult_le_compat_l; lra.
      * apply G_mono. lia.
    + lra.
  - apply (IH a' A' T1 (S i)); try assumption.
    + rewrite <- HTeq. exact HT.
    + rewrite <- Hcnt. exact Hn.
Qed.

Lemma Forall2_map2 {A B C D} (P : A -> B -> Prop) (Q : C -> D -> Prop) (g : A -> C) (h : B -> D) l1 l2 :
  (forall a b, P a b -> Q (g a) (h b)) -> Forall2 P l1 l2 -> Forall2 Q (map g l1) (map h l2).
Proof. intros H F2. induction F2; cbn [map]; constructor; auto. Qed.

(* every vertex of a loaded point list is within F S G(2 (n + 1)) of the exact grid point F K *)
Theorem oas_points_close_lemma (f : binary64) k0 steps :
  fin64 f = true -> (bpow radix2 (-100) <= B2R64 f <= bpow radix2 100)%R ->
  Forall step_ok steps -> Z.abs k0 < 2 ^ 53 ->
  let S := IZR (Z.abs k0 + steps_var steps) in
  let n := length steps in
  (S <= bpow radix2 70)%R -> (INR (2 * (n + 1)) * u53 <= / 4)%R ->
  Forall2 (fun v K => fin64 v = true /\ (Rabs (B2R64 v - B2R64 f * IZR K) <= B2R64 f * S * G (2 * (n + 1)))%R /\ (Rabs (IZR K) <= S)%R)
          (oas_points f k0 steps) (int_points k0 steps).
Proof.
  intros Ff Bf Hok Hk0 S n HS Hn. set (F := B2R64 f) in *.
  pose proof (bpow_gt_0 radix2 (-100)) as P100. pose proof u53_pos as U.
  assert (HF : (0 < F)%R) by lra.
  pose proof (steps_var_nonneg steps) as Vs. apply IZR_le in Vs.
  set (T := IZR (steps_var steps)) in *.
  assert (HST : S = (T + Rabs (IZR k0))%R) by (unfold S, T; rewrite plus_IZR, abs_IZR; ring).
  pose proof (Rabs_pos (IZR k0)) as Pk.
  assert (Hn0 : (INR (2 * (0 + length steps)) * u53 <= / 4)%R).
  { apply Rle_trans with (2 := Hn). apply Rmult_le_compat_r; [lra|]. apply le_INR. unfold n. lia. }
  assert (H0 : Forall2 (fun v K => fin64 v = true
                          /\ (Rabs (B2R64 v - F * IZR K) <= F * (0 + T) * G (2 * (0 + length steps)))%R
                          /\ (Rabs (IZR K) <= 0 + T)%R)
                       (b64_zero :: oas_chain f b64_zero steps) (0 :: int_chain 0 steps)).
  { constructor.
    - split; [reflexivity|]. change (B2R64 b64_zero) with 0%R. rewrite Rmult_0_r, Rminus_diag_eq, Rabs_R0 by reflexivity.
      split; [|lra]. apply Rmult_le_pos; [apply Rmult_le_pos; lra|apply G_nonneg].
    - apply (chain_close f Ff Bf steps b64_zero 0 0%R 0%nat Hok eq_refl).
      + change (B2R64 b64_zero) with 0%R. rewrite Rmult_0_r, Rminus_diag_eq, Rabs_R0 by reflexivity. fold F. lra.
      + rewrite Rabs_R0. lra.
      + fold T. lra.
      + exact Hn0. }
  unfold oas_points, int_points. refine (Forall2_map2 _ _ _ _ _ _ _ H0). clear H0. intros a b H.
  cbv beta in H. destruct H as (Fa & Herr & HA). rewrite Rplus_0_l in Herr, HA. cbn [Nat.add] in Herr.
  assert (Bf' : (bpow radix2 (-320) <= B2R64 f <= bpow radix2 260)%R).
  { fold F. split; [apply Rle_trans with (2 := proj1 Bf); apply bpow_le; lia|apply Rle_trans with (1 := proj2 Bf); apply bpow_le; lia]. }
  unfold oas_coord. destruct (coord_E53 f k0 Ff Bf' Hk0) as (Fc & w & Ew & Rc). fold F in Rc.
  set (c := gds_coord f k0) in *.
  pose proof (E_half 1 w ltac:(simpl INR; rewrite u53_val; lra) Ew) as (Wl & Wh).
  assert (HT70 : (T <= bpow radix2 70)%R) by lra. assert (Hk70 : (Rabs (IZR k0) <= bpow radix2 70)%R) by lra.
  assert (Hcabs : (Rabs (B2R64 c) <= bpow radix2 171)%R).
  { rewrite Rc, !Rabs_mult, (Rabs_pos_eq F), (Rabs_pos_eq w) by lra.
    apply Rle_trans with (bpow radix2 70 * bpow radix2 100 * bpow radix2 1)%R.
    - change (bpow radix2 1) with 2%R. apply Rmult_le_compat; try lra.
      + apply Rmult_le_pos; lra.
      + apply Rmult_le_compat; lra.
    - rewrite <- !bpow_plus. apply bpow_le. lia. }
  pose proof (G_third _ Hn0) as Gi. pose proof (G_nonneg (2 * length steps)) as Gi0. cbn [Nat.add] in Gi.
  assert (Haabs : (Rabs (B2R64 a) <= bpow radix2 171)%R).
  { replace (B2R64 a) with ((B2R64 a - F * IZR b) + F * IZR b)%R by ring.
    apply Rle_trans with (1 := Rabs_triang _ _). rewrite (Rabs_mult F), (Rabs_pos_eq F) by lra.
    apply Rle_trans with (F * T * / 3 + F * T)%R.
    - apply Rplus_le_compat.
      + apply Rle_trans with (1 := Herr). apply Rmult_le_compat_l; [apply Rmult_le_pos; lra|exact Gi].
      + apply Rmult_le_compat_l; lra.
    - apply Rle_trans with (bpow radix2 100 * bpow radix2 70 * 2)%R.
      + assert (Q : (F * T <= bpow radix2 100 * bpow radix2 70)%R) by (apply Rmult_le_compat; lra). nra.
      + change 2%R with (bpow radix2 1). rewrite <- !bpow_plus. apply bpow_le. lia. }
  destruct (b64_plus_ok a c Fa Fc) as (Fp & Rp).
  { apply Rle_trans with (1 := Rabs_triang _ _). apply Rle_trans with (bpow radix2 171 + bpow radix2 171)%R; [lra|].
    apply Rle_trans with (bpow radix2 172); [|apply bpow_le; lia].
    change (bpow radix2 172) with (bpow radix2 (171 + 1)). rewrite bpow_plus. change (bpow radix2 1) with 2%R. lra. }
  split; [exact Fp|].
  destruct (u_rnd_plus (B2R64 a) (B2R64 c) (fmt64_B2R a) (fmt64_B2R c)) as (dl & Hdl & Hr).
  split.
  - rewrite Rp, Hr, Rc, plus_IZR.
    set (eps := (B2R64 a - F * IZR b)%R) in *.
    replace ((B2R64 a + IZR k0 * F * w) * (1 + dl) - F * (IZR b + IZR k0))%R
      with ((eps + F * IZR k0 * (w - 1)) * (1 + dl) + F * (IZR b + IZR k0) * dl)%R by (unfold eps; ring).
    replace (2 * (n + 1))%nat with (Datatypes.S (Datatypes.S (2 * length steps)))%nat by (unfold n; lia). rewrite G_SS, HST.
    apply (acc_step F T (T + Rabs (IZR k0)) (Rabs (IZR k0)) eps (IZR k0) (IZR b + IZR k0) (w - 1) dl (G (2 * length steps))); try lra.
    + apply Rle_trans with (1 := Rabs_triang _ _). lra.
    + unfold E in Ew. simpl in Ew. lra.
  - rewrite plus_IZR, HST. apply Rle_trans with (1 := Rabs_triang _ _). lra.
Qed.

(* the product with the second-cycle scaling, from an absolute error on the loaded value *)
Lemma mult_back_abs (xd s : binary64) (K : Z) (F t S g : R) :
  fin64 xd = true -> fin64 s = true -> (0 < F)%R -> B2R64 s = (/ F * t)%R -> E 3 t ->
  (Rabs (B2R64 xd - F * IZR K) <= F * S * g)%R -> (0 <= g <= / 3)%R ->
  (Rabs (IZR K) <= S)%R -> (S <= bpow radix2 62)%R ->
  (S * ((1 + g) * (1 + G 3) * (1 + u53) - 1) <= / 4)%R ->
  fin64 (b64_mult mode_NE xd s) = true /\ ZnearestA (B2R64 (b64_mult mode_NE xd s)) = K.
Proof.
  intros Fx Fs HF Rs Et Herr Hg HK HS Hb. pose proof u53_pos as U.
  assert (HS0 : (0 <= S)%R) by (pose proof (Rabs_pos (IZR K)); lra).
  set (eps := (B2R64 xd - F * IZR K)%R) in *.
  set (r := (eps / F)%R).
  assert (Hr : (Rabs r <= S * g)%R).
  { unfold r, Rdiv. rewrite Rabs_mult, (Rabs_pos_eq (/ F)) by (apply Rlt_le, Rinv_0_lt_compat; exact HF).
    apply (Rmult_le_reg_r F); [exact HF|]. rewrite Rmult_assoc, Rinv_l, Rmult_1_r by lra.
    apply Rle_trans with (1 := Herr). right. ring. }
  assert (Hy : (B2R64 xd * B2R64 s = (IZR K + r) * t)%R).
  { rewrite Rs. unfold r, eps. field. lra. }
  assert (G3 : (G 3 <= / 3)%R) by (apply G_third; simpl INR; rewrite u53_val; lra).
  pose proof (G_nonneg 3) as G30.
  assert (Ht : (Rabs (t - 1) <= G 3)%R) by exact Et.
  assert (Htabs : (Rabs t <= 1 + G 3)%R).
  { replace t with (1 + (t - 1))%R by ring. apply Rle_trans with (1 := Rabs_triang _ _). rewrite Rabs_R1. lra. }
  set (y := ((IZR K + r) * t)%R) in *.
  assert (Hdiff : (Rabs (y - IZR K) <= S * ((1 + g) * (1 + G 3) - 1))%R).
  { replace (y - IZR K)%R with (IZR K * (t - 1) + r * t)%R by (unfold y; ring).
    apply Rle_trans with (1 := Rabs_triang _ _). rewrite !Rabs_mult.
    assert (A1 : (Rabs (IZR K) * Rabs (t - 1) <= S * G 3)%R) by (apply Rmult_le_compat; try apply Rabs_pos; assumption).
    assert (A2 : (Rabs r * Rabs t <= S * g * (1 + G 3))%R) by (apply Rmult_le_compat; try apply Rabs_pos; assumption).
    replace (S * ((1 + g) * (1 + G 3) - 1))%R with (S * G 3 + S * g * (1 + G 3))%R by ring. lra. }
  assert (Hyabs : (Rabs y <= S * ((1 + g) * (1 + G 3)))%R).
  { replace y with (IZR K + (y - IZR K))%R by ring. apply Rle_trans with (1 := Rabs_triang _ _).
    replace (S * ((1 + g) * (1 + G 3)))%R with (S + S * ((1 + g) * (1 + G 3) - 1))%R by ring. lra. }
  assert (Hy2 : (Rabs y <= bpow radix2 63)%R).
  { apply Rle_trans with (1 := Hyabs). change (bpow radix2 63) with (bpow radix2 (62 + 1)). rewrite bpow_plus.
    change (bpow radix2 1) with 2%R.
    assert (Q : ((1 + g) * (1 + G 3) <= 2)%R) by nra.
    apply Rle_trans with (S * 2)%R; [apply Rmult_le_compat_l; assumption|]. lra. }
  destruct (b64_mult_ok xd s Fx Fs) as (Fp & Rp & _).
  { rewrite Hy. apply Rle_trans with (1 := Hy2). apply bpow_le. lia. }
  split; [exact Fp|]. apply Znearest_imp. rewrite Rp, Hy.
  destruct (error_N_FLT radix2 (-1074) 53 eq_refl (fun z => negb (Z.even z)) y) as (e & eta & He & Heta & _ & Hrnd).
  rewrite Hrnd.
  assert (He' : (Rabs e <= u53)%R).
  { apply Rle_trans with (1 := He). unfold u53. change (/ 2)%R with (bpow radix2 (-1)). rewrite <- bpow_plus. apply bpow_le. lia. }
  assert (Heta' : (Rabs eta <= / 8)%R).
  { apply Rle_trans with (1 := Heta). change (/ 2)%R with (bpow radix2 (-1)). rewrite <- bpow_plus.
    apply Rle_trans with (bpow radix2 (-3)); [apply bpow_le; lia|]. change (bpow radix2 (-3)) with (/ IZR (Z.pow_pos radix2 3))%R.
    change (Z.pow_pos radix2 3) with 8. lra. }
  replace (y * (1 + e) + eta - IZR K)%R with ((y - IZR K) + y * e + eta)%R by ring.
  apply Rle_lt_trans with (Rabs (y - IZR K) + Rabs (y * e) + Rabs eta)%R.
  { apply Rle_trans with (1 := Rabs_triang _ _). apply Rplus_le_compat_r. apply Rabs_triang. }
  rewrite Rabs_mult.
  assert (A3 : (Rabs y * Rabs e <= S * ((1 + g) * (1 + G 3)) * u53)%R) by (apply Rmult_le_compat; try apply Rabs_pos; assumption).
  replace (S * ((1 + g) * (1 + G 3) * (1 + u53) - 1))%R with (S * ((1 + g) * (1 + G 3) - 1) + S * ((1 + g) * (1 + G 3)) * u53)%R in Hb by ring.
  lra.
Qed.

(* polygons and path spines: every vertex written by the second save is the integer of the first file, as long as
   (total variation S) x G(2 (n + 1) + 4) <= 1/4, e.g. S (2 n + 6) <= 2^50 *)
Theorem oas_points_stable_lemma (real : binary64) k0 steps :
  fin64 real = true -> (bpow radix2 (-100) <= B2R64 real <= bpow radix2 100)%R ->
  Forall step_ok steps -> Z.abs k0 < 2 ^ 53 ->
  let S := IZR (Z.abs k0 + steps_var steps) in
  let n := length steps in
  (S <= bpow radix2 62)%R -> (INR (2 * (n + 1) + 4) * u53 <= / 4)%R ->
  (S * G (2 * (n + 1) + 4) <= / 4)%R ->
  oas_cycle_points (read_oas_units b64_zero b64_zero real) k0 steps = map Some (int_points k0 steps).
Proof.
  intros Fr Br Hok Hk0 S n HS Hn Hb. set (st := read_oas_units b64_zero b64_zero real).
  destruct (oas_native_state real Fr Br) as (_ & _ & _ & _ & Ff & Bf & _ & _ & Fs & t & Et & Rs).
  fold st in Ff, Bf, Fs, Rs. cbv zeta in Bf, Rs.
  pose proof (bpow_gt_0 radix2 (-100)) as P100. pose proof u53_pos as U.
  assert (HS70 : (S <= bpow radix2 70)%R) by (apply Rle_trans with (1 := HS); apply bpow_le; lia).
  assert (Hn1 : (INR (2 * (n + 1)) * u53 <= / 4)%R).
  { apply Rle_trans with (2 := Hn). apply Rmult_le_compat_r; [lra|]. apply le_INR. lia. }
  pose proof (oas_points_close_lemma (os_factor st) k0 steps Ff Bf Hok Hk0 HS70 Hn1) as Hc.
  fold S n in Hc.
  unfold oas_cycle_points. revert Hc. generalize (oas_points (os_factor st) k0 steps) (int_points k0 steps).
  intros l1 l2 F2. induction F2 as [|v K l1' l2' (Fv & Herr & HK) _ IH]; [reflexivity|].
  cbn [map]. f_equal; [|exact IH].
  assert (Hg : (0 <= G (2 * (n + 1)) <= / 3)%R) by (split; [apply G_nonneg|apply G_third; exact Hn1]).
  assert (Hbb : (S * ((1 + G (2 * (n + 1))) * (1 + G 3) * (1 + u53) - 1) <= / 4)%R).
  { replace ((1 + G (2 * (n + 1))) * (1 + G 3) * (1 + u53) - 1)%R with (G (2 * (n + 1) + 4)); [exact Hb|].
    unfold G. replace (2 * (n + 1) + 4)%nat with (2 * (n + 1) + 3 + 1)%nat by lia. rewrite !pow_add. simpl. ring. }
  assert (HFp : (0 < B2R64 (os_factor st))%R) by lra.
  destruct (mult_back_abs v (oas_scaling_of st) K (B2R64 (os_factor st)) t S _ Fv Fs HFp Rs Et Herr Hg HK HS Hbb) as (Fp & Hz).
  unfold ow_coord. apply llround_val; [exact Fp|exact Hz|].
  assert (HK' : (Rabs (IZR K) <= bpow radix2 62)%R) by lra.
  rewrite <- abs_IZR, <- (IZR_Zpower radix2) in HK' by lia. apply le_IZR in HK'.
  change (Zpower radix2 62) with 4611686018427387904 in HK'. change (2 ^ 63) with 9223372036854775808. lia.
Qed.

(* a sufficient condition in integers for the premise of oas_points_stable: V (2 n + 6) <= 2^50 *)
Lemma G_linear m : (INR m * u53 <= / 4)%R -> (G m <= 4 / 3 * (INR m * u53))%R.
Proof.
  intros Hm. pose proof u53_pos as U. pose proof (pos_INR m) as Pm.
  assert (Hl : (INR m * u53 < 1)%R) by lra.
  apply Rle_trans with (1 := gamma_bound m Hl).
  apply (Rmult_le_reg_r (1 - INR m * u53)); [lra|]. unfold Rdiv. rewrite Rmult_assoc, Rinv_l by lra.
  assert (Q : (0 <= INR m * u53)%R) by (apply Rmult_le_pos; lra). nra.
Qed.

Corollary oas_points_stable_int_lemma (real : binary64) k0 steps :
  fin64 real = true -> (bpow radix2 (-100) <= B2R64 real <= bpow radix2 100)%R ->
  Forall step_ok steps -> Z.abs k0 < 2 ^ 53 ->
  2 * Z.of_nat (length steps) + 6 <= 2 ^ 50 ->
  (Z.abs k0 + steps_var steps) * (2 * Z.of_nat (length steps) + 6) <= 2 ^ 50 ->
  oas_cycle_points (read_oas_units b64_zero b64_zero real) k0 steps = map Some (int_points k0 steps).
Proof.
  intros Fr Br Hok Hk0 Hn Hb. pose proof u53_pos as U.
  set (V := Z.abs k0 + steps_var steps) in *. set (n := length steps) in *.
  pose proof (steps_var_nonneg steps) as Vs.
  assert (HV0 : 0 <= V) by (unfold V; lia).
  set (m := (2 * (n + 1) + 4)%nat).
  assert (Hm : INR m = IZR (2 * Z.of_nat n + 6)).
  { rewrite INR_IZR_INZ. f_equal. unfold m. lia. }
  assert (Hmu : (INR m * u53 <= / 8)%R).
  { rewrite Hm, u53_val. apply IZR_le in Hn. change (2 ^ 50) with 1125899906842624 in Hn. lra. }
  assert (HVle : V <= 2 ^ 50) by nia.
  apply oas_points_stable_lemma; try assumption; fold V n m.
  - apply IZR_le in HVle. apply Rle_trans with (1 := HVle). rewrite (IZR_Zpower radix2) by lia. apply bpow_le. lia.
  - lra.
  - assert (HG : (G m <= 4 / 3 * (INR m * u53))%R) by (apply G_linear; lra).
    apply IZR_le in HV0. apply IZR_le in Hb. rewrite mult_IZR, <- Hm in Hb. change (2 ^ 50) with 1125899906842624 in Hb.
    apply Rle_trans with (IZR V * (4 / 3 * (INR m * u53)))%R; [apply Rmult_le_compat_l; assumption|].
    rewrite u53_val. lra.
Qed.

(* ================================================================== 6. remove_overlapping_points after a load *)
Lemma b64_lt_spec (a b : binary64) : fin64 a = true -> fin64 b = true -> b64_lt a b = Rlt_bool (B2R64 a) (B2R64 b).
Proof.
  intros Fa Fb. unfold b64_lt, b64_compare. rewrite Bcompare_correct by assumption. unfold Rlt_bool.
  destruct (Rcompare (B2R64 a) (B2R64 b)); reflexivity.
Qed.

(* what the test computes, for two points at the same y: rnd(rnd(x1 - x0)^2) < rnd(tol^2) *)
Lemma overlap_test_value (tol x0 x1 y : binary64) :
  fin64 tol = true -> fin64 x0 = true -> fin64 x1 = true -> fin64 y = true ->
  (Rabs (B2R64 tol) <= bpow radix2 500)%R -> (Rabs (B2R64 x0) <= bpow radix2 500)%R -> (Rabs (B2R64 x1) <= bpow radix2 500)%R ->
  overlap_test tol x0 y x1 y
  = Rlt_bool (rnd64 (rnd64 (B2R64 x1 - B2R64 x0) * rnd64 (B2R64 x1 - B2R64 x0))) (rnd64 (B2R64 tol * B2R64 tol)).
Proof.
  intros Ft F0 F1 Fy Bt B0 B1. unfold overlap_test.
  destruct (b64_minus_ok x1 x0 F1 F0) as (Fdx & Rdx).
  { unfold Rminus. apply Rle_trans with (1 := Rabs_triang _ _). rewrite Rabs_Ropp.
    apply Rle_trans with (bpow radix2 500 + bpow radix2 500)%R; [lra|].
    apply Rle_trans with (bpow radix2 501); [|apply bpow_le; lia].
    change (bpow radix2 501) with (bpow radix2 (500 + 1)). rewrite bpow_plus. change (bpow radix2 1) with 2%R. lra. }
  destruct (b64_minus_ok y y Fy Fy) as (Fdy & Rdy).
  { rewrite Rminus_diag_eq, Rabs_R0 by reflexivity. apply bpow_ge_0. }
  rewrite Rminus_diag_eq, round_0 in Rdy by (reflexivity || apply valid_rnd_N).
  set (dx := b64_minus mode_NE x1 x0) in *. set (dy := b64_minus mode_NE y y) in *.
  assert (Bdx : (Rabs (B2R64 dx) <= bpow radix2 501)%R).
  { rewrite Rdx. apply rnd64_abs_le; [lia|]. unfold Rminus. apply Rle_trans with (1 := Rabs_triang _ _). rewrite Rabs_Ropp.
    change (bpow radix2 501) with (bpow radix2 (500 + 1)). rewrite bpow_plus. change (bpow radix2 1) with 2%R. lra. }
  destruct (b64_mult_ok dx dx Fdx Fdx) as (Fxx & Rxx & _).
  { rewrite Rabs_mult. apply Rle_trans with (bpow radix2 501 * bpow radix2 501)%R.
    - apply Rmult_le_compat; try apply Rabs_pos; assumption.
    - rewrite <- bpow_plus. apply bpow_le. lia. }
  destruct (b64_mult_ok dy dy Fdy Fdy) as (Fyy & Ryy & _).
  { rewrite Rdy, Rmult_0_l, Rabs_R0. apply bpow_ge_0. }
  rewrite Rdy, Rmult_0_l, round_0 in Ryy by apply valid_rnd_N.
  assert (Bxx : (Rabs (B2R64 (b64_mult mode_NE dx dx)) <= bpow radix2 1002)%R).
  { rewrite Rxx. apply rnd64_abs_le; [lia|]. rewrite Rabs_mult. apply Rle_trans with (bpow radix2 501 * bpow radix2 501)%R.
    - apply Rmult_le_compat; try apply Rabs_pos; assumption.
    - rewrite <- bpow_plus. apply bpow_le. lia. }
  destruct (b64_plus_ok _ _ Fxx Fyy) as (Fl & Rl).
  { rewrite Ryy, Rplus_0_r. apply Rle_trans with (1 := Bxx). apply bpow_le. lia. }
  rewrite Ryy, Rplus_0_r, Rxx in Rl.
  rewrite (rnd64_id (rnd64 _)) in Rl by (apply generic_format_round; [exact valid64g|apply valid_rnd_N]).
  destruct (b64_mult_ok tol tol Ft Ft) as (Ftt & Rtt & _).
  { rewrite Rabs_mult. apply Rle_trans with (bpow radix2 500 * bpow radix2 500)%R.
    - apply Rmult_le_compat; try apply Rabs_pos; assumption.
    - rewrite <- bpow_plus. apply bpow_le. lia. }
  rewrite (b64_lt_spec _ _ Fl Ftt), Rl, Rtt, Rdx. reflexivity.
Qed.

(* only a step whose floating-point length is below the tolerance is merged *)
Theorem overlap_merged_short_lemma (tol x0 x1 y : binary64) :
  fin64 tol = true -> fin64 x0 = true -> fin64 x1 = true -> fin64 y = true ->
  (0 < B2R64 tol <= bpow radix2 500)%R -> (Rabs (B2R64 x0) <= bpow radix2 500)%R -> (Rabs (B2R64 x1) <= bpow radix2 500)%R ->
  overlap_test tol x0 y x1 y = true ->
  (Rabs (B2R64 x1 - B2R64 x0) < B2R64 tol)%R.
Proof.
  intros Ft F0 F1 Fy Bt B0 B1 H.
  rewrite overlap_test_value in H; try assumption; [|rewrite Rabs_pos_eq; lra].
  set (D := (B2R64 x1 - B2R64 x0)%R) in *. set (T := B2R64 tol) in *.
  destruct (Rlt_or_le (Rabs D) T) as [Hlt|Hge]; [exact Hlt|exfalso].
  assert (HT : rnd64 T = T) by (apply rnd64_id; apply fmt64_B2R).
  assert (Hr : (T <= Rabs (rnd64 D))%R).
  { destruct (Rle_or_lt 0 D) as [Hp|Hn].
    - rewrite Rabs_pos_eq in Hge by exact Hp. rewrite Rabs_pos_eq.
      + rewrite <- HT. apply round_le; [exact valid64g|apply valid_rnd_N|exact Hge].
      + rewrite <- (round_0 radix2 (FLT_exp (-1074) 53) ZnearestE). apply round_le; [exact valid64g|apply valid_rnd_N|exact Hp].
    - rewrite Rabs_left in Hge by exact Hn.
      assert (Hle : (rnd64 D <= - T)%R).
      { replace (- T)%R with (rnd64 (- T)); [apply round_le; [exact valid64g|apply valid_rnd_N|lra]|].
        apply rnd64_id. apply generic_format_opp. apply fmt64_B2R. }
      rewrite Rabs_left1 by lra. lra. }
  assert (Hsq : (T * T <= rnd64 D * rnd64 D)%R).
  { replace (rnd64 D * rnd64 D)%R with (Rabs (rnd64 D) * Rabs (rnd64 D))%R by (rewrite <- Rabs_mult; apply Rabs_pos_eq; nra).
    apply Rmult_le_compat; lra. }
  assert (Hrr : (rnd64 (T * T) <= rnd64 (rnd64 D * rnd64 D))%R) by (apply round_le; [exact valid64g|apply valid_rnd_N|exact Hsq]).
  apply Rlt_bool_true_inv in H || (unfold Rlt_bool in H; destruct (Rcompare_spec (rnd64 (rnd64 D * rnd64 D)) (rnd64 (T * T))); try discriminate; lra).
Qed.

(* a one-grid-step segment after a load: merged only if the computed step is shorter than the tolerance; with
   tolerance = factor (the case after a native load, see the default instances below) never for a power-of-two factor *)
Theorem step_merged_short_lemma (f tol : binary64) k ky :
  fin64 f = true -> fin64 tol = true ->
  (bpow radix2 (-312) <= B2R64 f <= bpow radix2 252)%R -> (0 < B2R64 tol <= bpow radix2 500)%R ->
  - 2 ^ 31 <= k < 2 ^ 31 - 1 -> - 2 ^ 31 <= ky <= 2 ^ 31 ->
  step_merged f tol k ky = true ->
  (B2R64 (gds_coord f (k + 1)) - B2R64 (gds_coord f k) < B2R64 tol)%R.
Proof.
  intros Ff Ft Bf Bt Hk Hky H. unfold step_merged in H.
  pose proof (bpow_gt_0 radix2 (-312)) as P312.
  assert (Habs : (Rabs (B2R64 f) <= bpow radix2 992)%R).
  { rewrite Rabs_pos_eq by lra. apply Rle_trans with (1 := proj2 Bf). apply bpow_le. lia. }
  assert (core : forall z, - 2 ^ 31 <= z <= 2 ^ 31 -> fin64 (gds_coord f z) = true /\ (Rabs (B2R64 (gds_coord f z)) <= bpow radix2 500)%R).
  { intros z Hz. destruct (gds_coord_value f z Ff Habs Hz) as (Fc & Rc & _). split; [exact Fc|].
    rewrite Rc. apply rnd64_abs_le; [lia|]. rewrite Rabs_mult, (Rabs_pos_eq (B2R64 f)) by lra.
    apply Rle_trans with (bpow radix2 252 * bpow radix2 31)%R.
    - apply Rmult_le_compat; try lra; try apply Rabs_pos.
      rewrite <- abs_IZR, <- (IZR_Zpower radix2) by lia. apply IZR_le. change (Zpower radix2 31) with (2 ^ 31). lia.
    - rewrite <- bpow_plus. apply bpow_le. lia. }
  destruct (core k ltac:(lia)) as (F0 & B0). destruct (core (k + 1) ltac:(lia)) as (F1 & B1). destruct (core ky Hky) as (Fy & _).
  pose proof (overlap_merged_short_lemma tol _ _ _ Ft F0 F1 Fy Bt B0 B1 H) as Hs.
  apply Rabs_lt_inv in Hs. lra.
Qed.

Corollary step_not_merged_pow2_lemma (f : binary64) a k ky :
  fin64 f = true -> B2R64 f = bpow radix2 a -> -312 <= a <= 252 ->
  - 2 ^ 31 <= k < 2 ^ 31 - 1 -> - 2 ^ 31 <= ky <= 2 ^ 31 ->
  step_merged f f k ky = false.
Proof.
  intros Ff Ra Ha Hk Hky. destruct (step_merged f f k ky) eqn:Hm; [exfalso|reflexivity].
  assert (Bf : (bpow radix2 (-312) <= B2R64 f <= bpow radix2 252)%R) by (rewrite Ra; split; apply bpow_le; lia).
  assert (Bt : (0 < B2R64 f <= bpow radix2 500)%R) by (rewrite Ra; split; [apply bpow_gt_0|apply bpow_le; lia]).
  pose proof (step_merged_short_lemma f f k ky Ff Ff Bf Bt Hk Hky Hm) as Hs.
  assert (Habs : (Rabs (B2R64 f) <= bpow radix2 992)%R).
  { rewrite Ra, Rabs_pos_eq by apply bpow_ge_0. apply bpow_le. lia. }
  assert (exact : forall z, - 2 ^ 31 <= z <= 2 ^ 31 -> B2R64 (gds_coord f z) = (bpow radix2 a * IZR z)%R).
  { intros z Hz. destruct (gds_coord_value f z Ff Habs Hz) as (_ & Rc & _). rewrite Rc, Ra. apply rnd64_id.
    rewrite Rmult_comm. apply fmt64_mult_bpow.
    - apply fmt64_small_int. change (2 ^ 31) with 2147483648 in Hz. change (2 ^ 53) with 9007199254740992. lia.
    - destruct (Z.eq_dec z 0) as [->|Hz0]; [left; reflexivity|right].
      rewrite Rabs_mult, (Rabs_pos_eq (bpow radix2 a)) by apply bpow_ge_0.
      assert (Z1 : (1 <= Rabs (IZR z))%R) by (rewrite <- abs_IZR; apply IZR_le; lia).
      apply Rle_trans with (1 * bpow radix2 a)%R; [rewrite Rmult_1_l; apply bpow_le; lia|].
      apply Rmult_le_compat_r; [apply bpow_ge_0|exact Z1]. }
  rewrite (exact k ltac:(lia)), (exact (k + 1) ltac:(lia)), plus_IZR, Ra in Hs. lra.
Qed.

(* ================================================================== default units: computed instances *)
Definition b64_1em3 : binary64 := b64_of_bits 4562254508917369340.    (* 0x3F50624DD2F1A9FC *)
Definition b64_1em9 : binary64 := slack_P.
Definition b64_11em9 : binary64 := b64_of_bits 4487730721241523980.   (* 1.1e-8 = 0x3E479F505F35670C *)

(* GDSII, (1e-6, 1e-9), (1e-6, 1e-12), (1e-3, 1e-9): unit and precision re-load bit for bit, the second UNITS record is the
   first, and the default path tolerance IS the factor *)
Definition gds_default_ok (U P : binary64) : bool :=
  let st := gds_reload U P in
  (bits64 (us_unit st) =? bits64 U)%N && (bits64 (us_precision st) =? bits64 P)%N
  && (bits64 (us_tolerance st) =? bits64 (us_factor st))%N
  && (let '(a, b) := gw_units (us_unit st) (us_precision st) in let '(c, d) := gw_units U P in (a =? c)%N && (b =? d)%N).

Example gds_defaults_reload :
  gds_default_ok gr_1em6 b64_1em9 = true /\ gds_default_ok gr_1em6 b64_1em12 = true /\ gds_default_ok b64_1em3 b64_1em9 = true.
Proof. repeat split; vm_compute; reflexivity. Qed.

Definition oas_default_ok (P : binary64) : bool :=
  let st := oas_reload P in
  (bits64 (os_precision st) =? bits64 P)%N && (bits64 (os_tolerance st) =? bits64 (os_factor st))%N
  && (bits64 (ow_unit_real (os_precision st)) =? bits64 (ow_unit_real P))%N.

Example oas_defaults_reload : oas_default_ok b64_1em9 = true /\ oas_default_ok b64_1em12 = true.
Proof. split; vm_compute; reflexivity. Qed.

(* one-grid-step segments after a native load with the default units 1e-6 / 1e-9: factor = tolerance = the double 0.001;
   the steps 9 -> 10, 1024 -> 1025 and 2048 -> 2049 are merged (the upper point is dropped by the next save), 1 -> 2 is not;
   28 of the first 1000 steps are merged.  Same factor and tolerance for OASIS with precision 1e-9. *)
Example default_factor_gds :
  let st := gds_reload gr_1em6 b64_1em9 in
  bits64 (us_factor st) = bits64 b64_1em3 /\ bits64 (us_tolerance st) = bits64 b64_1em3.
Proof. cbv zeta. split; vm_compute; reflexivity. Qed.

Example default_factor_oas :
  let st := oas_reload b64_1em9 in
  bits64 (os_factor st) = bits64 b64_1em3 /\ bits64 (os_tolerance st) = bits64 b64_1em3.
Proof. cbv zeta. split; vm_compute; reflexivity. Qed.

Example step_merged_default :
  step_merged b64_1em3 b64_1em3 9 0 = true /\ step_merged b64_1em3 b64_1em3 1024 0 = true
  /\ step_merged b64_1em3 b64_1em3 2048 0 = true /\ step_merged b64_1em3 b64_1em3 1 0 = false
  /\ length (filter (fun k => step_merged b64_1em3 b64_1em3 (Z.of_nat k) 0) (seq 0 1000)) = 28%nat.
Proof. repeat split; vm_compute; reflexivity. Qed.

(* "repeated cycles change nothing more" fails for the precision of an OASIS library: with precision 1.1e-8 the START real
   (hence library.precision and every loaded double) moves by one unit in the last place in each of the first cycles *)
Theorem oas_precision_drift_refuted :
  exists P, fin64 P = true
    /\ let st1 := oas_reload P in let st2 := oas_reload (os_precision st1) in let st3 := oas_reload (os_precision st2) in
       os_precision st1 <> P /\ os_precision st2 <> os_precision st1 /\ os_precision st3 <> os_precision st2
       /\ os_factor st2 <> os_factor st1.
Proof.
  exists b64_11em9. split; [reflexivity|]. cbv zeta.
  repeat split; intros Heq; apply (f_equal bits64) in Heq; vm_compute in Heq; discriminate.
Qed.

(* ================================================================== the whole cycle from the saved precision (OASIS) *)
Corollary oas_save_load_save_lemma (P : binary64) k :
  fin64 P = true -> (bpow radix2 (-80) <= B2R64 P <= bpow radix2 80)%R -> Z.abs k <= 2 ^ 49 ->
  os_unit (oas_reload P) = gr_1em6 /\ oas_cycle_coord (oas_reload P) k = Some k.
Proof.
  intros FP BP Hk. pose proof (bpow_gt_0 radix2 (-80)) as P80. pose proof (bpow_gt_0 radix2 (-20)) as P20.
  destruct gr_1em6_facts as (F6 & _ & B6).
  assert (I6 : inb (-20) (-19) (B2R64 gr_1em6)) by (apply inb_pos; exact B6).
  assert (IP : inb (-80) 80 (B2R64 P)) by (apply inb_pos; exact BP).
  assert (NP : B2R64 P <> 0%R) by lra.
  destruct (b64_div_step gr_1em6 P (-20 - 80) (-19 - -80) F6 FP NP ltac:(lia) ltac:(lia) ltac:(lia)) as (Fr & _ & Ir & _ & e & He & Rr).
  { apply (inb_div (-20) (-19) (-80) 80); assumption. }
  fold (ow_unit_real P) in Fr, Ir, Rr.
  assert (Hpos : (0 < B2R64 (ow_unit_real P))%R).
  { rewrite Rr. apply Rabs_le_inv in He. pose proof u53_bounds. apply Rmult_lt_0_compat; [apply Rdiv_lt_0_compat; lra|lra]. }
  assert (Br : (bpow radix2 (-100) <= B2R64 (ow_unit_real P) <= bpow radix2 100)%R).
  { destruct Ir as (L & R). rewrite Rabs_pos_eq in L, R by lra. split; [exact L|].
    apply Rle_trans with (1 := R). apply bpow_le. lia. }
  unfold oas_reload. rewrite (oas_unit_real_reload_lemma P Fr ltac:(lra)).
  split.
  - unfold read_oas_units. change (b64_gt0 b64_zero) with false. reflexivity.
  - apply oas_load_save_stable_lemma; assumption.
Qed.

(* ================================================================== distinct grid points stay distinct after a load *)
Theorem gds_load_monotone_lemma r0 r1 z1 z2 :
  (r0 < 2 ^ 64)%N -> (r1 < 2 ^ 64)%N -> gds_positive r0 -> gds_positive r1 ->
  - 2 ^ 31 <= z1 -> z1 < z2 -> z2 <= 2 ^ 31 ->
  let f := us_factor (read_gds_units b64_zero b64_zero r0 r1) in
  (B2R64 (gds_coord f z1) < B2R64 (gds_coord f z2))%R /\ b64_compare (gds_coord f z1) (gds_coord f z2) = Some Lt.
Proof.
  intros H0 H1 P0 P1 Hz1 Hz Hz2 f.
  destruct (gds_native_state r0 r1 H0 H1 P0 P1) as (Ef & _ & _ & _ & Ff & _ & Bf & _).
  cbv zeta in Bf. rewrite <- Ef in Bf. fold f in Ff, Bf.
  assert (Bf' : (bpow radix2 (-1022) <= B2R64 f <= bpow radix2 992)%R).
  { split; [apply Rle_trans with (2 := proj1 Bf); apply bpow_le; lia|apply Rle_trans with (1 := proj2 Bf); apply bpow_le; lia]. }
  destruct (gds_coord_monotone_lemma f z1 z2 Ff Bf' Hz1 Hz Hz2) as (_ & _ & A & B). split; assumption.
Qed.

Theorem oas_load_monotone_lemma (real : binary64) z1 z2 :
  fin64 real = true -> (bpow radix2 (-100) <= B2R64 real <= bpow radix2 100)%R ->
  - 2 ^ 51 <= z1 -> z1 < z2 -> z2 <= 2 ^ 51 ->
  let f := os_factor (read_oas_units b64_zero b64_zero real) in
  (B2R64 (oas_coord f z1) < B2R64 (oas_coord f z2))%R.
Proof.
  intros Fr Br Hz1 Hz Hz2 f.
  destruct (oas_native_state real Fr Br) as (_ & _ & _ & _ & Ff & Bf & _). cbv zeta in Bf. fold f in Ff, Bf.
  pose proof (bpow_gt_0 radix2 (-100)) as P100. set (F := B2R64 f) in *.
  assert (Bf' : (bpow radix2 (-320) <= B2R64 f <= bpow radix2 260)%R).
  { fold F. split; [apply Rle_trans with (2 := proj1 Bf); apply bpow_le; lia|apply Rle_trans with (1 := proj2 Bf); apply bpow_le; lia]. }
  assert (core : forall z, - 2 ^ 51 <= z <= 2 ^ 51 -> (Rabs (B2R64 (oas_coord f z) - F * IZR z) <= F * / 4)%R).
  { intros z Hzr. unfold oas_coord.
    destruct (coord_E53 f z Ff Bf' ltac:(change (2 ^ 51) with 2251799813685248 in Hzr; change (2 ^ 53) with 9007199254740992; lia)) as (_ & a & Ea & Rc).
    fold F in Rc. rewrite Rc. replace (IZR z * F * a - F * IZR z)%R with (F * (IZR z * a - IZR z))%R by ring.
    rewrite Rabs_mult, (Rabs_pos_eq F) by lra. apply Rmult_le_compat_l; [lra|].
    apply Rle_trans with (1 := E_scale 1 a (IZR z) Ea). simpl pow.
    assert (Zb : (Rabs (IZR z) <= 2251799813685248)%R).
    { rewrite <- abs_IZR. apply IZR_le. change (2 ^ 51) with 2251799813685248 in Hzr. lia. }
    pose proof (Rabs_pos (IZR z)). pose proof u53_pos. rewrite u53_val in *. nra. }
  pose proof (core z1 ltac:(lia)) as C1. pose proof (core z2 ltac:(lia)) as C2.
  apply Rabs_le_inv in C1. apply Rabs_le_inv in C2.
  assert (Hgap : (F <= F * IZR z2 - F * IZR z1)%R).
  { rewrite <- Rmult_minus_distr_l. rewrite <- (Rmult_1_r F) at 1. apply Rmult_le_compat_l; [lra|].
    rewrite <- minus_IZR. apply IZR_le. lia. }
  lra.
Qed.

(* ================================================================== the hypotheses are satisfiable *)
Lemma finite_bounds s m e H :
  2 ^ 52 <= Z.pos m < 2 ^ 53 ->
  (bpow radix2 (52 + e) <= Rabs (B2R64 (B754_finite 53 1024 s m e H)) <= bpow radix2 (53 + e))%R.
Proof.
  intros Hm. cbn [B2R]. rewrite <- F2R_Zabs, abs_cond_Zopp. unfold F2R. cbn [Fnum Fexp]. rewrite Z.abs_eq by lia.
  rewrite !bpow_plus. split; (apply Rmult_le_compat_r; [apply bpow_ge_0|]); rewrite <- (IZR_Zpower radix2) by lia; apply IZR_le;
    [change (Zpower radix2 52) with (2 ^ 52)|change (Zpower radix2 53) with (2 ^ 53)]; lia.
Qed.

Example save_hypotheses_satisfiable :
  fin64 gr_1em6 = true /\ fin64 b64_1em9 = true /\ fin64 slack_x = true
  /\ (bpow radix2 (-200) <= B2R64 gr_1em6 <= bpow radix2 200)%R
  /\ (bpow radix2 (-200) <= B2R64 b64_1em9 <= bpow radix2 200)%R
  /\ (bpow radix2 (-500) <= Rabs (B2R64 slack_x) <= bpow radix2 500)%R
  /\ (bpow radix2 (-100) <= B2R64 gr_1em6 <= bpow radix2 100)%R
  /\ (bpow radix2 (-80) <= B2R64 b64_1em9 <= bpow radix2 80)%R.
Proof.
  destruct gr_1em6_facts as (F6 & _ & B6).
  assert (EP : exists H, b64_1em9 = B754_finite 53 1024 false 4835703278458517 (-82) H) by (vm_compute; eexists; reflexivity).
  assert (EX : exists H, slack_x = B754_finite 53 1024 false 6341068275337659 (-60) H) by (vm_compute; eexists; reflexivity).
  destruct EP as (HP & EP). destruct EX as (HX & EX).
  pose proof (finite_bounds false _ _ HP ltac:(vm_compute; split; [discriminate|reflexivity])) as BP. rewrite <- EP in BP.
  pose proof (finite_bounds false _ _ HX ltac:(vm_compute; split; [discriminate|reflexivity])) as BX. rewrite <- EX in BX.
  assert (PP : (0 < B2R64 b64_1em9)%R) by (rewrite EP; cbn [B2R cond_Zopp]; apply F2R_gt_0; reflexivity).
  rewrite Rabs_pos_eq in BP by lra.
  split; [exact F6|]. split; [reflexivity|]. split; [reflexivity|].
  split; [split; [apply Rle_trans with (2 := proj1 B6); apply bpow_le; lia|apply Rle_trans with (1 := proj2 B6); apply bpow_le; lia]|].
  split; [split; [apply Rle_trans with (2 := proj1 BP); apply bpow_le; lia|apply Rle_trans with (1 := proj2 BP); apply bpow_le; lia]|].
  split; [split; [apply Rle_trans with (2 := proj1 BX); apply bpow_le; lia|apply Rle_trans with (1 := proj2 BX); apply bpow_le; lia]|].
  split; [split; [apply Rle_trans with (2 := proj1 B6); apply bpow_le; lia|apply Rle_trans with (1 := proj2 B6); apply bpow_le; lia]|].
  split; [apply Rle_trans with (2 := proj1 BP); apply bpow_le; lia|apply Rle_trans with (1 := proj2 BP); apply bpow_le; lia].
Qed.

(* the record written for 1e-6 / 1e-9 (patterns 3E4189374BC6A7F0, 3944B82FA09B5A54) meets the hypotheses of gds_load_save_stable;
   by computation the extreme integers come back *)
Example gds_stable_hypotheses_satisfiable :
  gw_units gr_1em6 b64_1em9 = (4486017574425241584, 4126625673275726420)%N
  /\ (4486017574425241584 < 2 ^ 64)%N /\ (4126625673275726420 < 2 ^ 64)%N
  /\ gds_positive 4486017574425241584 /\ gds_positive 4126625673275726420
  /\ gds_cycle_coord (gds_reload gr_1em6 b64_1em9) (- 2 ^ 31) = Some (- 2 ^ 31)
  /\ gds_cycle_coord (gds_reload gr_1em6 b64_1em9) (2 ^ 31 - 1) = Some (2 ^ 31 - 1)
  /\ gds_cycle_width (gds_reload gr_1em6 b64_1em9) (-12345) = Some (-12345).
Proof.
  split; [vm_compute; reflexivity|]. split; [reflexivity|]. split; [reflexivity|].
  split; [vm_compute; split; [reflexivity|discriminate]|]. split; [vm_compute; split; [reflexivity|discriminate]|].
  repeat split; vm_compute; reflexivity.
Qed.

Example oas_points_hypotheses_satisfiable :
  let steps := [PStep 1000; PKeep; PStep (-1000); PInit; PStep 123456789] in
  Forall step_ok steps /\ Z.abs 5 < 2 ^ 53
  /\ 2 * Z.of_nat (length steps) + 6 <= 2 ^ 50
  /\ (Z.abs 5 + steps_var steps) * (2 * Z.of_nat (length steps) + 6) <= 2 ^ 50
  /\ oas_cycle_points (oas_reload b64_1em9) 5 steps = map Some (int_points 5 steps)
  /\ int_points 5 steps = [5; 1005; 1005; 5; 5; 123456794].
Proof.
  cbv zeta. split; [repeat constructor; cbn [step_ok]; vm_compute; reflexivity|].
  split; [vm_compute; reflexivity|]. split; [vm_compute; discriminate|]. split; [vm_compute; discriminate|].
  split; vm_compute; reflexivity.
Qed.

(* OASIS path points are accumulated (spine[1] = spine[0] + factor * delta): with precision 1e-9 the step 2048 -> 2049 is merged
   by the save after the load, the step 9 -> 10 (merged after a GDSII load, where spine[1] = factor * 10) is not *)
Example oas_step_merged_default :
  let st := oas_reload b64_1em9 in
  let merged k := match oas_points (os_factor st) k [PStep 1], oas_points (os_factor st) 0 [PStep 0] with
                  | [x0; x1], [y0; y1] => overlap_test (os_tolerance st) x0 y0 x1 y1
                  | _, _ => false
                  end in
  merged 2048 = true /\ merged 9 = false.
Proof. cbv zeta. split; vm_compute; reflexivity. Qed.
