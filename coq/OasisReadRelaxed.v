(* Guard (c5) of OasisRead.v relaxed.  The reader theorem (OasisReadProofs.cov_reader_ok_lemma) excludes CTRAPEZOID records of
   type 25 because read_oas leaves the modal height alone there while the strict decoder sets it to the width, so that a LATER
   record which re-uses the modal height is read differently (oas_reader_accepts_spec_refuted_ctrapezoid25).  gdstk's own
   writer emits such records (a square under OASIS_CONFIG_DETECT_TRAPEZOIDS alone) but never re-uses a modal dimension.  Here
   the guarded decoder is extended: a CTRAPEZOID record that [cov_record] rejects is accepted when only guard (c5) stands in
   the way, and the modal height is UNDEFINED afterwards (so that a later record re-using it is rejected).  The reader
   model is proved to agree with this extended decoder:
       xdecode cov_record5 bs = Some L -> read_oas_model bs = Ok (view L).
   The loop and the file level are written over an arbitrary record function [recf] (xloop, xdecode) so that the writer-side
   proofs (OasisWriteDetectRoundtrip.v) serve both cov_record and cov_record5. *)
Require Import Base Generated OasisInt OasisSpec OasisSpecProofs OasisRead OasisReadProofs.
Local Open Scope N_scope.

(* ================================================================== the loop and the file around a record function *)
Section RecF.
  Variable recf : bool -> dstate -> list N -> option step_result.
  Fixpoint xloop (fuel : nat) (ois : bool) (d : dstate) (bs : list N) : option layout :=
    match fuel with
    | O => None
    | S f =>
        match recf ois d bs with
        | None => None
        | Some (Done l) => Some l
        | Some (Cont d' bs') => xloop f ois d' bs'
        end
    end.
  (* OasisRead.cov_oas_decode with [xloop] for [cov_loop] *)
  Definition xdecode (bs : list N) : option layout :=
    let? bs := strip_prefix magic bs in
    let? '(id, bs) := rd_byte bs in
    if negb (id =? 1) then None else
    let? '(v, bs) := rd_string bs in
    let? _ := strip_prefix version_1_0 v in
    if negb (length v =? 3)%nat then None else
    let? '(u, bs) := cov_real bs in
    let? '(flag, bs) := rd_uint bs in
    if 1 <? flag then None else
    let? '(_, bs) := (if flag =? 0 then rd_count rd_uint 12 bs else Some ([], bs)) in
    xloop (S (length bs)) (flag =? 0) (d_init u) bs.
End RecF.

Lemma xloop_cov : forall f ois d bs, xloop cov_record f ois d bs = cov_loop f ois d bs.
Proof. induction f as [|f IH]; intros ois d bs; [reflexivity|]. cbn [xloop cov_loop]. destruct (cov_record ois d bs) as [[l|d' bs']|]; auto. Qed.
Lemma xdecode_cov bs : xdecode cov_record bs = cov_oas_decode bs.
Proof.
  unfold xdecode, cov_oas_decode.
  destruct (strip_prefix magic bs) as [b1|]; cbn [obnd]; [|reflexivity].
  destruct (rd_byte b1) as [[id b2]|]; cbn [obnd]; [|reflexivity]. destruct (negb (id =? 1)); [reflexivity|].
  destruct (rd_string b2) as [[v b3]|]; cbn [obnd]; [|reflexivity].
  destruct (strip_prefix version_1_0 v); cbn [obnd]; [|reflexivity]. destruct (negb (length v =? 3)%nat); [reflexivity|].
  destruct (cov_real b3) as [[u b4]|]; cbn [obnd]; [|reflexivity].
  destruct (rd_uint b4) as [[flag b5]|]; cbn [obnd]; [|reflexivity]. destruct (1 <? flag); [reflexivity|].
  destruct (if flag =? 0 then rd_count rd_uint 12 b5 else Some ([], b5)) as [[o b6]|]; cbn [obnd]; [|reflexivity].
  apply xloop_cov.
Qed.

(* ================================================================== the extended record function *)
(* the modal height becomes undefined *)
Definition forget_h (m : modal) : modal :=
  let g := m_g m in
  set_g m (mkG (g_layer g) (g_dtype g) (g_x g) (g_y g) (g_w g) None (g_poly g) (g_path g) (g_hw g) (g_exs g) (g_exe g)
               (g_ctype g) (g_rad g)) (m_rep m).
Definition cov_ctrapezoid5 (m : modal) (bs : list N) : option (element * modal * list N) :=
  let? '(e, m', bs') := cov_ctrapezoid_gen true m bs in Some (e, forget_h m', bs').
(* what cov_record accepts, as cov_record has it; otherwise a CTRAPEZOID record under the relaxed guard *)
Definition cov_record5 (ois : bool) (d : dstate) (bs : list N) : option step_result :=
  match cov_record ois d bs with
  | Some r => Some r
  | None =>
      match bs with
      | id :: t => if id =? 26 then cov_elem_step d (cov_ctrapezoid5 (d_modal d) t) else None
      | [] => None
      end
  end.
Lemma cov_record5_ext ois d bs r : cov_record ois d bs = Some r -> cov_record5 ois d bs = Some r.
Proof. intros H. unfold cov_record5. rewrite H. reflexivity. Qed.

(* ================================================================== the reader on a CTRAPEZOID record, any type *)
Lemma ctrap_dim_fst ty wr hr w0 h0 : ty < 26 ->
  (ctrap_uses_w ty = true -> wr = w0) -> (ctrap_uses_h ty = true -> hr = h0) ->
  fst (ctrap_dim ty wr hr) = ctrap_w ty w0 h0.
Proof.
  intros H Hw Hh. apply lt26_cases in H. cbn [In] in H.
  repeat (destruct H as [<-|H];
          [ try (specialize (Hw eq_refl)); try (specialize (Hh eq_refl)); subst; reflexivity |]).
  destruct H.
Qed.

Lemma rd_ctrapezoid5_ok m q info bs e m' bs' :
  modal_rel m q -> cov_ctrapezoid5 m (info :: bs) = Some (e, m', bs') ->
  exists q', m_ctrapezoid q info (mkS bs None) = ROk (welem e, q') (mkS bs' None) /\ modal_rel m' q'.
Proof.
  intros R H. unfold cov_ctrapezoid5 in H.
  destruct (cov_ctrapezoid_gen true m (info :: bs)) as [[[e0 m0] b0]|] eqn:E0; cbn [obnd] in H; [|discriminate].
  injection H as <- <- <-.
  destruct (rd_ctrapezoid_ok true m q info bs e0 m0 b0 R E0) as (q' & Hq & _).
  exists q'. split; [exact Hq|].
  (* the modal variables after the record: as in rd_ctrapezoid_ok, without the height *)
  unfold cov_ctrapezoid_gen in E0. cbn [rd_byte obnd] in E0.
  inv1 E0. inv1 E0. inv1 E0.
  destruct ((26 <=? n1) || (negb true && (n1 =? 25))) eqn:Ety; [discriminate|].
  apply orb_false_elim in Ety. destruct Ety as [Ety _]. apply N.leb_gt in Ety.
  inv1 E0. inv1 E0. inv1 E0. inv1 E0. inv_triple E0. injection E0 as <- <- <-.
  destruct (rep_fld_ok _ _ _ _ _ _ _ E7 (mr_rep _ _ R)) as (cur' & Hrep & Hrel).
  destruct (dim_fld_ok _ _ _ _ _ _ _ E3 (mr_w _ _ R)) as (wr & Hwr & Hw).
  destruct (dim_fld_ok _ _ _ _ _ _ _ E4 (mr_h _ _ R)) as (hr & Hhr & Hh).
  assert (Eq : q' = with_ctype (with_geom q n n0 (z, z0) (fst (ctrap_dim n1 wr hr)) (snd (ctrap_dim n1 wr hr)) cur') n1).
  { revert Hq. unfold m_ctrapezoid. start_rec R. fstep R. fstep R.
    rewrite (f_ctype_ok _ _ _ _ _ _ E2 (mr_ctype _ _ R)). cbv beta iota.
    rewrite Hwr. cbv beta iota. rewrite Hhr. fstep R. fstep R.
    destruct (ctrap_dim n1 wr hr) as [w1 h1]. cbn [fst snd]. intros Hq. injection Hq as _ <-. reflexivity. }
  subst q'. rewrite (ctrap_dim_fst n1 wr hr n2 n3 Ety Hw Hh).
  destruct R. constructor; cbn; auto.
Qed.

(* ================================================================== one record, the loop, the file *)
Lemma record_step5_ok ois d st id t : srel d st -> step_goal st id t (cov_record5 ois d (id :: t)).
Proof.
  intros R. unfold cov_record5. pose proof (record_step_ok ois d st id t R) as H0.
  destruct (cov_record ois d (id :: t)) as [r|]; [exact H0|]. clear H0.
  destruct (id =? 26) eqn:E26; [|exact I]. apply N.eqb_eq in E26. subst id.
  apply (step_elem 26 false cov_ctrapezoid5 m_ctrapezoid);
    [intros; eapply rd_ctrapezoid5_ok; eassumption|reflexivity|exact R|reflexivity].
Qed.

Lemma loop5_ok : forall f ois d bs L st f',
  srel d st -> xloop cov_record5 f ois d bs = Some L -> (f <= f')%nat -> r_loop f' st (mkS bs None) = Ok (view L).
Proof.
  induction f as [|f IH]; intros ois d bs L st f' R H Hf; [discriminate|].
  cbn [xloop] in H. destruct f' as [|f']; [lia|].
  destruct bs as [|id t]; [discriminate|].
  pose proof (record_step5_ok ois d st id t R) as Hs.
  destruct (cov_record5 ois d (id :: t)) as [[l|d' bs']|]; [| |discriminate]; cbn [step_goal] in Hs.
  - injection H as <-. cbn [r_loop]. unfold rd1. cbn [s_bs s_err]. rewrite Hs. reflexivity.
  - destruct Hs as (st' & Hh & R'). cbn [r_loop]. unfold rd1. cbn [s_bs s_err]. rewrite Hh.
    apply (IH ois d' bs' L st' f' R' H). lia.
Qed.

Theorem cov5_reader_ok_lemma : forall bs L, xdecode cov_record5 bs = Some L -> read_oas_model bs = Ok (view L).
Proof.
  intros bs L H. unfold xdecode in H.
  destruct (strip_prefix magic bs) as [b1|] eqn:Em; cbn [obnd] in H; [|discriminate].
  destruct (rd_byte b1) as [[id b2]|] eqn:Eid; cbn [obnd] in H; [|discriminate].
  destruct (negb (id =? 1)) eqn:E1; [discriminate|].
  apply negb_false_iff in E1. apply N.eqb_eq in E1. subst id.
  destruct (rd_string b2) as [[v b3]|] eqn:Ev; cbn [obnd] in H; [|discriminate].
  destruct (strip_prefix version_1_0 v) as [x|] eqn:Ever; cbn [obnd] in H; [|discriminate].
  destruct (negb (length v =? 3)%nat) eqn:El; [discriminate|]. apply negb_false_iff in El.
  destruct (cov_real b3) as [[u b4]|] eqn:Eu; cbn [obnd] in H; [|discriminate].
  destruct (rd_uint b4) as [[flag b5]|] eqn:Ef; cbn [obnd] in H; [|discriminate].
  destruct (1 <? flag) eqn:Efl; [discriminate|].
  destruct (if flag =? 0 then rd_count rd_uint 12 b5 else Some ([], b5)) as [[o b6]|] eqn:Eo; cbn [obnd] in H; [|discriminate].
  unfold read_oas_model, magic_start.
  assert (Hb1 : strip_prefix [1] b1 = Some b2).
  { destruct b1 as [|b t]; cbn [rd_byte] in Eid; [discriminate|]. injection Eid as -> ->. reflexivity. }
  rewrite (strip_prefix_app_l _ _ _ _ _ Em Hb1).
  rewrite (s_string_ok false _ _ _ Ev). cbn [s_err].
  rewrite (version_eq _ _ Ever El). cbn [negb].
  rewrite (s_real_ok _ _ _ Eu). rewrite (s_uint_ok _ _ _ Ef).
  assert (Hs4 : (if flag =? 0 then fold_left (fun s (_ : nat) => snd (s_uint s)) (seq 0 12) (mkS b5 None) else mkS b5 None)
                = mkS b6 None).
  { destruct (flag =? 0).
    - unfold rd_count in Eo. destruct (N.of_nat (length b5) <? 12); [discriminate|].
      exact (skip_uints_ok _ _ _ _ _ Eo).
    - injection Eo as _ <-. reflexivity. }
  rewrite Hs4. cbn [s_bs].
  apply (loop5_ok (S (length b6)) (flag =? 0) (d_init u) b6 L (q_init u)); [apply srel_init|exact H|lia].
Qed.

(* on a stream the unrelaxed guarded decoder accepts nothing changes *)
Lemma xloop5_cov : forall f ois d bs L, cov_loop f ois d bs = Some L -> xloop cov_record5 f ois d bs = Some L.
Proof.
  induction f as [|f IH]; intros ois d bs L H; [discriminate|]. cbn [cov_loop] in H. cbn [xloop].
  destruct (cov_record ois d bs) as [[l|d' bs']|] eqn:E; [| |discriminate]; rewrite (cov_record5_ext _ _ _ _ E); auto.
Qed.

(* the type-25 witness of OasisReadProofs (w5: a RECTANGLE after the CTRAPEZOID re-uses the modal height) is rejected by the
   relaxed decoder, as it must be *)
Example relaxed_rejects_w5 : xdecode cov_record5 w5_ctrapezoid25_modal = None.
Proof. vm_compute. reflexivity. Qed.

Check cov5_reader_ok_lemma.
Print Assumptions cov5_reader_ok_lemma.
