Require Import Base Contain Perimeter.
Require Import Extraction ExtrOcamlBasic.
Extraction Blacklist List String Int.
Extraction "../ocaml/extracted/c14.ml" contain spec_contain on_boundary wn
  contain_all contain_any inside all_inside any_inside mkpolygon
  signed_area2 area2 shoelace2 perimeter_edges edge_vectors Z.abs Z.mul Z.to_N
  perimeter_bits perimeter_Z spec_perimeter_Z_bits.
(* Z.to_N: brings the type `n` that ocaml/conv.ml mentions into the extracted module *)
