(* Proofs about OasisSig.v (unit oas_sig, properties C18 / C02).
   Main results (each `_lemma`, restated in Properties_C18S.v):
     crc32_chunking_lemma, checksum32_chunking_lemma   signature of a ++ b from the signature of a
     crc32_table_is_bitwise_lemma                      the table-driven CRC = the bit-at-a-time CRC
     checksum32_closed_form_lemma                      checksum32 = (start + sum of the bytes) mod 2^32
     os_signature_invariant_lemma                      any sequence of oasis_write / oasis_putc calls keeps
                                                       out.signature = signature of all bytes written
     write_end_signed_lemma                            the END code of write_oas = signed_file of the bytes before the scheme byte
     oas_validate_is_spec_lemma                        oas_validate (32 KiB loop, buffer, file position) = validate_spec,
                                                       for EVERY byte list and EVERY content of the uninitialised buffer
     writer_validator_agreement_lemma                  every signed file validates with the stored signature (scheme 1, 2)
     unsigned_file_lemma                               scheme 0 files of the writer: true, signature 0, ChecksumError
     truncation_collision_lemma                        a proper prefix that reports a match satisfies the collision condition
     truncation_in_end_padding_lemma                   every cut inside END's padding / signature: `No checksum` result
     truncation_refuted_crc_lemma / _sum_lemma         files (of the writer model) with a proper prefix that validates
     validate_short_lemma, validate_paths_lemma        short files, every path *)
Require Import Base Generated OasisInt GdsReal OasisReal OasisPlist Table PropList OasisSpec OasisWrite OasisSig.
Local Open Scope N_scope.

Local Opaque chunk.

(* ================================================================== bit tricks *)
Ltac xor_bits :=
  apply N.bits_inj; let k := fresh "k" in intro k; rewrite ?N.lxor_spec;
  repeat match goal with |- context [N.testbit ?a ?j] => destruct (N.testbit a j) end; reflexivity.

Lemma lxor_invol x m : N.lxor (N.lxor x m) m = x.
Proof. rewrite N.lxor_assoc, N.lxor_nilpotent, N.lxor_0_r. reflexivity. Qed.

Lemma lt_pow2_land a n : a < 2 ^ n -> N.land a (N.ones n) = a.
Proof. intro H. rewrite N.land_ones. apply N.mod_small, H. Qed.

Lemma lt_pow2_bits_high a n k : a < 2 ^ n -> n <= k -> N.testbit a k = false.
Proof. intros H Hk. rewrite <- (N.mod_small a (2 ^ n) H). apply N.mod_pow2_bits_high, Hk. Qed.

Lemma lxor_lt_pow2 a b n : a < 2 ^ n -> b < 2 ^ n -> N.lxor a b < 2 ^ n.
Proof.
  intros Ha Hb.
  assert (E : N.lxor a b = N.lxor a b mod 2 ^ n).
  { apply N.bits_inj. intro k. destruct (N.ltb_spec k n) as [H|H].
    - rewrite N.mod_pow2_bits_low by exact H. reflexivity.
    - rewrite N.mod_pow2_bits_high by exact H. rewrite N.lxor_spec.
      rewrite (lt_pow2_bits_high a n k Ha H), (lt_pow2_bits_high b n k Hb H). reflexivity. }
  rewrite E. apply N.mod_lt. apply N.pow_nonzero. discriminate.
Qed.

Lemma shiftr_lt_pow2 a k n : a < 2 ^ n -> N.shiftr a k < 2 ^ n.
Proof.
  intro H. rewrite N.shiftr_div_pow2.
  eapply N.le_lt_trans; [|exact H].
  apply N.div_le_upper_bound. { apply N.pow_nonzero. discriminate. }
  assert (1 <= 2 ^ k) by (apply N.neq_0_lt_0 in H || idtac; pose proof (N.pow_nonzero 2 k); lia).
  nia.
Qed.

Lemma two32_pow : two32 = 2 ^ 32. Proof. reflexivity. Qed.
Lemma mask32_ones : mask32 = N.ones 32. Proof. reflexivity. Qed.

(* ================================================================== CRC32 *)
Lemma crc_step_lt c : c < two32 -> crc_step c < two32.
Proof.
  intro H. rewrite two32_pow in *. unfold crc_step.
  destruct (N.testbit c 0).
  - apply lxor_lt_pow2; [reflexivity | apply shiftr_lt_pow2, H].
  - apply shiftr_lt_pow2, H.
Qed.
Lemma crc_step8_lt c : c < two32 -> crc_step8 c < two32.
Proof. intro H. unfold crc_step8. repeat apply crc_step_lt. exact H. Qed.

Lemma nth_map_seq {A} (f : nat -> A) (d : A) n k : (k < n)%nat -> nth k (map f (seq 0 n)) d = f k.
Proof.
  intro H. rewrite (nth_indep _ d (f 0%nat)) by (rewrite map_length, seq_length; exact H).
  rewrite (map_nth f), seq_nth by exact H. reflexivity.
Qed.

Lemma crc_lookup_small i : i < 256 -> crc_lookup i = crc_step8 i.
Proof.
  intro H. unfold crc_lookup, crc_rows.
  assert (Hr : N.shiftr i 4 < 16).
  { rewrite N.shiftr_div_pow2. apply N.div_lt_upper_bound; [discriminate|]. change (2 ^ 4 * 16) with 256. exact H. }
  assert (Hc : N.land i 15 < 16).
  { change 15 with (N.ones 4). rewrite N.land_ones. apply N.mod_lt. discriminate. }
  rewrite nth_map_seq by lia. rewrite nth_map_seq by lia. f_equal.
  rewrite Nat2N.inj_add, Nat2N.inj_mul, !N2Nat.id. change (N.of_nat 16) with 16.
  rewrite N.shiftr_div_pow2. change 15 with (N.ones 4). rewrite N.land_ones. change (2 ^ 4) with 16.
  symmetry. apply N.div_mod. discriminate.
Qed.
Lemma crc_lookup_lt i : crc_lookup i < two32.
Proof.
  unfold crc_lookup, crc_rows.
  destruct (Nat.ltb_spec (N.to_nat (N.shiftr i 4)) 16) as [Hr|Hr].
  - rewrite nth_map_seq by exact Hr.
    destruct (Nat.ltb_spec (N.to_nat (N.land i 15)) 16) as [Hc|Hc].
    + rewrite nth_map_seq by exact Hc. apply crc_step8_lt. unfold two32. lia.
    + rewrite nth_overflow by (rewrite map_length, seq_length; exact Hc). reflexivity.
  - rewrite (nth_overflow _ []) by (rewrite map_length, seq_length; exact Hr).
    destruct (N.to_nat (N.land i 15)); reflexivity.
Qed.

Lemma crc_byte_lt c b : c < two32 -> crc_byte c b < two32.
Proof.
  intro H. unfold crc_byte. rewrite two32_pow. apply lxor_lt_pow2.
  - rewrite <- two32_pow. apply crc_lookup_lt.
  - apply shiftr_lt_pow2. rewrite <- two32_pow. exact H.
Qed.
Lemma fold_crc_byte_lt buf : forall c, c < two32 -> fold_left crc_byte buf c < two32.
Proof. induction buf as [|b t IH]; intros c H; cbn [fold_left]; [exact H|]. apply IH, crc_byte_lt, H. Qed.

Lemma crc32_update_lt c buf : c < two32 -> crc32_update c buf < two32.
Proof.
  intro H. unfold crc32_update. rewrite two32_pow. apply lxor_lt_pow2; [|reflexivity].
  rewrite <- two32_pow. apply fold_crc_byte_lt. rewrite two32_pow. apply lxor_lt_pow2; [|reflexivity].
  rewrite <- two32_pow. exact H.
Qed.

Lemma crc32_update_nil c : crc32_update c [] = c.
Proof. unfold crc32_update. cbn [fold_left]. apply lxor_invol. Qed.

Theorem crc32_chunking_lemma : forall c a b, crc32_update (crc32_update c a) b = crc32_update c (a ++ b).
Proof.
  intros c a b. unfold crc32_update. rewrite lxor_invol, fold_left_app. reflexivity.
Qed.

(* ---- the table is the eight-step shift register *)
Lemma crc_step_linear x y : crc_step (N.lxor x y) = N.lxor (crc_step x) (crc_step y).
Proof.
  unfold crc_step. rewrite N.lxor_spec, N.shiftr_lxor.
  destruct (N.testbit x 0), (N.testbit y 0); cbn [xorb]; xor_bits.
Qed.
Lemma crc_step8_linear x y : crc_step8 (N.lxor x y) = N.lxor (crc_step8 x) (crc_step8 y).
Proof. unfold crc_step8. rewrite !crc_step_linear. reflexivity. Qed.

Lemma crc_step_shiftl y k : crc_step (N.shiftl y (N.succ k)) = N.shiftl y k.
Proof.
  unfold crc_step. rewrite N.shiftl_spec_low by lia.
  rewrite N.shiftr_shiftl_l by lia. f_equal. lia.
Qed.
Lemma crc_step8_shiftl8 y : crc_step8 (N.shiftl y 8) = y.
Proof.
  unfold crc_step8.
  change 8 with (N.succ 7). rewrite crc_step_shiftl.
  change 7 with (N.succ 6). rewrite crc_step_shiftl.
  change 6 with (N.succ 5). rewrite crc_step_shiftl.
  change 5 with (N.succ 4). rewrite crc_step_shiftl.
  change 4 with (N.succ 3). rewrite crc_step_shiftl.
  change 3 with (N.succ 2). rewrite crc_step_shiftl.
  change 2 with (N.succ 1). rewrite crc_step_shiftl.
  change 1 with (N.succ 0). rewrite crc_step_shiftl.
  apply N.shiftl_0_r.
Qed.

Lemma split_low8 x : x = N.lxor (N.land x 255) (N.shiftl (N.shiftr x 8) 8).
Proof.
  apply N.bits_inj. intro k. rewrite N.lxor_spec, N.land_spec.
  change 255 with (N.ones 8).
  destruct (N.ltb_spec k 8) as [H|H].
  - rewrite N.ones_spec_low, N.shiftl_spec_low by exact H. rewrite andb_true_r, xorb_false_r. reflexivity.
  - rewrite N.ones_spec_high, N.shiftl_spec_high' by exact H. rewrite N.shiftr_spec'.
    rewrite andb_false_r, xorb_false_l. f_equal. lia.
Qed.

Lemma crc_step8_split x : crc_step8 x = N.lxor (crc_step8 (N.land x 255)) (N.shiftr x 8).
Proof.
  rewrite (split_low8 x) at 1. rewrite crc_step8_linear, crc_step8_shiftl8. reflexivity.
Qed.

Lemma land255_lt x : N.land x 255 < 256.
Proof. change 255 with (N.ones 8). rewrite N.land_ones. apply N.mod_lt. discriminate. Qed.

Lemma crc_byte_is_bitwise c b : b < 256 -> crc_byte c b = crc_byte_bitwise c b.
Proof.
  intro Hb. unfold crc_byte, crc_byte_bitwise.
  rewrite crc_lookup_small by apply land255_lt.
  rewrite (crc_step8_split (N.lxor c b)). f_equal.
  rewrite N.shiftr_lxor.
  assert (E : N.shiftr b 8 = 0).
  { rewrite N.shiftr_div_pow2. apply N.div_small. exact Hb. }
  rewrite E, N.lxor_0_r. reflexivity.
Qed.

Theorem crc32_table_is_bitwise_lemma : forall c buf, bytes_ok buf -> crc32_update c buf = crc32_bitwise c buf.
Proof.
  intros c buf H. unfold crc32_update, crc32_bitwise. f_equal.
  generalize (N.lxor c mask32). induction H as [|b t Hb _ IH]; intro x; cbn [fold_left]; [reflexivity|].
  rewrite crc_byte_is_bitwise by exact Hb. apply IH.
Qed.

(* ================================================================== checksum32 *)
Lemma sum_byte_lt c b : sum_byte c b < two32.
Proof. unfold sum_byte. rewrite mask32_ones, N.land_ones. apply N.mod_lt. discriminate. Qed.

Theorem checksum32_chunking_lemma : forall c a b,
  checksum32_update (checksum32_update c a) b = checksum32_update c (a ++ b).
Proof. intros. unfold checksum32_update. rewrite fold_left_app. reflexivity. Qed.

Lemma checksum32_update_nil c : checksum32_update c [] = c.
Proof. reflexivity. Qed.

Lemma checksum32_update_lt c buf : c < two32 -> checksum32_update c buf < two32.
Proof.
  unfold checksum32_update. revert c. induction buf as [|b t IH]; intros c H; cbn [fold_left]; [exact H|].
  apply IH, sum_byte_lt.
Qed.

Lemma fold_sum_byte_mod l : forall x, fold_left sum_byte l (x mod two32) = (x + byte_sum l) mod two32.
Proof.
  induction l as [|b l IH]; intro x; cbn [fold_left byte_sum fold_right].
  - rewrite N.add_0_r. reflexivity.
  - unfold sum_byte at 2. rewrite mask32_ones, N.land_ones. change (2 ^ 32) with two32.
    rewrite IH. rewrite <- N.add_assoc. rewrite N.add_mod_idemp_l by discriminate. reflexivity.
Qed.
Theorem checksum32_closed_form_lemma : forall c buf, c < two32 -> checksum32_update c buf = checksum32_spec c buf.
Proof.
  intros c buf H. unfold checksum32_update, checksum32_spec. rewrite <- fold_sum_byte_mod. rewrite N.mod_small by exact H. reflexivity.
Qed.

(* ================================================================== le32 *)
Lemma of_le32_le32 s : s < two32 -> of_le32 (le32 s) = s.
Proof.
  intro H. unfold of_le32, le32. cbn [nth].
  pose proof (N.div_mod s 256 ltac:(discriminate)).
  pose proof (N.div_mod (s / 256) 256 ltac:(discriminate)).
  pose proof (N.div_mod (s / 256 / 256) 256 ltac:(discriminate)).
  assert (E2 : s / 65536 = s / 256 / 256) by (rewrite N.div_div by discriminate; reflexivity).
  assert (E3 : s / 16777216 = s / 256 / 256 / 256) by (rewrite !N.div_div by discriminate; reflexivity).
  rewrite E2, E3.
  assert (s / 256 / 256 / 256 < 256).
  { rewrite !N.div_div by discriminate. apply N.div_lt_upper_bound; [discriminate|]. unfold two32 in H. lia. }
  rewrite (N.mod_small (s / 256 / 256 / 256) 256) by assumption.
  lia.
Qed.
Lemma le32_length s : length (le32 s) = 4%nat. Proof. reflexivity. Qed.
Lemma le32_bytes s : bytes_ok (le32 s).
Proof. unfold le32, bytes_ok, is_byte. repeat constructor; apply N.mod_lt; discriminate. Qed.

(* ================================================================== the stream: signature bookkeeping *)
Lemma crc_write_is_update : forall fuel sig b, (length b <= fuel)%nat -> crc_write fuel sig b = crc32_update sig b.
Proof.
  induction fuel as [|f IH]; intros sig b H.
  - destruct b; [|cbn [length] in H; lia]. cbn. rewrite crc32_update_nil. reflexivity.
  - cbn [crc_write].
    destruct (N.ltb_spec UINT_MAX (N.of_nat (length b))) as [Hb|Hb].
    + rewrite IH.
      * rewrite crc32_chunking_lemma, firstn_skipn. reflexivity.
      * rewrite skipn_length. unfold UINT_MAX in *. lia.
    + destruct (N.ltb_spec 0 (N.of_nat (length b))) as [H0|H0]; [reflexivity|].
      destruct b; [|cbn [length] in H0; lia]. rewrite crc32_update_nil. reflexivity.
Qed.

Lemma running_sig_app (crc sum : bool) (a b : list N) :
  (if crc then crc32_update (running_sig crc sum a) b
   else if sum then checksum32_update (running_sig crc sum a) b
   else running_sig crc sum a) = running_sig crc sum (a ++ b).
Proof.
  unfold running_sig. destruct crc; [apply crc32_chunking_lemma|].
  destruct sum; [apply checksum32_chunking_lemma|reflexivity].
Qed.

Lemma os_write_of_bytes crc sum pre b : os_write b (os_of_bytes crc sum pre) = os_of_bytes crc sum (pre ++ b).
Proof.
  unfold os_write, os_of_bytes. cbn [os_rev os_crc os_sum os_sig]. f_equal.
  - rewrite <- !rev_alt, rev_append_rev, rev_app_distr. reflexivity.
  - rewrite crc_write_is_update by apply le_n. apply running_sig_app.
Qed.
Lemma os_putc_of_bytes crc sum pre c : os_putc c (os_of_bytes crc sum pre) = os_of_bytes crc sum (pre ++ [N.land c 255]).
Proof.
  unfold os_putc, os_of_bytes. cbn [os_rev os_crc os_sum os_sig]. f_equal.
  - rewrite <- !rev_alt, rev_app_distr. reflexivity.
  - apply running_sig_app.
Qed.
Lemma os_open_of_bytes crc sum : os_open crc sum = os_of_bytes crc sum [].
Proof.
  unfold os_open, os_of_bytes, running_sig, crc32_init. rewrite crc32_update_nil.
  destruct crc, sum; reflexivity.
Qed.

(* after ANY sequence of calls out.signature is the signature of the whole output *)
Theorem os_signature_invariant_lemma : forall crc sum ops,
  fold_left os_apply ops (os_open crc sum) = os_of_bytes crc sum (concat (map op_bytes ops)).
Proof.
  intros crc sum ops. rewrite os_open_of_bytes.
  change (concat (map op_bytes ops)) with ([] ++ concat (map op_bytes ops)).
  generalize (@nil N). induction ops as [|o t IH]; intro pre; cbn [fold_left map concat].
  - rewrite app_nil_r. reflexivity.
  - destruct o as [b|c]; cbn [os_apply op_bytes].
    + rewrite os_write_of_bytes, IH, app_assoc. reflexivity.
    + rewrite os_putc_of_bytes, IH, app_assoc. reflexivity.
Qed.

(* ------------------------------------------------------------------ END *)
Lemma enc_uint_f_len f : forall v, (1 <= length (enc_uint_f f v) <= S f)%nat.
Proof.
  induction f as [|f IH]; intro v; cbn [enc_uint_f].
  - cbn [length]. lia.
  - destruct (0 <? N.shiftr v 7); cbn [length]; [specialize (IH (N.shiftr v 7))|]; lia.
Qed.
Lemma enc_uint_len v : (1 <= length (enc_uint v) <= 10)%nat.
Proof. apply enc_uint_f_len. Qed.

Lemma end_offsets_len cn ts pn ps : (12 <= length (end_offsets cn ts pn ps) <= 48)%nat.
Proof.
  unfold end_offsets. repeat (rewrite app_length || cbn [length]).
  pose proof (enc_uint_len cn). pose proof (enc_uint_len ts). pose proof (enc_uint_len pn). pose proof (enc_uint_len ps).
  lia.
Qed.

Lemma pad_loop_of_bytes crc sum : forall fuel k pre, (N.to_nat k <= fuel)%nat ->
  pad_loop fuel k (os_of_bytes crc sum pre) = Ok (os_of_bytes crc sum (pre ++ repeat 0 (N.to_nat k))).
Proof.
  induction fuel as [|f IH]; intros k pre H.
  - assert (k = 0) by lia. subst k. cbn. rewrite app_nil_r. reflexivity.
  - cbn [pad_loop]. destruct (N.ltb_spec 0 k) as [Hk|Hk].
    + rewrite os_putc_of_bytes, IH by lia. change (N.land 0 255) with 0.
      replace (N.to_nat k) with (S (N.to_nat (k - 1))) by lia.
      cbn [repeat]. rewrite <- app_assoc. reflexivity.
    + assert (k = 0) by lia. subst k. cbn [N.to_nat repeat]. rewrite app_nil_r. reflexivity.
Qed.

Lemma usub_small a b : b <= a -> a < two64 -> usub a b = a - b.
Proof.
  intros H1 H2. unfold usub.
  replace (a + two64 - b) with (a - b + 1 * two64) by lia.
  rewrite N.mod_add by discriminate. apply N.mod_small. lia.
Qed.

Lemma pad_len_of_val signed cn ts pn ps :
  pad_len_of signed cn ts pn ps = (if signed then 248 else 252) - N.of_nat (length (end_offsets cn ts pn ps)).
Proof.
  unfold pad_len_of. pose proof (end_offsets_len cn ts pn ps).
  apply usub_small; destruct signed; unfold two64; lia.
Qed.

Lemma os_out_of_bytes crc sum l : os_out (os_of_bytes crc sum l) = l. Proof. unfold os_out, os_of_bytes. cbn [os_rev]. rewrite <- !rev_alt. apply rev_involutive. Qed.
Lemma os_ftell_of_bytes crc sum l : os_ftell (os_of_bytes crc sum l) = N.of_nat (length l).
Proof. unfold os_ftell, os_of_bytes. cbn [os_rev]. rewrite <- rev_alt, rev_length. reflexivity. Qed.
Lemma os_out_fwrite_raw b crc sum l : os_out (os_fwrite_raw b (os_of_bytes crc sum l)) = l ++ b.
Proof.
  unfold os_out, os_fwrite_raw, os_of_bytes. cbn [os_rev]. rewrite <- !rev_alt, rev_append_rev, rev_app_distr, !rev_involutive. reflexivity.
Qed.
Lemma os_crc_of_bytes crc sum l : os_crc (os_of_bytes crc sum l) = crc. Proof. reflexivity. Qed.
Lemma os_sum_of_bytes crc sum l : os_sum (os_of_bytes crc sum l) = sum. Proof. reflexivity. Qed.
Lemma os_sig_of_bytes crc sum l : os_sig (os_of_bytes crc sum l) = running_sig crc sum l. Proof. reflexivity. Qed.

(* the END code of write_oas on a stream whose signature is up to date: the closed form *)
Theorem write_end_signed_lemma : forall crc sum pre cn ts pn ps,
  N.of_nat (length pre) + 512 < two64 ->
  write_end (os_of_bytes crc sum pre) cn ts pn ps =
  Ok (signed_file (scheme_of crc sum) (pre ++ end_body (crc || sum) cn ts pn ps)).
Proof.
  intros crc sum pre cn ts pn ps Hlen.
  unfold write_end, os_write_uint.
  repeat (rewrite os_putc_of_bytes || rewrite os_write_of_bytes).
  rewrite !os_ftell_of_bytes, !os_crc_of_bytes, !os_sum_of_bytes.
  change (N.land OasisRecord_END 255) with 2. change (N.land 1 255) with 1. change (N.land 0 255) with 0.
  (* the byte list written before the padding length *)
  set (offs := end_offsets cn ts pn ps).
  assert (Epre : (((((((((((((pre ++ [2]) ++ [1]) ++ enc_uint cn) ++ [1]) ++ enc_uint ts) ++ [1]) ++ enc_uint pn) ++ [1]) ++
                  enc_uint ps) ++ [1]) ++ [0]) ++ [1]) ++ [0]) = pre ++ 2 :: offs).
  { unfold offs, end_offsets. repeat rewrite <- app_assoc. cbn [app]. reflexivity. }
  rewrite Epre. clear Epre.
  pose proof (end_offsets_len cn ts pn ps) as HL. fold offs in HL.
  set (F := N.of_nat (length pre)) in *.
  assert (EF1 : N.of_nat (length (pre ++ [2])) = F + 1) by (rewrite app_length; cbn [length]; unfold F; lia).
  assert (EF2 : N.of_nat (length (pre ++ 2 :: offs)) = F + 1 + N.of_nat (length offs))
    by (rewrite app_length; cbn [length]; unfold F; lia).
  rewrite EF1, EF2.
  assert (Epad : usub (if crc || sum then usub ((256 - 1 - 2 - 1 + (F + 1)) mod two64) 4
                       else (256 - 1 - 2 - 1 + (F + 1)) mod two64)
                      ((F + 1 + N.of_nat (length offs)) mod two64) = pad_len_of (crc || sum) cn ts pn ps).
  { rewrite pad_len_of_val. fold offs.
    change (256 - 1 - 2 - 1) with 252.
    rewrite (N.mod_small (252 + (F + 1))) by (unfold two64 in *; lia).
    rewrite (N.mod_small (F + 1 + N.of_nat (length offs))) by (unfold two64 in *; lia).
    destruct (crc || sum).
    - rewrite (usub_small (252 + (F + 1)) 4) by (unfold two64 in *; lia).
      rewrite usub_small by (unfold two64 in *; lia). lia.
    - rewrite usub_small by (unfold two64 in *; lia). lia. }
  rewrite Epad.
  set (P := pad_len_of (crc || sum) cn ts pn ps).
  assert (HP : (N.to_nat P <= 256)%nat).
  { unfold P. rewrite pad_len_of_val. destruct (crc || sum); lia. }
  rewrite pad_loop_of_bytes by exact HP.
  rewrite !os_crc_of_bytes, !os_sum_of_bytes.
  assert (Ebody : ((pre ++ 2 :: offs) ++ enc_uint P) ++ repeat 0 (N.to_nat P) = pre ++ end_body (crc || sum) cn ts pn ps).
  { unfold end_body. fold offs. change OasisRecord_END with 2.
    change (usub (if crc || sum then 248 else 252) (N.of_nat (length offs))) with P.
    repeat rewrite <- app_assoc. cbn [app]. reflexivity. }
  rewrite Ebody.
  set (body := pre ++ end_body (crc || sum) cn ts pn ps).
  unfold signed_file, scheme_of, sig_of.
  destruct crc.
  - rewrite os_putc_of_bytes. change (N.land 1 255) with 1.
    rewrite os_out_fwrite_raw, os_sig_of_bytes. cbn [N.eqb Pos.eqb orb running_sig]. reflexivity.
  - destruct sum.
    + rewrite os_putc_of_bytes. change (N.land 2 255) with 2.
      rewrite os_out_fwrite_raw, os_sig_of_bytes. cbn [N.eqb Pos.eqb orb running_sig]. reflexivity.
    + rewrite os_putc_of_bytes. change (N.land 0 255) with 0.
      rewrite os_out_of_bytes. cbn [N.eqb orb]. reflexivity.
Qed.

(* without a signature request: exactly the END record of OasisWrite.v *)
Lemma end_body_unsigned cn ts pn ps : end_body false cn ts pn ps ++ [0] = end_record_w cn ts pn ps.
Proof.
  unfold end_body, end_record_w, end_offsets. cbn [app]. f_equal. repeat rewrite <- app_assoc. reflexivity.
Qed.

(* ================================================================== oas_validate = validate_spec *)
Lemma chunk_pos : (0 < chunk)%nat.
Proof. Local Transparent chunk. unfold chunk. Local Opaque chunk. lia. Qed.

Lemma bytes_eqb_eq : forall a b, list_eqb N.eqb a b = true <-> a = b.
Proof.
  induction a as [|x a IH]; destruct b as [|y b]; cbn [list_eqb]; split; intro H; try reflexivity; try discriminate.
  - apply andb_true_iff in H. destruct H as [H1 H2]. apply N.eqb_eq in H1. apply IH in H2. subst. reflexivity.
  - injection H as -> ->. rewrite N.eqb_refl. cbn [andb]. apply IH. reflexivity.
Qed.

Lemma strip_prefix_iff : forall p bs r, strip_prefix p bs = Some r <-> bs = p ++ r.
Proof.
  induction p as [|a p IH]; intros bs r; cbn [strip_prefix app].
  - split; intro H; [injection H as ->; reflexivity | subst; reflexivity].
  - destruct bs as [|b t]; [split; intro H; discriminate|].
    destruct (N.eqb_spec a b) as [->|Hn].
    + rewrite IH. split; intro H; [subst; reflexivity | injection H as ->; reflexivity].
    + split; intro H; [discriminate | injection H as H1 H2; congruence].
Qed.

Lemma oas_header_len : length oas_header = 14%nat. Proof. reflexivity. Qed.

Lemma has_magic_iff bs : has_magic bs = true <-> exists r, bs = oas_header ++ r.
Proof.
  unfold has_magic. destruct (strip_prefix oas_header bs) as [r|] eqn:E.
  - apply strip_prefix_iff in E. split; [eauto|reflexivity].
  - split; [discriminate|]. intros [r Hr]. apply strip_prefix_iff in Hr. congruence.
Qed.

Lemma has_magic_len bs : has_magic bs = true -> (14 <= length bs)%nat.
Proof. intro H. apply has_magic_iff in H. destruct H as [r ->]. rewrite app_length, oas_header_len. lia. Qed.

Lemma header_test bs :
  (length (fread_at 0 header_len bs) <? header_len)%nat || negb (list_eqb N.eqb (fread_at 0 header_len bs) oas_header)
  = negb (has_magic bs).
Proof.
  unfold fread_at, header_len. cbn [skipn].
  destruct (has_magic bs) eqn:E.
  - apply has_magic_iff in E. destruct E as [r ->].
    change (firstn 14 (oas_header ++ r)) with oas_header.
    rewrite (proj2 (bytes_eqb_eq _ _) eq_refl). reflexivity.
  - cbn [negb]. destruct (Nat.ltb_spec (length (firstn 14 bs)) 14) as [H|H]; [reflexivity|].
    cbn [orb]. destruct (list_eqb N.eqb (firstn 14 bs) oas_header) eqn:E2; [|reflexivity].
    apply bytes_eqb_eq in E2.
    assert (has_magic bs = true); [|congruence].
    apply has_magic_iff. exists (skipn 14 bs). rewrite <- E2. symmetry. apply firstn_skipn.
Qed.

Lemma firstn_add {A} (a b : nat) (l : list A) : firstn (a + b) l = firstn a l ++ firstn b (skipn a l).
Proof.
  revert l. induction a as [|a IH]; intro l; cbn [plus firstn skipn app]; [reflexivity|].
  destruct l as [|x l]; [rewrite firstn_nil; reflexivity|]. cbn [firstn skipn app]. rewrite IH. reflexivity.
Qed.
Lemma skipn_add {A} (a b : nat) (l : list A) : skipn (a + b) l = skipn b (skipn a l).
Proof.
  revert l. induction a as [|a IH]; intro l; cbn [plus skipn]; [reflexivity|].
  destruct l as [|x l]; [rewrite skipn_nil; reflexivity|]. apply IH.
Qed.

Lemma fread_full pos n bs : (pos + n <= length bs)%nat -> length (fread_at pos n bs) = n.
Proof. intro H. unfold fread_at. rewrite firstn_length, skipn_length. lia. Qed.

Lemma overlay_full got buffer n : length got = n -> firstn n (overlay got buffer) = got.
Proof. intros <-. unfold overlay. rewrite firstn_app, Nat.sub_diag, firstn_all. cbn [firstn]. apply app_nil_r. Qed.

Section LoopProofs.
  Variable upd : N -> list N -> N.
  Hypothesis upd_app : forall c a b, upd (upd c a) b = upd c (a ++ b).
  Hypothesis upd_nil : forall c, upd c [] = c.

  (* the loop consumes whole 32 KiB blocks, never reads short, never runs out of fuel; whatever the buffer held *)
  Lemma sig_loop_spec : forall fuel bs pos size buffer sig err,
    (size <= fuel)%nat -> (pos + size <= length bs)%nat ->
    exists size1 buffer1,
      sig_loop upd fuel bs pos size buffer sig err
        = Ok ((pos + (size - size1))%nat, size1, buffer1, upd sig (firstn (size - size1) (skipn pos bs)), err)
      /\ (size1 < chunk)%nat /\ (size1 <= size)%nat.
  Proof.
    pose proof chunk_pos as HK.
    induction fuel as [|f IH]; intros bs pos size buffer sig err Hf Hlen.
    - assert (size = 0)%nat by lia. subst size. cbn [sig_loop].
      destruct (Nat.leb_spec chunk 0) as [H|H]; [lia|].
      exists 0%nat, buffer. cbn [Nat.sub firstn]. rewrite Nat.add_0_r, upd_nil. split; [reflexivity|lia].
    - cbn [sig_loop]. destruct (Nat.leb_spec chunk size) as [H|H].
      + pose proof (fread_full pos chunk bs ltac:(lia)) as Hgot.
        rewrite Hgot. rewrite Nat.ltb_irrefl.
        rewrite (overlay_full _ _ _ Hgot).
        destruct (IH bs (pos + chunk)%nat (size - chunk)%nat (overlay (fread_at pos chunk bs) buffer)
                     (upd sig (fread_at pos chunk bs)) err ltac:(lia) ltac:(lia)) as (size1 & buffer1 & E & H1 & H2).
        exists size1, buffer1. rewrite E. split; [|lia].
        replace (pos + chunk + (size - chunk - size1))%nat with (pos + (size - size1))%nat by lia.
        assert (Eu : upd (upd sig (fread_at pos chunk bs)) (firstn (size - chunk - size1) (skipn (pos + chunk) bs))
                     = upd sig (firstn (size - size1) (skipn pos bs))).
        { rewrite upd_app. f_equal. unfold fread_at.
          replace (size - size1)%nat with (chunk + (size - chunk - size1))%nat by lia.
          rewrite firstn_add, skipn_add. reflexivity. }
        rewrite Eu. reflexivity.
      + exists size, buffer. rewrite Nat.sub_diag, Nat.add_0_r. cbn [firstn]. rewrite upd_nil.
        split; [reflexivity|lia].
  Qed.

  Lemma sig_branch_spec sig0 stack bs size file_sum : (size <= length bs)%nat ->
    sig_branch upd sig0 stack bs size file_sum =
    Ok (let s := upd sig0 (firstn size bs) in mkV (s =? of_le32 (skipn 1 file_sum)) (Some s) None).
  Proof.
    intro H. unfold sig_branch.
    destruct (sig_loop_spec (length bs) bs 0 size stack sig0 None H ltac:(lia)) as (size1 & buffer1 & E & H1 & H2).
    rewrite E. change (skipn 0 bs) with bs. rewrite Nat.add_0_l.
    pose proof (fread_full (size - size1) size1 bs ltac:(lia)) as Hgot.
    rewrite Hgot, Nat.ltb_irrefl. rewrite (overlay_full _ _ _ Hgot).
    rewrite upd_app. unfold fread_at.
    rewrite <- firstn_add. replace (size - size1 + size1)%nat with size by lia.
    cbv zeta. match goal with |- context [negb ?c] => destruct c end; reflexivity.
  Qed.
End LoopProofs.

(* oas_validate, with its chunk loop, buffer and file position, computes validate_spec - for every file and whatever the
   uninitialised buffer holds; in particular it never hangs and its short-read branches are never taken *)
Theorem oas_validate_is_spec_lemma : forall stack bs, oas_validate_gen stack bs = Ok (validate_spec bs).
Proof.
  intros stack bs. unfold oas_validate_gen, validate_spec.
  rewrite header_test.
  destruct (has_magic bs) eqn:Em; cbn [negb]; [|reflexivity].
  pose proof (has_magic_len bs Em) as Hlen.
  destruct (Nat.ltb_spec (length bs) 5) as [H5|H5]; [lia|].
  set (n := length bs) in *.
  assert (Hfs : fread_at (n - 5) 5 bs = skipn (n - 5) bs).
  { unfold fread_at. apply firstn_all2. rewrite skipn_length. fold n. lia. }
  rewrite Hfs.
  assert (Hl5 : length (skipn (n - 5) bs) = 5%nat) by (rewrite skipn_length; fold n; lia).
  rewrite Hl5. cbn [Nat.ltb Nat.leb].
  assert (Hn0 : nth 0 (skipn (n - 5) bs) 0 = nth (n - 5) bs 0).
  { rewrite <- (firstn_skipn (n - 5) bs) at 2. rewrite app_nth2 by (rewrite firstn_length; lia).
    rewrite firstn_length. fold n. replace (n - 5 - Nat.min (n - 5) n)%nat with 0%nat by lia. reflexivity. }
  rewrite Hn0.
  assert (Hsk : skipn 1 (skipn (n - 5) bs) = skipn (n - 4) bs).
  { rewrite <- skipn_add. f_equal. lia. }
  replace (n - 5 + 1)%nat with (n - 4)%nat by lia.
  unfold sig_of, crc32_init.
  destruct (nth (n - 5) bs 0 =? 1) eqn:E1.
  - cbn [orb]. rewrite sig_branch_spec; [|apply crc32_chunking_lemma|apply crc32_update_nil|fold n; lia].
    rewrite Hsk, crc32_update_nil. reflexivity.
  - destruct (nth (n - 5) bs 0 =? 2) eqn:E2; cbn [orb]; [|reflexivity].
    rewrite sig_branch_spec; [|apply checksum32_chunking_lemma|apply checksum32_update_nil|fold n; lia].
    rewrite Hsk. reflexivity.
Qed.

Corollary oas_validate_model_is_spec bs : oas_validate_model bs = Ok (validate_spec bs).
Proof. apply oas_validate_is_spec_lemma. Qed.

(* the result does not depend on what the stack array held; no crash, no hang, for every file *)
Theorem oas_validate_total_lemma : forall stack bs,
  oas_validate_gen stack bs = oas_validate_model bs /\ oas_validate_model bs <> Crash /\ oas_validate_model bs <> Hang.
Proof.
  intros. rewrite oas_validate_model_is_spec, oas_validate_is_spec_lemma. repeat split; discriminate.
Qed.


(* every path of the function, by the shape of the file *)
Theorem validate_paths_lemma : forall bs,
  (has_magic bs = false /\ validate_spec bs = invalid_file) \/
  (has_magic bs = true /\ (14 <= length bs)%nat /\
   let b := nth (length bs - 5) bs 0 in
   ((b <> 1 /\ b <> 2 /\ validate_spec bs = no_checksum) \/
    ((b = 1 \/ b = 2) /\
     let s := sig_of b (firstn (length bs - 4) bs) in
     validate_spec bs = mkV (s =? of_le32 (skipn (length bs - 4) bs)) (Some s) None))).
Proof.
  intro bs. unfold validate_spec. destruct (has_magic bs) eqn:Em; cbn [negb]; [right|left; split; reflexivity].
  split; [reflexivity|]. split; [apply has_magic_len, Em|]. cbv zeta.
  destruct (N.eqb_spec (nth (length bs - 5) bs 0) 1) as [E1|E1].
  - right. split; [left; exact E1|]. reflexivity.
  - destruct (N.eqb_spec (nth (length bs - 5) bs 0) 2) as [E2|E2].
    + right. split; [right; exact E2|]. reflexivity.
    + left. repeat split; assumption.
Qed.

(* files shorter than the header: InvalidFile, nothing stored in *signature *)
Theorem validate_short_lemma : forall bs, (length bs < 14)%nat -> oas_validate_model bs = Ok invalid_file.
Proof.
  intros bs H. rewrite oas_validate_model_is_spec. f_equal. unfold validate_spec.
  destruct (has_magic bs) eqn:Em; [apply has_magic_len in Em; lia|reflexivity].
Qed.

(* ================================================================== writer / validator agreement *)
Lemma sig_of_lt scheme bytes : sig_of scheme bytes < two32.
Proof.
  unfold sig_of. destruct (scheme =? 1).
  - apply crc32_update_lt. reflexivity.
  - apply checksum32_update_lt. reflexivity.
Qed.

Lemma has_magic_app a b : has_magic a = true -> has_magic (a ++ b) = true.
Proof. intro H. apply has_magic_iff in H. destruct H as [r ->]. apply has_magic_iff. exists (r ++ b). apply app_assoc_reverse. Qed.

(* the shape lemma: a file seen as  x ++ [b] ++ (4 bytes) *)
Lemma validate_spec_shape x b y : has_magic (x ++ b :: y) = true -> length y = 4%nat ->
  validate_spec (x ++ b :: y) =
  if (b =? 1) || (b =? 2) then let s := sig_of b (x ++ [b]) in mkV (s =? of_le32 y) (Some s) None else no_checksum.
Proof.
  intros Hm Hy. unfold validate_spec. rewrite Hm. cbn [negb].
  rewrite app_length. cbn [length]. rewrite Hy.
  replace (length x + 5 - 5)%nat with (length x) by lia.
  replace (length x + 5 - 4)%nat with (length x + 1)%nat by lia.
  rewrite app_nth2, Nat.sub_diag by lia. cbn [nth].
  assert (E : x ++ b :: y = (x ++ [b]) ++ y) by (rewrite <- app_assoc; reflexivity).
  rewrite E.
  assert (L : length (x ++ [b]) = (length x + 1)%nat) by (rewrite app_length; reflexivity).
  rewrite <- L, firstn_app, Nat.sub_diag, firstn_all, skipn_app, Nat.sub_diag, skipn_all. cbn [firstn skipn app].
  rewrite app_nil_r. reflexivity.
Qed.

Lemma signed_file_shape scheme body : scheme = 1 \/ scheme = 2 ->
  signed_file scheme body = body ++ scheme :: le32 (sig_of scheme (body ++ [scheme])).
Proof. intros [->| ->]; unfold signed_file; cbn [N.eqb Pos.eqb orb]; rewrite <- app_assoc; reflexivity. Qed.

(* Every file with a signature as write_oas appends it validates, and the signature oas_validate hands back is the one
   stored in the last four bytes - for every body (records, compression, any length). *)
Theorem writer_validator_agreement_lemma : forall scheme body,
  scheme = 1 \/ scheme = 2 -> has_magic body = true ->
  let s := sig_of scheme (body ++ [scheme]) in
  oas_validate_model (signed_file scheme body) = Ok (mkV true (Some s) None) /\
  skipn (length body + 1) (signed_file scheme body) = le32 s /\
  of_le32 (le32 s) = s.
Proof.
  intros scheme body Hs Hm s.
  rewrite oas_validate_model_is_spec, signed_file_shape by exact Hs. fold s.
  split; [|split].
  - rewrite validate_spec_shape; [|apply has_magic_app, Hm|apply le32_length].
    assert (E : (scheme =? 1) || (scheme =? 2) = true) by (destruct Hs as [->| ->]; reflexivity).
    rewrite E. fold s. cbv zeta. rewrite of_le32_le32 by apply sig_of_lt. rewrite N.eqb_refl. reflexivity.
  - assert (E : body ++ scheme :: le32 s = (body ++ [scheme]) ++ le32 s) by (rewrite <- app_assoc; reflexivity).
    rewrite E. assert (L : length (body ++ [scheme]) = (length body + 1)%nat) by (rewrite app_length; reflexivity).
    rewrite <- L, skipn_app, Nat.sub_diag, skipn_all. reflexivity.
  - apply of_le32_le32, sig_of_lt.
Qed.

(* the same through the END code of write_oas: what Library::write_oas's END section produces validates *)
Theorem write_end_validates_lemma : forall crc sum pre cn ts pn ps f,
  crc || sum = true -> has_magic pre = true -> N.of_nat (length pre) + 512 < two64 ->
  write_end (os_of_bytes crc sum pre) cn ts pn ps = Ok f ->
  exists s, oas_validate_model f = Ok (mkV true (Some s) None) /\ skipn (length f - 4) f = le32 s.
Proof.
  intros crc sum pre cn ts pn ps f Hf Hm Hlen Hw.
  rewrite write_end_signed_lemma in Hw by exact Hlen. injection Hw as <-.
  assert (Hs : scheme_of crc sum = 1 \/ scheme_of crc sum = 2).
  { unfold scheme_of. destruct crc; [left; reflexivity|]. destruct sum; [right; reflexivity|discriminate]. }
  set (body := pre ++ end_body (crc || sum) cn ts pn ps).
  destruct (writer_validator_agreement_lemma (scheme_of crc sum) body Hs (has_magic_app _ _ Hm)) as (H1 & H2 & _).
  eexists. split; [exact H1|].
  rewrite <- H2. f_equal. rewrite signed_file_shape by exact Hs. rewrite app_length. cbn [length]. rewrite le32_length. lia.
Qed.

(* ------------------------------------------------------------------ files without a signature *)
Lemma repeat_app {A} (x : A) a b : repeat x (a + b) = repeat x a ++ repeat x b.
Proof. induction a as [|a IH]; cbn [plus repeat app]; [reflexivity|]. rewrite IH. reflexivity. Qed.

Lemma nth_repeat_0 n k : nth k (repeat 0 n) 0 = 0.
Proof. revert k. induction n as [|n IH]; intro k; destruct k; cbn [repeat nth]; try reflexivity. apply IH. Qed.

(* a cut whose fifth byte from the end lies in a run of zeros: the `No checksum` result *)
Lemma validate_spec_zero_run A P T k : has_magic A = true ->
  (length A + 5 <= k)%nat -> (k <= length A + P + 4)%nat -> (4 <= length T)%nat ->
  validate_spec (firstn k (A ++ repeat 0 P ++ T)) = no_checksum.
Proof.
  intros Hm H1 H2 HT. unfold validate_spec.
  assert (Hk : length (firstn k (A ++ repeat 0 P ++ T)) = k).
  { rewrite firstn_length, !app_length, repeat_length. lia. }
  assert (Hm' : has_magic (firstn k (A ++ repeat 0 P ++ T)) = true).
  { rewrite firstn_app. apply has_magic_app. rewrite firstn_all2 by lia. exact Hm. }
  rewrite Hm', Hk. cbn [negb].
  assert (E : nth (k - 5) (firstn k (A ++ repeat 0 P ++ T)) 0 = 0).
  { rewrite <- (firstn_skipn k (A ++ repeat 0 P ++ T)) at 1.
    (* nth of a prefix *)
    assert (G : forall (l : list N) i j, (i < j)%nat -> (j <= length l)%nat -> nth i (firstn j l) 0 = nth i l 0).
    { intros l i j Hij Hj. rewrite <- (firstn_skipn j l) at 2. rewrite app_nth1 by (rewrite firstn_length; lia). reflexivity. }
    rewrite firstn_app, firstn_firstn, Nat.min_id.
    rewrite app_nth1 by (rewrite firstn_length, !app_length, repeat_length; lia).
    rewrite G by (rewrite ?app_length, ?repeat_length; lia).
    rewrite app_nth2 by lia. rewrite app_nth1 by (rewrite repeat_length; lia). apply nth_repeat_0. }
  rewrite E. reflexivity.
Qed.

Lemma end_body_split signed cn ts pn ps :
  end_body signed cn ts pn ps =
  (OasisRecord_END :: end_offsets cn ts pn ps ++ enc_uint (pad_len_of signed cn ts pn ps)) ++
  repeat 0 (N.to_nat (pad_len_of signed cn ts pn ps)).
Proof. unfold end_body, pad_len_of. cbn [app]. rewrite <- app_assoc. reflexivity. Qed.

(* scheme 0 (no signature requested): oas_validate returns true, *signature = 0, *error_code = ChecksumError *)
Theorem unsigned_file_lemma : forall pre cn ts pn ps,
  has_magic pre = true ->
  oas_validate_model (pre ++ end_record_w cn ts pn ps) = Ok no_checksum.
Proof.
  intros pre cn ts pn ps Hm. rewrite oas_validate_model_is_spec. f_equal.
  rewrite <- end_body_unsigned, end_body_split.
  set (P := pad_len_of false cn ts pn ps).
  set (A0 := OasisRecord_END :: end_offsets cn ts pn ps ++ enc_uint P).
  assert (HP : (204 <= N.to_nat P)%nat).
  { unfold P. rewrite pad_len_of_val. pose proof (end_offsets_len cn ts pn ps). lia. }
  replace (N.to_nat P) with ((N.to_nat P - 3) + 3)%nat by lia. rewrite repeat_app.
  set (f := pre ++ ((A0 ++ repeat 0 (N.to_nat P - 3) ++ repeat 0 3) ++ [0])).
  assert (Ef : f = (pre ++ A0) ++ repeat 0 (N.to_nat P - 3) ++ [0; 0; 0; 0]).
  { unfold f. repeat rewrite <- app_assoc. reflexivity. }
  rewrite <- (firstn_all f), Ef.
  apply validate_spec_zero_run.
  - apply has_magic_app, Hm.
  - rewrite !app_length, repeat_length. cbn [length]. lia.
  - rewrite !app_length, repeat_length. cbn [length]. lia.
  - cbn [length]. lia.
Qed.

(* ================================================================== truncation *)
Lemma firstn_1_skipn (l : list N) : forall i, (i < length l)%nat -> firstn 1 (skipn i l) = [nth i l 0].
Proof.
  induction l as [|a l IH]; intros i H; cbn [length] in H; [lia|].
  destruct i as [|i]; cbn [skipn nth firstn]; [reflexivity|]. apply IH. lia.
Qed.

(* For EVERY byte list f (a signed file in particular) and EVERY cut k: the call on the first k bytes reports a matching
   signature exactly when the cut satisfies the collision condition - the fifth byte from the end of the prefix is 1 or 2
   and the last four bytes are the little-endian signature (CRC32 resp. byte sum) of everything before them. *)
Theorem truncation_collision_lemma : forall f k r, (k <= length f)%nat ->
  oas_validate_model (firstn k f) = Ok r ->
  (reports_match r = true <->
   has_magic (firstn k f) = true /\
   let b := nth (k - 5) f 0 in
   (b = 1 \/ b = 2) /\ of_le32 (firstn 4 (skipn (k - 4) f)) = sig_of b (firstn (k - 4) f)).
Proof.
  intros f k r Hk Hr. rewrite oas_validate_model_is_spec in Hr. injection Hr as <-.
  set (p := firstn k f).
  assert (Lp : length p = k) by (unfold p; rewrite firstn_length; lia).
  destruct (has_magic p) eqn:Em.
  2:{ unfold validate_spec. rewrite Em. cbn. split; [discriminate|]. intros [H _]. discriminate. }
  pose proof (has_magic_len p Em) as H14. rewrite Lp in H14.
  (* p = x ++ b :: y *)
  set (x := firstn (k - 5) f). set (b := nth (k - 5) f 0). set (y := firstn 4 (skipn (k - 4) f)).
  assert (Ep : p = x ++ b :: y).
  { unfold p, x, b, y.
    replace k with ((k - 5) + (1 + 4))%nat at 1 by lia.
    rewrite firstn_add. f_equal. rewrite firstn_add.
    rewrite firstn_1_skipn by lia. cbn [app]. f_equal.
    rewrite <- skipn_add. do 2 f_equal. lia. }
  assert (Ly : length y = 4%nat).
  { unfold y. rewrite firstn_length, skipn_length. lia. }
  assert (Ex : firstn (k - 4) f = x ++ [b]).
  { apply (f_equal (firstn (k - 4))) in Ep. unfold p in Ep. rewrite firstn_firstn in Ep.
    replace (Nat.min (k - 4) k) with (k - 4)%nat in Ep by lia. rewrite Ep.
    assert (Lx : length x = (k - 5)%nat) by (unfold x; rewrite firstn_length; lia).
    rewrite firstn_app, Lx. replace (k - 4 - (k - 5))%nat with 1%nat by lia.
    rewrite firstn_all2 by lia. reflexivity. }
  rewrite Ep in Em |- *. rewrite validate_spec_shape by assumption. rewrite Ex. cbv zeta.
  destruct (N.eqb_spec b 1) as [E1|E1]; [|destruct (N.eqb_spec b 2) as [E2|E2]]; cbn [orb].
  - unfold reports_match. cbn [v_ret v_err]. rewrite andb_true_r, N.eqb_eq.
    split; [intro H; split; [reflexivity|split; [left; exact E1|symmetry; exact H]]|intros (_ & _ & H); symmetry; exact H].
  - unfold reports_match. cbn [v_ret v_err]. rewrite andb_true_r, N.eqb_eq.
    split; [intro H; split; [reflexivity|split; [right; exact E2|symmetry; exact H]]|intros (_ & _ & H); symmetry; exact H].
  - unfold reports_match, no_checksum. cbn [v_ret v_err andb]. split; [discriminate|]. intros (_ & [H|H] & _); contradiction.
Qed.

(* A signed file written by write_oas, cut anywhere in its last 200 bytes (END's zero padding, the scheme byte, the
   signature itself): oas_validate takes the `No checksum` path - it RETURNS TRUE with *signature = 0 and
   *error_code = ChecksumError, for CRC32 and CHECKSUM32 alike. *)
Theorem truncation_in_end_padding_lemma : forall scheme pre cn ts pn ps k,
  scheme = 1 \/ scheme = 2 -> has_magic pre = true ->
  let f := signed_file scheme (pre ++ end_body true cn ts pn ps) in
  (length f - 200 <= k)%nat -> (k < length f)%nat ->
  oas_validate_model (firstn k f) = Ok no_checksum.
Proof.
  intros scheme pre cn ts pn ps k Hs Hm f H1 H2. rewrite oas_validate_model_is_spec. f_equal.
  unfold f in *. rewrite signed_file_shape in * by exact Hs.
  rewrite end_body_split in *.
  set (P := pad_len_of true cn ts pn ps) in *.
  set (A0 := OasisRecord_END :: end_offsets cn ts pn ps ++ enc_uint P) in *.
  set (T := scheme :: le32 (sig_of scheme ((pre ++ A0 ++ repeat 0 (N.to_nat P)) ++ [scheme]))) in *.
  assert (HP : (200 <= N.to_nat P)%nat).
  { unfold P. rewrite pad_len_of_val. pose proof (end_offsets_len cn ts pn ps). lia. }
  assert (E : (pre ++ A0 ++ repeat 0 (N.to_nat P)) ++ T = (pre ++ A0) ++ repeat 0 (N.to_nat P) ++ T).
  { repeat rewrite <- app_assoc. reflexivity. }
  rewrite E in *.
  assert (LT : length T = 5%nat) by reflexivity.
  rewrite !app_length, repeat_length, LT in H1, H2.
  apply validate_spec_zero_run.
  - apply has_magic_app, Hm.
  - rewrite app_length. lia.
  - rewrite app_length. lia.
  - lia.
Qed.

(* "A truncated signed file never reports a matching signature" is false as written, for both schemes: files of the
   closed form write_oas produces (header, a record carrying five chosen bytes, END, signature) whose proper prefix
   validates.  The five bytes are a scheme byte and the signature of everything before them. *)

Theorem truncation_refuted_crc_lemma : exists body k s,
  has_magic body = true /\ (k < length (signed_file 1 body))%nat /\
  oas_validate_model (firstn k (signed_file 1 body)) = Ok (mkV true (Some s) None).
Proof.
  exists (embed_body 1 [28; 23; 0; 11; 5] ++ end_body true 0 0 0 0), 32%nat. eexists.
  split; [reflexivity|]. split; [vm_compute; lia|]. vm_compute. reflexivity.
Qed.
Theorem truncation_refuted_sum_lemma : exists body k s,
  has_magic body = true /\ (k < length (signed_file 2 body))%nat /\
  oas_validate_model (firstn k (signed_file 2 body)) = Ok (mkV true (Some s) None).
Proof.
  exists (embed_body 2 [28; 23; 0; 11; 5] ++ end_body true 0 0 0 0), 32%nat. eexists.
  split; [reflexivity|]. split; [vm_compute; lia|]. vm_compute. reflexivity.
Qed.

(* ================================================================== Library::write_oas with a signature request *)
Lemma run_end_offsets cfg l :
  run_end (write_oas_run cfg l) = let '(cn, ts, pn, ps) := write_oas_offsets cfg l in end_record_w cn ts pn ps.
Proof.
  unfold write_oas_run, write_oas_offsets.
  destruct (properties_to_oas pstate0 (li_props l)) as [[r_lp d_lp] st1].
  destruct (cells_to_oas _ _ _ _ _) as [[[[r_c d_c] offs] ts] st2].
  destruct (cellnames_to_oas _ _ _ _ _) as [[r_cn d_cn] st3].
  reflexivity.
Qed.


(* no signature requested: the model of OasisWrite.v, byte for byte *)
Theorem write_oas_sig_unsigned_lemma : forall cfg l, file_fits cfg l ->
  write_oas_sig_model cfg false false l = Ok (write_oas_model cfg l).
Proof.
  intros cfg l Hfit. unfold write_oas_sig_model, write_oas_model.
  destruct (run_failed (write_oas_run cfg l)); [reflexivity|].
  pose proof (run_end_offsets cfg l) as He.
  destruct (write_oas_offsets cfg l) as [[[cn ts] pn] ps].
  rewrite write_end_signed_lemma by exact Hfit.
  unfold scheme_of, signed_file. cbn [orb N.eqb].
  rewrite He, <- end_body_unsigned. repeat rewrite <- app_assoc. reflexivity.
Qed.

(* a signature requested (C02: "a requested signature matches the file"): what the writer model produces validates, with
   the signature stored in its last four bytes; it is the unsigned file with four padding zeros fewer, the scheme byte
   and the signature of everything before the signature *)
Theorem write_oas_signature_matches_lemma : forall cfg crc sum l f,
  crc || sum = true -> file_fits cfg l -> run_failed (write_oas_run cfg l) = false ->
  write_oas_sig_model cfg crc sum l = Ok f ->
  exists s, oas_validate_model f = Ok (mkV true (Some s) None) /\ skipn (length f - 4) f = le32 s /\
            s = sig_of (scheme_of crc sum) (firstn (length f - 4) f).
Proof.
  intros cfg crc sum l f Hcs Hfit Hrun Hw. unfold write_oas_sig_model in Hw. rewrite Hrun in Hw.
  destruct (write_oas_offsets cfg l) as [[[cn ts] pn] ps].
  set (pre := run_start (write_oas_run cfg l) ++ concat (run_records (write_oas_run cfg l))) in *.
  assert (Hm : has_magic pre = true).
  { unfold pre, write_oas_run.
    destruct (properties_to_oas pstate0 (li_props l)) as [[r_lp d_lp] st1].
    destruct (cells_to_oas _ _ _ _ _) as [[[[r_c d_c] offs] ts'] st2].
    destruct (cellnames_to_oas _ _ _ _ _) as [[r_cn d_cn] st3].
    cbn [run_start run_records]. apply has_magic_iff. unfold start_header, oas_header.
    eexists. repeat rewrite <- app_assoc. cbn [app]. reflexivity. }
  rewrite write_end_signed_lemma in Hw by exact Hfit. injection Hw as <-.
  assert (Hs : scheme_of crc sum = 1 \/ scheme_of crc sum = 2).
  { unfold scheme_of. destruct crc; [left; reflexivity|]. destruct sum; [right; reflexivity|discriminate]. }
  set (body := pre ++ end_body (crc || sum) cn ts pn ps).
  destruct (writer_validator_agreement_lemma (scheme_of crc sum) body Hs (has_magic_app _ _ Hm)) as (H1 & H2 & _).
  exists (sig_of (scheme_of crc sum) (body ++ [scheme_of crc sum])).
  assert (Lf : (length (signed_file (scheme_of crc sum) body) - 4 = length body + 1)%nat).
  { rewrite signed_file_shape by exact Hs. rewrite app_length. cbn [length]. rewrite le32_length. lia. }
  split; [exact H1|]. rewrite Lf. split; [exact H2|].
  f_equal. rewrite signed_file_shape by exact Hs.
  assert (E : body ++ scheme_of crc sum :: le32 (sig_of (scheme_of crc sum) (body ++ [scheme_of crc sum]))
              = (body ++ [scheme_of crc sum]) ++ le32 (sig_of (scheme_of crc sum) (body ++ [scheme_of crc sum])))
    by (rewrite <- app_assoc; reflexivity).
  rewrite E. assert (L : length (body ++ [scheme_of crc sum]) = (length body + 1)%nat) by (rewrite app_length; reflexivity).
  rewrite <- L, firstn_app, Nat.sub_diag, firstn_all. cbn [firstn]. rewrite app_nil_r. reflexivity.
Qed.

(* the same refutation inside the model of Library::write_oas: a library whose only content is one property with a
   five-byte string value (a scheme byte and the signature of the 34 file bytes up to and including it) *)

Theorem truncation_refuted_writer_lemma :
  (exists l k f s, write_oas_sig_model (mkWCfg false) true false l = Ok f /\ (k < length f)%nat /\
                   oas_validate_model (firstn k f) = Ok (mkV true (Some s) None)) /\
  (exists l k f s, write_oas_sig_model (mkWCfg false) false true l = Ok f /\ (k < length f)%nat /\
                   oas_validate_model (firstn k f) = Ok (mkV true (Some s) None)).
Proof.
  split.
  - exists (lib_with_value (collision_value true false)), 38%nat. eexists. eexists.
    split; [vm_compute; reflexivity|]. split; [vm_compute; lia|]. vm_compute. reflexivity.
  - exists (lib_with_value (collision_value false true)), 38%nat. eexists. eexists.
    split; [vm_compute; reflexivity|]. split; [vm_compute; lia|]. vm_compute. reflexivity.
Qed.

(* ================================================================== the hypotheses are satisfiable: examples *)
Example crc32_check_value : crc32_update 0 [49; 50; 51; 52; 53; 54; 55; 56; 57] = 3421780262.    (* 0xCBF43926 *)
Proof. vm_compute. reflexivity. Qed.
Example crc_table_entries : nth 1 crc_table 0 = 1996959894 /\ nth 255 crc_table 0 = 755167117.  (* 0x77073096, 0x2D02EF8D *)
Proof. split; vm_compute; reflexivity. Qed.
Example chunking_example : forall a, crc32_update (crc32_update 0 a) [1; 2; 3] = crc32_update 0 (a ++ [1; 2; 3]).
Proof. intro a. apply crc32_chunking_lemma. Qed.
Example agreement_example : forall scheme tail, scheme = 1 \/ scheme = 2 ->
  oas_validate_model (signed_file scheme (oas_header ++ tail))
  = Ok (mkV true (Some (sig_of scheme ((oas_header ++ tail) ++ [scheme]))) None).
Proof.
  intros scheme tail Hs.
  assert (Hm : has_magic (oas_header ++ tail) = true) by (apply has_magic_iff; eexists; reflexivity).
  exact (proj1 (writer_validator_agreement_lemma scheme (oas_header ++ tail) Hs Hm)).
Qed.
(* a file that needs three trips through the 32 KiB loop, computed *)
Example agreement_example_computed :
  oas_validate_model (signed_file 2 (oas_header ++ repeat 5 (N.to_nat 70000))) = Ok (mkV true (Some 350793) None).
Proof. vm_compute. reflexivity. Qed.
Example write_end_example : exists f, write_end (os_of_bytes false true (oas_header ++ [3; 49; 46; 48; 0; 232; 7; 1])) 0 0 0 0 = Ok f /\
  length f = 278%nat /\ oas_validate_model f = Ok (mkV true (Some 1424) None) /\
  oas_validate_model (firstn 100 f) = Ok no_checksum.
Proof.
  eexists. split; [vm_compute; reflexivity|]. split; [vm_compute; reflexivity|]. split; vm_compute; reflexivity.
Qed.
Example eighteen_byte_file :        (* the fifth byte from the end is the START byte 1 of the header: the CRC32 branch runs *)
  exists s, oas_validate_model (oas_header ++ [3; 49; 46; 48]) = Ok (mkV false (Some s) None).
Proof. eexists. vm_compute. reflexivity. Qed.
Example bitwise_example : crc32_bitwise 0 [49; 50; 51; 52; 53; 54; 55; 56; 57] = 3421780262 /\ bytes_ok [49; 50; 51; 52; 53; 54; 55; 56; 57].
Proof. split; [vm_compute; reflexivity|]. repeat constructor. Qed.
Example closed_form_example : 4294967295 < two32 /\ checksum32_update 4294967295 [1; 2] = 2 /\ checksum32_spec 4294967295 [1; 2] = 2.
Proof. split; [reflexivity|]. split; vm_compute; reflexivity. Qed.
(* the hypotheses of the writer theorems hold for a concrete library (one property with a two-byte string value) *)
Example write_oas_signature_example : exists f s,
  file_fits (mkWCfg false) (lib_with_value [7; 7]) /\ run_failed (write_oas_run (mkWCfg false) (lib_with_value [7; 7])) = false /\
  write_oas_sig_model (mkWCfg false) true false (lib_with_value [7; 7]) = Ok f /\ length f = 291%nat /\
  oas_validate_model f = Ok (mkV true (Some s) None) /\
  oas_validate_model (firstn 290 f) = Ok no_checksum /\ oas_validate_model (firstn 13 f) = Ok invalid_file.
Proof.
  eexists. eexists. split; [vm_compute; reflexivity|]. split; [vm_compute; reflexivity|].
  split; [vm_compute; reflexivity|]. split; [vm_compute; reflexivity|]. split; [vm_compute; reflexivity|].
  split; vm_compute; reflexivity.
Qed.
Example unsigned_example :
  oas_validate_model (write_oas_model (mkWCfg false) (lib_with_value [7; 7])) = Ok no_checksum.
Proof. vm_compute. reflexivity. Qed.
(* a cut that ends in an embedded signature: both sides of truncation_collision hold *)
Example collision_example : reports_match (validate_spec (firstn 32 (refutation_file 1))) = true /\
  (32 < length (refutation_file 1))%nat.
Proof. split; [vm_compute; reflexivity|vm_compute; lia]. Qed.
