Require Import Base GdsFrame GdsModel GdsWrite GdsRoundtrip GdsSpec GdsRaw.
Require Import Extraction ExtrOcamlBasic.
Extraction Blacklist List String Int.
Extraction "../ocaml/extracted/gds.ml" write_gds_model read_gds_model gds_info_model real_scaled rewrite_ts
  spec_decode read_rawcells_model enc16 Z.of_N Z.of_nat N.of_nat new_poly new_path new_ref new_label.
