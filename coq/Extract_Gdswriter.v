Require Import Base GdsFrame GdsModel GdsWrite GdsRoundtrip GdsSpec GdsRaw GdsWriterModel.
Require Import Extraction ExtrOcamlBasic.
Extraction Blacklist List String Int.
Extraction "../ocaml/extracted/gdswriter.ml" session_run gdswriter_run library_write_gds_model heap_add_file empty_heap open_sources
  raw_closure read_rawcells_model read_gds_model spec_decode real_scaled enc16 Z.of_N Z.of_nat N.of_nat.
