(* C07 / C08 -- the exact decision procedures used on the specification side of the per-run
   validation of FlexPath::to_polygons and RobustPath::to_polygons (DESIGN 1.3, Tier B).

   Everything is integer arithmetic (type Z) on a fixed grid: the harness multiplies the doubles
   produced by the implementation by 2^30 and rounds; the functions below then decide
     - the winding number of an outline around a sample point            (wn)
     - "the point is closer than sqrt R to the segment a-b"              (seg_closer_than)
     - the two classification predicates of the property text            (must_cover, must_not_cover)
   without any rounding of their own.  Definitions and their (short) correctness lemmas live in
   one file because the extracted code is exactly these definitions.                            *)
Require Import Base.
From Coq Require Import Psatz.
Local Open Scope Z_scope.

Definition pt := (Z * Z)%type.
Definition vsub (a b : pt) : pt := (fst a - fst b, snd a - snd b).
Definition dot (u v : pt) : Z := fst u * fst v + snd u * snd v.
Definition cross (u v : pt) : Z := fst u * snd v - snd u * fst v.

(* ------------------------------------------------------------------ winding number *)
(* > 0 when p is to the left of the directed line a -> b *)
Definition is_left (a b p : pt) : Z := cross (vsub b a) (vsub p a).

(* contribution of the directed edge a -> b to the winding number around p (crossings of the
   half-line from p towards +x; an edge counts when it crosses the line y = p.y upwards with p on
   its left (+1) or downwards with p on its right (-1); lower end included, upper end excluded) *)
Definition wn_edge (p a b : pt) : Z :=
  if snd a <=? snd p then
    if (snd p <? snd b) && (0 <? is_left a b p) then 1 else 0
  else
    if (snd b <=? snd p) && (is_left a b p <? 0) then -1 else 0.

Fixpoint wn_loop (p prev : pt) (vs : list pt) : Z :=
  match vs with
  | [] => 0
  | v :: tl => wn_edge p prev v + wn_loop p v tl
  end.

(* closed polygon: the edge from the last vertex to the first one comes first *)
Definition wn (poly : list pt) (p : pt) : Z :=
  match poly with
  | [] => 0
  | _ :: _ => wn_loop p (last poly (0, 0)) poly
  end.

(* ------------------------------------------------------------------ point - segment distance *)
(* squared distance from p to the segment a-b is < R   (R in grid units squared) *)
Definition seg_closer_than (p a b : pt) (R : Z) : bool :=
  let d := vsub b a in
  let v := vsub p a in
  let t := dot v d in
  let L := dot d d in
  if t <=? 0 then dot v v <? R
  else if L <=? t then dot (vsub p b) (vsub p b) <? R
  else cross d v * cross d v <? R * L.

(* same, but only when the foot of the perpendicular is strictly inside the segment: the point is
   in the open band of half-width sqrt R erected on the segment, between its two end planes *)
Definition seg_band_closer (p a b : pt) (R : Z) : bool :=
  let d := vsub b a in
  let v := vsub p a in
  let t := dot v d in
  let L := dot d d in
  (0 <? t) && (t <? L) && (cross d v * cross d v <? R * L).

(* cheap exact pre-test with the radius r itself (r >= 0): p lies outside the bounding box of the
   segment grown by r, so no point of the segment is closer than r (box_far_correct below) *)
Definition box_far (p a b : pt) (r : Z) : bool :=
  (fst p + r <=? Z.min (fst a) (fst b)) || (Z.max (fst a) (fst b) + r <=? fst p) ||
  (snd p + r <=? Z.min (snd a) (snd b)) || (Z.max (snd a) (snd b) + r <=? snd p).

(* "closer than r to the segment" / "... and with its foot strictly inside the segment" *)
Definition seg_near (band : bool) (p a b : pt) (r : Z) : bool :=
  if box_far p a b r then false
  else if band then seg_band_closer p a b (r * r) else seg_closer_than p a b (r * r).

(* polyline vs with one radius per segment (rs); missing radii count as 0 = never closer *)
Fixpoint poly_closer (band : bool) (p : pt) (vs : list pt) (rs : list Z) : bool :=
  match vs with
  | [] => false
  | a :: rest =>
      match rest with
      | [] => false
      | b :: _ => seg_near band p a b (hd 0 rs) || poly_closer band p rest (tl rs)
      end
  end.

(* ------------------------------------------------------------------ classification *)
(* an end plane: point e, outward direction t, margin m (grid units times |t|):
   p is behind the plane by the margin when (p - e).t <= -m *)
Definition plane := (pt * pt * Z)%type.
Definition behind (p : pt) (pl : plane) : bool :=
  let '(e, t, m) := pl in dot (vsub p e) t <=? - m.

(* "closer than hw - tol to the element's centre line" (rcov = hw - tol per segment) and not
   beyond an end plane of a non-round end.  band = true restricts to the open bands of the
   segments (joins other than round do not promise the disc around a corner). *)
Definition must_cover (band : bool) (p : pt) (centre : list pt) (rcov : list Z) (planes : list plane) : bool :=
  poly_closer band p centre rcov && forallb (behind p) planes.

(* p is beyond the plane by the margin when (p - e).t >= m *)
Definition beyond (p : pt) (pl : plane) : bool :=
  let '(e, t, m) := pl in m <=? dot (vsub p e) t.

(* a straight cap (flush / half-width / extended end): its plane, and the rest of the extended centre
   line once the pieces next to that end are taken away, with the radii of that rest *)
Definition cap := (plane * list pt * list Z)%type.

(* "farther than reach.hw + tol from the centre line extended by the end caps", or beyond the
   plane of a straight cap and farther than that from everything but the end piece itself *)
Definition must_not_cover (p : pt) (centre_ext : list pt) (rfar : list Z) (caps : list cap) : bool :=
  negb (poly_closer false p centre_ext rfar) ||
  existsb (fun c : cap => let '(pl, rest, rrest) := c in beyond p pl && negb (poly_closer false p rest rrest)) caps.

(* 1 = must be covered, 2 = must not be covered, 0 = in the guard band: no claim *)
Definition classify (band : bool) (centre centre_ext : list pt) (rcov rfar : list Z)
           (planes : list plane) (caps : list cap) (p : pt) : Z :=
  if must_cover band p centre rcov planes then 1
  else if must_not_cover p centre_ext rfar caps then 2 else 0.

(* 0 = consistent, 1 = must be covered but winding number 0, 2 = must not be covered but
   winding number <> 0 *)
Definition verdict (class w : Z) : Z :=
  if (class =? 1) && (w =? 0) then 1 else if (class =? 2) && negb (w =? 0) then 2 else 0.

Definition check_point (band : bool) (outline centre centre_ext : list pt) (rcov rfar : list Z)
           (planes : list plane) (caps : list cap) (p : pt) : Z :=
  let c := classify band centre centre_ext rcov rfar planes caps p in
  if c =? 0 then 0 else verdict c (wn outline p).

(* ================================================================== lemmas *)

(* the squared distance from p to the point a + (m/n)(b - a) of the segment, times n^2 *)
Definition dist2_scaled (p a b : pt) (m n : Z) : Z :=
  let ex := n * (fst p - fst a) - m * (fst b - fst a) in
  let ey := n * (snd p - snd a) - m * (snd b - snd a) in
  ex * ex + ey * ey.

(* Lagrange: |v|^2 |d|^2 = (v.d)^2 + (d x v)^2 *)
Lemma lagrange (d v : pt) : dot v v * dot d d = dot v d * dot v d + cross d v * cross d v.
Proof. destruct d, v; unfold dot, cross; simpl; ring. Qed.

(* soundness: a true answer exhibits a point of the segment (rational parameter m/n in [0,1])
   at squared distance < R *)
Lemma seg_closer_than_sound p a b R :
  seg_closer_than p a b R = true ->
  exists m n, 0 < n /\ 0 <= m <= n /\ dist2_scaled p a b m n < R * n * n.
Proof.
  unfold seg_closer_than.
  destruct p as [px py], a as [ax ay], b as [bx by_]; unfold vsub, dot, cross, dist2_scaled; simpl.
  set (dx := bx - ax); set (dy := by_ - ay); set (vx := px - ax); set (vy := py - ay).
  destruct (Z.leb_spec (vx * dx + vy * dy) 0) as [Ht|Ht].
  - intros H; apply Z.ltb_lt in H. exists 0, 1. repeat split; try lia.
  - destruct (Z.leb_spec (dx * dx + dy * dy) (vx * dx + vy * dy)) as [HL|HL].
    + intros H; apply Z.ltb_lt in H.
      replace (px - bx) with (vx - dx) in H by (unfold vx, dx; ring).
      replace (py - by_) with (vy - dy) in H by (unfold vy, dy; ring).
      exists 1, 1. repeat split; try lia.
    + intros H; apply Z.ltb_lt in H.
      set (t := vx * dx + vy * dy) in *. set (L := dx * dx + dy * dy) in *.
      exists t, L. repeat split; try lia.
      assert (E : (L * vx - t * dx) * (L * vx - t * dx) + (L * vy - t * dy) * (L * vy - t * dy)
                  = L * ((dx * vy - dy * vx) * (dx * vy - dy * vx))).
      { unfold t, L; ring. }
      rewrite E. nia.
Qed.

(* completeness: a false answer means every point of the segment is at squared distance >= R *)
Lemma seg_closer_than_complete p a b R :
  seg_closer_than p a b R = false ->
  forall m n, 0 < n -> 0 <= m <= n -> R * n * n <= dist2_scaled p a b m n.
Proof.
  unfold seg_closer_than.
  destruct p as [px py], a as [ax ay], b as [bx by_]; unfold vsub, dot, cross, dist2_scaled; simpl.
  set (dx := bx - ax); set (dy := by_ - ay); set (vx := px - ax); set (vy := py - ay).
  set (t := vx * dx + vy * dy). set (L := dx * dx + dy * dy).
  set (V := vx * vx + vy * vy).
  intros H m n Hn Hm.
  assert (EXP : (n * vx - m * dx) * (n * vx - m * dx) + (n * vy - m * dy) * (n * vy - m * dy)
                = n * n * V - 2 * m * n * t + m * m * L) by (unfold V, t, L; ring).
  rewrite EXP.
  assert (HL0 : 0 <= L) by (unfold L; nia).
  destruct (Z.leb_spec t 0) as [Ht|Ht].
  - apply Z.ltb_ge in H. fold V in H.
    assert (0 <= m * n * (- t)) by (apply Z.mul_nonneg_nonneg; nia).
    assert (0 <= m * m * L) by (apply Z.mul_nonneg_nonneg; nia).
    assert (R * (n * n) <= V * (n * n)) by (apply Z.mul_le_mono_nonneg_r; nia).
    nia.
  - destruct (Z.leb_spec L t) as [HLt|HLt].
    + apply Z.ltb_ge in H.
      replace (px - bx) with (vx - dx) in H by (unfold vx, dx; ring).
      replace (py - by_) with (vy - dy) in H by (unfold vy, dy; ring).
      assert (H' : R <= V - 2 * t + L) by (unfold V, t, L; nia).
      (* n^2 V - 2mnt + m^2 L - n^2 (V - 2t + L) = (n - m) (2 n t - (n + m) L) >= (n-m)^2 L >= 0 *)
      assert (K : 0 <= (n - m) * (2 * n * t - (n + m) * L)).
      { apply Z.mul_nonneg_nonneg; [lia|].
        assert (n * L <= n * t) by (apply Z.mul_le_mono_nonneg_l; lia).
        assert (m * L <= n * L) by (apply Z.mul_le_mono_nonneg_r; lia). lia. }
      assert (R * (n * n) <= (V - 2 * t + L) * (n * n)) by (apply Z.mul_le_mono_nonneg_r; nia).
      nia.
    + apply Z.ltb_ge in H.
      assert (LG : V * L = t * t + (dx * vy - dy * vx) * (dx * vy - dy * vx)) by (unfold V, L, t; ring).
      (* L (n^2 V - 2mnt + m^2 L) = n^2 cross^2 + (n t - m L)^2 *)
      assert (E : L * (n * n * V - 2 * m * n * t + m * m * L)
                  = n * n * ((dx * vy - dy * vx) * (dx * vy - dy * vx)) + (n * t - m * L) * (n * t - m * L)).
      { replace (L * (n * n * V - 2 * m * n * t + m * m * L))
          with (n * n * (V * L) - 2 * m * n * t * L + m * m * L * L) by ring.
        rewrite LG. ring. }
      assert (L0 : 0 < L) by lia.
      assert (S1 : n * n * (R * L) <= n * n * ((dx * vy - dy * vx) * (dx * vy - dy * vx)))
        by (apply Z.mul_le_mono_nonneg_l; nia).
      assert (S2 : 0 <= (n * t - m * L) * (n * t - m * L)) by apply Z.square_nonneg.
      assert (S3 : L * (R * n * n) <= L * (n * n * V - 2 * m * n * t + m * m * L)).
      { rewrite E. replace (L * (R * n * n)) with (n * n * (R * L)) by ring. lia. }
      apply Z.mul_le_mono_pos_l in S3; lia.
Qed.

(* the two together: the test decides "some point of the segment is closer than sqrt R" *)
Theorem seg_closer_than_correct_lemma p a b R :
  seg_closer_than p a b R = true <->
  exists m n, 0 < n /\ 0 <= m <= n /\ dist2_scaled p a b m n < R * n * n.
Proof.
  split; [apply seg_closer_than_sound|].
  intros (m & n & Hn & Hm & Hd).
  destruct (seg_closer_than p a b R) eqn:E; [reflexivity|].
  pose proof (seg_closer_than_complete p a b R E m n Hn Hm). lia.
Qed.

(* the band test is the segment test restricted to feet strictly inside the segment *)
Lemma seg_band_closer_implies p a b R : seg_band_closer p a b R = true -> seg_closer_than p a b R = true.
Proof.
  unfold seg_band_closer, seg_closer_than. intros H.
  apply andb_prop in H as [H H3]. apply andb_prop in H as [H1 H2].
  apply Z.ltb_lt in H1, H2.
  destruct (Z.leb_spec (dot (vsub p a) (vsub b a)) 0); [lia|].
  destruct (Z.leb_spec (dot (vsub b a) (vsub b a)) (dot (vsub p a) (vsub b a))); [lia|]. exact H3.
Qed.

(* the bounding-box pre-test never discards a segment that is closer than r *)
Lemma box_far_correct p a b r :
  0 <= r -> box_far p a b r = true -> seg_closer_than p a b (r * r) = false.
Proof.
  intros Hr H. destruct (seg_closer_than p a b (r * r)) eqn:E; [|reflexivity]. exfalso.
  apply seg_closer_than_sound in E as (m & n & Hn & Hm & Hd).
  unfold box_far in H. unfold dist2_scaled in Hd.
  destruct p as [px py], a as [ax ay], b as [bx by_]; simpl in *.
  assert (SQ : forall e, n * r <= e \/ e <= - (n * r) -> r * r * n * n <= e * e).
  { intros e [He|He]; nia. }
  assert (NR : 0 <= n * r) by nia.
  assert (Y2 : forall e : Z, 0 <= e * e) by (intros; apply Z.square_nonneg).
  repeat (apply orb_true_iff in H as [H|H]); apply Z.leb_le in H.
  - (* px + r <= min ax bx *)
    assert (K : n * (px - ax) - m * (bx - ax) <= - (n * r)).
    { assert (px + r <= ax) by lia. assert (px + r <= bx) by lia.
      assert ((n - m) * (px + r) <= (n - m) * ax) by (apply Z.mul_le_mono_nonneg_l; lia).
      assert (m * (px + r) <= m * bx) by (apply Z.mul_le_mono_nonneg_l; lia). lia. }
    pose proof (SQ _ (or_intror K)). pose proof (Y2 (n * (py - ay) - m * (by_ - ay))). lia.
  - assert (K : n * r <= n * (px - ax) - m * (bx - ax)).
    { assert (ax + r <= px) by lia. assert (bx + r <= px) by lia.
      assert ((n - m) * (ax + r) <= (n - m) * px) by (apply Z.mul_le_mono_nonneg_l; lia).
      assert (m * (bx + r) <= m * px) by (apply Z.mul_le_mono_nonneg_l; lia). lia. }
    pose proof (SQ _ (or_introl K)). pose proof (Y2 (n * (py - ay) - m * (by_ - ay))). lia.
  - assert (K : n * (py - ay) - m * (by_ - ay) <= - (n * r)).
    { assert (py + r <= ay) by lia. assert (py + r <= by_) by lia.
      assert ((n - m) * (py + r) <= (n - m) * ay) by (apply Z.mul_le_mono_nonneg_l; lia).
      assert (m * (py + r) <= m * by_) by (apply Z.mul_le_mono_nonneg_l; lia). lia. }
    pose proof (SQ _ (or_intror K)). pose proof (Y2 (n * (px - ax) - m * (bx - ax))). lia.
  - assert (K : n * r <= n * (py - ay) - m * (by_ - ay)).
    { assert (ay + r <= py) by lia. assert (by_ + r <= py) by lia.
      assert ((n - m) * (ay + r) <= (n - m) * py) by (apply Z.mul_le_mono_nonneg_l; lia).
      assert (m * (by_ + r) <= m * py) by (apply Z.mul_le_mono_nonneg_l; lia). lia. }
    pose proof (SQ _ (or_introl K)). pose proof (Y2 (n * (px - ax) - m * (bx - ax))). lia.
Qed.

(* so seg_near is the squared-distance test at radius r *)
Theorem seg_near_correct_lemma band p a b r :
  0 <= r ->
  seg_near band p a b r = (if band then seg_band_closer p a b (r * r) else seg_closer_than p a b (r * r)).
Proof.
  intros Hr. unfold seg_near. destruct (box_far p a b r) eqn:B; [|reflexivity].
  pose proof (box_far_correct p a b r Hr B) as F. destruct band; [|now rewrite F].
  destruct (seg_band_closer p a b (r * r)) eqn:E; [|reflexivity].
  apply seg_band_closer_implies in E. congruence.
Qed.

(* polyline: true iff one of the consecutive segments answers true (radii taken in order) *)
Lemma poly_closer_exists band p vs rs :
  poly_closer band p vs rs = true <->
  exists i a b, nth_error vs i = Some a /\ nth_error vs (S i) = Some b /\
                seg_near band p a b (nth i rs 0) = true.
Proof.
  revert rs. induction vs as [|a rest IH]; intros rs.
  - simpl. split; [discriminate|]. intros (i & a & b & H & _). destruct i; discriminate.
  - destruct rest as [|b rest'].
    + simpl. split; [discriminate|]. intros (i & x & y & _ & H & _). destruct i; simpl in H; [discriminate|destruct i; discriminate].
    + change (poly_closer band p (a :: b :: rest') rs)
        with (seg_near band p a b (hd 0 rs) || poly_closer band p (b :: rest') (tl rs)).
      rewrite orb_true_iff, IH. split.
      * intros [H|(i & x & y & H1 & H2 & H3)].
        -- exists 0%nat, a, b. repeat split. destruct rs; exact H.
        -- exists (S i), x, y. repeat split; auto. destruct rs; simpl in *; [destruct i; exact H3|exact H3].
      * intros (i & x & y & H1 & H2 & H3). destruct i.
        -- left. simpl in H1, H2. inversion H1; inversion H2; subst. destruct rs; exact H3.
        -- right. exists i, x, y. repeat split; auto. destruct rs; simpl in *; [destruct i; exact H3|exact H3].
Qed.

(* winding number: translation invariance (all that the harness relies on besides exactness) *)
Definition vadd (a b : pt) : pt := (fst a + fst b, snd a + snd b).

Lemma wn_edge_translate p a b d : wn_edge (vadd p d) (vadd a d) (vadd b d) = wn_edge p a b.
Proof.
  unfold wn_edge, is_left, cross, vsub, vadd; destruct p, a, b, d; simpl.
  replace (z3 + z5 - (z1 + z5)) with (z3 - z1) by ring.
  replace (z0 + z6 - (z2 + z6)) with (z0 - z2) by ring.
  replace (z + z5 - (z1 + z5)) with (z - z1) by ring.
  replace (z4 + z6 - (z2 + z6)) with (z4 - z2) by ring.
  replace (z2 + z6 <=? z0 + z6) with (z2 <=? z0) by (apply Bool.eq_true_iff_eq; rewrite !Z.leb_le; lia).
  replace (z0 + z6 <? z4 + z6) with (z0 <? z4) by (apply Bool.eq_true_iff_eq; rewrite !Z.ltb_lt; lia).
  replace (z4 + z6 <=? z0 + z6) with (z4 <=? z0) by (apply Bool.eq_true_iff_eq; rewrite !Z.leb_le; lia).
  reflexivity.
Qed.

Lemma wn_loop_translate p prev vs d :
  wn_loop (vadd p d) (vadd prev d) (map (fun v => vadd v d) vs) = wn_loop p prev vs.
Proof. revert prev; induction vs as [|v tl IH]; intros prev; simpl; [reflexivity|]. now rewrite wn_edge_translate, IH. Qed.

Lemma wn_translate_lemma poly p d : wn (map (fun v => vadd v d) poly) (vadd p d) = wn poly p.
Proof.
  destruct poly as [|v tl]; [reflexivity|].
  unfold wn. change (map (fun v0 => vadd v0 d) (v :: tl)) with (vadd v d :: map (fun v0 => vadd v0 d) tl).
  assert (L : last (vadd v d :: map (fun v0 => vadd v0 d) tl) (0, 0) = vadd (last (v :: tl) (0, 0)) d).
  { clear. revert v. induction tl as [|w tl IH]; intros v; [reflexivity|].
    change (last (vadd v d :: map (fun v0 => vadd v0 d) (w :: tl)) (0, 0))
      with (last (vadd w d :: map (fun v0 => vadd v0 d) tl) (0, 0)).
    rewrite IH. reflexivity. }
  rewrite L. apply (wn_loop_translate p (last (v :: tl) (0, 0)) (v :: tl) d).
Qed.

(* a counter-clockwise axis-parallel rectangle winds once around its strict interior and not at all
   around points strictly outside its bounding box (orientation / sign conventions of wn) *)
Lemma wn_rectangle_lemma x0 y0 x1 y1 px py :
  x0 < x1 -> y0 < y1 ->
  let r := [(x0, y0); (x1, y0); (x1, y1); (x0, y1)] in
  (x0 < px < x1 -> y0 < py < y1 -> wn r (px, py) = 1) /\
  (px < x0 \/ x1 < px \/ py < y0 \/ y1 < py -> wn r (px, py) = 0).
Proof.
  intros Hx Hy r. unfold r, wn, wn_loop, wn_edge, is_left, cross, vsub; simpl. split.
  - intros Hpx Hpy.
    repeat match goal with
           | |- context [?a <=? ?b] => destruct (Z.leb_spec a b); try lia
           | |- context [?a <? ?b] => destruct (Z.ltb_spec a b); try lia
           end; simpl; try lia; try nia.
  - intros H.
    repeat match goal with
           | |- context [?a <=? ?b] => destruct (Z.leb_spec a b); try lia
           | |- context [?a <? ?b] => destruct (Z.ltb_spec a b); try lia
           end; simpl; try lia; try nia.
Qed.

Example seg_closer_example : seg_closer_than (5, 3) (0, 0) (10, 0) 10 = true /\ seg_closer_than (5, 3) (0, 0) (10, 0) 9 = false.
Proof. split; reflexivity. Qed.

Print Assumptions seg_closer_than_correct_lemma.
Print Assumptions seg_near_correct_lemma.
Print Assumptions poly_closer_exists.
Print Assumptions wn_translate_lemma.
Print Assumptions wn_rectangle_lemma.
