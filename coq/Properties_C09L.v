(* C09L — the repetition premises of the C09 hierarchy theorems, discharged from C11's model of
   Repetition::get_offsets / get_extrema (second property file of C09).
   Theorem-only file: every proof is `exact <lemma>`; Print Assumptions under each.
   Vocabulary (BBoxRepLink.v): orep_of r = the C09-side repetition (None for RepetitionType::None, otherwise the
   record of C11's [offsets r] and [extrema r], every coordinate in lowest terms, with the flag type == Explicit);
   rep_live r = C11's rep_ok r (counts fit 64 bits) and r is None or count r > 0;
   family_linked U = cells closed under "child of", unique names, every repetition of every polygon, label, path
   and reference is orep_of of some live C11 repetition, quarter flag => cos*sin == 0. *)
From Coq Require Import QArith List.
Import ListNotations.
Require Import Base BBox BBoxProofs Repetition RepetitionProofs BBoxRepLink.
Local Open Scope Q_scope.

(* ---- the C11 facts C09 assumed (BBoxProofs.rep_ok), from C11's model *)
Theorem link_incl_thm : forall r : Repetition.rep, incl (exts (lists_of r)) (offs (lists_of r)).
Proof. exact link_incl_lemma. Qed.
Print Assumptions link_incl_thm.

Theorem link_box_thm : forall r : Repetition.rep,
  box_eq (BBox.bbox (exts (lists_of r))) (BBox.bbox (offs (lists_of r))).
Proof. exact link_box_lemma. Qed.
Print Assumptions link_box_thm.

Theorem link_origin_thm : forall r : Repetition.rep, (0 < count r)%N ->
  exists o, In o (offs (lists_of r)) /\ fst o == 0 /\ snd o == 0.
Proof. exact link_origin_lemma. Qed.
Print Assumptions link_origin_thm.

Theorem orep_of_ok_thm : forall r : Repetition.rep, rep_live r -> orep_ok (orep_of r).
Proof. exact orep_of_ok_lemma. Qed.
Print Assumptions orep_of_ok_thm.

(* exactly then *)
Theorem orep_of_ok_iff_thm : forall r : Repetition.rep, Repetition.rep_ok r ->
  (orep_ok (orep_of r) <-> r = RNone \/ (0 < count r)%N).
Proof. exact orep_of_ok_iff_lemma. Qed.
Print Assumptions orep_of_ok_iff_thm.

Theorem rep_live_iff_thm : forall r : Repetition.rep, rep_live r <->
  Repetition.rep_ok r /\
  match r with RRect c rw _ _ | RReg c rw _ _ => c <> 0%N /\ rw <> 0%N | _ => True end.
Proof. exact rep_live_iff_lemma. Qed.
Print Assumptions rep_live_iff_thm.

(* ---- the cover premise of reference repetitions: every kind but Explicit, every count, every sign *)
Theorem link_cover_thm : forall r : Repetition.rep, is_explicit r = false ->
  covers (exts (lists_of r)) (offs (lists_of r)).
Proof. exact link_cover_lemma. Qed.
Print Assumptions link_cover_thm.

Theorem orep_of_cov_thm : forall r : Repetition.rep, orep_cov true (orep_of r).
Proof. exact orep_of_cov_lemma. Qed.
Print Assumptions orep_of_cov_thm.

Theorem explicit_cover_refuted_thm : exists r : Repetition.rep, rep_live r /\ is_explicit r = true /\
  ~ covers (exts (lists_of r)) (offs (lists_of r)).
Proof. exact explicit_cover_refuted. Qed.
Print Assumptions explicit_cover_refuted_thm.

Theorem ref_wf_rep_thm : forall pl (r : Repetition.rep), rep_live r -> pl_rep pl = orep_of r ->
  (pl_quarter pl = true -> pl_ca pl * pl_sa pl == 0) -> ref_wf true pl.
Proof. exact ref_wf_rep_lemma. Qed.
Print Assumptions ref_wf_rep_thm.

Theorem family_linked_ok_thm : forall U, family_linked U -> family_ok U.
Proof. exact family_linked_ok_lemma. Qed.
Print Assumptions family_linked_ok_thm.

(* ---- the C09 theorems with no premise about offsets / extrema *)
Theorem polygon_bbox_exact_rep_thm : forall pts (r : Repetition.rep), rep_live r ->
  is_bbox (rep_points pts (orep_of r)) (polygon_bbox pts (orep_of r)) /\
  box_eq (polygon_bbox pts (orep_of r)) (BBox.bbox (rep_points pts (orep_of r))).
Proof. exact polygon_bbox_exact_rep_lemma. Qed.
Print Assumptions polygon_bbox_exact_rep_thm.

Theorem label_bbox_exact_rep_thm : forall o (r : Repetition.rep), rep_live r ->
  is_bbox (rep_points [o] (orep_of r)) (label_bbox o (orep_of r)) /\
  box_eq (label_bbox o (orep_of r)) (BBox.bbox (rep_points [o] (orep_of r))).
Proof. exact label_bbox_exact_rep_lemma. Qed.
Print Assumptions label_bbox_exact_rep_thm.

(* what "all copies" means in terms of C11's enumeration *)
Theorem rep_points_spec_thm : forall pts (r : Repetition.rep), r <> RNone ->
  rep_points pts (orep_of r) = flat_map (fun o => map (padd (vred o)) pts) (offsets r) /\
  (forall q, In q (rep_points pts (orep_of r)) <-> exists o p, In o (offsets r) /\ In p pts /\ q = padd (vred o) p) /\
  (Repetition.rep_ok r -> length (rep_points pts (orep_of r)) = (N.to_nat (count r) * length pts)%nat).
Proof. exact rep_points_spec_lemma. Qed.
Print Assumptions rep_points_spec_thm.

Theorem cell_bbox_exact_rep_thm : forall hull, qhull_ok hull ->
  forall U, family_linked U -> forall c, U c -> forall ch, cache_ok U ch ->
  is_bbox (flatten c) (g_box (fst (cell_query (convex_hull_w hull) false c ch))) /\
  box_eq (g_box (fst (cell_query (convex_hull_w hull) false c ch))) (BBox.bbox (flatten c)) /\
  cache_ok U (snd (cell_query (convex_hull_w hull) false c ch)).
Proof. exact cell_bbox_exact_rep_lemma. Qed.
Print Assumptions cell_bbox_exact_rep_thm.

Theorem cell_hull_exact_rep_thm : forall hull, qhull_ok hull ->
  forall U, family_linked U -> forall c, U c -> forall ch, cache_ok U ch ->
  hull_sem (g_hull (fst (cell_query (convex_hull_w hull) true c ch))) (flatten c) /\
  cache_ok U (snd (cell_query (convex_hull_w hull) true c ch)).
Proof. exact cell_hull_exact_rep_lemma. Qed.
Print Assumptions cell_hull_exact_rep_thm.

Theorem empty_cell_inverted_rep_thm : forall hull, qhull_ok hull ->
  forall U, family_linked U -> forall c, U c ->
  (g_box (fst (cell_query (convex_hull_w hull) false c [])) = Inverted <-> flatten c = []).
Proof. exact empty_cell_inverted_rep_lemma. Qed.
Print Assumptions empty_cell_inverted_rep_thm.

Theorem cache_transparent_rep_thm : forall hull, qhull_ok hull ->
  forall U, family_linked U -> forall qs, Forall (query_linked U) qs -> forall ch, cache_ok U ch ->
  Forall2 (fun q a => answer_exact q a /\ answer_same a (fst (run1 (convex_hull_w hull) q [])))
          qs (run (convex_hull_w hull) qs ch).
Proof. exact cache_transparent_rep_lemma. Qed.
Print Assumptions cache_transparent_rep_thm.

(* ---- count 0 (zero columns or rows; known finding repetition:zero-count): premise and theorem fail *)
Theorem zero_count_link_refuted_thm : exists (r : Repetition.rep) pts,
  Repetition.rep_ok r /\ r <> RNone /\ count r = 0%N /\ ~ rep_live r /\
  offs (lists_of r) = [] /\ exts (lists_of r) = [] /\ ~ orep_ok (orep_of r) /\
  rep_points pts (orep_of r) = [] /\ polygon_bbox pts (orep_of r) = Box 1 1 1 1 /\
  ~ is_bbox (rep_points pts (orep_of r)) (polygon_bbox pts (orep_of r)).
Proof. exact zero_count_link_refuted. Qed.
Print Assumptions zero_count_link_refuted_thm.

(* ---- non-vacuity: three levels; Rectangular (one column, negative spacing), ExplicitX, Regular 3 x 2 under a
   quarter turn, Explicit (extrema do not cover the offsets) under a rotated, magnified, reflected reference,
   an empty ExplicitY list, and no repetition *)
Theorem family_linked_example_thm : family_linked lk_U /\ qhull_ok (fun S => S) /\
  box_eq (g_box (fst (cell_query (convex_hull_w (fun S => S)) false lk_top []))) (BBox.bbox (flatten lk_top)) /\
  hull_sem (g_hull (fst (cell_query (convex_hull_w (fun S => S)) true lk_top []))) (flatten lk_top) /\
  length (flatten lk_leaf) = 12%nat /\ length (flatten lk_mid) = 72%nat /\ length (flatten lk_top) = 303%nat.
Proof. exact family_linked_example. Qed.
Print Assumptions family_linked_example_thm.

(* ---- the per-repetition test of the correspondence run (ocaml/c09l_driver.ml) is the hypothesis used above *)
Theorem linked_b_sound_thm : forall (r : Repetition.rep) fed, linked_b r fed = true ->
  rep_linked fed /\ orep_ok fed /\ orep_cov true fed.
Proof. exact linked_b_sound_lemma. Qed.
Print Assumptions linked_b_sound_thm.

(* ---- why lowest terms: doubles read by q_of_bits are in lowest terms; a list of doubles with the values of C11's
   list is the list stored by orep_of *)
Theorem q_of_bits_lowest_thm : forall b, Qreduction.Qred (q_of_bits b) = q_of_bits b.
Proof. exact q_of_bits_lowest_lemma. Qed.
Print Assumptions q_of_bits_lowest_thm.

Theorem fed_list_thm : forall (bs : list (N * N)) (l : list vec),
  Forall2 (fun b v => fst v == q_of_bits (fst b) /\ snd v == q_of_bits (snd b)) bs l ->
  map pt_of_bits bs = map vred l.
Proof. exact fed_list_lemma. Qed.
Print Assumptions fed_list_thm.
