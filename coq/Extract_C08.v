(* C08: exact oracle (as for C07) and the RobustPath query / section models, extracted for
   ocaml/c08_robustpath_driver.ml *)
Require Import Base PathOracle PathBook.
Require Import Extraction ExtrOcamlBasic.
Extraction Blacklist List String Int.
Extraction "../ocaml/extracted/c08_robustpath.ml"
  wn seg_closer_than seg_band_closer seg_near poly_closer must_cover must_not_cover classify verdict check_point
  interp query_index query_interp sub_eval sub_gradient rp_position rp_gradient trafo_id N.leb.
