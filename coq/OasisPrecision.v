(* Statement-level model of `oas_precision` (src/library.cpp): the light-weight query that returns the precision of an
   OASIS file from its START record,
       fread(header, 1, 14) < 14 || memcmp(header, "%SEMI-OASIS\r\n\x01", 14) != 0        -> InvalidFile
       version = oasis_read_string(s, false, len);
       version == NULL || len < 3 || memcmp(version, "1.0", 3) != 0                        -> InvalidFile
       precision = 1e-6 / oasis_read_real(s);
       s.error_code != NoError                                                              -> s.error_code
   on the byte stream of the file.  The stream primitives are those of the reader model (OasisRead.v: s_string with the
   sticky error code and the failed-allocation path, s_real); the double is computed with Flocq's binary64 operations as in
   OasisReal.v.  Result: the bit pattern of `precision`.  Definitions only. *)
Require Import Base OasisInt OasisSpec OasisRead GdsReal OasisReal.
From Flocq Require Import Core BinarySingleNaN Binary Bits.
Local Open Scope N_scope.

(* oasis_read_real_by_type on the number as written: the bit pattern of the double (as OasisReal.dec_real_by_type) *)
Definition real_bits (x : real) : N :=
  match x with
  | RInt false n => bits64 (b64_of_uint n)
  | RInt true n => bits64 (b64_opp (b64_of_uint n))
  | RRecip false n => bits64 (b64_div mode_NE b64_one (b64_of_uint n))
  | RRecip true n => bits64 (b64_div mode_NE (b64_opp b64_one) (b64_of_uint n))
  | RRatio false a b => bits64 (b64_div mode_NE (b64_of_uint a) (b64_of_uint b))
  | RRatio true a b => bits64 (b64_div mode_NE (b64_opp (b64_of_uint a)) (b64_of_uint b))
  | RF32 l => match b64_of_b32 (b32_of_bits (Z.of_N (of_bytes_le l))) with
              | Some f => bits64 f
              | None => b64_qnan_bits                     (* some NaN; the payload is not modelled *)
              end
  | RF64 l => of_bytes_le l
  end.
Definition b64_1em6 : binary64 := b64_of_bits 4517329193108106637.          (* 1e-6 = 0x3EB0C6F7A0B5ED8D *)
(* `1e-6 / value` *)
Definition prec_bits (x : real) : N :=
  bits64 (b64_div mode_NE b64_1em6 (b64_of_bits (Z.of_N (real_bits x)))).

(* version == NULL || len < 3 || memcmp(version, "1.0", 3) != 0 : a NULL string is the empty list *)
Definition version_bad (v : list N) : bool :=
  match strip_prefix version_1_0 v with Some _ => false | None => true end.

Definition serr_outcome {A} (e : serr) : outcome A :=
  match e with SE_eof => ErrEof | SE_ovf => ErrOverflow | SE_inv => ErrInvalid end.

(* [f] : what is returned for the unit as written (prec_bits for the real thing) *)
Definition oas_precision_gen {A} (f : real -> A) (bs : list N) : outcome A :=
  match strip_prefix magic_start bs with
  | None => ErrInvalid
  | Some b1 =>
      match s_string false (mkS b1 None) with
      | RCrash => Crash                                   (* fread into the NULL buffer of a failed allocation *)
      | RHang => Hang
      | ROk v s1 =>
          if version_bad v then ErrInvalid
          else
            let (x, s2) := s_real s1 in
            match s_err s2 with
            | Some e => serr_outcome e
            | None => Ok (f x)
            end
      end
  end.
Definition oas_precision_model (bs : list N) : outcome N := oas_precision_gen prec_bits bs.
