Require Import Base Repetition.
From Coq Require Import QArith.
Require Import Extraction ExtrOcamlBasic.
Extraction Blacklist List String Int.
Extraction "../ocaml/extracted/c11.ml" count offsets extrema transform apply_elem linear
  grid_round q_int Qred.
