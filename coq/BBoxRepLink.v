(* C09 <-> C11 link: the repetition premises of the C09 hierarchy theorems, discharged from C11's model.

   BBox.v (C09) takes a repetition as the two lists the library derives from it (get_offsets, get_extrema) plus
   the flag "type == Explicit", and its theorems assume facts about those lists (BBoxProofs.rep_ok, orep_cov).
   Repetition.v (C11) models the functions that PRODUCE the lists, statement by statement ([offsets], [extrema]).
   Here [orep_of r] builds the C09-side record from C11's [offsets r] / [extrema r], and every premise is proved
   for every r with [rep_live r] (the counts fit 64 bits, and the repetition is None or has count > 0).

   Representation.  C11 compares coordinates with Qeq (==), C09 uses Leibniz membership ([In], [incl]) on points.
   A product such as  0 * (3 # 2)  is  0 # 2  in Q, which is == 0 but not the same term as 0 # 1, so the raw lists
   are related by == only.  [orep_of] therefore stores every coordinate in lowest terms ([Qred]): the lowest-terms
   fraction of a double is what the C09 correspondence run feeds (BBox.q_of_bits strips the common power of two of a
   dyadic fraction), and on lowest-terms fractions == and = coincide (Qred_complete).

   Precondition.  count r = 0 (Rectangular / Regular with zero columns or rows) is the recorded finding
   `repetition:zero-count`: get_offsets and get_extrema are empty there, the origin is not an offset, and the
   element box is not the box of the (empty) set of copies: [zero_count_link_refuted]. *)
From Coq Require Import QArith Qreduction List Bool ZArith NArith Lia Lqa Znumtheory.
Import ListNotations.
Require Import Base BBox BBoxProofs Repetition RepetitionProofs.
Local Open Scope Q_scope.

(* ------------------------------------------------------------------ the C09-side record of a C11 repetition *)
Definition vred (v : vec) : pt := (Qred (fst v), Qred (snd v)).

(* repetition.type == RepetitionType::Explicit  (ExplicitX / ExplicitY are not) *)
Definition is_explicit (r : Repetition.rep) : bool :=
  match r with RExpl _ => true | _ => false end.

Definition lists_of (r : Repetition.rep) : BBox.rep :=
  mkRep (map vred (offsets r)) (map vred (extrema r)) (is_explicit r).

(* repetition.type == RepetitionType::None is "no repetition" on the C09 side *)
Definition orep_of (r : Repetition.rep) : option BBox.rep :=
  match r with
  | RNone => None
  | _ => Some (lists_of r)
  end.

(* representable (the products / lengths fit a uint64_t) and not a zero-count lattice *)
Definition rep_live (r : Repetition.rep) : Prop :=
  Repetition.rep_ok r /\ (r = RNone \/ (0 < count r)%N).

(* ------------------------------------------------------------------ conversions *)
Lemma vred_fst : forall v, fst (vred v) == fst v.
Proof. intros v. apply Qred_correct. Qed.
Lemma vred_snd : forall v, snd (vred v) == snd v.
Proof. intros v. apply Qred_correct. Qed.
Lemma vred_veq : forall a b, veq a b -> vred a = vred b.
Proof.
  intros a b [H1 H2]. unfold vred. rewrite (Qred_complete _ _ H1), (Qred_complete _ _ H2). reflexivity.
Qed.
Lemma InV_vred : forall e l, InV e l -> In (vred e) (map vred l).
Proof.
  intros e l H. apply Exists_exists in H. destruct H as [x [Hx Hv]].
  rewrite (vred_veq _ _ Hv). apply in_map. exact Hx.
Qed.
Lemma lin_vred : forall u v w, lin u v (vred w) == u * fst w + v * snd w.
Proof. intros u v w. unfold lin. rewrite vred_fst, vred_snd. reflexivity. Qed.

(* the C11 side written with the C09 functional: [lin u v w] on a C11 vector *)
Lemma lin_vred' : forall u v w, lin u v (vred w) == lin u v w.
Proof. intros. apply lin_vred. Qed.

Lemma count_offs : forall r, Repetition.rep_ok r -> N.of_nat (length (offs (lists_of r))) = count r.
Proof. intros r H. simpl. rewrite map_length. apply count_offsets_lemma. exact H. Qed.

Lemma rep_live_iff_lemma : forall r, rep_live r <->
  Repetition.rep_ok r /\
  match r with RRect c rw _ _ | RReg c rw _ _ => c <> 0%N /\ rw <> 0%N | _ => True end.
Proof.
  intros r. unfold rep_live. split; intros [Hok H]; (split; [exact Hok|]).
  - destruct r as [|c rw sx sy|c rw v1 v2|l|l|l]; try exact I;
      (destruct H as [H|H]; [discriminate|]); cbn [count] in H;
      destruct (count_pos_lattice _ _ H) as (c' & r' & E1 & E2); lia.
  - destruct r as [|c rw sx sy|c rw v1 v2|l|l|l]; [left; reflexivity|right..];
      cbn [count Repetition.rep_ok] in *; unfold wrapN; rewrite N.mod_small by exact Hok; lia.
Qed.

(* ------------------------------------------------------------------ the three C11 facts (BBoxProofs.rep_ok) *)
(* extrema are offsets: for every repetition *)
Theorem link_incl_lemma : forall r, incl (exts (lists_of r)) (offs (lists_of r)).
Proof.
  intros r p Hp. simpl in *. apply in_map_iff in Hp. destruct Hp as [e [<- He]].
  apply InV_vred. apply extrema_subset_lemma. exact He.
Qed.

Lemma spans_ldom : forall E O, spans E O -> forall u v, u * v == 0 -> ldom u v (map vred O) (map vred E).
Proof.
  intros E O Hsp u v Huv p Hp. apply in_map_iff in Hp. destruct Hp as [o [<- Ho]].
  destruct (Hsp o Ho) as [[e1 [I1 L1]] [[e2 [I2 L2]] [[e3 [I3 L3]] [e4 [I4 L4]]]]].
  destruct (lin_axis_cases u v Huv) as [Hu|Hv].
  - destruct (Qlt_le_dec v 0) as [Sv|Sv].
    + exists (vred e4). split; [apply in_map; exact I4|]. rewrite !lin_vred. nra.
    + exists (vred e2). split; [apply in_map; exact I2|]. rewrite !lin_vred. nra.
  - destruct (Qlt_le_dec u 0) as [Su|Su].
    + exists (vred e3). split; [apply in_map; exact I3|]. rewrite !lin_vred. nra.
    + exists (vred e1). split; [apply in_map; exact I1|]. rewrite !lin_vred. nra.
Qed.

(* same bounding box: for every repetition *)
Theorem link_box_lemma : forall r, box_eq (BBox.bbox (exts (lists_of r))) (BBox.bbox (offs (lists_of r))).
Proof.
  intros r. apply bbox_transfer_eq.
  - intros u v _. apply ldom_incl. apply link_incl_lemma.
  - intros u v Huv. simpl. apply spans_ldom; [apply extrema_spans_lemma|exact Huv].
Qed.

(* the origin is an offset: whenever the count is not 0 *)
Theorem link_origin_lemma : forall r, (0 < count r)%N ->
  exists o, In o (offs (lists_of r)) /\ fst o == 0 /\ snd o == 0.
Proof.
  intros r H. exists (vred vzero). split; [|split; reflexivity].
  simpl. apply InV_vred. apply zero_in_offsets_lemma. exact H.
Qed.

Theorem lists_of_ok_lemma : forall r, (0 < count r)%N -> BBoxProofs.rep_ok (lists_of r).
Proof. intros r H. split; [apply link_incl_lemma|split; [apply link_box_lemma|apply link_origin_lemma; exact H]]. Qed.

Theorem orep_of_ok_lemma : forall r, rep_live r -> orep_ok (orep_of r).
Proof.
  intros r [_ [-> | H]]; [exact I|].
  destruct r; try exact I; apply lists_of_ok_lemma; exact H.
Qed.

(* and only then: with counts that fit, the premise holds exactly for None and for count > 0 *)
Theorem orep_of_ok_iff_lemma : forall r, Repetition.rep_ok r ->
  (orep_ok (orep_of r) <-> r = RNone \/ (0 < count r)%N).
Proof.
  intros r Hok. split.
  - intros H. destruct (N.eq_dec (count r) 0) as [E|E]; [|right; lia].
    destruct r as [|c rw sx sy|c rw v1 v2|l|l|l]; [left; reflexivity|exfalso..];
      destruct H as [_ [_ [o [Ho _]]]];
      pose proof (count_offs _ Hok) as C; rewrite E in C;
      destruct (offs _) as [|x t]; try (destruct Ho); discriminate C.
  - intros H. apply orep_of_ok_lemma. split; assumption.
Qed.

(* ------------------------------------------------------------------ the cover premise (orep_cov) *)
(* points on a horizontal line: the two ends cover *)
Lemma covers_row : forall E O : list pt,
  (forall e, In e E -> snd e == 0) -> (forall o, In o O -> snd o == 0) ->
  (forall o, In o O -> (exists e, In e E /\ fst e <= fst o) /\ (exists e, In e E /\ fst o <= fst e)) ->
  covers E O.
Proof.
  intros E O HE HO Hsp u v k Hk p Hp.
  destruct (Hsp p Hp) as [[e1 [I1 L1]] [e2 [I2 L2]]].
  pose proof (Hk e1 I1) as K1. pose proof (Hk e2 I2) as K2.
  pose proof (HE e1 I1) as Z1. pose proof (HE e2 I2) as Z2. pose proof (HO p Hp) as Zp.
  unfold lin in *. destruct (Qlt_le_dec u 0); nra.
Qed.
Lemma covers_col : forall E O : list pt,
  (forall e, In e E -> fst e == 0) -> (forall o, In o O -> fst o == 0) ->
  (forall o, In o O -> (exists e, In e E /\ snd e <= snd o) /\ (exists e, In e E /\ snd o <= snd e)) ->
  covers E O.
Proof.
  intros E O HE HO Hsp u v k Hk p Hp.
  destruct (Hsp p Hp) as [[e1 [I1 L1]] [e2 [I2 L2]]].
  pose proof (Hk e1 I1) as K1. pose proof (Hk e2 I2) as K2.
  pose proof (HE e1 I1) as Z1. pose proof (HE e2 I2) as Z2. pose proof (HO p Hp) as Zp.
  unfold lin in *. destruct (Qlt_le_dec v 0); nra.
Qed.

Lemma lattice_empty : forall c rw f, c = 0%N \/ rw = 0%N -> lattice (N.to_nat c) (N.to_nat rw) f = [].
Proof.
  intros c rw f [-> | ->]; [reflexivity|]. apply lattice_nil_r.
Qed.

(* Rectangular: the parallelogram (0,0) + a (sx,0) + b (0,sy), 0 <= a <= columns-1, 0 <= b <= rows-1;
   get_extrema reports its four corners (two when there is one row or one column, one when both) *)
Lemma cover_rect : forall c rw sx sy,
  covers (exts (lists_of (RRect c rw sx sy))) (offs (lists_of (RRect c rw sx sy))).
Proof.
  intros c rw sx sy. cbn [lists_of exts offs].
  destruct (N.eq_dec c 0) as [Ec|Ec]; [|destruct (N.eq_dec rw 0) as [Er|Er]].
  1,2: rewrite offsets_spec_lemma; cbn [offsets_spec]; rewrite lattice_empty by auto;
       intros u v k _ p [].
  apply (parallelogram_cover_lemma (0, 0) (sx, 0) (0, sy) (cmax c) (cmax rw)).
  - intros a b Ha Hb.
    assert (exists bi, a == corner c bi) as [bi Hbi]
      by (destruct Ha as [Ha|Ha]; [exists false|exists true]; exact Ha).
    assert (exists bj, b == corner rw bj) as [bj Hbj]
      by (destruct Hb as [Hb|Hb]; [exists false|exists true]; exact Hb).
    destruct (rect_corner_in c rw sx sy bi bj Ec Er) as (e & He & Hx & Hy).
    exists (vred e). split; [apply in_map; exact He|].
    rewrite vred_fst, vred_snd, Hx, Hy, Hbi, Hbj. cbn [fst snd].
    generalize (corner c bi) (corner rw bj). intros A B. split; ring.
  - intros o Ho. apply in_map_iff in Ho. destruct Ho as [w [<- Hw]].
    rewrite offsets_spec_lemma in Hw. cbn [offsets_spec] in Hw. apply in_lattice in Hw.
    destruct Hw as (i & j & Hi & Hj & ->).
    destruct (lattice_index_bounds c i Hi) as [I0 I1]. destruct (lattice_index_bounds rw j Hj) as [J0 J1].
    exists (qnat i), (qnat j). repeat (split; [assumption|]).
    rewrite vred_fst, vred_snd. unfold rect_at. cbn [fst snd].
    generalize (qnat i) (qnat j). intros A B. split; ring.
Qed.

(* Regular: the parallelogram a v1 + b v2 *)
Lemma cover_reg : forall c rw v1 v2,
  covers (exts (lists_of (RReg c rw v1 v2))) (offs (lists_of (RReg c rw v1 v2))).
Proof.
  intros c rw v1 v2. cbn [lists_of exts offs].
  destruct (N.eq_dec c 0) as [Ec|Ec]; [|destruct (N.eq_dec rw 0) as [Er|Er]].
  1,2: rewrite offsets_spec_lemma; cbn [offsets_spec]; rewrite lattice_empty by auto;
       intros u v k _ p [].
  apply (parallelogram_cover_lemma (0, 0) v1 v2 (cmax c) (cmax rw)).
  - intros a b Ha Hb.
    assert (exists bi, a == corner c bi) as [bi Hbi]
      by (destruct Ha as [Ha|Ha]; [exists false|exists true]; exact Ha).
    assert (exists bj, b == corner rw bj) as [bj Hbj]
      by (destruct Hb as [Hb|Hb]; [exists false|exists true]; exact Hb).
    destruct (reg_corner_in c rw v1 v2 bi bj Ec Er) as (e & He & Hx & Hy).
    exists (vred e). split; [apply in_map; exact He|].
    rewrite vred_fst, vred_snd, Hx, Hy, Hbi, Hbj. cbn [fst snd].
    generalize (corner c bi) (corner rw bj). intros A B. split; ring.
  - intros o Ho. apply in_map_iff in Ho. destruct Ho as [w [<- Hw]].
    rewrite offsets_spec_lemma in Hw. cbn [offsets_spec] in Hw. apply in_lattice in Hw.
    destruct Hw as (i & j & Hi & Hj & ->).
    destruct (lattice_index_bounds c i Hi) as [I0 I1]. destruct (lattice_index_bounds rw j Hj) as [J0 J1].
    exists (qnat i), (qnat j). repeat (split; [assumption|]).
    rewrite vred_fst, vred_snd. unfold reg_at. cbn [fst snd].
    generalize (qnat i) (qnat j). intros A B. split; ring.
Qed.

Lemma extrema_explX_row : forall l e, In e (extrema (RExplX l)) -> snd e == 0.
Proof.
  intros l e. cbn [extrema]. destruct l as [|x0 l'].
  - intros [<-|[]]. reflexivity.
  - destruct (scan_key (fun x : Q => x) (x0 :: l') 0) as [a b].
    destruct (negb (Qeq_bool a b)); cbn [In]; intros H;
      repeat (destruct H as [<-|H]); try contradiction; reflexivity.
Qed.
Lemma extrema_explY_col : forall l e, In e (extrema (RExplY l)) -> fst e == 0.
Proof.
  intros l e. cbn [extrema]. destruct l as [|x0 l'].
  - intros [<-|[]]. reflexivity.
  - destruct (scan_key (fun x : Q => x) (x0 :: l') 0) as [a b].
    destruct (negb (Qeq_bool a b)); cbn [In]; intros H;
      repeat (destruct H as [<-|H]); try contradiction; reflexivity.
Qed.

(* ExplicitX: all offsets on the x axis, get_extrema reports the two ends (one point when they coincide) *)
Lemma cover_explX : forall l,
  covers (exts (lists_of (RExplX l))) (offs (lists_of (RExplX l))).
Proof.
  intros l. cbn [lists_of exts offs]. apply covers_row.
  - intros e He. apply in_map_iff in He. destruct He as [w [<- Hw]].
    rewrite vred_snd. apply (extrema_explX_row l). exact Hw.
  - intros o Ho. apply in_map_iff in Ho. destruct Ho as [w [<- Hw]]. rewrite vred_snd.
    cbn [offsets] in Hw. destruct Hw as [<-|Hw]; [reflexivity|].
    apply in_map_iff in Hw. destruct Hw as [x [<- _]]. reflexivity.
  - intros o Ho. apply in_map_iff in Ho. destruct Ho as [w [<- Hw]].
    destruct (extrema_spans_lemma (RExplX l) w Hw) as [[e1 [I1 L1]] [_ [[e3 [I3 L3]] _]]].
    split; [exists (vred e1)|exists (vred e3)]; (split; [apply in_map; assumption|]);
      rewrite !vred_fst; assumption.
Qed.
Lemma cover_explY : forall l,
  covers (exts (lists_of (RExplY l))) (offs (lists_of (RExplY l))).
Proof.
  intros l. cbn [lists_of exts offs]. apply covers_col.
  - intros e He. apply in_map_iff in He. destruct He as [w [<- Hw]].
    rewrite vred_fst. apply (extrema_explY_col l). exact Hw.
  - intros o Ho. apply in_map_iff in Ho. destruct Ho as [w [<- Hw]]. rewrite vred_fst.
    cbn [offsets] in Hw. destruct Hw as [<-|Hw]; [reflexivity|].
    apply in_map_iff in Hw. destruct Hw as [x [<- _]]. reflexivity.
  - intros o Ho. apply in_map_iff in Ho. destruct Ho as [w [<- Hw]].
    destruct (extrema_spans_lemma (RExplY l) w Hw) as [_ [[e2 [I2 L2]] [_ [e4 [I4 L4]]]]].
    split; [exists (vred e2)|exists (vred e4)]; (split; [apply in_map; assumption|]);
      rewrite !vred_snd; assumption.
Qed.

(* every kind but Explicit, every count (also 0 and 1), every sign of the spacings / vectors *)
Theorem link_cover_lemma : forall r, is_explicit r = false ->
  covers (exts (lists_of r)) (offs (lists_of r)).
Proof.
  intros [|c rw sx sy|c rw v1 v2|l|l|l] H.
  - intros u v k _ p [].
  - apply cover_rect.
  - apply cover_reg.
  - discriminate H.
  - apply cover_explX.
  - apply cover_explY.
Qed.

(* for Explicit the premise fails in general (finding F9, fixed in /repo by using every offset on the hull
   path): BBoxProofs.reference_hull_explicit_rep_old_refuted_example; here on a C11 repetition *)
Theorem explicit_cover_refuted : exists r, rep_live r /\ is_explicit r = true /\
  ~ covers (exts (lists_of r)) (offs (lists_of r)).
Proof.
  exists (RExpl [(10 # 1, 0); (0, 10 # 1); (9 # 1, 9 # 1)]). split; [|split; [reflexivity|]].
  - split; [vm_compute; reflexivity|right; vm_compute; reflexivity].
  - intros C.
    assert (K : forall h, In h (exts (lists_of (RExpl [(10 # 1, 0); (0, 10 # 1); (9 # 1, 9 # 1)]))) ->
                lin 1 1 h <= 10 # 1).
    { intros h Hh. vm_compute in Hh. repeat (destruct Hh as [<-|Hh]; [vm_compute; discriminate|]). destruct Hh. }
    specialize (C 1 1 (10 # 1) K (9 # 1, 9 # 1)).
    assert (I9 : In (9 # 1, 9 # 1) (offs (lists_of (RExpl [(10 # 1, 0); (0, 10 # 1); (9 # 1, 9 # 1)]))))
      by (vm_compute; tauto).
    specialize (C I9). vm_compute in C. apply C. reflexivity.
Qed.

(* ------------------------------------------------------------------ what family_ok asks of a reference *)
Theorem orep_of_cov_lemma : forall r, orep_cov true (orep_of r).
Proof.
  intros r. destruct r as [|c rw sx sy|c rw v1 v2|l|l|l]; cbn [orep_of orep_cov lists_of r_explicit is_explicit andb];
    try exact I; (split; [apply link_incl_lemma|apply link_cover_lemma; reflexivity]).
Qed.
(* also the tree before d7329ad (hull path over the extrema only) is fine for every kind but Explicit *)
Theorem orep_of_cov_old_lemma : forall r, is_explicit r = false -> orep_cov false (orep_of r).
Proof.
  intros r H. destruct r as [|c rw sx sy|c rw v1 v2|l|l|l]; cbn [orep_of orep_cov lists_of r_explicit is_explicit andb];
    try exact I; try discriminate H; (split; [apply link_incl_lemma|apply link_cover_lemma; reflexivity]).
Qed.

Theorem ref_wf_rep_lemma : forall pl r, rep_live r -> pl_rep pl = orep_of r ->
  (pl_quarter pl = true -> pl_ca pl * pl_sa pl == 0) -> ref_wf true pl.
Proof.
  intros pl r Hr E Hq. unfold ref_wf. rewrite E.
  split; [apply orep_of_ok_lemma; exact Hr|split; [apply orep_of_cov_lemma|exact Hq]].
Qed.

(* ------------------------------------------------------------------ families whose repetitions come from C11 *)
Definition rep_linked (o : option BBox.rep) : Prop := exists r, rep_live r /\ o = orep_of r.
Definition pl_linked (pl : placement) : Prop :=
  rep_linked (pl_rep pl) /\ (pl_quarter pl = true -> pl_ca pl * pl_sa pl == 0).
Definition cell_linked (c : cell) : Prop :=
  (forall p, In p (cell_polys c) -> rep_linked (p_rep p)) /\
  (forall l, In l (cell_labels c) -> rep_linked (l_rep l)) /\
  (forall p, In p (cell_paths c) -> rep_linked (p_rep p)) /\
  (forall pl ch, In (pl, ch) (cell_refs c) -> pl_linked pl).
(* cells closed under "child of", unique names, every repetition is [orep_of] of a live C11 repetition,
   quarter flag => cos * sin == 0.  Nothing is asked of offsets / extrema. *)
Definition family_linked (U : cell -> Prop) : Prop :=
  (forall c pl ch, U c -> In (pl, ch) (cell_refs c) -> U ch) /\
  (forall c d, U c -> U d -> cell_name c = cell_name d -> c = d) /\
  (forall c, U c -> cell_linked c).
Definition query_linked (U : cell -> Prop) (q : query) : Prop :=
  match q with QBox c | QHull c => U c | QRefBox pl c | QRefHull pl c => U c /\ pl_linked pl end.

Lemma rep_linked_ok : forall o, rep_linked o -> orep_ok o.
Proof. intros o [r [Hr ->]]. apply orep_of_ok_lemma. exact Hr. Qed.
Lemma pl_linked_wf : forall pl, pl_linked pl -> ref_wf true pl.
Proof. intros pl [[r [Hr E]] Hq]. exact (ref_wf_rep_lemma pl r Hr E Hq). Qed.

Theorem family_linked_ok_lemma : forall U, family_linked U -> family_ok U.
Proof.
  intros U [F1 [F2 F3]]. split; [exact F1|split; [exact F2|]].
  intros c Uc. destruct (F3 c Uc) as [A [B [C D]]]. split; [|split; [|split]].
  - intros p Hp. apply rep_linked_ok. apply A. exact Hp.
  - intros l Hl. apply rep_linked_ok. apply B. exact Hl.
  - intros p Hp. apply rep_linked_ok. apply C. exact Hp.
  - intros pl ch Hr. apply pl_linked_wf. apply (D pl ch). exact Hr.
Qed.
Lemma query_linked_ok_lemma : forall U q, query_linked U q -> query_ok U q.
Proof.
  intros U [c|c|pl c|pl c]; simpl; try tauto; intros [Uc Hp]; (split; [exact Uc|apply pl_linked_wf; exact Hp]).
Qed.

(* ------------------------------------------------------------------ the C09 theorems without repetition premises *)
Theorem polygon_bbox_exact_rep_lemma : forall pts r, rep_live r ->
  is_bbox (rep_points pts (orep_of r)) (polygon_bbox pts (orep_of r)) /\
  box_eq (polygon_bbox pts (orep_of r)) (BBox.bbox (rep_points pts (orep_of r))).
Proof. intros pts r H. apply polygon_bbox_exact_lemma. apply orep_of_ok_lemma. exact H. Qed.

Theorem label_bbox_exact_rep_lemma : forall o r, rep_live r ->
  is_bbox (rep_points [o] (orep_of r)) (label_bbox o (orep_of r)) /\
  box_eq (label_bbox o (orep_of r)) (BBox.bbox (rep_points [o] (orep_of r))).
Proof. intros o r H. apply label_bbox_exact_lemma. apply orep_of_ok_lemma. exact H. Qed.

(* the copies are the element translated by every offset of the C11 enumeration, one block per offset, in
   the order of get_offsets; count r blocks *)
Lemma flat_map_map : forall (A B C : Type) (g : A -> B) (f : B -> list C) l,
  flat_map f (map g l) = flat_map (fun a => f (g a)) l.
Proof. intros A B C g f l. induction l as [|a l IH]; simpl; [reflexivity|rewrite IH; reflexivity]. Qed.

Theorem rep_points_spec_lemma : forall pts r, r <> RNone ->
  rep_points pts (orep_of r) = flat_map (fun o => map (padd (vred o)) pts) (offsets r) /\
  (forall q, In q (rep_points pts (orep_of r)) <-> exists o p, In o (offsets r) /\ In p pts /\ q = padd (vred o) p) /\
  (Repetition.rep_ok r -> length (rep_points pts (orep_of r)) = (N.to_nat (count r) * length pts)%nat).
Proof.
  intros pts r Hr.
  assert (E : rep_points pts (orep_of r) = flat_map (fun o => map (padd (vred o)) pts) (offsets r)).
  { destruct r; try congruence; cbn [orep_of rep_points lists_of offs]; apply flat_map_map. }
  split; [exact E|split].
  - intros q. rewrite E, in_flat_map. split.
    + intros [o [Ho Hq]]. apply in_map_iff in Hq. destruct Hq as [p [<- Hp]]. exists o, p. auto.
    + intros [o [p [Ho [Hp ->]]]]. exists o. split; [exact Ho|apply in_map; exact Hp].
  - intros Hok. rewrite E, <- (count_offsets_nat_lemma r Hok).
    generalize (offsets r). intros L. induction L as [|a L IH]; simpl; [reflexivity|].
    rewrite app_length, map_length, IH. reflexivity.
Qed.

Theorem cell_bbox_exact_rep_lemma : forall hull, qhull_ok hull ->
  forall U, family_linked U -> forall c, U c -> forall ch, cache_ok U ch ->
  is_bbox (flatten c) (g_box (fst (cell_query (convex_hull_w hull) false c ch))) /\
  box_eq (g_box (fst (cell_query (convex_hull_w hull) false c ch))) (BBox.bbox (flatten c)) /\
  cache_ok U (snd (cell_query (convex_hull_w hull) false c ch)).
Proof. intros hull Hh U FU. apply (cell_bbox_exact_lemma hull Hh U (family_linked_ok_lemma U FU)). Qed.

Theorem cell_hull_exact_rep_lemma : forall hull, qhull_ok hull ->
  forall U, family_linked U -> forall c, U c -> forall ch, cache_ok U ch ->
  hull_sem (g_hull (fst (cell_query (convex_hull_w hull) true c ch))) (flatten c) /\
  cache_ok U (snd (cell_query (convex_hull_w hull) true c ch)).
Proof. intros hull Hh U FU. apply (cell_hull_exact_lemma hull Hh U (family_linked_ok_lemma U FU)). Qed.

Theorem empty_cell_inverted_rep_lemma : forall hull, qhull_ok hull ->
  forall U, family_linked U -> forall c, U c ->
  (g_box (fst (cell_query (convex_hull_w hull) false c [])) = Inverted <-> flatten c = []).
Proof. intros hull Hh U FU. apply (empty_cell_inverted_lemma hull Hh U (family_linked_ok_lemma U FU)). Qed.

Theorem cache_transparent_rep_lemma : forall hull, qhull_ok hull ->
  forall U, family_linked U -> forall qs, Forall (query_linked U) qs -> forall ch, cache_ok U ch ->
  Forall2 (fun q a => answer_exact q a /\ answer_same a (fst (run1 (convex_hull_w hull) q [])))
          qs (run (convex_hull_w hull) qs ch).
Proof.
  intros hull Hh U FU qs Hqs. apply (cache_transparent_lemma hull Hh U (family_linked_ok_lemma U FU)).
  eapply Forall_impl; [|exact Hqs]. intros q. apply query_linked_ok_lemma.
Qed.

(* ------------------------------------------------------------------ count 0: the premise and the theorem fail *)
(* Rectangular with 0 columns: get_offsets = get_extrema = {} ; Polygon::bounding_box reports the box of the
   polygon itself although get_offsets yields no copy at all (finding `repetition:zero-count`) *)
Theorem zero_count_link_refuted : exists r pts,
  Repetition.rep_ok r /\ r <> RNone /\ count r = 0%N /\ ~ rep_live r /\
  offs (lists_of r) = [] /\ exts (lists_of r) = [] /\ ~ orep_ok (orep_of r) /\
  rep_points pts (orep_of r) = [] /\ polygon_bbox pts (orep_of r) = Box 1 1 1 1 /\
  ~ is_bbox (rep_points pts (orep_of r)) (polygon_bbox pts (orep_of r)).
Proof.
  exists (RRect 0 3 1 1), [(1, 1)].
  assert (N : ~ orep_ok (orep_of (RRect 0 3 1 1))) by (intros [_ [_ [o [[] _]]]]).
  split; [vm_compute; reflexivity|]. split; [discriminate|]. split; [reflexivity|].
  split; [intros [_ [H|H]]; [discriminate H|vm_compute in H; discriminate H]|].
  split; [reflexivity|]. split; [reflexivity|]. split; [exact N|]. split; [reflexivity|]. split; [reflexivity|].
  intros [[_ [p [[] _]]] _].
Qed.

(* ------------------------------------------------------------------ the hypotheses are satisfiable *)
(* leaf: a triangle under a one-column Rectangular repetition with negative spacing, a label under ExplicitX;
   mid: the leaf under a quarter turn with a Regular 3 x 2 lattice;
   top: mid rotated by atan2(4,3), magnified by 2 and reflected under an Explicit repetition (the F9 offsets,
        whose extrema do not cover them), and the leaf again under an empty ExplicitY list *)
Definition lk_reg : Repetition.rep := RReg 3 2 (2 # 1, 1) (- (1), 3 # 1).
Definition lk_expl : Repetition.rep := RExpl [(10 # 1, 0); (0, 10 # 1); (9 # 1, 9 # 1)].
Definition lk_col : Repetition.rep := RRect 1 3 0 (- (2 # 1)).
Definition lk_xs : Repetition.rep := RExplX [4 # 1; - (2 # 1)].
Definition lk_leaf : cell :=
  Cell 0 [mkPoly [(0, 0); (2 # 1, 0); (1, 3 # 1)] (orep_of lk_col)] [mkLabel (5 # 1, 5 # 1) (orep_of lk_xs)] [] [].
Definition lk_mid : cell :=
  Cell 1 [] [] [] [(mkPl (1, 1) 0 1 true 1 false (orep_of lk_reg), lk_leaf)].
Definition lk_top : cell :=
  Cell 2 [mkPoly [(0, 0); (1, 0); (0, 1)] (orep_of RNone)] [] []
    [(mkPl (0, 7 # 1) (3 # 5) (4 # 5) false (2 # 1) true (orep_of lk_expl), lk_mid);
     (mkPl (0, 0) 1 0 true 1 false (orep_of (RExplY [])), lk_leaf)].
Definition lk_U (c : cell) : Prop := c = lk_leaf \/ c = lk_mid \/ c = lk_top.

Lemma live_by_compute : forall r, Repetition.rep_ok r -> (0 <? count r)%N = true -> rep_live r.
Proof. intros r H C. split; [exact H|right; apply N.ltb_lt; exact C]. Qed.

Example family_linked_example : family_linked lk_U /\ qhull_ok (fun S => S) /\
  box_eq (g_box (fst (cell_query (convex_hull_w (fun S => S)) false lk_top []))) (BBox.bbox (flatten lk_top)) /\
  hull_sem (g_hull (fst (cell_query (convex_hull_w (fun S => S)) true lk_top []))) (flatten lk_top) /\
  length (flatten lk_leaf) = 12%nat /\ length (flatten lk_mid) = 72%nat /\ length (flatten lk_top) = 303%nat.
Proof.
  assert (Q : qhull_ok (fun S => S)) by (intros S _ _ _; apply hull_ok_refl).
  assert (L1 : rep_live lk_reg) by (apply live_by_compute; vm_compute; reflexivity).
  assert (L2 : rep_live lk_expl) by (apply live_by_compute; vm_compute; reflexivity).
  assert (L3 : rep_live lk_col) by (apply live_by_compute; vm_compute; reflexivity).
  assert (L4 : rep_live lk_xs) by (apply live_by_compute; vm_compute; reflexivity).
  assert (L5 : rep_live (RExplY [])) by (apply live_by_compute; vm_compute; reflexivity).
  assert (L6 : rep_live RNone) by (split; [exact I|left; reflexivity]).
  assert (F : family_linked lk_U).
  { split; [|split].
    - intros c pl ch [-> | [-> | ->]] HI; simpl in HI.
      + destruct HI.
      + destruct HI as [E|[]]. inversion E. left; reflexivity.
      + destruct HI as [E|[E|[]]]; inversion E; [right; left; reflexivity|left; reflexivity].
    - intros c d [-> | [-> | ->]] [-> | [-> | ->]] E; try reflexivity; discriminate E.
    - intros c [-> | [-> | ->]]; (split; [|split; [|split]]); simpl.
      + intros p [<-|[]]. exists lk_col. split; [exact L3|reflexivity].
      + intros l [<-|[]]. exists lk_xs. split; [exact L4|reflexivity].
      + intros p [].
      + intros pl ch [].
      + intros p [].
      + intros l [].
      + intros p [].
      + intros pl ch [E|[]]. inversion E; subst. split; [exists lk_reg; split; [exact L1|reflexivity]|].
        intros _. reflexivity.
      + intros p [<-|[]]. exists RNone. split; [exact L6|reflexivity].
      + intros l [].
      + intros p [].
      + intros pl ch [E|[E|[]]]; inversion E; subst; (split; [|simpl; intros H; try discriminate H; reflexivity]).
        * exists lk_expl. split; [exact L2|reflexivity].
        * exists (RExplY []). split; [exact L5|reflexivity]. }
  split; [exact F|split; [exact Q|]].
  destruct (cell_bbox_exact_rep_lemma (fun S => S) Q lk_U F lk_top (or_intror (or_intror eq_refl)) []
              (cache_ok_nil lk_U)) as [_ [K _]].
  destruct (cell_hull_exact_rep_lemma (fun S => S) Q lk_U F lk_top (or_intror (or_intror eq_refl)) []
              (cache_ok_nil lk_U)) as [K' _].
  split; [exact K|split; [exact K'|]]. vm_compute. repeat split.
Qed.

(* ------------------------------------------------------------------ executable form of the hypothesis, for the
   correspondence run: the C09 harness prints, for every repetition of every case, the parameters of the
   repetition AND the lists get_offsets / get_extrema returned for it (which the C09 model run takes as data).
   [linked_b r fed] decides "the fed record is, term for term, what C11's model computes for r, and r is live";
   when it answers true for every repetition of a hierarchy, the repetition clauses of [family_linked] hold. *)
Definition q_same (a b : Q) : bool := Z.eqb (Qnum a) (Qnum b) && Pos.eqb (Qden a) (Qden b).
Definition pt_same (a b : pt) : bool := q_same (fst a) (fst b) && q_same (snd a) (snd b).
Fixpoint pts_same (a b : list pt) : bool :=
  match a, b with
  | [], [] => true
  | x :: a', y :: b' => pt_same x y && pts_same a' b'
  | _, _ => false
  end.
Definition orep_same (a b : option BBox.rep) : bool :=
  match a, b with
  | None, None => true
  | Some x, Some y => pts_same (offs x) (offs y) && pts_same (exts x) (exts y) && Bool.eqb (r_explicit x) (r_explicit y)
  | _, _ => false
  end.
Definition rep_live_b (r : Repetition.rep) : bool :=
  match r with
  | RNone => true
  | RRect c rw _ _ | RReg c rw _ _ => (c * rw <? two64N)%N && negb (c =? 0)%N && negb (rw =? 0)%N
  | RExpl l => (N.of_nat (length l) + 1 <? two64N)%N
  | RExplX l | RExplY l => (N.of_nat (length l) + 1 <? two64N)%N
  end.
Definition linked_b (r : Repetition.rep) (fed : option BBox.rep) : bool :=
  rep_live_b r && orep_same (orep_of r) fed.

Lemma q_same_eq : forall a b, q_same a b = true -> a = b.
Proof.
  intros [an ad] [bn bd] H. unfold q_same in H. cbn [Qnum Qden] in H. apply andb_true_iff in H.
  destruct H as [H1 H2]. apply Z.eqb_eq in H1. apply Pos.eqb_eq in H2. subst. reflexivity.
Qed.
Lemma pt_same_eq : forall a b, pt_same a b = true -> a = b.
Proof.
  intros [a1 a2] [b1 b2] H. unfold pt_same in H. cbn [fst snd] in H. apply andb_true_iff in H.
  destruct H as [H1 H2]. apply q_same_eq in H1. apply q_same_eq in H2. subst. reflexivity.
Qed.
Lemma pts_same_eq : forall a b, pts_same a b = true -> a = b.
Proof.
  induction a as [|x a IH]; intros [|y b] H; simpl in H; try discriminate H; [reflexivity|].
  apply andb_true_iff in H. destruct H as [H1 H2]. apply pt_same_eq in H1. apply IH in H2. subst. reflexivity.
Qed.
Lemma orep_same_eq : forall a b, orep_same a b = true -> a = b.
Proof.
  intros [[ao ae ax]|] [[bo be bx]|] H; simpl in H; try discriminate H; [|reflexivity].
  apply andb_true_iff in H. destruct H as [H H3]. apply andb_true_iff in H. destruct H as [H1 H2].
  apply pts_same_eq in H1. apply pts_same_eq in H2. apply Bool.eqb_prop in H3. subst. reflexivity.
Qed.
Lemma rep_live_b_sound : forall r, rep_live_b r = true -> rep_live r.
Proof.
  intros r H. apply rep_live_iff_lemma.
  destruct r as [|c rw sx sy|c rw v1 v2|l|l|l]; cbn [rep_live_b Repetition.rep_ok] in *.
  - split; exact I.
  - apply andb_true_iff in H. destruct H as [H H3]. apply andb_true_iff in H. destruct H as [H1 H2].
    apply N.ltb_lt in H1. apply negb_true_iff in H2, H3. apply N.eqb_neq in H2, H3. auto.
  - apply andb_true_iff in H. destruct H as [H H3]. apply andb_true_iff in H. destruct H as [H1 H2].
    apply N.ltb_lt in H1. apply negb_true_iff in H2, H3. apply N.eqb_neq in H2, H3. auto.
  - apply N.ltb_lt in H. auto.
  - apply N.ltb_lt in H. auto.
  - apply N.ltb_lt in H. auto.
Qed.

(* a "linked" answer of the run is the hypothesis of the theorems above, and gives the C09 premises directly *)
Theorem linked_b_sound_lemma : forall r fed, linked_b r fed = true ->
  rep_linked fed /\ orep_ok fed /\ orep_cov true fed.
Proof.
  intros r fed H. unfold linked_b in H. apply andb_true_iff in H. destruct H as [H1 H2].
  apply rep_live_b_sound in H1. apply orep_same_eq in H2. subst fed.
  split; [exists r; split; [exact H1|reflexivity]|split; [apply orep_of_ok_lemma; exact H1|apply orep_of_cov_lemma]].
Qed.

Example linked_b_example :
  linked_b lk_reg (orep_of lk_reg) = true /\
  linked_b lk_reg (Some (mkRep (offs (lists_of lk_reg)) (tl (exts (lists_of lk_reg))) false)) = false /\
  linked_b (RRect 0 3 1 1) (orep_of (RRect 0 3 1 1)) = false.
Proof. vm_compute. repeat split. Qed.

(* ------------------------------------------------------------------ why lowest terms: the rational the correspondence
   runs read from the 64 bits of a double (BBox.q_of_bits) is in lowest terms, so a list of doubles whose values
   are (==) the values of C11's model IS the list [map vred] of the model's list *)
Inductive P2 : positive -> Prop := P2_1 : P2 1 | P2_O : forall d, P2 d -> P2 (xO d).

Lemma P2_shiftl : forall p, P2 (Pos.shiftl 1 (Npos p)).
Proof.
  intros p. simpl. apply Pos.iter_invariant; [intros x H; constructor; exact H|constructor].
Qed.

Lemma strip_P2 : forall n d n' d', P2 d -> pos_strip2 n d = (n', d') ->
  P2 d' /\ (d' = 1%positive \/ exists k, n' = xI k \/ n' = xH).
Proof.
  induction n as [n IH|n IH|]; intros d n' d' Hd E.
  - simpl in E. inversion E; subst. split; [exact Hd|]. right. exists n. left. reflexivity.
  - destruct d as [d|d|].
    + inversion Hd.
    + simpl in E. inversion Hd; subst. eapply IH; eassumption.
    + simpl in E. inversion E; subst. split; [exact Hd|left; reflexivity].
  - simpl in E. inversion E; subst. split; [exact Hd|]. right. exists xH. right. reflexivity.
Qed.

Lemma gcd_odd_P2 : forall n d, P2 d -> (n = xH \/ exists k, n = xI k) -> Z.gcd (Zpos n) (Zpos d) = 1%Z.
Proof.
  intros n d Hd Hn. apply Zgcd_1_rel_prime. induction Hd as [|d Hd IH].
  - apply rel_prime_sym. apply rel_prime_1.
  - change (Zpos d~0) with (2 * Zpos d)%Z. apply rel_prime_mult.
    + apply rel_prime_sym. apply prime_rel_prime; [exact prime_2|]. intros [k Hk]. destruct Hn as [->|[j ->]]; lia.
    + exact IH.
Qed.

Lemma Qred_coprime : forall n d, Z.gcd n (Zpos d) = 1%Z -> Qred (n # d) = n # d.
Proof.
  intros n d H. unfold Qred.
  pose proof (Z.ggcd_gcd n (Zpos d)) as G. pose proof (Z.ggcd_correct_divisors n (Zpos d)) as C.
  destruct (Z.ggcd n (Zpos d)) as [g [aa bb]]. simpl in *. rewrite H in G. subst g.
  destruct C as [C1 C2]. rewrite Z.mul_1_l in C1, C2. subst aa bb. reflexivity.
Qed.

Lemma qn_lowest : forall q, P2 (Qden q) -> Qred (qn q) = qn q.
Proof.
  intros [n d] Hd. unfold qn. cbn [Qnum Qden] in *. destruct n as [|n|n].
  - reflexivity.
  - destruct (pos_strip2 n d) as [n' d'] eqn:E. destruct (strip_P2 _ _ _ _ Hd E) as [H1 H2].
    apply Qred_coprime. destruct H2 as [->|[k H2]]; [apply Z.gcd_1_r|].
    apply gcd_odd_P2; [exact H1|]. destruct H2 as [->| ->]; [right; exists k; reflexivity|left; reflexivity].
  - destruct (pos_strip2 n d) as [n' d'] eqn:E. destruct (strip_P2 _ _ _ _ Hd E) as [H1 H2].
    apply Qred_coprime. change (Z.gcd (Zneg n') (Zpos d')) with (Z.gcd (Zpos n') (Zpos d')).
    destruct H2 as [->|[k H2]]; [apply Z.gcd_1_r|].
    apply gcd_odd_P2; [exact H1|]. destruct H2 as [->| ->]; [right; exists k; reflexivity|left; reflexivity].
Qed.

(* the rational of a double, as the correspondence runs read it, is in lowest terms *)
Theorem q_of_bits_lowest_lemma : forall b, Qred (q_of_bits b) = q_of_bits b.
Proof.
  intros b. unfold q_of_bits. cbv zeta.
  match goal with |- Qred (qn ?x) = _ => assert (H : P2 (Qden x)) end.
  { destruct (if N.eqb _ 0 then (-1074)%Z else _) as [|p|p]; cbn [Qden]; try constructor. apply P2_shiftl. }
  apply qn_lowest. exact H.
Qed.

Definition pt_of_bits (b : N * N) : pt := (q_of_bits (fst b), q_of_bits (snd b)).

Theorem fed_list_lemma : forall (bs : list (N * N)) (l : list vec),
  Forall2 (fun b v => fst v == q_of_bits (fst b) /\ snd v == q_of_bits (snd b)) bs l ->
  map pt_of_bits bs = map vred l.
Proof.
  intros bs l H. induction H as [|b v bs l [H1 H2] _ IH]; [reflexivity|].
  simpl. rewrite IH. f_equal. unfold pt_of_bits, vred.
  rewrite (Qred_complete _ _ H1), (Qred_complete _ _ H2), !q_of_bits_lowest_lemma. reflexivity.
Qed.
